#!/venv/bin/python
"""Replays a violation file: re-runs the recorded call on the implementation and prints observed vs recorded vs model output."""
import sys, json, os
sys.path.insert(0, os.path.dirname(os.path.dirname(os.path.abspath(__file__))))
from harness import core
import importlib

def main():
    path = sys.argv[1]
    body = json.load(open(path))
    pid = body['property']
    print(json.dumps({k: body[k] for k in body if k != 'coq_term'}, indent=1)[:6000])
    mod = importlib.import_module('harness.props.%s' % pid.lower())
    if hasattr(mod, 'replay_call') and 'replay' in body:
        print('re-running on the implementation in', core.REPO)
        print(core.jsonable(mod.replay_call(body['replay'])))
    return 0

if __name__ == '__main__':
    sys.exit(main())
