"""Point-wise proved enclosures: emit real-number goals about the R model, let Coq's `interval` tactic prove or fail each
one, and report which failed.  Used for kernels that exist only at R (cos/sin/exp/sqrt/...): DESIGN 2.2.

    failed, errors = run_goals(pid, name, preamble, goals, timeout)

* preamble : Coq text placed after the fixed header (extra `From EQ Require Import ...`, `Ltac` definitions, ...).
             It may define `Ltac ivl_prove := ...` ; otherwise the default is `interval with (i_prec 80)`.
* goals    : list whose items are either a proposition (str) or a pair (defs, proposition) where `defs` is Coq text
             (e.g. `Definition x17 : list R := [...].`) needed by that proposition; identical defs are emitted once per file.
* returns  : (sorted indices into `goals` that were NOT proved, list of error texts for files that did not compile /
             timed out as a whole).  A goal that is not proved within the per-goal Ltac timeout counts as failed.
Every goal is checked as `Goal True. tryif (assert (P) by (tac)) then idtac else idtac "@@FAIL i". exact I. Qed.` so a
proved goal is type-checked by the kernel at Qed and a failed one does not stop the file.
"""
import os, re, heapq
from concurrent.futures import ThreadPoolExecutor
from harness import core

HEADER = """From Coq Require Import Reals ZArith List.
From Interval Require Import Tactic.
Import ListNotations.
Local Open Scope R_scope.
"""
DEFAULT_TAC = "Ltac ivl_prove := interval with (i_prec 80).\n"


def _clean(prefix):
    for fn in os.listdir(core.RUN):
        if fn.startswith(prefix) or fn.startswith('.' + prefix):
            try:
                os.remove(os.path.join(core.RUN, fn))
            except OSError:
                pass


def run_goals(pid, name, preamble, goals, timeout=600, goal_timeout=60, nfiles=None):
    os.makedirs(core.RUN, exist_ok=True)
    prefix = '%s_ivl_%s_' % (pid, name)
    _clean(prefix)
    n = len(goals)
    if n == 0:
        return [], []
    items = [(g if isinstance(g, tuple) else ('', g)) for g in goals]
    nb = nfiles or max(1, min(n, 3 * core.NPROC))
    # longest-processing-time assignment, cost ~ text length (number of terms of the flat sum)
    order = sorted(range(n), key=lambda i: -len(items[i][1]) - len(items[i][0]))
    heap = [(0.0, b) for b in range(nb)]
    bins = [[] for _ in range(nb)]
    for i in order:
        cost, b = heapq.heappop(heap)
        bins[b].append(i)
        heapq.heappush(heap, (cost + len(items[i][1]) + 200.0, b))
    jobs = []
    for k, b in enumerate(bins):
        if not b:
            continue
        b.sort()
        path = os.path.join(core.RUN, '%s%d.v' % (prefix, k))
        with open(path, 'w') as f:
            f.write(HEADER)
            if 'Ltac ivl_prove' not in preamble:
                f.write(DEFAULT_TAC)
            f.write(preamble)
            if not preamble.endswith('\n'):
                f.write('\n')
            seen = set()
            for i in b:
                defs, prop = items[i]
                if defs and defs not in seen:
                    seen.add(defs)
                    f.write(defs if defs.endswith('\n') else defs + '\n')
                f.write('Goal True. tryif (assert (%s) by (timeout %d ivl_prove)) then idtac else idtac "@@FAIL %d". exact I. Qed.\n'
                        % (prop, goal_timeout, i))
            f.write('Goal True. idtac "@@DONE". exact I. Qed.\n')
        jobs.append((path, b))

    def one(job):
        path, idx = job
        rc, out, err, dt = core.sh('ulimit -s unlimited 2>/dev/null; timeout %d coqc -Q %s EQ %s' % (timeout, core.COQ, path),
                                   timeout + 30, cwd=core.RUN)
        if rc != 0 or '@@DONE' not in out:
            return idx, None, '%s: rc=%s %s' % (os.path.basename(path), rc, (err or out)[-1500:])
        return idx, [int(t) for t in re.findall(r'@@FAIL (\d+)', out)], None

    failed, errors = [], []
    with ThreadPoolExecutor(max_workers=core.NPROC) as ex:
        for idx, fl, err in ex.map(one, jobs):
            if err is not None:
                errors.append(err)
            else:
                failed.extend(fl)
    if not os.environ.get('VERIF_KEEP_RUN'):
        _clean(prefix)
    return sorted(failed), errors
