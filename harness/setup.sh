#!/bin/bash
# MANIFEST.setup_cmd: build the whole Coq development from files on disk (offline), full .vo build.
set -e
cd "$(dirname "$0")/.."
export PYTHONHASHSEED=0
mkdir -p evidence replays coq/run
# regenerate translated files from /repo's current sources (committed copies are only a cache)
if [ -f translator/regen.py ]; then /venv/bin/python translator/regen.py || echo "translator reported a problem (checks will report it)"; fi
cd coq
coq_makefile -f _CoqProject -o Makefile
timeout 3000 make -j16 || { echo "Coq build failed"; exit 1; }
echo "setup ok"
