#!/usr/bin/env python3
"""Writes section 9 of DESIGN.md (which checks catch which seeded changes) from seeded/*/meta.json and seeded/RESULTS.tsv."""
import json, os, glob
V = os.path.dirname(os.path.dirname(os.path.abspath(__file__)))
res = {}
for line in open(os.path.join(V, 'seeded', 'RESULTS.tsv')):
    f = line.rstrip('\n').split('\t')
    if len(f) >= 5:
        cur = res.get(f[0])
        if cur is None or 'exit=1' in f[2]:
            res[f[0]] = f
NOTES = {
    'C07_8': ' — reported as a broken source tie only (`no-failing-input-found`), deliberately: to manifest it needs the CALLER to write into the '
             'frequency array it passed to the setter; the unchanged code already aliases settings arrays on other paths '
             '(gen_smooth_fa_spectrum(smooth_fa_freqs=), response_times=) and no property quantifies over caller-side writes to a settings '
             'array, so no behavioural check is claimed (see 7, "Observed, outside every property statement")',
}
rows = []
for d in sorted(glob.glob(os.path.join(V, 'seeded', 'C*_*'))):
    sid = os.path.basename(d)
    try:
        m = json.load(open(os.path.join(d, 'meta.json')))
    except Exception:
        m = {}
    what = (m.get('clause_broken') or m.get('summary') or '').replace('\n', ' ').replace('|', '/')
    needs = (m.get('what_it_needs_to_manifest') or m.get('needs_to_manifest') or '').replace('\n', ' ').replace('|', '/')
    r = res.get(sid)
    if r is None:
        verdict = 'not run'
    elif 'exit=1' in r[2]:
        verdict = 'caught (%s; first site: %s)' % (r[3], r[4] or '-') + NOTES.get(sid, '')
    else:
        verdict = 'MISSED'
    rows.append('| %s | %s | %s | %s |' % (sid, what[:170], needs[:170], verdict))
out = ['## 9. Seeded changes and which checks catch them', '',
       'Three hundred and two changes to eqsig written by sub-agents that saw only the text of one property (never `/verif`), each',
       'confirmed in a scratch worktree: applies to `/repo` HEAD, the 63 tests pass with it, its demonstration fails with it and passes',
       'without it (`harness/confirm_seeds.sh`; `seeded/<id>/{patch.diff, demo.py, meta.json}`). Seven rounds of two per property plus a short eighth round (one each for C02–C06, C08–C10, C12, C14–C17, C19: `_15`): `_1`, `_2`',
       '(first session), `_3`, `_4` ("a mechanism different from the ones already used"), `_5`, `_6` ("a KIND of mechanism not in the list at',
       'all: boundary conditions, index arithmetic, equality branches, option combinations, ordering effects, rounding shortcuts, default',
       'propagation"), `_7`..`_14` (four rounds given the list of clauses already targeted: "another clause, entry point or mechanism"). Each was run against the quick tier of its property\'s check in a scratch worktree through `EQSIG_REPO`',
       '(`harness/sweep_seeds.sh`, results in `seeded/RESULTS.tsv`); the table gives the first reporting site of the final sweep. After',
       'round 2, 15 of 80 were first missed; after round 3, 10 of the 40 new ones; after round 4, 9 of the 40 new ones (C04_8, C06_8, C07_8, C08_7,',
       'C08_8, C09_7, C11_7, C12_7, C17_7), and ten more were caught by a broken source tie only, with no failing input. All are caught now (C07_8 as a broken',
       'source tie only, see its row); the generators added for round 4: the caller re-using the values buffers it handed in (C04), `max_fa_period` after',
       '`gen_fa_spectrum(p2_plus / n)` (C06), trap=False at object level and the constructor source array re-used (C08), windows whose binary64 peak is',
       'exactly / one ulp around the 0.025 g gate (C09), int16/int32/float32-stored records with swings near the dtype range (C11, C12 — which exposed',
       'a genuine defect, fix 871d565), integer / list / float32 records for array-level `remove_poly` (C17), and `guarded_pure` now overwrites the',
       'returned arrays before the second call (memo aliasing, C09_8). After round 5, 4 of the 40 new ones were missed (C01_9, C02_9, C02_10, C08_10) and',
       'four more were caught by a broken source tie only; added for them: a second `AccSignal.response_series` call after the periods were changed through',
       'the setter (C01), two batches in a row sharing xi, dt, count and end periods, and shift invariance of the spectra on records longer than 2^15',
       'samples (C02), very weak half spectra for `fas2values` (C06), `trap=np.True_` (C08), record lengths at which a float-step `np.arange` miscounts',
       '(C09), the explicit fractions 0.0 and 1.0 (C10), resample → `reset_values` → resample on one object (C14). After round 6, 4 of the 40 new ones were missed (C02_12,',
       'C06_12, C07_12, C08_11; added: integer period lists with a leading zero, the constructor source array re-used by the caller, read → add_constant /',
       'add_series / reset_values → read on the structural smoothing block, in-place mutators that call clear_cache directly) and 13 were first caught by a',
       'broken source tie only; generators were then added for all 13 (narrow/unsigned integer records, true spectra at xi = 0, a second `gen_response_spectrum`',
       'with a larger `min_dt_ratio`, a strong sample only in the trailing part-second, upper fraction 1.0 on float records, positional `im, se`, a first sample',
       '2^55.. times the later oscillation, integer-dtype input of the cycle counter, the omitted `keep_adj_zeros`, `interp=True`, records of more than 50 000 /',
       '65 536 samples through sparse Coq-side checkers, integer travel times). Round 7: 2 of 40 missed (C02_14: single-precision state above 2^23',
       'entries; C08_14: `remove_rolling_average(mtype=acceleration)` without invalidation; generators added), 14 first caught by a broken source tie only,',
       'for 13 of which generators were then added (C04_14 needs the caller to edit a settings array in place and is left to the tie). Round 8 (third session, 14 changes): none missed; 13 reported with a concrete failing input at once, C05_15 (two cooperating "skip the copy" shortcuts that hand the caller\'s own array to an in-place sign flip, only for an array that starts at exactly 0, never repeats a sample and swings negative first) first only as a broken proof obligation of Prop_C05 with `no-failing-input-found` because the C05 record generator deliberately never started a record at 0; it now does so for 15 % of records and the change is reported at `determine_peaks_only_delta_series` with the mutated argument as replay. Miss rate per round: 19 %, 25 %, 22 %, 10 %, 10 %, 5 %, 0 %. Rows naming `translator`',
       'or `proof:` as the first reporting site ended `no-failing-input-found` or name the broken obligation first. What was added for the earlier rounds (see 7.3):',
       'object read → change → read-again histories (C03, C07, C08, C09, C10), purity/repeatability wrappers (`core.guarded_pure`) and',
       'non-float64 storage (C01, C02, C06, C08, C09, C11, C13, C17, C18, C19), long-record × many-period batches and object-level refinement',
       '(C02), non-integer refinement factors (C03), weak-motion amplitudes (C08, C09, C19), list/tuple containers (C08), record lengths k·1000',
       'and two round trips through one path (C16), nearly aligned clusters and angles ±1–2 ulp from the cardinal directions (C18), energy at the',
       'old Nyquist frequency (C14), rounding-edge (dt, length) pairs and windows longer than the record (C05). Sites named `translator` or',
       '`proof:…` mean the change was refused by a fail-closed translator / broke a proof obligation about the translated source (a concrete',
       'input is then looked for by the correspondence of the same run). The reverses of the `fix:` commits made in this work, and 4–12 hand',
       'mutants per translator, were used as additional mutants by the builders.', '',
       '| seed | clause broken | needs | result (quick tier) |', '|---|---|---|---|'] + rows
open(os.path.join(V, 'design_parts/09_seeded_changes.md'), 'w').write('\n'.join(out) + '\n')
print(len(rows), 'seeds;', sum('MISSED' in r for r in rows), 'missed;', sum('not run' in r for r in rows), 'not run')
