#!/bin/bash
# usage: try_seed_wt.sh <patch.diff> <Cxx> [tier]  — apply a seeded change in a scratch worktree of /repo HEAD (not /repo itself),
# run the check against it through EQSIG_REPO, remove the worktree. Exit code of the check is echoed.
set -u
patch="$(readlink -f "$1")"; pid="$2"; tier="${3:-quick}"
V=${VERIF_DIR:-/verif}
wt=/tmp/wt_try_${pid}_$$
git -C /repo worktree add -q --detach "$wt" HEAD || exit 2
if ! git -C "$wt" apply "$patch" 2>/dev/null; then
  if ! git -C "$wt" apply --3way "$patch" 2>/dev/null; then echo "patch does not apply"; git -C /repo worktree remove --force "$wt"; exit 2; fi
fi
cd $V && VERIF_EVIDENCE_DIR=/tmp/evid_seeded_$$ EQSIG_REPO="$wt" /venv/bin/python harness/check.py "$pid" --tier "$tier"; rc=$?
git -C /repo worktree remove --force "$wt"
rm -rf /tmp/evid_seeded_$$
/venv/bin/python $V/translator/regen.py >/dev/null 2>&1   # generated files back to /repo's sources
echo "exit=$rc"
