#!/usr/bin/env python3
"""Writes /verif/MANIFEST.json from the table below (kept in one place so the manifest is always valid)."""
import json, os
V = os.path.dirname(os.path.dirname(os.path.abspath(__file__)))
TB = ('Trusted: Coq 8.16.1 kernel and vm_compute (no native_compute); stdlib axioms reported by Print Assumptions on each run '
      '(classical reals sig_forall_dec/sig_not_dec, classic, functional_extensionality_dep where Reals/Coquelicot/Interval are used); '
      'the hand-written Gallina model is tied to /repo by the correspondence check of this run (implementation outputs shipped as exact rationals, compared inside Coq); '
      'exact arithmetic (IEEE rounding not modelled; measured against a stated tolerance); Python harness (generators, encoding, parsing). ')
CHECKS = {
 'C08': dict(text='All clauses (lengths, zero start, trapezoid/rectangle increments, linearity, exactness for constant/linear acceleration, peak = max|.|, sign/scale laws) are Coq theorems over R about model/M_displacements.v; the model is tied to calc_velo_and_disp_from_accel_arr, AccSignal.velocity/.displacement/.pga/.pgv/.pgd and im.calc_peak by exact (integer x dyadic dt) and 1e-10-tolerance correspondence.',
             note=TB, tech='Coq proof over R (induction on lists, lra/nra) + Q-model correspondence by vm_compute', ref='3/C08'),
 'C09': dict(text='Lengths, monotonicity, final value = defining quadrature, sign invariance, alpha^2/|alpha| scaling and zero-padding invariance are Coq theorems over R for Arias, CAV, ISV, the |a| and |v| integrals and unit kinetic energy (model/M_im.v). Standardised CAV: window totals non-negative, non-decreasing and zero below the gate are proved; its upper bound CAV/9.81 and the interpolation between window ends are partial (checked on implementation outputs only). Tie: exact-domain and 1e-10 correspondence through eqsig.im.* on AccSignal objects.',
             note=TB + 'cav_dp: numpy arange length per window observed, not modelled.', tech='Coq proof over R (list induction, lra/nra) + Q-model correspondence by vm_compute', ref='3/C09'),
 'C10': dict(text='First/last-qualifying-index characterisation (with uniqueness), ordering 0<=start<=end<=duration, amplitude-scale invariance (array, Arias and any positively scaling custom measure), shift by k zeros, widening, bracketed-duration definition, empty case, antitonicity in the threshold and joint scaling are Coq theorems over R (model/M_im.v, lib/Where.v). Tie: exact correspondence of indices/times through calc_sig_dur_vals, calc_sig_dur (Arias + custom callables) and calc_brac_dur, thresholds placed on sample values.',
             note=TB + 'For calc_sig_dur the cumulative series given to the model is the public measure function output on the same signal.', tech='Coq proof over R (np.where characterisation lemmas) + Q-model correspondence by vm_compute', ref='3/C10'),
 'C11': dict(text='Membership characterisation (reported = index 0, first sample of the final plateau, and exactly the plateau starts entered and left by strict moves of opposite sign), ascending order, first=0, last=final plateau start, monotone-between and strict alternation of segment directions, n_cyc length are Coq theorems over R about the declarative model model/M_peaks.v. Partial: the max/min parity selection and the +0.5/0.25 n_cyc step clauses are not theorems; they are decided by the exhaustive correspondence (every series over a 5-level alphabet up to length 6/8) only. Tie: exact index comparison, exhaustive + random plateau-rich series through get_peak_array_indices (all/max/min) and get_n_cyc_array.',
             note=TB + 'The model is declarative (a filter over indices), not a transliteration of the ediff1d/where pipeline: the exhaustive correspondence is what ties it to the code.', tech='Coq proof over R (order reasoning, list induction) + exhaustive small-alphabet correspondence by vm_compute', ref='3/C11'),
 'C12': dict(text='Zero crossings at tol=0: membership characterisation (index 0, exact zeros - first of a run unless keep_adj_zeros - and the first sample after each strict sign change), ascending, starts at 0, tol>0 result is a subsequence of the tol=0 result: Coq theorems over R (model/M_peaks.v). Switched peaks: subsequence of the C11 peak list for every tol and ascending are theorems. Partial: one-per-excursion at the largest |value|, zero-valued turning points, no shared strict sign, global abs-max included and the tol-subsequence clause for switched peaks are not theorems; they are decided by the exhaustive correspondence (all series over {-2..2} to length 6/8, {-3..3} to 4/6) and by a subsequence checker evaluated on implementation outputs.',
             note=TB, tech='Coq proof over R (filter characterisation, sublist lemmas) + exhaustive small-alphabet correspondence by vm_compute', ref='3/C12'),
}
NA = {}
ALL = ['C%02d' % i for i in range(1, 21)]

def main():
    checks = []
    for pid in ALL:
        if pid not in CHECKS:
            continue
        c = CHECKS[pid]
        checks.append({
            'property_id': pid,
            'quick_cmd': '/venv/bin/python harness/check.py %s --tier quick' % pid,
            'thorough_cmd': '/venv/bin/python harness/check.py %s --tier thorough' % pid,
            'evidence_file': 'evidence/%s.json' % pid,
            'replay_cmd_template': '/venv/bin/python harness/replay.py {path}',
            'engine': 'coq-proof+correspondence',
            'level_claimed': {'category': 'proof', 'text': c['text'], 'design_ref': 'DESIGN.md section ' + c['ref']},
            'level_note': c['note'],
            'technique': c['tech'],
        })
    na = [{'property_id': p, 'reason': NA.get(p, 'check not built yet in this session (work in progress; see DESIGN.md build order)')}
          for p in ALL if p not in CHECKS]
    m = {
        'version': 1,
        'setup_cmd': 'bash harness/setup.sh',
        'hooks': {'guard': 'ENG_TOOLS_EQSIG_VERIF', 'enable': 'no source hooks are needed: everything is observed through the public API; checks import eqsig from /repo (sys.path) with ENG_TOOLS_EQSIG_VERIF=1 set',
                  'baseline_off_cmd': 'cd /repo && /venv/bin/python -m pytest -ra -q -p no:cacheprovider --timeout=900 --continue-on-collection-errors tests',
                  'source_commits': [], 'add_only': True},
        'engines': [{'name': 'coq-proof+correspondence', 'path': 'coq/ + harness/', 'serves_properties': sorted(CHECKS),
                     'kind_free_text': 'Coq 8.16.1 theorems about Gallina models (coq/model, coq/props) + per-run correspondence check of the Q instance of the model against the implementation (harness/check.py), translators for formula code (translator/)'}],
        'checks': checks,
        'not_applicable': na,
        'notes': 'See DESIGN.md. known_findings.json lists fixed defects (13 fix: commits in /repo) and the one known finding (C03 input-energy sign).',
    }
    json.dump(m, open(os.path.join(V, 'MANIFEST.json'), 'w'), indent=1)
    print('MANIFEST.json written: %d checks, %d not_applicable' % (len(checks), len(na)))

if __name__ == '__main__':
    main()
