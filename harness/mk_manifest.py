#!/usr/bin/env python3
"""Writes /verif/MANIFEST.json from the table below (kept in one place so the manifest is always valid)."""
import json, os
V = os.path.dirname(os.path.dirname(os.path.abspath(__file__)))
TB = ('Trusted: Coq 8.16.1 kernel and vm_compute (no native_compute); stdlib axioms reported by Print Assumptions on each run '
      '(classical reals sig_forall_dec/sig_not_dec, classic, functional_extensionality_dep where Reals/Coquelicot/Interval are used); '
      'the hand-written Gallina model is tied to /repo by the correspondence check of this run (implementation outputs shipped as exact rationals, compared inside Coq); '
      'exact arithmetic (IEEE rounding not modelled; measured against a stated tolerance); Python harness (generators, encoding, parsing). ')
# one JSON file per claimed property: harness/manifest_entries/Cxx.json with keys text, note, tech, ref
CHECKS = {}
_d = os.path.join(V, 'harness', 'manifest_entries')
for _f in sorted(os.listdir(_d)):
    if _f.endswith('.json'):
        CHECKS[_f[:-5]] = json.load(open(os.path.join(_d, _f)))
NA = {}
ALL = ['C%02d' % i for i in range(1, 21)]

def main():
    checks = []
    for pid in ALL:
        if pid not in CHECKS:
            continue
        c = CHECKS[pid]
        checks.append({
            'property_id': pid,
            'quick_cmd': '/venv/bin/python harness/check.py %s --tier quick' % pid,
            'thorough_cmd': '/venv/bin/python harness/check.py %s --tier thorough' % pid,
            'evidence_file': 'evidence/%s.json' % pid,
            'replay_cmd_template': '/venv/bin/python harness/replay.py {path}',
            'engine': 'coq-proof+correspondence',
            'level_claimed': {'category': 'proof', 'text': c['text'], 'design_ref': 'DESIGN.md section ' + c['ref']},
            'level_note': c['note'] + ('' if pid in ('C04', 'C05', 'C16') else ' The Q instance executed by the correspondence is provably the R-model on the shipped rationals (props/Prop_Transfer.v, one transfer theorem per model function, rebuilt with this check).'),
            'technique': c['tech'],
        })
    na = [{'property_id': p, 'reason': NA.get(p, 'check not built yet in this session (work in progress; see DESIGN.md build order)')}
          for p in ALL if p not in CHECKS]
    m = {
        'version': 1,
        'setup_cmd': 'bash harness/setup.sh',
        'hooks': {'guard': 'ENG_TOOLS_EQSIG_VERIF', 'enable': 'no source hooks are needed: everything is observed through the public API; checks import eqsig from /repo (sys.path) with ENG_TOOLS_EQSIG_VERIF=1 set',
                  'baseline_off_cmd': 'cd /repo && /venv/bin/python -m pytest -ra -q -p no:cacheprovider --timeout=900 --continue-on-collection-errors tests',
                  'source_commits': [], 'add_only': True},
        'engines': [{'name': 'coq-proof+correspondence', 'path': 'coq/ + harness/', 'serves_properties': sorted(CHECKS),
                     'kind_free_text': 'Coq 8.16.1 theorems about Gallina models (coq/model, coq/props) + per-run correspondence check of the Q instance of the model against the implementation (harness/check.py), translators for formula code (translator/)'}],
        'checks': checks,
        'not_applicable': na,
        'notes': 'See DESIGN.md. known_findings.json lists fixed defects (13 fix: commits in /repo) and the one known finding (C03 input-energy sign).',
    }
    json.dump(m, open(os.path.join(V, 'MANIFEST.json'), 'w'), indent=1)
    print('MANIFEST.json written: %d checks, %d not_applicable' % (len(checks), len(na)))

if __name__ == '__main__':
    main()
