#!/bin/bash
# usage: try_seed.sh <patch.diff> <Cxx> [tier]  — apply a seeded change to /repo, run the check, undo it
set -u
patch="$1"; pid="$2"; tier="${3:-quick}"
cd /repo || exit 2
if [ -n "$(git status --porcelain --untracked-files=no)" ]; then echo "repo not clean"; exit 2; fi
git apply "$patch" || { echo "patch does not apply"; exit 2; }
cd /verif && /venv/bin/python harness/check.py "$pid" --tier "$tier"; rc=$?
git -C /repo checkout -- . 
echo "exit=$rc"
