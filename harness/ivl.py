"""Runner for point-wise *proved enclosures*: each goal is a closed proposition over R (typically
`Rabs (model_R <rational inputs> - <implementation float as a rational>) <= tol`) that the `interval` tactic (or
any given tactic) must prove. A goal that is not proved is reported, the file never aborts.

API: run_goals(pid, name, preamble, goals, tactic=..., timeout=..., per_file=...) -> (failed_indices, errors)
  preamble : Coq text placed after the standard imports (extra Require/Import lines, Local definitions)
  goals    : list of (proposition_text, tactic_text or None)
"""
import os, re
from concurrent.futures import ThreadPoolExecutor
from harness import core

HEADER = """From Coq Require Import Reals Lra.
From Interval Require Import Tactic.
Local Open Scope R_scope.
"""
DEFAULT_TACTIC = 'interval with (i_prec 100)'


def rq(x):
    """exact rational value of a float as an R-scope term"""
    fr = core.frac(x)
    if fr.denominator == 1:
        return '(%d)' % fr.numerator
    return '(%d / %d)' % (fr.numerator, fr.denominator)


def run_goals(pid, name, preamble, goals, tactic=DEFAULT_TACTIC, timeout=600, per_file=None):
    os.makedirs(core.RUN, exist_ok=True)
    n = len(goals)
    if n == 0:
        return [], []
    nfiles = max(1, min(n, 2 * core.NPROC))
    if per_file:
        nfiles = max(nfiles, -(-n // per_file))
    chunks = [list(range(k, n, nfiles)) for k in range(nfiles)]
    jobs = []
    for k, idx in enumerate(chunks):
        if not idx:
            continue
        path = os.path.join(core.RUN, '%s_ivl_%s_%d.v' % (pid, name, k))
        with open(path, 'w') as f:
            f.write(HEADER)
            f.write(preamble)
            f.write('\n')
            for i in idx:
                prop, tac = goals[i]
                f.write('Goal True. tryif (assert (%s) by (%s)) then idtac "@@OK %d" else idtac "@@FAIL %d". exact I. Qed.\n'
                        % (prop, tac or tactic, i, i))
        jobs.append((path, idx))

    def one(job):
        path, idx = job
        rc, out, err, dt = core.sh('timeout %d coqc -Q %s EQ %s' % (timeout, core.COQ, path), timeout + 30, cwd=core.RUN)
        ok = set(int(m) for m in re.findall(r'@@OK (\d+)', out))
        bad = set(int(m) for m in re.findall(r'@@FAIL (\d+)', out))
        missing = [i for i in idx if i not in ok and i not in bad]
        e = None
        if rc != 0 or missing:
            e = 'coqc rc=%d on %s, %d goals undecided: %s' % (rc, os.path.basename(path), len(missing), (err or out)[-1200:])
        return sorted(bad) + missing, e

    failed, errors = [], []
    with ThreadPoolExecutor(max_workers=core.NPROC) as ex:
        for bad, e in ex.map(one, jobs):
            failed.extend(bad)
            if e:
                errors.append(e)
    if not os.environ.get('VERIF_KEEP_RUN'):
        for path, _ in jobs:
            base = os.path.splitext(os.path.basename(path))[0]
            for fn in os.listdir(core.RUN):
                if fn.startswith(base + '.') or fn.startswith('.' + base + '.'):
                    try:
                        os.remove(os.path.join(core.RUN, fn))
                    except OSError:
                        pass
    return sorted(set(failed)), errors
