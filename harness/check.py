#!/venv/bin/python
"""Entry point of every registered check:  harness/check.py <Cxx> [--tier quick|thorough] [--replay file]"""
import sys, os, argparse, importlib, random, traceback
sys.path.insert(0, os.path.dirname(os.path.dirname(os.path.abspath(__file__))))
from harness import core


def main():
    ap = argparse.ArgumentParser()
    ap.add_argument('pid')
    ap.add_argument('--tier', default=os.environ.get('VERIF_TIER') or 'quick', choices=['quick', 'thorough'])
    ap.add_argument('--replay', default=None)
    a = ap.parse_args()
    seed = int(os.environ.get('VERIF_SEED', '20260926') or 0)
    mod = importlib.import_module('harness.props.%s' % a.pid.lower())
    rep = core.Report(a.pid, a.tier, seed)
    rng = random.Random(seed * 1000003 + int(a.pid[1:]))
    try:
        if a.replay:
            return mod.replay(rep, a.replay)
        mod.run(rep, rng, a.tier)
    except Exception:
        rep.unchecked('harness', traceback.format_exc())
    return mod.finish(rep) if hasattr(mod, 'finish') else rep.finish()


if __name__ == '__main__':
    sys.exit(main())
