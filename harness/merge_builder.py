#!/venv/bin/python
"""Merge a builder's private copy /tmp/vb_<Cxx> into /verif: new/changed source files (not build output), appended
_CoqProject lines, and the CHECKS entry of its mk_manifest.py (stored as harness/manifest_entries/<Cxx>.json).
Prints what it did; refuses to overwrite a file that also changed in /verif since the copy was taken unless --force."""
import os, sys, json, shutil, subprocess, filecmp, importlib.util, re
pid = sys.argv[1]
force = '--force' in sys.argv
src = [a.split('=',1)[1] for a in sys.argv if a.startswith('--src=')][0] if any(a.startswith('--src=') for a in sys.argv) else '/tmp/vb_%s' % pid
dst = '/verif'
SKIP_EXT = ('.vo', '.vok', '.vos', '.glob', '.aux', '.pyc', '.d', '.cache', '.cmi', '.cmx', '.o')
SKIP_DIR = ('.git', 'coq/run', 'evidence', 'replays', '__pycache__', 'seeded')
SKIP_FILE = ('coq/Makefile', 'coq/Makefile.conf', 'coq/.Makefile.d', 'MANIFEST.json', 'coq/_CoqProject', 'harness/mk_manifest.py',
             'coq/.lia.cache', 'coq/.nra.cache', 'coq/.nia.cache')
# base = the newest commit of the builder's copy that also exists in /verif (builders sometimes commit in their copy)
base = subprocess.check_output(['git', '-C', src, 'rev-parse', 'HEAD'], text=True).strip()
for sha in subprocess.check_output(['git', '-C', src, 'rev-list', 'HEAD', '-n', '50'], text=True).split():
    if subprocess.call(['git', '-C', dst, 'cat-file', '-e', sha], stderr=subprocess.DEVNULL) == 0:
        base = sha
        break
copied, conflicts = [], []
for root, dirs, files in os.walk(src):
    rel = os.path.relpath(root, src)
    if any(rel == d or rel.startswith(d + '/') for d in SKIP_DIR):
        dirs[:] = []
        continue
    dirs[:] = [d for d in dirs if d != '__pycache__' and d != '.git']
    for f in files:
        r = os.path.normpath(os.path.join(rel, f))
        if r in SKIP_FILE or f.endswith(SKIP_EXT) or f.startswith('.'):
            continue
        a, b = os.path.join(src, r), os.path.join(dst, r)
        if os.path.exists(b) and filecmp.cmp(a, b, shallow=False):
            continue
        if os.path.exists(b):
            # changed by the builder? compare with the version at the builder's base commit
            try:
                old = subprocess.check_output(['git', '-C', src, 'show', '%s:%s' % (base, r)], stderr=subprocess.DEVNULL)
            except subprocess.CalledProcessError:
                old = None
            cur = open(a, 'rb').read()
            if old is not None and old == cur:
                continue  # builder did not touch it; /verif moved on
            mine = open(b, 'rb').read()
            if old is not None and mine != old and not force:
                conflicts.append(r)
                continue
        os.makedirs(os.path.dirname(b), exist_ok=True)
        shutil.copy2(a, b)
        copied.append(r)
# _CoqProject: append lines not yet present, in the builder's order
have = [l.strip() for l in open(os.path.join(dst, 'coq/_CoqProject'))]
new = [l.strip() for l in open(os.path.join(src, 'coq/_CoqProject')) if l.strip() and l.strip() not in have]
if new:
    with open(os.path.join(dst, 'coq/_CoqProject'), 'a') as f:
        for l in new:
            f.write(l + '\n')
# manifest entry
spec = importlib.util.spec_from_file_location('mm_b', os.path.join(src, 'harness/mk_manifest.py'))
mm = importlib.util.module_from_spec(spec)
try:
    spec.loader.exec_module(mm)
    if pid in mm.CHECKS:
        json.dump(mm.CHECKS[pid], open(os.path.join(dst, 'harness/manifest_entries/%s.json' % pid), 'w'), indent=1)
        ent = 'manifest entry written'
    else:
        ent = 'NO manifest entry for %s in builder copy' % pid
except Exception as e:
    ent = 'could not load builder mk_manifest: %r' % e
print('copied:', *copied, sep='\n  ')
print('_CoqProject appended:', new)
print(ent)
if conflicts:
    print('CONFLICTS (changed on both sides, not copied):', conflicts)
