"""Runner for per-case proof goals (the `interval` point checks of DESIGN 2.2 / BUILDER_NOTES).

core.run_cases only handles `vm_compute` cases. Here every case is a *statement about the R-model* together with a
proof script; the generated files contain, per goal,

    Goal True.
      tryif (assert (<statement>) by (timeout T (<script>))) then idtac "@@OK i" else idtac "@@FAIL i".
      exact I.
    Qed.

so a goal that cannot be proved is reported without aborting the file, and every goal that is reported OK has been
re-checked by the kernel at the `Qed` (the asserted sub-proof is part of the proof term). The files are compiled in
parallel under a shell timeout; the harness only reads the @@OK/@@FAIL lines.
"""
import os, re, heapq
from concurrent.futures import ThreadPoolExecutor
from harness import core


class Goal:
    """stmt: Coq proposition; script: Ltac proving it; defs: {name: 'Definition ... .'} shared definitions;
    cost: relative cost estimate for load balancing"""
    __slots__ = ('stmt', 'script', 'defs', 'cost')

    def __init__(self, stmt, script, defs=None, cost=1.0):
        self.stmt, self.script, self.defs, self.cost = stmt, script, defs or {}, cost


def _clean(prefix):
    for fn in os.listdir(core.RUN):
        if fn.startswith(prefix) or fn.startswith('.' + prefix):
            try:
                os.remove(os.path.join(core.RUN, fn))
            except OSError:
                pass


def run_goals(pid, header, goals, timeout=1500, goal_timeout=120, nshards=None):
    """returns (failing_indices, errors). A goal whose file did not finish is an error, not a failure."""
    os.makedirs(core.RUN, exist_ok=True)
    prefix = '%s_ivl_' % pid
    _clean(prefix)
    if not goals:
        return [], []
    nb = nshards or max(1, min(len(goals), 3 * core.NPROC))
    heap = [(0.0, b) for b in range(nb)]
    bins = [[] for _ in range(nb)]
    for i in sorted(range(len(goals)), key=lambda i: -goals[i].cost):
        c, b = heapq.heappop(heap)
        bins[b].append(i)
        heapq.heappush(heap, (c + goals[i].cost, b))
    jobs = []
    for k, b in enumerate(bins):
        if not b:
            continue
        b.sort()
        path = os.path.join(core.RUN, '%s%d.v' % (prefix, k))
        with open(path, 'w') as f:
            f.write(header)
            seen = {}
            for i in b:
                for name, text in goals[i].defs.items():
                    if name not in seen:
                        seen[name] = 1
                        f.write(text + '\n')
            for i in b:
                g = goals[i]
                f.write('Goal True.\n  tryif (assert (%s) by (timeout %d (%s))) then idtac "@@OK %d" else idtac "@@FAIL %d".\n  exact I.\nQed.\n'
                        % (g.stmt, goal_timeout, g.script, i, i))
        jobs.append((path, b))

    def one(job):
        path, idx = job
        rc, out, err, dt = core.sh('timeout %d coqc -Q %s EQ %s' % (timeout, core.COQ, path), timeout + 30, cwd=core.RUN)
        ok = set(int(t) for t in re.findall(r'@@OK (\d+)', out))
        bad = set(int(t) for t in re.findall(r'@@FAIL (\d+)', out))
        missing = [i for i in idx if i not in ok and i not in bad]
        e = None
        if rc != 0 or missing:
            e = 'coqc rc=%s on %s; %d goals without a verdict; %s' % (rc, os.path.basename(path), len(missing), (err or out)[-1500:])
        return sorted(bad), e

    failing, errors = [], []
    with ThreadPoolExecutor(max_workers=core.NPROC) as ex:
        for bad, e in ex.map(one, jobs):
            failing.extend(bad)
            if e:
                errors.append(e)
    if not os.environ.get('VERIF_KEEP_RUN'):
        _clean(prefix)
    return sorted(failing), errors
