#!/bin/bash
# Confirms seeded changes produced by sub-agents: for each /tmp/wt_<id>/seed<k>, in a scratch worktree of /repo HEAD:
# apply patch, run the test suite (must be 63 passed), run demo (must fail), revert, run demo (must pass).
# Confirmed seeds are copied to /verif/seeded/<id>_<k>/ with a "confirmed" block added to meta.json.
set -u
WT=/tmp/confirm_wt
rm -rf $WT; git -C /repo worktree prune; git -C /repo worktree add -q --detach $WT HEAD || exit 2
for d in /tmp/wt_C*/seed*; do
  [ -f "$d/patch.diff" ] || continue
  id=$(basename $(dirname $d) | sed 's/wt_//'); k=$(basename $d | sed 's/seed//')
  dest=/verif/seeded/${id}_${k}
  [ -d "$dest" ] && continue
  cd $WT && git checkout -q -- . && git clean -qfd
  if git apply "$d/patch.diff" 2>/dev/null; then how=apply; elif git apply --3way "$d/patch.diff" 2>/dev/null; then how=3way; git reset -q; else echo "$id/$k: PATCH DOES NOT APPLY"; continue; fi
  git diff > /tmp/confirm_patch.diff
  tests=$(PYTHONPATH=$WT /venv/bin/python -m pytest -q -p no:cacheprovider tests 2>&1 | tail -1)
  PYTHONPATH=$WT /venv/bin/python "$d/demo.py" > /tmp/confirm_demo_mut.txt 2>&1; rc_mut=$?
  git checkout -q -- .
  PYTHONPATH=$WT /venv/bin/python "$d/demo.py" > /tmp/confirm_demo_clean.txt 2>&1; rc_clean=$?
  ok=no
  if echo "$tests" | grep -q "63 passed" && [ $rc_mut -ne 0 ] && [ $rc_clean -eq 0 ]; then ok=yes; fi
  echo "$id/$k: apply=$how tests='$tests' demo_mut_rc=$rc_mut demo_clean_rc=$rc_clean confirmed=$ok"
  if [ $ok = yes ]; then
    mkdir -p $dest && cp /tmp/confirm_patch.diff $dest/patch.diff && cp "$d/demo.py" $dest/demo.py
    /venv/bin/python - "$d/meta.json" "$dest/meta.json" "$how" "$tests" "$(git -C /repo rev-parse --short HEAD)" <<'PY'
import json,sys
try: m=json.load(open(sys.argv[1]))
except Exception as e: m={'meta_unreadable':str(e)}
m['confirmed']={'by':'harness/confirm_seeds.sh','repo_head':sys.argv[5],'patch_applied_with':sys.argv[3],'tests_with_patch':sys.argv[4],
 'demo_with_patch':'exit!=0 (fails)','demo_on_clean_tree':'exit 0 (passes)',
 'ran':['git apply patch.diff (scratch worktree of /repo HEAD)','PYTHONPATH=<wt> /venv/bin/python -m pytest -q -p no:cacheprovider tests','PYTHONPATH=<wt> /venv/bin/python demo.py (patched, then clean)']}
json.dump(m,open(sys.argv[2],'w'),indent=1)
PY
  fi
done
cd / && git -C /repo worktree remove --force $WT
