"""Core of the eqsig verification harness: Coq invocation, case emission, result parsing,
violation/replay/known-finding reporting and evidence files.

Every quick/thorough command in MANIFEST.json is `harness/check.py <id> --tier <tier>`; that entry point
imports the property's module from harness/props and drives it through the functions here.
"""
import os, sys, re, json, time, hashlib, subprocess, random, traceback, shutil
from fractions import Fraction
from concurrent.futures import ThreadPoolExecutor

VERIF = os.path.dirname(os.path.dirname(os.path.abspath(__file__)))
COQ = os.path.join(VERIF, 'coq')
RUN = os.path.join(COQ, 'run', 'p%d' % os.getpid())    # one scratch directory per check process: concurrent runs never share files
REPO = os.environ.get('EQSIG_REPO', '/repo')
EVID = os.environ.get('VERIF_EVIDENCE_DIR') or os.path.join(VERIF, 'evidence')   # seeded-change trials write elsewhere
REPLAYS = os.path.join(VERIF, 'replays')
NPROC = int(os.environ.get('VERIF_NPROC', '16'))

os.environ.setdefault('PYTHONHASHSEED', '0')
os.environ['ENG_TOOLS_EQSIG_VERIF'] = '1'
if REPO not in sys.path:
    sys.path.insert(0, REPO)

def _cleanup_run():
    if not os.environ.get('VERIF_KEEP_RUN'):
        shutil.rmtree(RUN, ignore_errors=True)


import atexit
atexit.register(_cleanup_run)

# axioms the standard library itself declares and that this development is allowed to depend on
ALLOWED_AXIOMS = {
    'ClassicalDedekindReals.sig_forall_dec', 'ClassicalDedekindReals.sig_not_dec',
    'FunctionalExtensionality.functional_extensionality_dep', 'Classical_Prop.classic',
    'ClassicalEpsilon.constructive_indefinite_description',
    'ProofIrrelevance.proof_irrelevance', 'Eqdep.Eq_rect_eq.eq_rect_eq', 'JMeq.JMeq_eq',
    'PropExtensionality.propositional_extensionality',
}


# primitive 63-bit integers / floats of the standard library (used by Interval's emulated floats): declared by Coq's stdlib, not by us
STDLIB_PRIMITIVE_PREFIXES = ('Uint63.', 'PrimInt63.', 'PrimFloat.', 'FloatAxioms.', 'Sint63.')


# ------------------------------------------------------------------ numbers -> Coq text
def frac(x):
    """exact rational value of a Python/NumPy number"""
    if isinstance(x, Fraction):
        return x
    if isinstance(x, bool):
        return Fraction(int(x))
    if isinstance(x, int):
        return Fraction(x)
    try:
        import numpy as np
        if isinstance(x, np.integer):
            return Fraction(int(x))
    except ImportError:
        pass
    f = float(x)
    if f != f or f in (float('inf'), float('-inf')):
        raise ValueError('non-finite value %r cannot be shipped to Coq' % (x,))
    return Fraction(*f.as_integer_ratio())


def q(x):
    fr = frac(x)
    return '(%d#%d)' % (fr.numerator, fr.denominator)


def qlist(xs):
    return '[' + '; '.join(q(x) for x in xs) + ']'


def qmat(rows):
    return '[' + '; '.join(qlist(r) for r in rows) + ']'


def natlist(xs):
    return '[' + '; '.join('%d' % int(x) for x in xs) + ']%nat'


def zlist(xs):
    return '[' + '; '.join('(%d)' % int(x) for x in xs) + ']%Z'


def cbool(b):
    return 'true' if b else 'false'


def jsonable(x):
    """replay-file representation: floats as hex strings + repr, fractions as strings"""
    import numpy as np
    if isinstance(x, (list, tuple)):
        return [jsonable(v) for v in x]
    if isinstance(x, np.ndarray):
        return [jsonable(v) for v in x.tolist()]
    if isinstance(x, dict):
        return {str(k): jsonable(v) for k, v in x.items()}
    if isinstance(x, Fraction):
        return str(x)
    if isinstance(x, (bool, int, str)) or x is None:
        return x
    if isinstance(x, (np.bool_,)):
        return bool(x)
    if isinstance(x, np.integer):
        return int(x)
    if isinstance(x, (float, np.floating)):
        return float(x)
    if isinstance(x, complex):
        return [x.real, x.imag]
    return repr(x)


def digest(obj):
    return hashlib.sha256(json.dumps(jsonable(obj), sort_keys=True).encode()).hexdigest()[:12]


# ------------------------------------------------------------------ Case
class Case:
    """One correspondence case.
    coq      : Coq term of the property's `case` type (inputs AND implementation outputs)
    replay   : JSON-able description (function, arguments, implementation output)
    site     : entry point / clause the case exercises (used for known-finding matching and statistics)
    nontrivial : whether the case counts as non-trivial by the property's rule
    klass    : short label for the input-distribution table
    """
    __slots__ = ('coq', 'replay', 'site', 'nontrivial', 'klass', 'key', 'checker')

    def __init__(self, coq, replay, site, nontrivial=True, klass='', checker=None):
        self.coq = coq
        self.replay = replay
        self.site = site
        self.nontrivial = nontrivial
        self.klass = klass or site
        self.key = digest([site, replay.get('args', replay)])
        self.checker = checker


class ImplError(Exception):
    pass


# ------------------------------------------------------------------ Coq build / queries
def sh(cmd, timeout, cwd=None):
    t0 = time.time()
    try:
        p = subprocess.run(cmd, shell=isinstance(cmd, str), cwd=cwd, capture_output=True, text=True, timeout=timeout)
        return p.returncode, p.stdout, p.stderr, time.time() - t0
    except subprocess.TimeoutExpired as e:
        return 124, (e.stdout or b'').decode() if isinstance(e.stdout, bytes) else (e.stdout or ''), 'TIMEOUT after %ss' % timeout, time.time() - t0


def ensure_makefile():
    mk = os.path.join(COQ, 'Makefile')
    cp = os.path.join(COQ, '_CoqProject')
    if not os.path.exists(mk) or os.path.getmtime(mk) < os.path.getmtime(cp):
        rc, out, err, _ = sh('coq_makefile -f _CoqProject -o Makefile', 120, cwd=COQ)
        if rc != 0:
            raise RuntimeError('coq_makefile failed: ' + err)


def make(targets, timeout=1500):
    """full .vo build of the given targets (paths relative to coq/); returns (ok, log)"""
    ensure_makefile()
    tg = ' '.join(targets)
    rc, out, err, dt = sh('timeout %d make -j%d %s' % (timeout, NPROC, tg), timeout + 30, cwd=COQ)
    return rc == 0, out + err


def theorem_names(prop_file):
    src = open(os.path.join(COQ, 'props', prop_file + '.v')).read()
    return re.findall(r'^\s*(?:Theorem|Example)\s+([A-Za-z0-9_\']+)', src, re.M)


def print_assumptions(prop_file):
    """run Print Assumptions on every theorem of props/<prop_file>.v (in parallel chunks); returns {theorem: [axioms]}"""
    names = theorem_names(prop_file)
    os.makedirs(RUN, exist_ok=True)
    nchunks = max(1, min(NPROC, (len(names) + 1) // 2))
    chunks = [names[k::nchunks] for k in range(nchunks)]

    def one(k):
        path = os.path.join(RUN, 'assum_%s_%d.v' % (prop_file, k))
        with open(path, 'w') as f:
            f.write('From EQ Require Import props.%s.\n' % prop_file)
            for n in chunks[k]:
                f.write('Goal True. idtac "@@THM %s". exact I. Qed.\nPrint Assumptions %s.%s.\n' % (n, prop_file, n))
        return sh(['coqc', '-Q', COQ, 'EQ', path], 900, cwd=RUN)

    with ThreadPoolExecutor(max_workers=NPROC) as ex:
        outs = list(ex.map(one, range(nchunks)))
    for fn in os.listdir(RUN):
        if fn.startswith('assum_%s_' % prop_file) or fn.startswith('.assum_%s_' % prop_file):
            try:
                os.remove(os.path.join(RUN, fn))
            except OSError:
                pass
    res = {}
    alltext = ''
    for rc, out, err, _ in outs:
        alltext += out
        if rc != 0:
            return None, out + err
        cur = None
        for line in out.splitlines():
            m = re.match(r'@@THM (\S+)', line)
            if m:
                cur = m.group(1)
                res[cur] = []
                continue
            if cur is None:
                continue
            if not line or line[0].isspace() or line.startswith('Axioms:') or line.startswith('Closed under'):
                continue
            m = re.match(r"^([A-Za-z_][A-Za-z0-9_\.']*)\s*(:|$)", line)
            if m:
                res[cur].append(m.group(1))
    return res, alltext


# ------------------------------------------------------------------ running cases inside Coq
HEADER = """From Coq Require Import ZArith QArith List Bool String.
From EQ Require Import lib.Num lib.Chk %s.
Import ListNotations.
Local Open Scope Q_scope.
"""


_BUILT = set()


def _shards(cases, max_cases, max_bytes):
    """balanced shards: longest-processing-time assignment with cost ~ size^1.5 (models are up to quadratic in the
    series length), bounded by max_cases / max_bytes per shard"""
    n = len(cases)
    nb = max(1, min(n, 2 * NPROC))
    nb = max(nb, -(-n // max_cases), -(-sum(len(c.coq) for c in cases) // max_bytes))
    order = sorted(range(n), key=lambda i: -len(cases[i].coq))
    import heapq
    heap = [(0.0, b) for b in range(nb)]
    bins = [[] for _ in range(nb)]
    for i in order:
        cost, b = heapq.heappop(heap)
        bins[b].append(i)
        heapq.heappush(heap, (cost + len(cases[i].coq) ** 1.5 + 50.0, b))
    for b in bins:
        if b:
            b.sort()
            yield [(i, cases[i]) for i in b]


def run_cases(pid, module, checker, cases, max_cases=400, max_bytes=600_000, timeout=900, extra_imports=''):
    """write sharded cases files, run coqc in parallel, return (failing_indices, errors)"""
    os.makedirs(RUN, exist_ok=True)
    if module not in _BUILT:
        ok, log = make([module.replace('.', '/') + '.vo'])
        if not ok:
            return [], ['checker module %s does not build: %s' % (module, log[-1500:])]
        _BUILT.add(module)
    for fn in os.listdir(RUN):
        if fn.startswith('%s_' % pid) or fn.startswith('.%s_' % pid):
            try:
                os.remove(os.path.join(RUN, fn))
            except OSError:
                pass
    jobs = []
    for k, shard in enumerate(_shards(cases, max_cases, max_bytes)):
        path = os.path.join(RUN, '%s_%s_%d.v' % (pid, checker, k))
        with open(path, 'w') as f:
            f.write(HEADER % module)
            f.write(extra_imports)
            f.write('Definition cases : list _ := [\n')
            f.write(';\n'.join(c.coq for _, c in shard))
            f.write('\n].\nEval vm_compute in failing (map %s cases).\n' % checker)
        jobs.append((path, [i for i, _ in shard]))

    def one(job):
        path, idx = job
        rc, out, err, dt = sh('ulimit -s unlimited 2>/dev/null; timeout %d coqc -Q %s EQ %s' % (timeout, COQ, path), timeout + 30, cwd=RUN)
        if rc != 0:
            return idx, None, (err or out)[-2000:]
        m = re.search(r'=\s*(\[.*?\])\s*:\s*list nat', out, re.S)
        if not m:
            return idx, None, 'unparsable coqc output: ' + out[-500:]
        loc = [int(t) for t in re.findall(r'\d+', m.group(1))]
        return idx, [idx[j] for j in loc], None

    failing, errors = [], []
    with ThreadPoolExecutor(max_workers=NPROC) as ex:
        for idx, fl, err in ex.map(one, jobs):
            if err is not None:
                errors.append(err)
            else:
                failing.extend(fl)
    if not os.environ.get('VERIF_KEEP_RUN'):
        for path, _ in jobs:
            base = os.path.splitext(os.path.basename(path))[0]
            for fn in os.listdir(RUN):
                if fn.startswith(base + '.') or fn.startswith('.' + base + '.'):
                    try:
                        os.remove(os.path.join(RUN, fn))
                    except OSError:
                        pass
    return sorted(failing), errors


def coq_eval(module, term, timeout=300, extra_imports=''):
    """evaluate one closed term with vm_compute and return Coq's printed answer (for replay files)"""
    os.makedirs(RUN, exist_ok=True)
    path = os.path.join(RUN, 'eval_%s_%d.v' % (digest(term), os.getpid()))
    with open(path, 'w') as f:
        f.write(HEADER % module)
        f.write(extra_imports)
        f.write('Eval vm_compute in (%s).\n' % term)
    rc, out, err, _ = sh('timeout %d coqc -Q %s EQ %s' % (timeout, COQ, path), timeout + 30, cwd=RUN)
    base = os.path.splitext(os.path.basename(path))[0]
    for fn in os.listdir(RUN):
        if fn.startswith(base + '.') or fn.startswith('.' + base + '.'):
            try:
                os.remove(os.path.join(RUN, fn))
            except OSError:
                pass
    if rc != 0:
        return 'coqc error: ' + (err or out)[-800:]
    return re.sub(r'\s+', ' ', out.strip())[:20000]


# ------------------------------------------------------------------ known findings
def load_known():
    p = os.path.join(VERIF, 'known_findings.json')
    if not os.path.exists(p):
        return []
    return json.load(open(p)).get('findings', [])


# ------------------------------------------------------------------ the per-run reporter
class Report:
    def __init__(self, pid, tier, seed):
        self.pid, self.tier, self.seed = pid, tier, seed
        self.t0 = time.time()
        self.violations = []      # (replay_path, suffix)
        self.known_hits = []
        self.obligations = 0
        self.discharged = 0
        self.axioms = set()
        self.notes = []
        self.cases = []           # all Case objects evaluated
        self.samples = []
        self.extra = {}
        self.known = [k for k in load_known() if k.get('property') == pid]
        os.makedirs(REPLAYS, exist_ok=True)
        os.makedirs(EVID, exist_ok=True)

    # -- proof layer
    def prove(self, prop_file, targets=None, gen_failed=None):
        """build props/<prop_file>.vo (and its dependencies) and collect the axioms of every theorem.
        returns True iff every theorem of the file was re-checked by the kernel"""
        names = theorem_names(prop_file)
        self.obligations += len(names)
        self.extra.setdefault('theorems', []).extend(names)
        if gen_failed:
            self.unchecked('translator', gen_failed)
            return False
        tg = list(targets or ['props/%s.vo' % prop_file])
        # the Q -> R transfer theorems (the vm_compute runs at Q are evaluations of the R-models) are rebuilt with every
        # property whose correspondence executes a Q instance; their axioms are listed in the thorough tier
        has_transfer = os.path.exists(os.path.join(COQ, 'props', 'Prop_Transfer.v')) and self.pid not in ('C04', 'C05', 'C16')
        if has_transfer:
            tg.append('props/Prop_Transfer.vo')
        ok, log = make(tg)
        if not ok:
            m = re.search(r'File "([^"]+)", line (\d+)', log)
            where = '%s:%s' % (m.group(1), m.group(2)) if m else '?'
            self.extra['build_log_tail'] = log[-3000:]
            self.unchecked('proof:%s' % prop_file, 'coqc failed at %s\n%s' % (where, log[-1500:]))
            return False
        res, out = print_assumptions(prop_file)
        if res is None:
            self.unchecked('assumptions:%s' % prop_file, out[-1500:])
            return False
        bad = {}
        for thm, axs in res.items():
            for a in axs:
                self.axioms.add(a)
                if a not in ALLOWED_AXIOMS and not a.startswith(STDLIB_PRIMITIVE_PREFIXES):
                    bad.setdefault(thm, []).append(a)
        if bad:
            self.unchecked('axioms:%s' % prop_file, 'theorems depend on non-standard axioms: %r' % bad)
            return False
        if set(res) != set(names):
            self.unchecked('assumptions:%s' % prop_file, 'missing theorems in Print Assumptions output: %r' % (set(names) - set(res)))
            return False
        self.discharged += len(names)
        if has_transfer:
            tn = theorem_names('Prop_Transfer')
            self.extra['transfer_theorems_rebuilt'] = len(tn)
            if self.tier == 'thorough':
                res2, out2 = print_assumptions('Prop_Transfer')
                if res2 is None:
                    self.unchecked('assumptions:Prop_Transfer', out2[-1500:])
                    return False
                for thm, axs in res2.items():
                    for a in axs:
                        self.axioms.add(a)
                        if a not in ALLOWED_AXIOMS and not a.startswith(STDLIB_PRIMITIVE_PREFIXES):
                            self.unchecked('axioms:Prop_Transfer', '%s depends on %s' % (thm, a))
                            return False
        return True

    # -- correspondence layer
    def correspond(self, module, checker, cases, describe=None, **kw):
        """run the cases; every failing one is a violation (the case is the failing input)"""
        self.cases.extend(cases)
        if not cases:
            return []
        built = self.extra.setdefault('_built', [])
        if module not in built:
            ok, log = make([module.replace('.', '/') + '.vo'])
            if not ok:
                self.unchecked('correspondence:%s (checker does not build)' % module, log[-1500:])
                return []
            built.append(module)
        failing, errors = run_cases(self.pid, module, checker, cases, **kw)
        for e in errors:
            self.unchecked('correspondence:%s.%s' % (module, checker), e)
        fails = [cases[i] for i in failing]
        # report at most one violation per site (the smallest case), to keep output readable
        by_site = {}
        for c in fails:
            cur = by_site.get(c.site)
            if cur is None or len(c.coq) < len(cur.coq):
                by_site[c.site] = c
        for site, c in sorted(by_site.items()):
            model_out = coq_eval(module, describe % c.coq) if describe else None
            self.violation(site, c.replay, coq_term='%s %s' % (checker, c.coq[:4000]), model_output=model_out,
                           n_failing=sum(1 for x in fails if x.site == site))
        return fails

    # -- reporting
    def _match_known(self, site, witness_key):
        for k in self.known:
            if k.get('status') != 'known':
                continue
            if k.get('site') == site and (not k.get('witness') or k.get('witness') == witness_key):
                return k
        return None

    def violation(self, site, replay, **more):
        wkey = replay.get('witness_key') or digest(replay.get('args', replay))
        k = self._match_known(site, wkey)
        if k is not None:
            line = 'KNOWN-FINDING: property=%s %s' % (self.pid, k.get('text', site))
            if line not in self.known_hits:
                self.known_hits.append(line)
                print(line, flush=True)
            return
        path = os.path.join(REPLAYS, '%s_%s.json' % (self.pid, digest([site, replay])))
        body = {'property': self.pid, 'site': site, 'witness_key': wkey, 'replay': jsonable(replay)}
        body.update({kk: jsonable(v) for kk, v in more.items()})
        json.dump(body, open(path, 'w'), indent=1)
        rel = os.path.relpath(path, VERIF)
        self.violations.append(rel)
        print('VIOLATION property=%s replay=%s' % (self.pid, rel), flush=True)

    def unchecked(self, what, detail):
        """a theorem / correspondence that no longer checks and for which no failing input is known (yet)"""
        self.notes.append({'unchecked': what, 'detail': detail[-3000:]})
        self.extra.setdefault('unchecked', []).append(what)

    def flush_unchecked(self):
        """called at the end: every unchecked item that was not explained by a concrete violation is reported"""
        un = self.extra.get('unchecked', [])
        if not un:
            return
        if self.violations:
            return  # a concrete failing input has been reported; the broken obligation is named in the evidence
        for what in un:
            path = os.path.join(REPLAYS, '%s_unchecked_%s.json' % (self.pid, re.sub(r'[^A-Za-z0-9_.]+', '_', what)[:80]))
            det = [n['detail'] for n in self.notes if n.get('unchecked') == what]
            json.dump({'property': self.pid, 'no_longer_checks': what, 'detail': det}, open(path, 'w'), indent=1)
            rel = os.path.relpath(path, VERIF)
            self.violations.append(rel)
            print('VIOLATION property=%s replay=%s no-failing-input-found' % (self.pid, rel), flush=True)

    def finish(self, level='proof', rule='', trusted=None, assumptions=None, checker_cmd=None):
        self.flush_unchecked()
        distinct = {}
        dist = {}
        for c in self.cases:
            dist[c.klass] = dist.get(c.klass, 0) + 1
            if c.nontrivial:
                distinct[c.key] = 1
        samples = self.samples or [jsonable(c.replay) for c in self.cases[:3]]
        samples = json.loads(json.dumps(samples)[:200000]) if len(json.dumps(samples)) < 200000 else samples[:1]
        cov = {
            'obligations': self.obligations, 'discharged': self.discharged,
            'checker_cmd': checker_cmd or 'cd /verif/coq && make props/Prop_%s.vo && coqc (Print Assumptions on every theorem); correspondence: coqc -Q /verif/coq EQ coq/run/%s_*.v' % (self.pid, self.pid),
            'trusted_base': (trusted or []) + (['Q-run = R-model on the shipped rationals: machine-checked per model function (props/Prop_Transfer.v, %d theorems rebuilt this run); the model-vs-code correspondence and, where a transcendental kernel is shipped as a table, its per-case enclosure remain' % self.extra['transfer_theorems_rebuilt']] if self.extra.get('transfer_theorems_rebuilt') else []) + ['axioms reported by Print Assumptions this run: ' + (', '.join(sorted(self.axioms)) or 'none (closed under the global context)')],
            'evaluations': max(len(self.cases), 1), 'distinct_nontrivial': max(len(distinct), 0),
            'rule': rule, 'samples': samples or ['(no correspondence cases)'],
            'input_distribution': dist,
        }
        cov.update({k: v for k, v in self.extra.items() if not k.startswith('_')})
        ev = {'property_id': self.pid, 'tier': self.tier, 'seed': self.seed, 'level': level, 'coverage': cov,
              'assumptions': assumptions or [], 'wall_s': round(time.time() - self.t0, 2),
              'violations': len(self.violations), 'known_findings_hit': self.known_hits, 'notes': self.notes[:20]}
        json.dump(ev, open(os.path.join(EVID, '%s.json' % self.pid), 'w'), indent=1)
        print('%s %s tier=%s seed=%d theorems=%d/%d cases=%d distinct_nontrivial=%d violations=%d wall=%.1fs' % (
            'FAIL' if self.violations else 'OK', self.pid, self.tier, self.seed, self.discharged, self.obligations,
            len(self.cases), len(distinct), len(self.violations), time.time() - self.t0), flush=True)
        return 1 if self.violations else 0


def guarded(fn, *a, **kw):
    """call an implementation function; turn any exception into an ImplError value (returned, not raised)"""
    try:
        return fn(*a, **kw)
    except Exception as e:  # noqa
        return ImplError('%s: %s' % (type(e).__name__, e))


def _snap(x):
    """snapshot of the array content reachable from one argument (ndarray, or an eqsig Signal-like object with .values)"""
    import numpy as np
    if isinstance(x, np.ndarray):
        return ('nd', x.dtype.str, x.shape, x.tobytes())
    v = getattr(x, '_values', None)
    if isinstance(v, np.ndarray):
        return ('sig', v.dtype.str, v.shape, v.tobytes())
    return None


def _same(r1, r2):
    import numpy as np
    if isinstance(r1, (tuple, list)) and isinstance(r2, (tuple, list)):
        return len(r1) == len(r2) and all(_same(a, b) for a, b in zip(r1, r2))
    try:
        a1, a2 = np.asarray(r1), np.asarray(r2)
        if a1.dtype == object or a2.dtype == object:
            return True          # not comparable generically (objects): no verdict
        return a1.shape == a2.shape and bool(np.array_equal(a1, a2, equal_nan=True))
    except Exception:  # noqa
        return True


def guarded_pure(fn, *a, **kw):
    """for functions the property treats as pure: call, check that no ndarray argument (or Signal argument's record) was
    changed bit for bit, call again on the very same argument objects and check that the result is identical.
    Returns the first result, or an ImplError value describing the mutation / non-repeatability / exception."""
    before = [_snap(x) for x in a] + [_snap(x) for x in kw.values()]
    try:
        r1 = fn(*a, **kw)
    except Exception as e:  # noqa
        return ImplError('%s: %s' % (type(e).__name__, e))
    after = [_snap(x) for x in a] + [_snap(x) for x in kw.values()]
    for i, (b, c) in enumerate(zip(before, after)):
        if b != c:
            return ImplError('InputMutated: argument %d was modified by the call (bitwise comparison before/after)' % i)
    # the caller owns what it gets back: overwrite the returned arrays (unless one IS an argument's own record, which a
    # function may legitimately hand back) and ask again -- a result served from a memo that the first result aliases
    # comes back changed
    import copy
    import numpy as np
    keep = copy.deepcopy(r1)
    ins = [x for x in list(a) + list(kw.values()) if isinstance(x, np.ndarray)]
    ins += [v for v in (getattr(x, '_values', None) for x in list(a) + list(kw.values())) if isinstance(v, np.ndarray)]
    scribbled = 0
    for o in (r1 if isinstance(r1, (tuple, list)) else [r1]):
        if isinstance(o, np.ndarray) and o.size and o.dtype.kind in 'fiuc' and not any(np.may_share_memory(o, i) for i in ins):
            try:
                o += 1
                scribbled += 1
            except Exception:  # noqa  (read-only result: nothing to overwrite)
                pass
    after = [_snap(x) for x in a] + [_snap(x) for x in kw.values()]
    for i, (b, c) in enumerate(zip(before, after)):
        if b != c:
            return ImplError('OutputAliasesInput: overwriting the returned array changed argument %d' % i)
    try:
        r2 = fn(*a, **kw)
    except Exception as e:  # noqa
        return ImplError('SecondCall%s: %s' % (type(e).__name__, e))
    if not _same(keep, r2):
        return ImplError('NotRepeatable: a second call on the same argument objects returned a different result'
                         + (' (after the caller overwrote the first returned array in place)' if scribbled else ''))
    return keep
