"""C04 — derived quantities of a Signal/AccSignal never go stale.

The tie drives real eqsig.Signal / eqsig.AccSignal objects along operation histories.  After every operation the
object's cache flags are recorded; every read is repeated (idempotence) and compared with the same read on a freshly
constructed object with the same values, dt and settings; every mutator / setter is also applied to such a fresh object
and the resulting sources are compared; after the history every public derived quantity is compared with a fresh
object.  All comparisons (flags against the model of coq/model/M_cache.v, floats against floats) are made inside Coq
(coq/model/K_C04.v); Python only records.
"""
import warnings
import numpy as np
from harness import core, gens
from harness.core import Case

RULE = ('exhaustive: breadth-first exploration of the flag states the implementation reaches (AccSignal: 7 flags, Signal: 2), every '
        'operation of the alphabet (21 reads, 10 argument-less methods, 16 mutator forms, 6 smoothing-frequency changes, 4 response-period changes) '
        'applied in every reached state on an 8-sample record, flags compared with the model after every step, the last operation compared with a fresh '
        'object (read = fresh read, repeated read identical, sources untouched by reads; mutator/setter result = result on a fresh object) and a final sweep of '
        '13 public quantities (one per stored array) against a fresh object; the visited flag states must be exactly the model-reachable ones (60 / 3); '
        'the staleness pattern over the observational cache state: [read or generate; change; sweep] for every read x every mutator/setter (thorough: every ordered pair of reads first); '
        'every sweep reads everything twice, the second time in reverse order; '
        'random histories (length <= 16 quick / 40 thorough) on three kinds of record (random, shipped motion slice, integer ramp) with all comparisons at every step; '
        'tolerances: 0 for repeated reads and untouched sources, 2^-40 relative for derived quantities against a fresh object, 1e-9 for mutator results (LAPACK inside); '
        'non-trivial = some cache flag was set before the last operation (exhaustive) / the history contains read -> change -> read (random); '
        'static: eqsig/single.py re-translated into per-method cache-event summaries (every method x every flag state) and re-proved equal to the summaries of the model (Prop_C04_events)')
TRUSTED = [
    'Coq 8.16.1 kernel + vm_compute; primitive binary64 floats are used only as carriers of literals (hex literal -> Prim2SF -> exact rational), no float arithmetic',
    'hand-written model coq/model/M_cache.v (operation programs read off eqsig/single.py); tie = flag-trace correspondence of this run (model/K_C04.v) '
    'and, statically, translator/py2coq_cache_events.py (Python ast -> coq/gen/Gen_cache_events.v, fail-closed, regenerated on this run): per method and class the '
    'flag effects / rewritten sources / cached reads / returned slot / recipes must equal those read off the model (props/Prop_C04_events.v, finite enumeration over all flag states); '
    'trusted there: the attribute tables of the translator, its reading of Python name resolution, and that functions of other modules do not write into array arguments',
    'numeric functions, value transformers and setting transformers are uninterpreted in the theorems (their meaning is C03/C06/C07/C08/C17)',
    'contract inplace_keeps_length on the in-place mutators (validated here by npts/time comparisons with a fresh object)',
    'operations outside the alphabet (parameterised generators xi=, band=, p2_plus=, n=, trap=False; calls that raise) are not covered',
    'reading private attributes _cached_* to observe the flags',
    'Python harness',
]

SIG_READS = ['npts', 'time', 'values', 'smooth_fa_freqs', 'smooth_fa_frequencies', 'smooth_freq_range', 'smooth_freq_points',
             'fa_spectrum', 'fa_spectrum_abs', 'fa_freqs', 'fa_frequencies', 'smooth_fa_spectrum']
ACC_READS = ['response_times', 's_a', 's_v', 's_d', 'velocity', 'displacement', 'pga', 'pgv', 'pgd']
# final sweep: one public view per separately stored array (values / settings are what the fresh object is built from)
SWEEP_SIG = ['npts', 'time', 'fa_spectrum', 'fa_freqs', 'smooth_fa_spectrum']
SWEEP_ACC = SWEEP_SIG + ['s_a', 's_v', 's_d', 'velocity', 'displacement', 'pga', 'pgv', 'pgd']


# ------------------------------------------------------------------ float encoding
def fhex(x):
    x = float(x)
    if x != x:
        return 'nan'
    if x == float('inf'):
        return 'infinity'
    if x == float('-inf'):
        return 'neg_infinity'
    return x.hex()


def flist(xs):
    return '[' + '; '.join(fhex(x) for x in xs) + ']%float'


def flat(x):
    """a public value as a flat list of Python floats (complex -> re, im interleaved)"""
    if x is None:
        raise ValueError('read returned None')
    if isinstance(x, tuple):
        out = []
        for e in x:
            out.extend(flat(e))
        return out
    a = np.asarray(x)
    if np.iscomplexobj(a):
        a = a.ravel()
        out = np.empty(2 * len(a))
        out[0::2] = a.real
        out[1::2] = a.imag
        return [float(v) for v in out]
    return [float(v) for v in a.astype(float).ravel()]


def cm(obs, fresh, tol):
    a, b = flist(obs), flist(fresh)
    if a == b:
        return 'cme %s %s' % (a, tol)      # same literal text on both sides: written once (cme l t = cm l l t)
    return 'cm %s %s %s' % (a, b, tol)


# ------------------------------------------------------------------ the operation alphabet
class Op:
    def __init__(self, name, coq, cat, kinds, mkargs, call):
        self.name, self.coq, self.cat, self.kinds, self.mkargs, self.call = name, coq, cat, kinds, mkargs, call


def _noargs(rng, obj):
    return {}


HANDED = []     # arrays the harness (the caller) handed to the object in the current call


def _arr(x):
    """an array argument owned by the caller: after the call the caller re-uses its buffer (see call_op)"""
    a = np.array(x, dtype=float)
    HANDED.append(a)
    return a


def _arr_rt(x):
    """settings arrays (smoothing frequencies, response periods): the unchanged code keeps a reference to the caller's array
    on some paths (response_times=, gen_smooth_fa_spectrum(smooth_fa_freqs=)) and copies on others; the properties speak
    of the caller's VALUES array only (C05), so a caller writing into a settings array afterwards is outside them and
    these arrays are not overwritten"""
    return np.array(x, dtype=float)


def call_op(op, obj, args, caller_reuses_buffers=True):
    """one public call; afterwards the caller overwrites, in place, every array it passed in.  An object that kept a
    reference instead of its own copy now reports values that no operation on it produced, with its caches untouched."""
    del HANDED[:]
    try:
        return op.call(obj, args)
    finally:
        if caller_reuses_buffers:
            for a in HANDED:
                if a.size and a.flags.writeable:
                    a *= -3.5
                    a += 11.0
        del HANDED[:]


def _freqs(rng, k=None):
    k = k or rng.randint(2, 4)
    f = sorted(round(rng.uniform(0.2, 3.0), 3) for _ in range(k))
    for i in range(1, k):
        if f[i] <= f[i - 1]:
            f[i] = f[i - 1] + 0.05
    return f


def _periods(rng):
    k = rng.randint(2, 3)
    t = sorted(round(rng.uniform(0.3, 2.0), 3) for _ in range(k))
    for i in range(1, k):
        if t[i] <= t[i - 1]:
            t[i] = t[i - 1] + 0.1
    return t


def _series(rng, n):
    return [round(rng.uniform(-2, 2), 4) for _ in range(n)]


def _tz(rng, obj, allow_none_end=True):
    n, dt = obj.npts, obj.dt
    si = rng.randint(1, max(1, n // 3))
    ei = rng.randint(si + 2, n - 1)
    if allow_none_end and rng.random() < 0.3:
        return [si * dt, None]
    return [si * dt, ei * dt]


def build_ops():
    ops = []
    for r in SIG_READS:
        ops.append(Op(r, 'KR R_' + r, 'read', 'SA', _noargs, (lambda o, a, r=r: getattr(o, r))))
    for r in ACC_READS:
        ops.append(Op(r, 'KR R_' + r, 'read', 'A', _noargs, (lambda o, a, r=r: getattr(o, r))))
    for g, kinds in (('generate_fa_spectrum', 'SA'), ('gen_fa_spectrum', 'SA'), ('generate_smooth_fa_spectrum', 'SA'),
                     ('gen_smooth_fa_spectrum', 'SA'), ('generate_response_spectrum', 'A'), ('gen_response_spectrum', 'A'),
                     ('generate_displacement_and_velocity_series', 'A'), ('response_series', 'A'), ('clear_cache', 'SA'),
                     ('reset_all_motion_stats', 'A')):
        ops.append(Op(g + '()', 'KG G_' + g, 'gen', kinds, _noargs, (lambda o, a, g=g: getattr(o, g)())))

    def M(name, coqname, kinds, mkargs, call):
        ops.append(Op(name, 'KM M_' + coqname, 'mut', kinds, mkargs, call))

    M('reset_values', 'reset_values', 'SA',
      lambda rng, o: {'new_values': _series(rng, rng.choice([o.npts, o.npts, o.npts + 1, max(8, o.npts - 1)]))},
      lambda o, a: o.reset_values(_arr(a['new_values'])))
    M('add_constant', 'add_constant', 'SA', lambda rng, o: {'constant': round(rng.uniform(-1, 1), 3) or 0.5},
      lambda o, a: o.add_constant(a['constant']))
    M('add_series', 'add_series', 'SA', lambda rng, o: {'series': _series(rng, o.npts)},
      lambda o, a: o.add_series(_arr(a['series'])))

    def _add_signal(o, a):
        import eqsig
        o.add_signal(eqsig.Signal(_arr(a['values']), o.dt))
    M('add_signal', 'add_signal', 'SA', lambda rng, o: {'values': _series(rng, o.npts)}, _add_signal)

    def _butter_args(rng, o):
        nyq = 0.5 / o.dt
        hi = round(rng.uniform(0.3, 0.7) * nyq, 4)
        if o.npts > 12 and rng.random() < 0.4:
            return {'cut_off': [round(0.1 * nyq, 4), hi], 'filter_order': 1}
        if rng.random() < 0.5:
            return {'cut_off': [None, hi], 'filter_order': 1}
        return {'cut_off': [round(0.2 * nyq, 4), None], 'filter_order': 1}
    M('butter_pass', 'butter_pass', 'SA', _butter_args,
      lambda o, a: o.butter_pass(tuple(a['cut_off']), filter_order=a['filter_order']))
    M('remove_average', 'remove_average', 'SA', lambda rng, o: {'section': rng.choice([-1, -1, 3, o.npts])},
      lambda o, a: o.remove_average(section=a['section']))
    M('remove_poly', 'remove_poly', 'SA', lambda rng, o: {'poly_fit': rng.choice([0, 1, 2])},
      lambda o, a: o.remove_poly(poly_fit=a['poly_fit']))
    M('running_average', 'running_average', 'SA', lambda rng, o: {'width': rng.choice([2, 3, 4])},
      lambda o, a: o.running_average(width=a['width']))
    M('correct_me', 'correct_me', 'A', _noargs, lambda o, a: o.correct_me())

    def _fw(rng, o):
        # width = int(1 / (freq_window * dt)) must be >= 1
        w = rng.choice([2, 3, 4])
        return {'freq_window': 1.0 / (w * o.dt) * 0.999}
    M('remove_rolling_average[velocity]', 'remove_rolling_average_velocity', 'A', _fw,
      lambda o, a: o.remove_rolling_average(mtype='velocity', freq_window=a['freq_window']))
    M('remove_rolling_average[acceleration]', 'remove_rolling_average_values', 'A', _fw,
      lambda o, a: o.remove_rolling_average(mtype='acceleration', freq_window=a['freq_window']))
    M('rebase_displacement', 'rebase_displacement', 'A', _noargs, lambda o, a: o.rebase_displacement())
    M('set_zero_residual_velocity()', 'set_zero_residual_velocity', 'A', _noargs, lambda o, a: o.set_zero_residual_velocity())
    M('set_zero_residual_velocity(timezone)', 'set_zero_residual_velocity_tz', 'A', lambda rng, o: {'timezone': _tz(rng, o)},
      lambda o, a: o.set_zero_residual_velocity(timezone=tuple(a['timezone'])))
    M('set_zero_residual_displacement()', 'set_zero_residual_displacement', 'A', _noargs,
      lambda o, a: o.set_zero_residual_displacement())
    M('set_zero_residual_displacement_and_velocity', 'set_zero_residual_displacement_and_velocity', 'A',
      lambda rng, o: {'timezone': (None if rng.random() < 0.5 else _tz(rng, o))},
      lambda o, a: o.set_zero_residual_displacement_and_velocity(timezone=(None if a['timezone'] is None else tuple(a['timezone']))))

    def S(name, coqname, mkargs, call):
        ops.append(Op(name, 'KS S_' + coqname, 'sf', 'SA', mkargs, call))

    def _set(attr):
        def f(o, a):
            setattr(o, attr, _arr_rt(a['freqs']))
        return f
    S('smooth_fa_freqs=', 'smooth_fa_freqs', lambda rng, o: {'freqs': _freqs(rng)}, _set('smooth_fa_freqs'))
    S('smooth_fa_frequencies=', 'smooth_fa_frequencies', lambda rng, o: {'freqs': _freqs(rng)}, _set('smooth_fa_frequencies'))

    def _set_range(o, a):
        o.smooth_freq_range = tuple(a['limits'])
    S('smooth_freq_range=', 'smooth_freq_range', lambda rng, o: {'limits': _freqs(rng, 2)}, _set_range)

    def _set_points(o, a):
        o.smooth_freq_points = a['points']
    S('smooth_freq_points=', 'smooth_freq_points', lambda rng, o: {'points': rng.randint(2, 5)}, _set_points)
    S('set_smooth_fa_frequecies_by_range', 'set_smooth_fa_frequecies_by_range',
      lambda rng, o: {'limits': _freqs(rng, 2), 'n_points': rng.randint(2, 5)},
      lambda o, a: o.set_smooth_fa_frequecies_by_range(tuple(a['limits']), a['n_points']))
    S('gen_smooth_fa_spectrum(smooth_fa_freqs)', 'gen_smooth_fa_spectrum', lambda rng, o: {'freqs': _freqs(rng)},
      lambda o, a: o.gen_smooth_fa_spectrum(smooth_fa_freqs=_arr_rt(a['freqs'])))

    def T(name, coqname, call):
        ops.append(Op(name, 'KT T_' + coqname, 'rt', 'A', lambda rng, o: {'response_times': _periods(rng)}, call))

    def _set_rt(o, a):
        o.response_times = _arr_rt(a['response_times'])
    T('response_times=', 'response_times', _set_rt)
    T('gen_response_spectrum(response_times)', 'gen_response_spectrum', lambda o, a: o.gen_response_spectrum(response_times=_arr_rt(a['response_times'])))
    T('generate_response_spectrum(response_times)', 'generate_response_spectrum',
      lambda o, a: o.generate_response_spectrum(response_times=_arr_rt(a['response_times'])))
    T('response_series(response_times)', 'response_series', lambda o, a: o.response_series(response_times=_arr_rt(a['response_times'])))
    return ops


OPS = build_ops()
OPS_BY_NAME = {o.name: o for o in OPS}


# ------------------------------------------------------------------ objects
def construct(kind, values, dt, sf, rt):
    import eqsig
    v, f = np.array(values, dtype=float), np.array(sf, dtype=float)
    if kind == 'A':
        r = np.array(rt, dtype=float)
        o = eqsig.AccSignal(v, dt, smooth_fa_freqs=f, response_times=r)
    else:
        o = eqsig.Signal(v, dt, smooth_fa_freqs=f)
    v *= -3.5                                 # the caller re-uses its values buffer: the object has its own copy (C05)
    v += 11.0
    return o


def snapshot(kind, obj):
    return {'values': np.array(obj.values, dtype=float).copy(), 'dt': obj.dt,
            'sf': np.array(obj.smooth_fa_freqs, dtype=float).copy(),
            'rt': (np.array(obj.response_times, dtype=float).copy() if kind == 'A' else None)}


def fresh(kind, snap):
    return construct(kind, snap['values'], snap['dt'], snap['sf'], snap['rt'])


def mask(kind, obj):
    m = (1 if obj._cached_fa else 0) + (2 if obj._cached_smooth_fa else 0)
    if kind == 'A':
        m += (4 if obj._cached_response_spectra else 0) + (8 if obj._cached_disp_and_velo else 0)
        p = obj._cached_params
        m += (16 if 'pga' in p else 0) + (32 if 'pgv' in p else 0) + (64 if 'pgd' in p else 0)
    return m


def src_cmps(kind, obj, snap):
    c = [cm(flat(obj.values), flat(snap['values']), '0'), cm(flat(obj.smooth_fa_freqs), flat(snap['sf']), '0')]
    if kind == 'A':
        c.append(cm(flat(obj.response_times), flat(snap['rt']), '0'))
    return c


class Skip(Exception):
    """the operation raises on a fresh object too: not a valid call"""


def do_step(kind, obj, op, args, full):
    """apply one operation; returns the list of comparisons (Coq text). Raises Skip / ImplError."""
    if not full:
        call_op(op, obj, args)
        return []
    snap = snapshot(kind, obj)
    cmps = []
    if op.cat == 'read':
        first = flat(call_op(op, obj, args))
        second = flat(call_op(op, obj, args))
        fr = flat(call_op(op, fresh(kind, snap), args))
        cmps.append(cm(second, first, '0'))
        cmps.append(cm(first, fr, 'T40'))
        cmps.extend(src_cmps(kind, obj, snap))
        return cmps
    clone = fresh(kind, snap)
    e1 = e2 = None
    r1 = r2 = None
    try:
        r2 = call_op(op, clone, args, caller_reuses_buffers=False)
    except Exception as e:  # noqa
        e2 = e
    try:
        r1 = call_op(op, obj, args)
    except Exception as e:  # noqa
        e1 = e
    if e1 is not None and e2 is not None:
        raise Skip('%s: %s' % (type(e2).__name__, e2))
    if e1 is not None or e2 is not None:
        raise core.ImplError('%s raises only on the %s object: %r' % (op.name, 'used' if e1 is not None else 'fresh', e1 or e2))
    if op.cat == 'gen':
        cmps.extend(src_cmps(kind, obj, snap))
        if r1 is not None:
            cmps.append(cm(flat(r1), flat(r2), 'T40'))
    elif op.cat == 'mut':
        cmps.append(cm(flat(obj.values), flat(clone.values), 'T9'))
        cmps.append(cm([obj.npts], [clone.npts], '0'))
    elif op.cat == 'sf':
        cmps.append(cm(flat(obj.smooth_fa_freqs), flat(clone.smooth_fa_freqs), '0'))
        cmps.append(cm(flat(obj.values), flat(snap['values']), '0'))
    elif op.cat == 'rt':
        cmps.append(cm(flat(obj.response_times), flat(clone.response_times), '0'))
        cmps.append(cm(flat(obj.values), flat(snap['values']), '0'))
        if r1 is not None:
            cmps.append(cm(flat(r1), flat(r2), 'T40'))
    return cmps


def sweep(kind, obj):
    snap = snapshot(kind, obj)
    fr = fresh(kind, snap)
    out = []
    names = SWEEP_ACC if kind == 'A' else SWEEP_SIG
    ref = {r: flat(getattr(fr, r)) for r in names}
    for r in names:
        out.append(cm(flat(getattr(obj, r)), ref[r], 'T40'))
    # second pass in the opposite order, after everything has been read once: no read may have changed another observable
    for r in reversed(names):
        out.append(cm(flat(getattr(obj, r)), ref[r], 'T40'))
    return out


def run_history(kind, base, hist, full_from):
    """drive a new object along hist = [(opname, args)]; comparisons are recorded from step index full_from on.
    returns (steps_text, masks, sweep_text, executed_hist)"""
    obj = construct(kind, base['values'], base['dt'], base['sf'], base['rt'])
    steps, masks, done = [], [], []
    for i, (name, args) in enumerate(hist):
        op = OPS_BY_NAME[name]
        try:
            cmps = do_step(kind, obj, op, args, i >= full_from)
        except Skip:
            if i < full_from:
                raise
            continue
        m = mask(kind, obj)
        masks.append(m)
        done.append((name, args))
        steps.append('stp (%s) %d [%s]' % (op.coq, m, '; '.join(cmps)))
    sw = sweep(kind, obj)
    return steps, masks, sw, done


def case_of(kind, base, hist, full_from, site, klass, nontrivial):
    steps, masks, sw, done = run_history(kind, base, hist, full_from)
    coq = 'mkc [%s] [%s]' % ('; '.join(steps), '; '.join(sw))
    rp = {'function': site, 'args': {'class': 'AccSignal' if kind == 'A' else 'Signal', 'values': list(map(float, base['values'])), 'dt': base['dt'],
                                     'smooth_fa_freqs': list(map(float, base['sf'])),
                                     'response_times': (list(map(float, base['rt'])) if base['rt'] is not None else None),
                                     'history': [[n, a] for n, a in done]},
          'impl': {'flags_after_each_step': masks}}
    return Case(coq, rp, site, nontrivial=nontrivial, klass=klass), masks, done


def base_record(rng, style, n=None):
    if style == 'random':
        n = n or 8
        v = np.array([round(rng.uniform(-3, 3), 4) for _ in range(n)])
        dt = 0.25
    elif style == 'motion':
        n = n or 24
        m, dt = gens.shipped_motion()
        s = rng.randrange(200, 1200)
        v = np.array(m[s:s + n], dtype=float)
    else:
        n = n or 16
        v = np.array([float((3 * i) % 7 - 3) for i in range(n)])
        dt = 0.5
    if not np.any(v):
        v[0] = 1.0
    return {'values': v, 'dt': dt, 'sf': _arr_rt(_freqs(rng, 3)), 'rt': _arr_rt(_periods(rng))}


def explore(rep, rng, kind, cases):
    """breadth-first exploration of the implementation's flag states; every (state, operation) becomes a case"""
    cls = 'AccSignal' if kind == 'A' else 'Signal'
    base = base_record(rng, 'random')
    probe = construct(kind, base['values'], base['dt'], base['sf'], base['rt'])
    ops = [o for o in OPS if kind in o.kinds]
    fixed = {o.name: o.mkargs(rng, probe) for o in ops}
    if 'reset_values' in fixed:
        fixed['reset_values'] = {'new_values': _series(rng, 9)}
    seen = {0: []}
    queue = [0]
    while queue:
        m0 = queue.pop(0)
        for o in ops:
            hist = seen[m0] + [(o.name, fixed[o.name])]
            site = '%s.%s' % (cls, o.name)
            try:
                c, masks, done = case_of(kind, base, hist, len(hist) - 1, site, '%s/exhaustive/%s' % (cls, o.cat), m0 != 0)
            except core.ImplError as e:
                rep.violation(site, {'function': site, 'args': {'values': list(map(float, base['values'])), 'dt': base['dt'], 'history': [[n, a] for n, a in hist]},
                                     'impl_error': str(e)})
                continue
            if len(done) != len(hist):
                rep.unchecked('harness:%s' % site, 'operation %s raises on a fresh object with the fixed arguments %r' % (o.name, fixed[o.name]))
                continue
            cases.append(c)
            m1 = masks[-1]
            if m1 not in seen:
                seen[m1] = hist
                queue.append(m1)
    return sorted(seen)


def read_change_read(rep, rng, kind, cases, depth):
    """the staleness pattern itself, over the observational cache state: every read (or argument-less generate_* call),
    depth 1 or every ordered pair of reads (depth 2), then every change (mutator / setter), then the sweep"""
    cls = 'AccSignal' if kind == 'A' else 'Signal'
    base = base_record(rng, 'random')
    probe = construct(kind, base['values'], base['dt'], base['sf'], base['rt'])
    ops = [o for o in OPS if kind in o.kinds]
    fixed = {o.name: o.mkargs(rng, probe) for o in ops}
    if 'reset_values' in fixed:
        fixed['reset_values'] = {'new_values': _series(rng, 10)}
    readers = [o for o in ops if o.cat in ('read', 'gen')]
    changes = [o for o in ops if o.cat in ('mut', 'sf', 'rt')]
    if depth == 1:
        prefixes = [[r] for r in readers]
    else:
        rr = [o for o in ops if o.cat == 'read']
        prefixes = [[r1, r2] for r1 in rr for r2 in rr if r1 is not r2]
    for pre in prefixes:
        for c in changes:
            hist = [(o.name, fixed[o.name]) for o in pre + [c]]
            site = '%s.%s' % (cls, c.name)
            try:
                cs, masks, done = case_of(kind, base, hist, 0, site, '%s/read-change-read/%d' % (cls, depth), True)
            except core.ImplError as e:
                rep.violation(site, {'function': site, 'args': {'values': list(map(float, base['values'])), 'dt': base['dt'], 'history': [[n, a] for n, a in hist]},
                                     'impl_error': str(e)})
                continue
            if len(done) == len(hist):
                cases.append(cs)


def random_histories(rep, rng, kind, cases, count, maxlen):
    cls = 'AccSignal' if kind == 'A' else 'Signal'
    ops = [o for o in OPS if kind in o.kinds]
    bycat = {}
    for o in ops:
        bycat.setdefault(o.cat, []).append(o)
    cats = ['read'] * 10 + ['mut'] * 5 + ['sf'] * 2 + (['rt'] * 2 if kind == 'A' else []) + ['gen'] * 2
    for k in range(count):
        style = ['random', 'motion', 'ramp'][k % 3]
        base = base_record(rng, style, n=rng.choice([8, 12, 16]) if style == 'random' else None)
        L = rng.randint(3, maxlen)
        # the arguments depend on the current length: generate them against a shadow object
        shadow = construct(kind, base['values'], base['dt'], base['sf'], base['rt'])
        hist = []
        pattern = 0
        for i in range(L):
            o = rng.choice(bycat[rng.choice(cats)])
            a = o.mkargs(rng, shadow)
            try:
                call_op(o, shadow, a)
            except Exception:  # noqa
                continue
            hist.append((o.name, a))
            if o.cat == 'read' and pattern in (0, 2):
                pattern += 1
            elif o.cat in ('mut', 'sf', 'rt') and pattern == 1:
                pattern = 2
        site = '%s.history' % cls
        try:
            c, masks, done = case_of(kind, base, hist, 0, site, '%s/random/%s' % (cls, style), pattern >= 3)
        except core.ImplError as e:
            rep.violation(site, {'function': site, 'args': {'values': list(map(float, base['values'])), 'dt': base['dt'], 'history': [[n, a] for n, a in hist]},
                                 'impl_error': str(e)})
            continue
        cases.append(c)


def regen_events():
    """re-translate eqsig/single.py into coq/gen/Gen_cache_events.v (fail closed): the `*_are_source` theorems of
    Prop_C04_events are then re-proved against the code that is in the repo now"""
    import os, sys
    try:
        sys.path.insert(0, os.path.join(core.VERIF, 'translator'))
        import py2coq_cache_events
        py2coq_cache_events.regenerate(repo=core.REPO)
    except Exception as e:  # noqa
        return 'py2coq_cache_events: %s: %s' % (type(e).__name__, e)
    return None


def run(rep, rng, tier):
    warnings.simplefilter('ignore')
    np.seterr(all='ignore')
    import time
    t0 = time.time()
    rep.prove('Prop_C04', targets=['props/Prop_C04.vo', 'model/K_C04.vo'])
    # source-text tie: the per-method cache-event summaries translated from eqsig/single.py must be the model's
    ev_err = regen_events()
    ev_ok = rep.prove('Prop_C04_events', gen_failed=ev_err)
    if ev_err is not None:
        print('C04: cache-event translator refused: %s' % ev_err, flush=True)
    elif not ev_ok:
        # name the operations whose translated summary differs from the model (the definitions compile even when the theorem fails)
        okb, _ = core.make(['model/K_C04_events.vo'])
        if okb:
            d = core.coq_eval('model.K_C04_events', '(map (fun x => fst (fst x)) failing_acc, map (fun x => fst (fst x)) failing_sig)',
                              extra_imports='From EQ Require Import model.M_cache model.K_C04 model.M_cache_events gen.Gen_cache_events.\n')
            rep.extra['event_summaries_differ'] = d
            rep.extra['event_summaries_differ_detail'] = core.coq_eval(
                'model.K_C04_events', '(failing_acc, failing_sig)',
                extra_imports='From EQ Require Import model.M_cache model.K_C04 model.M_cache_events gen.Gen_cache_events.\n')[:6000]
            print('C04: translated cache-event summaries differ from model/M_cache.v for (AccSignal, Signal): %s' % d[:1500], flush=True)
    t1 = time.time()
    cases, cover = [], []
    for kind in ('A', 'S'):
        visited = explore(rep, rng, kind, cases)
        cls = 'AccSignal' if kind == 'A' else 'Signal'
        cover.append(Case('(%s, %s)' % ('true' if kind == 'A' else 'false', core.natlist(visited)),
                          {'function': cls + '.reachable_flag_states', 'args': {'class': cls}, 'impl': visited},
                          cls + '.reachable_flag_states', nontrivial=True, klass='coverage'))
        rep.extra.setdefault('flag_states_visited', {})[cls] = len(visited)
    for kind in ('A', 'S'):
        read_change_read(rep, rng, kind, cases, 1)
        if tier != 'quick':
            read_change_read(rep, rng, kind, cases, 2)
    nA, nS, L = (150, 40, 16) if tier == 'quick' else (2500, 500, 40)
    random_histories(rep, rng, 'A', cases, nA, L)
    random_histories(rep, rng, 'S', cases, nS, L)
    t2 = time.time()
    rep.extra['exhaustive'] = True
    rep.extra['exhaustive_space'] = 'every operation of the alphabet in every flag state the implementation reaches (and these are exactly the model-reachable states)'
    rep.correspond('model.K_C04', 'check_case', cases, describe='model_out (%s)', max_cases=400, max_bytes=900_000)
    rep.correspond('model.K_C04', 'chk_cover', cover)
    rep.extra['timing_s'] = {'prove': round(t1 - t0, 1), 'drive_implementation': round(t2 - t1, 1), 'coq_comparison': round(time.time() - t2, 1)}


def replay_call(replay):
    """re-run a recorded history on the implementation in core.REPO; prints flags and which reads differ from a fresh object"""
    warnings.simplefilter('ignore')
    np.seterr(all='ignore')
    a = replay['args']
    kind = 'A' if a['class'] == 'AccSignal' else 'S'
    base = {'values': _arr_rt(a['values']), 'dt': a['dt'], 'sf': _arr_rt(a['smooth_fa_freqs']),
            'rt': (_arr_rt(a['response_times']) if a['response_times'] is not None else None)}
    obj = construct(kind, base['values'], base['dt'], base['sf'], base['rt'])
    out = {'flags_after_each_step': []}
    for name, args in a['history']:
        call_op(OPS_BY_NAME[name], obj, args)     # as in the run: the caller's argument arrays are overwritten afterwards
        out['flags_after_each_step'].append(mask(kind, obj))
    fr = fresh(kind, snapshot(kind, obj))
    out['final'] = {r: {'object': flat(getattr(obj, r)), 'fresh_object': flat(getattr(fr, r))} for r in (SWEEP_ACC if kind == 'A' else SWEEP_SIG)}
    return out


def finish(rep):
    return rep.finish(rule=RULE, trusted=TRUSTED,
                      assumptions=['the numeric functions are deterministic functions of their inputs (a fresh object recomputes them)',
                                   'in-place mutators keep the number of samples (inplace_keeps_length)'])
