"""C08 — velocity/displacement are cumulative trapezoid integrals; peaks are max abs."""
import numpy as np
from harness import core, gens
from harness.core import q, qlist, cbool, Case, guarded, ImplError

RULE = ('cases = (entry point, trap, dt, record); exact domain: integer records x dyadic dt compared with tolerance 0; '
        'tolerance domain: float records (incl. the shipped motion) compared to 1e-10 of the series peak; '
        'array level also on non-contiguous float64 views of the record (column data[:, 1] of a 2-D table, every k-th sample a[::k]; the model is given the viewed numbers); '
        'non-trivial = record not identically zero and length >= 3; distinct by digest of (site, arguments)')
TRUSTED = [
    'Coq 8.16.1 kernel + vm_compute (no native_compute)',
    'hand-written model coq/model/M_displacements.v; tie = correspondence check (this run) through model/K_C08.v, and, for the array-level functions, '
    'translator/py2coq_numpy.py (re-run on every check) + the C08_*_is_source theorems: trusted there is only the translator\'s reading of each '
    'whitelisted NumPy/SciPy call as a lib/NpList.v primitive',
    'exact arithmetic: IEEE rounding/overflow/NaN not modelled (tolerance domain measures the distance, 1e-10 relative)',
    'Q-run vs R-theorems: same polymorphic definitions; Q->R homomorphism proved for cumsum/cumtrapz/map (lib/NpList.v), parametricity for the rest',
    'scipy.integrate.cumulative_trapezoid modelled by its formula (validated by the correspondence itself)',
    'Python harness: generators, exact rational encoding of floats, parsing of the single coqc answer line',
]


def mk_case(site, trap, dt, a, v, d, peaks, rtol):
    coq = '{| c_trap := %s; c_dt := %s; c_a := %s; c_v := %s; c_d := %s; c_peaks := %s; c_rtol := %s |}' % (
        cbool(trap), q(dt), qlist(a), qlist(v), qlist(d), qlist(peaks), q(rtol))
    rp = {'function': site, 'args': {'trap': trap, 'dt': dt, 'acceleration': list(map(float, a))},
          'impl': {'velocity': v, 'displacement': d, 'peaks_pga_pgv_pgd': peaks}}
    return Case(coq, rp, site, nontrivial=(len(a) >= 3 and any(x != 0 for x in a)), klass='%s/%s/%s' % (site, 'trap' if trap else 'rect', 'exact' if rtol == 0 else 'tol'))


def strided_view(a, how, dt):
    """float64 view of the numbers `a` whose stride is not 8 bytes: 'column' = the acceleration column data[:, 1] of a
    C-ordered (time, acceleration) table; 'every-k' = every k-th sample of a longer series whose other samples are different"""
    a = np.array(a, dtype=float)
    if how == 'column':
        data = np.column_stack([np.arange(len(a)) * dt + 7.0, a])
        view = data[:, 1]
    else:
        k = int(how.split('-')[1])
        base = np.repeat(a, k)
        base += np.arange(len(base)) % k * (np.abs(a).max() + 1.0)       # samples in between: not those of the record
        view = base[::k]
    assert view.dtype == np.float64 and not view.flags['C_CONTIGUOUS'] or len(a) < 2
    assert np.array_equal(view, a)
    return view


def impl_array(a, dt, trap, dtype=float):
    """array-level call, checked for purity: the record (stored as float64, integers or float32: the integrals are those
    of the same numbers) must not be modified, and a second call on the same array object must return the same series"""
    import eqsig
    from eqsig.displacements import calc_velo_and_disp_from_accel_arr
    if dtype in (list, tuple):       # plain Python containers are accepted at array level
        a = dtype(float(x) for x in a)
    elif isinstance(dtype, str):     # the record handed over as a NON-CONTIGUOUS float64 view (the record is the viewed numbers)
        a = strided_view(a, dtype, dt)
    else:
        a = np.array(a, dtype=float).astype(dtype)
    a0 = np.array(a, dtype=float)
    r = core.guarded_pure(calc_velo_and_disp_from_accel_arr, a, dt, trap=(np.bool_(True) if trap == 'np.True_' else trap))
    if isinstance(r, ImplError):
        raise RuntimeError(str(r))
    v, d = r
    pk = [eqsig.im.calc_peak(a0), eqsig.im.calc_peak(np.array(v, dtype=float)), eqsig.im.calc_peak(np.array(d, dtype=float))]
    return np.array(v, dtype=float), np.array(d, dtype=float), pk


def impl_object(a, dt, dtype=float):
    import eqsig
    src = np.array(a, dtype=float).astype(dtype)
    s = eqsig.AccSignal(src, dt)
    out = np.array(s.velocity, dtype=float), np.array(s.displacement, dtype=float), [s.pga, s.pgv, s.pgd]
    # the caller re-uses the array it constructed the object from: the object's record, and with it the series and peaks
    # that must satisfy the increment identities with respect to that record, stay what they were
    src *= -2
    src += 3
    again = np.array(s.velocity, dtype=float), np.array(s.displacement, dtype=float), [s.pga, s.pgv, s.pgd]
    if not np.array_equal(np.array(s.values, dtype=float), np.array(a, dtype=float)):
        raise RuntimeError('RecordChangedUnderObject: writing into the array the AccSignal was constructed from changed the object\'s '
                           'record (velocity/displacement/peaks are those of the old record)')
    if not (np.array_equal(out[0], again[0]) and np.array_equal(out[1], again[1]) and out[2] == again[2]):
        raise RuntimeError('NotRepeatable: velocity/displacement/peaks changed between two reads with no operation on the object')
    s.generate_displacement_and_velocity_series(trap=False)     # must leave the record itself untouched
    if not np.array_equal(np.array(s.values, dtype=float), np.array(a, dtype=float)):
        raise RuntimeError('InputMutated: generate_displacement_and_velocity_series(trap=False) changed the object\'s record')
    return out


def impl_object_rect(a, dt, dtype=float):
    """trapezoid integration switched off at object level, on a new object: the series the object then reports (and the
    peaks taken from them) are the rectangle-rule ones"""
    import eqsig
    s = eqsig.AccSignal(np.array(a, dtype=float).astype(dtype), dt)
    s.generate_displacement_and_velocity_series(trap=False)
    out = np.array(s.velocity, dtype=float), np.array(s.displacement, dtype=float), [s.pga, s.pgv, s.pgd]
    again = np.array(s.velocity, dtype=float), np.array(s.displacement, dtype=float), [s.pga, s.pgv, s.pgd]
    if not (np.array_equal(out[0], again[0]) and np.array_equal(out[1], again[1]) and out[2] == again[2]):
        raise RuntimeError('NotRepeatable: velocity/displacement/peaks changed between two reads with no operation on the object')
    if not np.array_equal(np.array(s.values, dtype=float), np.array(a, dtype=float)):
        raise RuntimeError('InputMutated: generate_displacement_and_velocity_series(trap=False) changed the object\'s record')
    return out


def impl_object_history(a, dt, how):
    """the derived series are first read on ANOTHER record, the record is then changed through the public API and the
    derived series are read again; returns them together with the object's current record"""
    import eqsig
    a = np.array(a, dtype=float)
    other = a * 0.5 + 1.0
    s = eqsig.AccSignal(other, dt)
    _ = (s.velocity, s.displacement, s.pgv, s.pgd, s.pga)
    if how == 'reset_values':
        s.reset_values(a)
    elif how == 'reset_values(shorter)':
        s.reset_values(a[:max(2, len(a) // 2)])
    elif how == 'add_series':
        s.add_series(a - other)
    elif how == 'running_average':          # writes the record without going through reset_values
        s.reset_values(a)
        _ = (s.velocity, s.displacement, s.pgv, s.pgd, s.pga)
        s.running_average(3)
    elif how == 'remove_rolling_average[acceleration]':   # the branch that edits the record in place (any mtype but 'velocity')
        s.reset_values(a)
        _ = (s.velocity, s.displacement, s.pgv, s.pgd, s.pga)
        s.remove_rolling_average(mtype='acceleration', freq_window=1.0 / (3 * dt) * 0.999)
    elif how == 'remove_rolling_average[velocity]':
        s.reset_values(a)
        _ = (s.velocity, s.displacement, s.pgv, s.pgd, s.pga)
        s.remove_rolling_average(mtype='velocity', freq_window=1.0 / (3 * dt) * 0.999)
    elif how == 'rebase_displacement':      # in-place edit of the record followed by clear_cache
        s.reset_values(a)
        _ = (s.velocity, s.displacement, s.pgv, s.pgd, s.pga)
        s.rebase_displacement()
    else:
        s.add_constant(-1.0)
        s.add_series(a * 0.5)
    return np.array(s.velocity), np.array(s.displacement), [s.pga, s.pgv, s.pgd], np.array(s.values, dtype=float)


STALE_PEAKS = []      # filled by impl_object_rect_after_reads, reported by run()
STALE_SITE = 'AccSignal.pgv/pgd[read; generate_displacement_and_velocity_series(trap=False); read again]'


def impl_object_rect_after_reads(a, dt):
    """the peaks are read first (memoised from the trapezoid series), then trapezoid integration is switched off on the same
    object: the series must be the rectangle-rule ones, and PGV/PGD the largest absolute values of the series the object
    now reports.  The series go to the Coq-side comparison; a memoised peak that is not the peak of the reported series
    is recorded separately (STALE_SITE)."""
    import eqsig
    a = np.array(a, dtype=float)
    s = eqsig.AccSignal(a, dt)
    before = [float(s.pgv), float(s.pgd)]
    s.generate_displacement_and_velocity_series(trap=False)
    v, d = np.array(s.velocity, dtype=float), np.array(s.displacement, dtype=float)
    now = [float(s.pgv), float(s.pgd)]
    want = [float(eqsig.im.calc_peak(v)), float(eqsig.im.calc_peak(d))]
    if now != want:
        STALE_PEAKS.append({'function': STALE_SITE, 'args': {'dt': dt, 'acceleration': list(map(float, a))},
                            'pgv_pgd_read_before': before, 'pgv_pgd_reported_after': now, 'peaks_of_the_reported_series': want})
    if not np.array_equal(np.array(s.values, dtype=float), a):
        raise RuntimeError('InputMutated: generate_displacement_and_velocity_series(trap=False) changed the object\'s record')
    return v, d, [float(s.pga)] + want


HOWS = ['reset_values', 'reset_values(shorter)', 'add_series', 'add_constant+add_series', 'running_average', 'rebase_displacement', 'remove_rolling_average[acceleration]', 'remove_rolling_average[velocity]']


def gen(rng, tier):
    n_exact, n_tol = (220, 40) if tier == 'quick' else (2500, 400)
    maxlen = 300 if tier == 'quick' else 600
    out = []
    for k in range(n_exact):
        n = gens.small_len(rng, 2, maxlen)
        a, style = gens.int_record(rng, n, amp=rng.choice([3, 20, 50]))
        dt = gens.dyadic_dt(rng, 1, 10)
        if k % 3 == 2 and k % 2 == 0:
            how = HOWS[(k // 6) % len(HOWS)]
            r = guarded(impl_object_history, a, dt, how)
            site, trap = 'AccSignal.velocity/displacement/pga/pgv/pgd[read; %s; read again]' % how, True
            if not isinstance(r, ImplError):
                a, r = r[3], r[:3]          # the model is given the object's current record
        elif k % 3 == 2:
            dty = [float, np.int64][(k // 18) % 2]      # k = 6m+5 here: (k // 3) is always odd, so alternate on m // 3
            if (k // 6) % 3 == 2:
                r = guarded(impl_object_rect_after_reads, a, dt)
                site, trap = 'AccSignal[pgv, pgd read]; generate_displacement_and_velocity_series(trap=False); velocity/displacement', False
            elif (k // 6) % 3 == 1:
                r = guarded(impl_object_rect, a, dt, dty)
                site, trap = 'AccSignal.generate_displacement_and_velocity_series(trap=False); velocity/displacement/pga/pgv/pgd' + ('' if dty is float else '[int record]'), False
            else:
                r = guarded(impl_object, a, dt, dty)
                site, trap = 'AccSignal.velocity/displacement/pga/pgv/pgd' + ('' if dty is float else '[int record]'), True
        else:
            trap = (k % 3 == 0)
            dty = [float, float, np.int64, np.float32, list, tuple][(k // 3) % 6]
            if dty in (list, tuple) and not trap:
                dty = float          # the rectangle-rule branch multiplies the container by dt: arrays only
            if dty is float and (k // 18) % 3 == 0:
                a = a * 2.0 ** -rng.choice([30, 34, 40])     # very weak records (|a| < 1e-8): the laws hold at every amplitude
            as_np_bool = trap and (k // 3) % 4 == 1      # trap=True arriving as numpy's bool (the result of a comparison): still 'True'
            r = guarded(impl_array, a, dt, 'np.True_' if as_np_bool else trap, dty)
            site = 'calc_velo_and_disp_from_accel_arr' + ('' if dty is float else '[%s record]' % (dty.__name__ if dty in (list, tuple) else np.dtype(dty).name)) + ('[trap=np.True_]' if as_np_bool else '')
        # float32 storage: numpy integrates in single precision (relative rounding 6e-8 per operation, accumulated over the
        # record), which is rounding, not a defect: compared at 1e-3 of the series peak instead of exactly
        # after running_average / rebase_displacement the record is no longer made of dyadic numbers: tolerance domain
        out.append((site, trap, dt, a, r, 1e-3 if 'float32' in site else (1e-10 if ('running_average' in site or 'rebase_displacement' in site or 'remove_rolling_average' in site) else 0)))
    for k in range(n_tol):
        n = gens.small_len(rng, 2, maxlen)
        a, style = gens.float_record(rng, n)
        dt = rng.choice([0.01, 0.005, 0.02, 0.1, rng.uniform(1e-3, 0.5)])
        if k % 3 == 2:
            r = guarded(impl_object, a, dt)
            site, trap = 'AccSignal.velocity/displacement/pga/pgv/pgd', True
        else:
            trap = (k % 3 == 0)
            r = guarded(impl_array, a, dt, trap)
            site = 'calc_velo_and_disp_from_accel_arr'
        out.append((site, trap, dt, a, r, 1e-10))
    # the record arriving as a non-contiguous float64 view (a column of a 2-D table, every k-th sample of a longer series):
    # the integrals are those of the viewed numbers
    for k in range(12 if tier == 'quick' else 120):
        n = gens.small_len(rng, 2, maxlen)
        how = ['column', 'every-2', 'column', 'every-3', 'column', 'every-7'][k % 6]
        trap = (k % 4 != 3)
        exact = (k % 3 != 2)
        if exact:
            a, style = gens.int_record(rng, n, amp=rng.choice([3, 20, 50]))
            dt = gens.dyadic_dt(rng, 1, 10)
        else:
            a, style = gens.float_record(rng, n)
            dt = rng.choice([0.01, 0.005, 0.02])
        r = guarded(impl_array, a, dt, trap, how)
        out.append(('calc_velo_and_disp_from_accel_arr[non-contiguous float64 view: %s]' % ('data[:, 1]' if how == 'column' else 'a[::%s]' % how.split('-')[1]),
                    trap, dt, a, r, 0 if exact else 1e-10))
    return out


def regen_objlayer():
    """re-translate AccSignal.generate_displacement_and_velocity_series, the lazy getters velocity / displacement and the
    getters pga / pgv / pgd of eqsig/single.py into coq/gen/Gen_c08_obj.v (fail closed): the C08_object_*_is_source theorems
    of Prop_C08 are then re-proved against the code that is in the repo now"""
    import os, sys
    try:
        sys.path.insert(0, os.path.join(core.VERIF, 'translator'))
        import py2coq_objlayer
        py2coq_objlayer.regenerate_c08(repo=core.REPO)
    except Exception as e:  # fail closed
        return 'py2coq_objlayer(C08): %s: %s' % (type(e).__name__, e)
    return None


def regen_quadrature():
    """re-translate eqsig/displacements.py and eqsig/im.py into coq/gen/Gen_quadrature.v (fail closed): the
    `*_is_source` theorems of Prop_C08/Prop_C09 are then re-proved against the code that is in the repo now"""
    import os, sys
    try:
        sys.path.insert(0, os.path.join(core.VERIF, 'translator'))
        import py2coq_numpy
        py2coq_numpy.regenerate(repo=core.REPO)
    except Exception as e:
        return 'py2coq_numpy: %s: %s' % (type(e).__name__, e)
    return None


def run(rep, rng, tier):
    rep.prove('Prop_C08', gen_failed='; '.join(m for m in (regen_quadrature(), regen_objlayer()) if m) or None)
    cases = []
    for site, trap, dt, a, r, rtol in gen(rng, tier):
        if isinstance(r, ImplError):
            rep.violation(site, {'function': site, 'args': {'trap': trap, 'dt': dt, 'acceleration': list(map(float, a))},
                                 'impl_error': str(r)}, note='implementation raised on a valid input')
            continue
        v, d, pk = r
        cases.append(mk_case(site, trap, dt, a, v, d, pk, rtol))
    for f in STALE_PEAKS:        # listed in known_findings.json (recorded, not repaired): printed as KNOWN-FINDING
        rep.violation(STALE_SITE, f)
    rep.extra['stale_peak_histories'] = len(STALE_PEAKS)
    del STALE_PEAKS[:]
    rep.correspond('model.K_C08', 'check_case', cases, describe='model_out %s')


def finish(rep):
    return rep.finish(rule=RULE, trusted=TRUSTED,
                      assumptions=['properties are proved in exact real arithmetic for the model; floats are tied to it by the correspondence'])
