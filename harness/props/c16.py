"""C16 — saved signals load back unchanged (to the format's precision)."""
import os, math, tempfile, shutil
import numpy as np
from harness import core, gens
from harness.core import q, qlist, natlist, cbool, Case, guarded, ImplError

RULE = ('one input = (label, dt, values) saved with eqsig.save_signal (Signal and AccSignal objects, float and integer arrays) or save_values_and_dt (lists) to a temporary file; '
        'the file text is compared byte for byte with the model writer, then every loader entry point (load_values_and_dt, load_signal[signal|acc_sig|default], load_sig[m], load_asig[load_label, m]) '
        'is called on it and its values/dt/label/npts/type are compared EXACTLY (tolerance 0: decimal parsing, nearest-binary64 rounding and the product with m are modelled bit for bit) with the model reader, '
        'and the property predicate (npts, dt to 4 decimals, values to 6 decimals times m, label, type) is evaluated on the implementation outputs themselves. '
        'values: dyadic ties of the 6th decimal ((2k+1)/128), decimal near-ties, tiny magnitudes (1e-9..1e-5, both signs, -0.0), up to 1e18, slices of the shipped record, integer arrays; 1..400 (quick) / 1500 (thorough) samples, plus records of exactly 1000 and 2000 (thorough: 3000) samples (an 8-sample pattern repeated); '
        'dt: 1e-4..100 log-uniform, the usual 0.01/0.005/0.02, dyadic ties of the 4th decimal (2^-5, 3*2^-5), dt >= 1 (1.5, 12.25, 100, Python ints); labels: printable ASCII with spaces, leading/trailing blanks, empty, "#", ",", quotes, and (about 1 in 8, plus one fixed corpus record) labels with non-ASCII characters '
        '("D\u00fczce 1999 - G\u00f6lc\u00fck", Greek, CJK, accented Latin; no unicode line-break or space characters), compared as their UTF-8 bytes: file text and loaded label byte for byte against the byte model; '
        'the load factor of load_sig is given positionally (load_sig(ffp, m)) in every other call and by keyword in the others, load_asig(ffp, load_label, m) positionally in 1 of 3 calls; '
        'm in {omitted, 1, 2, 0.5, -1, 9.81, 0.1, 1e-3, 100, int 3, random}; hand-made variants of saved files (trailing newline, blank lines, padded values, extra column, comments, exponent notation = the shipped test file) exercise the reader model alone; '
        'non-trivial = at least one value is not an integer multiple of 1e-6 or dt is not a multiple of 1e-4 or m != 1 or the label is not the default')
TRUSTED = [
    'Coq 8.16.1 kernel + vm_compute',
    'translator/py2coq_c16.py (re-run on every check) + the C16_*_is_source theorems for the statements of save_values_and_dt, save_signal, load_values_and_dt, load_signal, load_sig, load_asig; '
    'its oracles (str.splitlines / str.split / float / binary64 product = the model readers; np.genfromtxt = any function with the stated contract) are tied by the correspondence only',
    'hand-written model coq/lib/DecFmt.v (printf %.df of an exact binary value with ties-to-even, decimal parser, nearest-binary64 rounding) and coq/model/M_loader.v; tie = byte-exact / bit-exact correspondence of this run (model/K_C16.v)',
    'np.genfromtxt is modelled (skip one line, names line, column 0 of each non-blank line through float()), not verified; CPython float formatting/parsing is assumed correctly rounded and is measured by the same correspondence',
    'binary64 overflow/NaN/inf are outside the model and outside every generator; labels are printable ASCII or non-ASCII characters >= U+00A0 shipped as UTF-8 bytes '
    '(a Coq string is a byte sequence; the platform text encoding of the run is UTF-8), no line-break characters (ASCII or unicode)',
    'Python harness',
]

OKCH = set(range(0x20, 0x7f)) | {9, 10}
# characters that str.splitlines()/str.split() treat specially beyond ASCII, or that have no UTF-8 form: never shipped
BADCH = {0x85, 0x2028, 0x2029, 0xfeff}


def cstr(s):
    """Coq string literal. A Coq string is a sequence of BYTES (checked: String.length "D\u00fczce" = 6) and the generated .v files are
    written as UTF-8, so a non-ASCII character (>= U+00A0, not a unicode line break / space / surrogate) is shipped as its UTF-8
    bytes: the byte model of the file (M_loader: text = list of bytes, breaks and blanks only below 0x80) then sees exactly the bytes
    that save_values_and_dt puts on disk, and a loaded label is compared as the UTF-8 bytes of the str the loader returned.
    Below U+00A0 only printable ASCII, tab and newline are ever emitted"""
    for ch in s:
        o = ord(ch)
        if o in OKCH:
            continue
        if o < 0xa0 or o in BADCH or 0xd800 <= o <= 0xdfff or ch.isspace():
            raise ValueError('character %r cannot be shipped in a Coq string literal' % ch)
    return '"' + s.replace('"', '""') + '"%string'


LABEL_POOL = ['m1', 'test-motion', 'my record 01', ' leading', 'trailing  ', '', 'a # b', 'x, y, z', '3 0.5000', 'say "hi"', 'tab\there',
              'ChiChi 1999 N-S (corrected)', '0.010000', '-', 'label with   several   blanks']


# labels with characters outside ASCII (station / event names): stored by save_values_and_dt in the platform text encoding (UTF-8)
NONASCII_POOL = ['D\u00fczce 1999 - G\u00f6lc\u00fck', 'M\u00e9xico 1985 (SCT)', 'G\u00f6lc\u00fck stn (M\u00e9xico ref)', '\u00fc', 'Valpara\u00edso, Vi\u00f1a del Mar',
                 'Chi-Chi \u96c6\u96c6 TCU068', '\u039a\u03b1\u03bb\u03b1\u03bc\u03ac\u03c4\u03b1 1986', 'Kocaeli \u0130zmit', 'caf\u00e9 \u00b1 5\u00b0', ' \u00e9', '\u00e7 #1, \u00e7 #2']
NONASCII_CH = '\u00fc\u00f6\u00e9\u00e7\u00f1\u00e8\u00e0\u00df\u00b0\u00b1\u00bf\u00d6\u00dc\u03a9\u03b1\u0130\u0131\u96c6'


def gen_label(rng):
    r = rng.random()
    if r < 0.55:
        return rng.choice(LABEL_POOL)
    if r < 0.67:
        if rng.random() < 0.6:
            return rng.choice(NONASCII_POOL)
        n = rng.randint(1, 20)
        return ''.join(rng.choice(NONASCII_CH) if rng.random() < 0.3 else chr(rng.choice([32, 32] + list(range(33, 127)))) for _ in range(n))
    n = rng.randint(1, 30)
    return ''.join(chr(rng.choice([32, 32, 32] + list(range(33, 127)))) for _ in range(n))


def gen_dt(rng):
    r = rng.random()
    if r < 0.2:
        return rng.choice([0.01, 0.005, 0.02, 0.001, 0.0001, 0.05]), 'usual'
    if r < 0.35:
        return rng.choice([2.0 ** -5, 3 * 2.0 ** -5, 2.0 ** -3, 2.0 ** -7, 2.0 ** -10, 5 * 2.0 ** -9, 0.5, 0.25]), 'dyadic'
    if r < 0.6:
        return rng.choice([1.5, 12.25, 100.0, 1.0, 2.5, 10.0, 99.99995, 1.00005, 3.0001, 1, 2, 60]), 'ge1'
    if r < 0.75:
        return rng.uniform(1.0, 100.0), 'ge1'
    return 10.0 ** rng.uniform(-4, 2) if rng.random() < 0.7 else round(10.0 ** rng.uniform(-4, 0), 4), 'loguniform'


def gen_values(rng, n):
    style = rng.choice(['ties', 'gauss', 'tiny', 'large', 'motion', 'nearties', 'ints', 'mixed', 'mixed', 'zeros'])
    if style == 'ties':
        v = [(2 * rng.randint(-2000, 2000) + 1) / 128.0 * rng.choice([1, 1, 0.5, 2]) for _ in range(n)]
    elif style == 'gauss':
        s = 10.0 ** rng.uniform(-3, 3)
        v = [rng.gauss(0, s) for _ in range(n)]
    elif style == 'tiny':
        v = [rng.choice([-1, 1]) * 10.0 ** rng.uniform(-9, -5) for _ in range(n)]
    elif style == 'large':
        v = [rng.choice([-1, 1]) * 10.0 ** rng.uniform(3, 18) for _ in range(n)]
    elif style == 'motion':
        v = list(gens.float_record(rng, n, 'motion')[0] * rng.choice([1.0, 9.81, 100.0]))
    elif style == 'nearties':
        v = []
        for _ in range(n):
            k = rng.randint(-10 ** 7, 10 ** 7)
            v.append((k + 0.5) * 1e-6 + rng.choice([0.0, 0.0, 1e-13, -1e-13, 3e-9]))
    elif style == 'ints':
        return np.array([rng.randint(-10 ** 6, 10 ** 6) for _ in range(n)], dtype=int), style
    elif style == 'zeros':
        v = [rng.choice([0.0, -0.0, 0.0, 4e-7, -4e-7, 5e-7, -5e-7, 1.0, -1.0]) for _ in range(n)]
    else:
        v = []
        for _ in range(n):
            c = rng.random()
            if c < 0.15:
                v.append(rng.choice([0.0, -0.0]))
            elif c < 0.3:
                v.append(rng.choice([-1, 1]) * 10.0 ** rng.uniform(-9, -5))
            elif c < 0.45:
                v.append(rng.choice([-1, 1]) * 10.0 ** rng.uniform(2, 15))
            elif c < 0.6:
                v.append((2 * rng.randint(-500, 500) + 1) / 128.0)
            else:
                v.append(rng.gauss(0, 1))
    return np.array(v, dtype=float), style


def gen_m(rng):
    r = rng.random()
    if r < 0.25:
        return None
    if r < 0.85:
        return rng.choice([1.0, 2.0, 0.5, -1.0, 9.81, 0.1, 1e-3, 100.0, 3, 1 / 9.81])
    return rng.choice([-1, 1]) * 10.0 ** rng.uniform(-3, 3)


def is_negzero(x):
    return float(x) == 0.0 and math.copysign(1.0, float(x)) < 0


def nontrivial(label, dt, vals, m):
    from fractions import Fraction
    if m not in (None, 1, 1.0) or label != 'm1':
        return True
    if (core.frac(dt) * 10000).denominator != 1:
        return True
    return any((core.frac(v) * 10 ** 6).denominator != 1 for v in vals)


class Ctx:
    def __init__(self, rep):
        self.rep = rep
        self.dir = tempfile.mkdtemp(prefix='c16_')
        self.k = 0
        self.cases = []
        self.long_text, self.long_load = [], []
        self.errs, self.nerr = {}, {}
        self.npos = 0

    def path(self):
        self.k += 1
        return os.path.join(self.dir, 'f%d.txt' % self.k)

    def close(self):
        shutil.rmtree(self.dir, ignore_errors=True)


def observe(ctx, ffp, text, saved, label, dt, vals, entry, astype, m, want_label, klass):
    """call one loader entry point on the file and emit the case"""
    import eqsig
    from eqsig import loader
    rep = ctx.rep
    kw, pos = {}, ()
    if entry == 0:
        site, fn = 'load_values_and_dt', loader.load_values_and_dt
    elif entry == 1:
        site, fn = 'load_signal[astype=%s]' % (astype if astype is not None else 'default'), loader.load_signal
        if astype is not None:
            kw['astype'] = astype
    elif entry == 2:
        site, fn = 'load_sig[m]', loader.load_sig
        if m is not None:
            ctx.npos += 1
            if ctx.npos % 2:      # the documented signature is load_sig(ffp, m=1.0): every other call gives the factor positionally
                site, pos = 'load_sig[m positional]', (m,)
            else:
                kw['m'] = m
    else:
        site, fn = 'load_asig[load_label=%s,m]' % bool(want_label), loader.load_asig
        ctx.npos += 1
        if want_label is not None and m is not None and ctx.npos % 3 == 0:     # load_asig(ffp, load_label=False, m=1.0) positionally
            site, pos = 'load_asig[load_label=%s,m positional]' % bool(want_label), (want_label, m)
        else:
            if want_label is not None:
                kw['load_label'] = want_label
            if m is not None:
                kw['m'] = m
    args = {'file_text': text, 'saved_from': None if not saved else {'label': label, 'dt': dt, 'values': [float(x) for x in vals]}, 'call': site, 'kwargs': dict(kw)}
    if pos:
        args['positional_args_after_ffp'] = list(pos)
    r = guarded(fn, ffp, *pos, **kw)
    if isinstance(r, ImplError):
        # an exception on a valid file is a violation; keep the smallest witness per entry point
        cur = ctx.errs.get(site)
        if cur is None or len(text) < len(cur['args']['file_text']):
            ctx.errs[site] = {'function': site, 'args': args, 'impl_error': str(r)}
        ctx.nerr[site] = ctx.nerr.get(site, 0) + 1
        return
    try:
        if entry == 0:
            ovals, odt = r
            ovals = np.asarray(ovals)
            if ovals.ndim != 1:
                rep.violation(site, {'function': site, 'args': args, 'impl': 'values have shape %r, expected 1-d' % (ovals.shape,)})
                return
            okind, olabel, onpts = 0, '', len(ovals)
        elif r is None:
            okind, ovals, odt, olabel, onpts = 3, [], 0.0, '', 0
        else:
            okind = 2 if type(r) is eqsig.AccSignal else (1 if type(r) is eqsig.Signal else 9)
            ovals, odt, olabel, onpts = np.asarray(r.values), r.dt, r.label, int(r.npts)
            if ovals.ndim != 1:
                rep.violation(site, {'function': site, 'args': args, 'impl': 'values have shape %r, expected 1-d' % (ovals.shape,)})
                return
        if not isinstance(olabel, str):
            rep.violation(site, {'function': site, 'args': args, 'impl': 'label is %r' % (olabel,)})
            return
        coq = ('{| c_saved := %s; c_label := %s; c_dt := %s; c_vals := %s; c_negz := %s; c_text := %s; c_entry := %d%%nat; c_astype := %s; c_m := %s; c_want_label := %s; '
               'o_kind := %d%%nat; o_vals := %s; o_dt := %s; o_label := %s; o_npts := %d%%nat |}'
               % (cbool(saved), cstr(label), q(dt), qlist(vals), natlist([i for i, x in enumerate(vals) if is_negzero(x)]), cstr(text), entry,
                  cstr(astype if astype is not None else 'sig'), q(1.0 if m is None else m), cbool(bool(want_label)),
                  okind, qlist(ovals), q(odt), cstr(olabel), onpts))
    except ValueError as e:
        rep.violation(site, {'function': site, 'args': args, 'impl': 'unshippable output: %s' % e})
        return
    ctx.cases.append(Case(coq, {'function': site, 'args': args,
                                'impl': {'type': {0: 'tuple', 1: 'Signal', 2: 'AccSignal', 3: 'None'}.get(okind, 'other'), 'values': [float(x) for x in ovals], 'dt': float(odt), 'label': olabel, 'npts': onpts}},
                          site, nontrivial=(nontrivial(label, dt, vals, m) if saved else True), klass=klass))


def save_one(ctx, rng, label, dt, vals, how):
    import eqsig
    from eqsig import loader
    ffp = ctx.path()
    if how == 'values':
        r = guarded(loader.save_values_and_dt, ffp, [float(x) for x in vals], dt, label)
    else:
        cls = eqsig.AccSignal if how == 'acc' else eqsig.Signal
        sig = cls(np.array(vals), dt, label=label)
        r = guarded(loader.save_signal, ffp, sig)
    if isinstance(r, ImplError):
        ctx.rep.violation('save_signal', {'function': 'save_signal', 'args': {'label': label, 'dt': dt, 'values': [float(x) for x in vals], 'how': how}, 'impl_error': str(r)})
        return None, None
    with open(ffp, newline='') as f:
        text = f.read()
    return ffp, text


def all_entries(ctx, rng, ffp, text, saved, label, dt, vals, klass, full):
    calls = [(0, None, None, None), (1, 'signal', None, None), (1, 'acc_sig', None, None), (1, None, None, None),
             (2, None, gen_m(rng), None), (3, None, gen_m(rng), True), (3, None, gen_m(rng), rng.choice([False, None]))]
    if not full:
        calls = [calls[0]] + rng.sample(calls[1:], 2)
    for entry, astype, m, wl in calls:
        observe(ctx, ffp, text, saved, label, dt, vals, entry, astype, m, wl, klass)


def handmade(ctx, rng, text, tier):
    """variants of a saved file that only the reader sees (the reader model's blank-line / strip / comment / column paths)"""
    lines = text.split('\n')
    if len(lines) < 3:
        return
    body = lines[2:]
    variants = {
        'trailing-newline': '\n'.join(lines) + '\n',
        'blank-lines': '\n'.join(lines[:2] + [x for b in body for x in ((b, '') if rng.random() < 0.4 else (b,))] + ['', '']),
        'padded': '\n'.join(lines[:2] + [' ' * rng.randint(0, 3) + b + ' ' * rng.randint(0, 3) for b in body]),
        'two-columns': '\n'.join(lines[:2] + [b + ', %d.5' % i for i, b in enumerate(body)]),
        'comments': '\n'.join(lines[:2] + [b + ' # note %d' % i for i, b in enumerate(body)]),
        'plus-exp': '\n'.join(lines[:2] + [('+' + b if not b.startswith('-') else b) + rng.choice(['', 'e0', 'E+01', 'e-02']) for b in body]),
    }
    for name, t in variants.items():
        ffp = ctx.path()
        with open(ffp, 'w', newline='') as f:
            f.write(t)
        for entry, wl in ((0, None), (3, True)):
            observe(ctx, ffp, t, False, '', 0.0, [], entry, None, None, wl, 'handmade/' + name)


RULE += ('; same-path sequences: 2-3 records differing in dt, label and length saved one after the other to ONE path, every entry point called after each save '
         'and compared with the model of the text on disk at that moment')


def save_to(ctx, ffp, label, dt, vals, how):
    """save_one onto a given path (the path may already hold another record)"""
    import eqsig
    from eqsig import loader
    if how == 'values':
        r = guarded(loader.save_values_and_dt, ffp, [float(x) for x in vals], dt, label)
    else:
        cls = eqsig.AccSignal if how == 'acc' else eqsig.Signal
        r = guarded(loader.save_signal, ffp, cls(np.array(vals), dt, label=label))
    if isinstance(r, ImplError):
        ctx.rep.violation('save_signal', {'function': 'save_signal', 'args': {'label': label, 'dt': dt, 'values': [float(x) for x in vals], 'how': how}, 'impl_error': str(r)})
        return None
    with open(ffp, newline='') as f:
        return f.read()


def same_path_sequences(ctx, rng, tier):
    """several records saved one after the other to ONE path, every loader entry point called after each save: each load is
    compared with the model of the text that is on disk at that moment (a loader that remembers anything about a path - header,
    dt, label, length - from an earlier load is exhibited by the second round). Successive records differ in dt (4th decimal and
    beyond), label and length; the recorded sequence is kept in the replay."""
    nseq = 8 if tier == 'quick' else 40
    fixed = [[('first record', 0.01, [0.5, -1.25, 2.0, 0.0, 3.5]), ('second record', 0.02, [1.0, 2.0, 3.0])],
             [('m1', 0.005, [1.5, -2.5]), ('other', 0.05, [0.25, 0.5, 0.75, 1.0, -1.0, 7.0]), ('m1', 0.005, [9.0])]]
    for k in range(nseq):
        if k < len(fixed):
            seq = [(lab, dt, np.array(v, dtype=float), 'fixed') for lab, dt, v in fixed[k]]
        else:
            seq, used = [], set()
            for _ in range(rng.choice([2, 2, 3])):
                while True:
                    dt, dstyle = gen_dt(rng)
                    if round(float(dt), 4) not in used and round(float(dt), 4) > 0:
                        break
                used.add(round(float(dt), 4))
                vals, style = gen_values(rng, rng.randint(1, 24))
                while True:
                    lab = gen_label(rng)
                    if all(lab != l0 for l0, _, _, _ in seq):
                        break
                seq.append((lab, dt, vals, '%s/%s' % (style, dstyle)))
        ffp = ctx.path()
        history = []
        for rnd, (label, dt, vals, klass) in enumerate(seq):
            how = ['acc', 'sig', 'values'][(k + rnd) % 3]
            text = save_to(ctx, ffp, label, dt, vals, how)
            if text is None:
                break
            n0 = len(ctx.cases)
            e0 = {site: id(rp) for site, rp in ctx.errs.items()}
            all_entries(ctx, rng, ffp, text, True, label, dt, vals, 'same-path/round%d/%s' % (rnd + 1, klass), full=True)
            note = {'round': rnd + 1, 'earlier_saves_to_this_path_(each_followed_by_loads)': list(history)}
            for c in ctx.cases[n0:]:
                c.replay['same_path_sequence'] = note
            for site, rp in ctx.errs.items():
                if e0.get(site) != id(rp):
                    rp['same_path_sequence'] = note
            history.append({'label': label, 'dt': dt, 'values': [float(x) for x in vals], 'saved_with': how, 'file_text': text})
        try:
            os.remove(ffp)
        except OSError:
            pass


RULE += ('; long records (more than 50000 samples: 50001..120000, one per quick run, four per thorough run; all value styles): saved with save_signal / save_values_and_dt, every loader entry point called; '
         'compared inside Coq in sparse form: number of lines of the file = npts + 2, the two header lines, and at ~60 positions (first, last, around every multiple of 50000, of 10000 and of 1000 sampled, random) '
         'the line of the file against the model writer, the loaded value against the model reader of that line (exactly) and against the saved value (6 decimals times m), plus npts, length, dt, label and type')


def long_positions(rng, n):
    pos = {0, 1, 2, n - 3, n - 2, n - 1, n // 2}
    for b in range(50000, n + 1, 50000):
        pos |= {b - 2, b - 1, b, b + 1}
    for b in rng.sample(range(10000, n, 10000), min(3, len(range(10000, n, 10000)))) + rng.sample(range(1000, n, 1000), 4):
        pos |= {b - 1, b}
    pos |= {rng.randrange(n) for _ in range(24)}
    return sorted(i for i in pos if 0 <= i < n)


def long_records(ctx, rng, tier):
    """records of more than 50000 samples (5 minutes at 200 Hz is 60000): the full text / value lists are too long for the
    byte-for-byte cases, so the file and what each loader returns are shipped in sparse form (K_C16.chk_long_text / chk_long_load)"""
    import eqsig
    from eqsig import loader
    rep = ctx.rep
    lens = [rng.choice([50001, 50002, 60000, 72000])] if tier == 'quick' else [50001, 60000, 100001, rng.randint(50001, 120000)]
    for k, n in enumerate(lens):
        vals, style = gen_values(rng, n)
        dt, dstyle = gen_dt(rng)
        label = gen_label(rng)
        how = ['acc', 'sig', 'values'][(k + n) % 3]
        ffp, text = save_one(ctx, rng, label, dt, vals, how)
        if ffp is None:
            continue
        lines = text.split('\n')
        pos = long_positions(rng, n)
        line_at = lambda i: lines[2 + i] if 2 + i < len(lines) else ''
        saved_from = {'label': label, 'dt': dt, 'npts': n, 'values': [float(x) for x in vals], 'saved_with': how}
        try:
            samples = '[' + '; '.join('((%d)%%Z, (%s, %s), %s)' % (i, cbool(is_negzero(vals[i])), q(vals[i]), cstr(line_at(i))) for i in pos) + ']'
            coq = '(%s, %s, (%d)%%Z, (%d)%%Z, %s, %s, %s)' % (cstr(label), q(dt), n, len(lines), cstr(lines[0]), cstr(lines[1] if len(lines) > 1 else ''), samples)
            ctx.long_text.append(Case(coq, {'function': 'save_signal', 'args': {'saved_from': saved_from, 'file_text': text},
                                            'impl': {'lines_in_file': len(lines), 'sampled_positions': pos, 'lines_at_sampled_positions': [line_at(i) for i in pos]}},
                                      'save_signal[long record]', nontrivial=True, klass='long/%s/%s' % (style, dstyle)))
        except ValueError as e:
            rep.violation('save_signal[long record]', {'function': 'save_signal', 'args': {'saved_from': saved_from}, 'impl': 'unshippable file text: %s' % e})
        calls = [(0, None, None, None), (1, rng.choice(['signal', 'acc_sig']), None, None), (2, None, gen_m(rng), None), (3, None, gen_m(rng), True)]
        if tier == 'quick':
            calls = [calls[0]] + rng.sample(calls[1:], 2)
        for entry, astype, m, wl in calls:
            kw = {}
            if entry == 0:
                site, fn = 'load_values_and_dt', loader.load_values_and_dt
            elif entry == 1:
                site, fn, kw = 'load_signal[astype=%s]' % astype, loader.load_signal, {'astype': astype}
            elif entry == 2:
                site, fn = 'load_sig[m]', loader.load_sig
            else:
                site, fn, kw = 'load_asig[load_label=True,m]', loader.load_asig, {'load_label': wl}
            if m is not None:
                kw['m'] = m
            args = {'file_text': text, 'saved_from': saved_from, 'call': site, 'kwargs': dict(kw)}
            r = guarded(fn, ffp, **kw)
            if isinstance(r, ImplError):       # an exception on a file save_signal wrote is a violation; smallest witness per entry point
                cur = ctx.errs.get(site)
                if cur is None or len(text) < len(cur['args']['file_text']):
                    ctx.errs[site] = {'function': site, 'args': args, 'impl_error': str(r)}
                ctx.nerr[site] = ctx.nerr.get(site, 0) + 1
                continue
            site += ' [long record]'
            if entry == 0:
                ovals, odt = r
                okind, olabel, onpts = 0, '', len(np.atleast_1d(ovals))
            else:
                okind = 2 if type(r) is eqsig.AccSignal else (1 if type(r) is eqsig.Signal else 9)
                ovals, odt, olabel, onpts = r.values, r.dt, r.label, int(r.npts)
            ovals = np.asarray(ovals)
            if ovals.ndim != 1 or not isinstance(olabel, str):
                rep.violation(site, {'function': site, 'args': args, 'impl': 'values of shape %r, label %r' % (ovals.shape, olabel)})
                continue
            try:
                smp = '[' + '; '.join('((%d)%%Z, %s, %s, %s)' % (i, q(vals[i]), cstr(line_at(i)), q(ovals[i] if i < len(ovals) else 0.0)) for i in pos) + ']'
                coq = ('{| g_n := (%d)%%Z; g_dt := %s; g_label := %s; g_entry := %d%%nat; g_astype := %s; g_m := %s; g_want_label := %s; g_l0 := %s; g_l1 := %s; g_samples := %s; '
                       'h_kind := %d%%nat; h_len := (%d)%%Z; h_npts := (%d)%%Z; h_dt := %s; h_label := %s |}'
                       % (n, q(dt), cstr(label), entry, cstr(astype or 'sig'), q(1.0 if m is None else m), cbool(bool(wl)), cstr(lines[0]), cstr(lines[1] if len(lines) > 1 else ''), smp,
                          okind, len(ovals), onpts, q(odt), cstr(olabel)))
            except ValueError as e:
                rep.violation(site, {'function': site, 'args': args, 'impl': 'unshippable output: %s' % e})
                continue
            ctx.long_load.append(Case(coq, {'function': site, 'args': args,
                                            'impl': {'type': {0: 'tuple', 1: 'Signal', 2: 'AccSignal'}.get(okind, 'other'), 'npts': onpts, 'len': len(ovals), 'dt': float(odt), 'label': olabel,
                                                     'sampled_positions': pos, 'values_at_sampled_positions': [float(ovals[i]) if i < len(ovals) else None for i in pos]}},
                                      site, nontrivial=True, klass='long/%s/%s' % (style, dstyle)))
        os.remove(ffp)


def regen_c16():
    """re-translate save_values_and_dt / save_signal / load_values_and_dt / load_signal / load_sig / load_asig (eqsig/loader.py)
    and the constructor defaults of eqsig/single.py into coq/gen/Gen_c16.v (fail closed): the `C16_*_is_source` theorems of
    Prop_C16 are then re-proved against the code that is in the repo now"""
    import sys
    try:
        sys.path.insert(0, os.path.join(core.VERIF, 'translator'))
        import py2coq_c16
        py2coq_c16.regenerate(repo=core.REPO)
    except Exception as e:
        return 'py2coq_c16: %s: %s' % (type(e).__name__, e)
    return None


def run(rep, rng, tier):
    rep.prove('Prop_C16', gen_failed=regen_c16())
    ctx = Ctx(rep)
    try:
        N = 110 if tier == 'quick' else 600
        maxlen = 400 if tier == 'quick' else 1500
        # fixed corpus first: the witnesses of the defects repaired in /repo (dt >= 1, one-value files) and format edge cases
        corpus = [('m1', 1.5, [1.0, -2.0, 3.5]), ('m1', 12.25, [0.5]), ('one value', 0.01, [7.25]), ('m1', 100.0, [0.0078125, -0.0078125, 0.0234375]),
                  ('neg zero', 0.01, [-0.0, 0.0, -4e-7, 4e-7, -5e-7, 5e-7, -5.000001e-7]), ('big', 0.02, [1e15 + 0.25, -123456789.1234565, 2.0 ** 60, 1e-9]),
                  ('', 2, [3]), ('tie dt', 2.0 ** -5, [1, 2, 3]), ('tie dt up', 3 * 2.0 ** -5, [1.0]), ('carry', 0.99995, [0.9999995, 9.9999995, -99.9999995, 0.99999949]),
                  ('D\u00fczce 1999 - G\u00f6lc\u00fck', 0.005, [0.0, 0.123456, -1.5, 2.25, -0.000321, 3.0])]
        inputs = [(lab, dt, np.array(v, dtype=float if not all(isinstance(x, int) for x in v) else int), 'corpus') for lab, dt, v in corpus]
        # record lengths that are exact multiples of 1000 (a writer that streams the record in blocks has its boundary there):
        # a short pattern repeated, so that the case stays cheap; one of them with small integers stored as int
        for j, nblk in enumerate((1000, 2000) if tier == 'quick' else (1000, 2000, 3000, 1000, 2000)):
            if j % 2 == 0:
                pat = np.array([rng.randint(-9, 9) for _ in range(8)], dtype=int)
            else:
                pat = np.array([rng.choice([0.5, -1.25, 2.0, 0.0078125, -3.0, 0.015625, 7.0, -0.75]) for _ in range(8)], dtype=float)
            inputs.append((rng.choice(['m1', 'blocks', 'a b']), rng.choice([0.01, 0.005, 0.5]), np.tile(pat, nblk // 8), 'len=k*1000'))
        for k in range(N):
            n = gens.small_len(rng, 1, maxlen)
            vals, style = gen_values(rng, n)
            dt, dstyle = gen_dt(rng)
            inputs.append((gen_label(rng), dt, vals, '%s/%s' % (style, dstyle)))
        for k, (label, dt, vals, klass) in enumerate(inputs):
            how = ['acc', 'sig', 'values'][k % 3]
            ffp, text = save_one(ctx, rng, label, dt, vals, how)
            if ffp is None:
                continue
            all_entries(ctx, rng, ffp, text, True, label, dt, vals, klass, full=(len(vals) <= 60 or k % 7 == 0))
            if len(vals) <= 40 and (k % 4 == 0 or klass == 'corpus'):
                handmade(ctx, rng, text, tier)
            os.remove(ffp)
        same_path_sequences(ctx, rng, tier)
        long_records(ctx, rng, tier)
        # the shipped test file (exponent notation), load only
        src = os.path.join(os.path.dirname(os.path.dirname(os.path.abspath(__file__))), 'data', 'test_motion_dt0p01.txt')
        lines = open(src).read().split('\n')
        keep = lines if tier != 'quick' else lines[:302]
        t = '\n'.join(keep)
        ffp = ctx.path()
        with open(ffp, 'w', newline='') as f:
            f.write(t)
        for entry, wl in ((0, None), (3, True), (2, None)):
            observe(ctx, ffp, t, False, '', 0.0, [], entry, None, 9.81 if entry == 2 else None, wl, 'shipped-file')
    finally:
        ctx.close()
    for site, replay in sorted(ctx.errs.items()):
        rep.violation(site, replay, n_failing=ctx.nerr[site])
    report(rep, ctx.cases)
    longs = []
    for ctor, lst in (('LText', ctx.long_text), ('LLoad', ctx.long_load)):
        for c in lst:
            c.coq = '(%s %s)' % (ctor, c.coq)
            longs.append(c)
    rep.correspond('model.K_C16', 'chk_long', longs)


def report(rep, cases):
    """correspondence in two stages: every case through check_case (tie: text, reader; and the property predicate);
    the failing ones again through chk_property alone, so that a replay says whether the property itself is violated
    on the implementation's output (site '<entry> [property]') or only the tie to the model broke (site '<entry> [tie]')"""
    rep.cases.extend(cases)
    if not cases:
        return
    kw = dict(max_cases=300, max_bytes=400_000)
    failing, errors = core.run_cases(rep.pid, 'model.K_C16', 'check_case', cases, **kw)
    for e in errors:
        rep.unchecked('correspondence:model.K_C16.check_case', e)
    if not failing:
        return
    fails = [cases[i] for i in failing]
    pf, errors = core.run_cases(rep.pid, 'model.K_C16', 'chk_property', fails, **kw)
    for e in errors:
        rep.unchecked('correspondence:model.K_C16.chk_property', e)
    pset = set(pf)
    by_site = {}
    for j, c in enumerate(fails):
        site = c.site + (' [property]' if j in pset else ' [tie]')
        cur = by_site.get(site)
        if cur is None or len(c.coq) < len(cur[0].coq):
            by_site[site] = (c, (cur[1] if cur else 0) + 1)
        else:
            by_site[site] = (cur[0], cur[1] + 1)
    for site, (c, n) in sorted(by_site.items()):
        rep.violation(site, c.replay, coq_term='check_case %s' % c.coq[:4000], model_output=core.coq_eval('model.K_C16', 'model_out %s' % c.coq),
                      n_failing=n, checks='model_output ends with [text = model writer; loaded = model reader; round-trip predicate on the outputs; requested type]')


def finish(rep):
    return rep.finish(rule=RULE, trusted=TRUSTED,
                      assumptions=['text = bytes (printable ASCII labels, or non-ASCII characters as their UTF-8 bytes; no line breaks inside the label)', 'values and dt finite; |value| < 2^1024',
                                   'exact rational arithmetic for the decimal expansion; binary64 rounding modelled by round_b64 (no overflow)'])


def replay_call(replay):
    """re-run the recorded loader call on the recorded file text (harness/replay.py)"""
    from eqsig import loader
    a = replay['args']
    d = tempfile.mkdtemp(prefix='c16r_')
    try:
        ffp = os.path.join(d, 'f.txt')
        if 'call' not in a:      # the writer alone (long record): save again, report the shape of the file
            sf = a['saved_from']
            r = guarded(loader.save_values_and_dt, ffp, sf['values'], sf['dt'], sf['label'])
            if isinstance(r, ImplError):
                return {'impl_error': str(r)}
            with open(ffp, newline='') as f:
                t = f.read()
            return {'lines_in_file': len(t.split('\n')), 'npts_saved': len(sf['values']), 'same_text_as_recorded': t == a.get('file_text')}
        for prev in (replay.get('same_path_sequence') or {}).get('earlier_saves_to_this_path_(each_followed_by_loads)', []):
            with open(ffp, 'w', newline='') as f:      # earlier rounds of a same-path sequence: same text, loaded through every entry point
                f.write(prev['file_text'])
            for nm, kw in (('load_values_and_dt', {}), ('load_signal', {}), ('load_sig', {}), ('load_asig', {'load_label': True})):
                guarded(getattr(loader, nm), ffp, **kw)
        with open(ffp, 'w', newline='') as f:
            f.write(a['file_text'])
        fn = getattr(loader, a['call'].split('[')[0])
        r = guarded(fn, ffp, *a.get('positional_args_after_ffp', []), **a.get('kwargs', {}))
        if isinstance(r, ImplError):
            return {'impl_error': str(r)}
        if isinstance(r, tuple):
            return {'type': 'tuple', 'values': [float(x) for x in np.atleast_1d(r[0])], 'dt': float(r[1])}
        if r is None:
            return {'type': 'None'}
        return {'type': type(r).__name__, 'values': [float(x) for x in r.values], 'dt': float(r.dt), 'label': r.label, 'npts': int(r.npts)}
    finally:
        shutil.rmtree(d, ignore_errors=True)
