"""C05 — Signal objects own their data; analysis functions do not mutate inputs.

Layers: (T) translator/py2ir_effects.py re-translates every function and method of the package into the alias/effect IR
(coq/gen/Gen_effects.v + obligations) on every run; Prop_C05 re-proves the soundness theorems and re-checks the
obligations by vm_compute. (dynamic cross-check = the correspondence of this property, always run) every public function
is called on float / integer arrays and on Python lists; the exact content of every argument before and after the call,
the serialised results of two successive calls and the observed memory sharing result/arguments are shipped to Coq and
compared there (model/K_C05.v) with the property predicate and with what the IR predicts; object histories: construct /
reset from a caller array, apply every mutator, compare the caller array, then mutate the caller array and compare the object.
"""
import os, sys, struct, tempfile, warnings, inspect
import numpy as np
from harness import core, gens
from harness.core import q, qlist, zlist, cbool, Case

RULE = ('every translated public function (114; plotting / file readers without a generator are listed in the evidence) called on 4 input flavours '
        '(float64 array, int64 array, list of floats, list of ints; signal objects built from them), lengths 8..64 (quick) / ..128 (thorough; histories ..64), '
        'integer, dyadic, gaussian, sine and shipped-motion records; per call: bit-exact words of every argument before/after, serialised result of call 1 vs call 2 (results longer than 48 words through their SHA-256), '
        'np.shares_memory(result, argument) contained in the IR\'s ret_roots; object histories (Signal, AccSignal, Cluster): construct or reset_values from a caller array, '
        'Cluster also from lists of arrays of different lengths followed by an in-place mutator on a member signal; random sequences of every mutator / property, after each step: caller arrays bit-exact, values buffer not shared with any caller array, values is a numeric ndarray, '
        'len(values) = npts, time = dt*[0..npts-1] (one rounding), buffer kept only where the IR allows it; then the caller array is overwritten and the object compared; '
        'a call that raises is counted (not a violation of this property) but its arguments are still compared; non-trivial = record not constant')
TRUSTED = [
    'Coq 8.16.1 kernel + vm_compute; all C05 theorems are axiom-free',
    'translator/py2ir_effects.py: Python ast -> effect IR, fail-closed; its classification table of NumPy/SciPy/builtin calls (copy / view / in place), '
    'its name resolution / inlining, "caller-supplied callbacks do not modify their arguments", "scipy.fftpack.fft(overwrite_x=True) overwrites only complex input" '
    'are trusted and validated by the dynamic cross-check of this run',
    'the theorems are about the IR (one variable = one buffer; containers of arrays are tracked one level deep); values/dtype/length are not in the IR',
    'Python harness (generators, snapshots via ndarray.view(int64), np.shares_memory, result parsing)',
]


# ----------------------------------------------------------------------------- translator
def regen():
    sys.path.insert(0, os.path.join(core.VERIF, 'translator'))
    import py2ir_effects
    try:
        return py2ir_effects.generate(core.REPO, os.path.join(core.COQ, 'gen', 'Gen_effects.v')), None
    except Exception as e:  # noqa
        return None, 'translator/py2ir_effects.py failed: %s: %s' % (type(e).__name__, e)


# ----------------------------------------------------------------------------- snapshots
def words(x, depth=0):
    """exact serialisation of a value as a list of Python ints"""
    if x is None:
        return [-1]
    if isinstance(x, (bool, np.bool_)):
        return [-2, int(x)]
    if isinstance(x, (int, np.integer)):
        return [-3, int(x)]
    if isinstance(x, (float, np.floating)):
        return [-4, struct.unpack('<q', struct.pack('<d', float(x)))[0]]
    if isinstance(x, (complex, np.complexfloating)):
        return [-5] + words(float(x.real)) + words(float(x.imag))
    if isinstance(x, str):
        return [-6, len(x)] + [ord(c) for c in x[:64]]
    if isinstance(x, np.ndarray):
        a = np.ascontiguousarray(x)
        head = [-7, ord(a.dtype.kind), a.dtype.itemsize, a.ndim] + list(a.shape)
        if a.dtype.kind == 'c':
            body = a.astype(np.complex128).view(np.float64).view(np.int64).ravel().tolist()
        elif a.dtype.kind == 'f':
            body = a.astype(np.float64).view(np.int64).ravel().tolist() if a.dtype.itemsize != 8 else a.view(np.int64).ravel().tolist()
        elif a.dtype.kind in 'iub':
            body = [int(v) for v in a.ravel().tolist()]
        else:
            body = sum([words(v, depth + 1) for v in a.ravel().tolist()], [])
        return head + body
    if isinstance(x, (list, tuple)):
        out = [-8 if isinstance(x, list) else -9, len(x)]
        if depth > 4:
            return out
        for v in x:
            out += words(v, depth + 1)
        return out
    if isinstance(x, dict):
        out = [-10, len(x)]
        for k in x:
            out += words(str(k)) + words(x[k], depth + 1)
        return out
    if hasattr(x, 'values') and hasattr(x, 'dt') and hasattr(x, 'npts'):
        return [-11] + words(np.asarray(x.values)) + words(float(x.dt))
    return [-12] + words(type(x).__name__)


def arrays_in(x, depth=0):
    if isinstance(x, np.ndarray):
        return [x]
    if isinstance(x, (list, tuple)) and depth < 3:
        return sum([arrays_in(v, depth + 1) for v in x], [])
    if hasattr(x, 'values') and hasattr(x, 'dt') and hasattr(x, 'npts') and isinstance(x.values, np.ndarray):
        return [x.values]
    return []


def fingerprint(ws):
    """results longer than 48 words are shipped as (length, SHA-256 as four 64-bit words): equality of two calls is still decided inside Coq"""
    if len(ws) <= 48:
        return ws
    import hashlib
    h = hashlib.sha256(b''.join(int(w).to_bytes(16, 'little', signed=True) if -2 ** 127 <= int(w) < 2 ** 127 else str(w).encode() for w in ws)).digest()
    return [-13, len(ws)] + [int.from_bytes(h[i:i + 8], 'little') for i in range(0, 32, 8)]


# ----------------------------------------------------------------------------- inputs
FLAVOURS = ['farr', 'iarr', 'flist', 'ilist']


class G:
    """argument factory for one case"""

    def __init__(self, rng, tier, flavour):
        self.rng, self.tier, self.flavour = rng, tier, flavour
        hi = 64 if tier == 'quick' else 128
        self.n = 2 * rng.randint(4, hi // 2)
        self.dt = gens.dyadic_dt(rng, 3, 7)

    def base(self, n=None):
        n = n or self.n
        if self.flavour in ('iarr', 'ilist') or self.rng.random() < 0.3:
            v, _ = gens.int_record(self.rng, n, style=self.rng.choice(['uniform', 'walk', 'startnz', 'plateau']))
            if len(set(v.tolist())) < 3:
                v = np.array([((7 * i) % 11) - 5 for i in range(n)], dtype=float)
            v[0] = v[0] or 3.0
            v[1] = v[1] + (2.0 if v[1] == v[0] else 0.0)
        else:
            v, _ = gens.float_record(self.rng, n, style=self.rng.choice(['gauss', 'sine', 'motion']))
            if v[0] == 0.0:
                v[0] = 0.75       # an offset record: in-place rebasing of the caller's array would show
        if self.rng.random() < 0.15:
            # a record that starts at exactly 0, swings negative first and never repeats a sample: the shape on which
            # "nothing to clean, nothing to rebase" shortcuts hand the caller's own array to in-place sign flips (seed C05_15)
            v = np.array(v, dtype=float)
            v[0] = 0.0
            v[1] = -abs(v[1]) - 1.0
            for i in range(2, len(v)):
                if v[i] == v[i - 1]:
                    v[i] = v[i - 1] + (1.0 if i % 2 == 0 else -1.0)
        return v

    def wrap(self, v):
        if self.flavour == 'farr':
            return np.array(v, dtype=float)
        if self.flavour == 'iarr':
            return np.array(np.round(v), dtype=np.int64)
        if self.flavour == 'flist':
            return [float(x) for x in v]
        return [int(round(x)) for x in v]

    def rec(self, n=None):
        return self.wrap(self.base(n))

    def sig(self, cls='AccSignal', n=None):
        import eqsig
        return getattr(eqsig, cls)(self.rec(n), self.dt)

    def periods(self):
        return self.wrap_plain([0.1, 0.3, 1.0] if self.rng.random() < 0.7 else [0.0, 0.2, 0.8, 2.0])

    def wrap_plain(self, v):
        return np.array(v, dtype=float) if self.flavour in ('farr', 'iarr') else list(v)


ARR = {'values', 'motion', 'acc', 'acceleration', 'pvals', 'y', 'values0', 'values1', 'fas1_smooth'}
SIG = {'asig', 'acc_sig', 'acc_signal', 'sig', 'series', 'signal', 'acc_sig_ns', 'acc_sig_we'}


def make_args(g, qual, fn, tmpdir):
    """(args dict by parameter name) for the function, or None when no generator applies"""
    import eqsig
    name = qual.split('.')[-1]
    rng = g.rng
    sp = inspect.signature(fn)
    A = {}
    special = {
        'c_h_factor': lambda: {'period': rng.choice([0.0, 0.05, 0.2, 1.0, 2.0, 4.0]) if rng.random() < 0.5 else g.wrap_plain([0.05, 0.5, 2.0]), 'site_class': rng.choice('CDE')},
        't_eff': lambda: {'displacement': 0.05, 'site_class': rng.choice('CDE'), 'z_factor': 0.3, 'r_factor': 1.0, 'n_factor': 1.0},
        'sd_nzs': lambda: {'period': rng.choice([0.0, 0.05, 0.2, 1.0, 2.0, 4.0]), 'site_class': rng.choice('CDE'), 'z_factor': 0.3, 'r_factor': 1.0, 'n_factor': 1.0},
        'deprecation': lambda: {'message': 'x'},
        'get_sig_array_indexes_range': lambda: {'fas1_smooth': g.wrap(np.abs(g.base()) + 1.0)},
        'calc_fourier_moment': lambda: {'asig': g.sig(), 'n': 2},
        'calc_smooth_fa_spectrum': lambda: {'fa_frequencies': np.arange(0, 17) * 0.25 if g.flavour != 'iarr' else np.arange(0, 17), 'fa_spectrum': np.array(g.base(17), dtype=float if g.flavour != 'iarr' else np.int64),
                                            'smooth_fa_frequencies': np.array([0.5, 1.0, 2.0]), 'band': 40},
        'generate_smooth_fa_spectrum': lambda: {'smooth_fa_frequencies': np.array([0.5, 1.0, 2.0]), 'fa_frequencies': np.arange(0, 17) * 0.25, 'fa_spectrum': np.array(g.base(17), dtype=complex)},
        'calc_smoothing_matrix_konno_1998': lambda: {'fa_frequencies': np.arange(0, 17) * 0.25, 'smooth_fa_frequencies': rng.choice([None, np.array([0.5, 1.0, 2.0])])},
        'calc_smooth_fa_spectrum_w_custom_matrix': lambda: (lambda s: {'asig': s, 'smooth_matrix': np.ones((len(s.fa_spectrum) - 1, 3)) / 3.0})(g.sig()),
        'generate_fa_spectrum': lambda: {'sig': g.sig(), 'n_pad': rng.random() < 0.5},
        'calc_fa_spectrum': lambda: {'sig': g.sig(), 'n': rng.choice([None, 128]), 'p2_plus': rng.choice([None, 1])},
        'fas2values': lambda: {'fas': (np.array(g.base(16)) + 1j * np.array(g.base(16))) if g.flavour == 'farr' else g.rec(16), 'dt': g.dt},
        'fas2signal': lambda: {'fas': (np.array(g.base(16)) + 1j * np.array(g.base(16))) if g.flavour == 'farr' else g.rec(16), 'dt': g.dt, 'stype': rng.choice(['signal', 'acc'])},
        'interp2d': lambda: {'x': np.array([0.5, 1.0, 2.2, 2.5]), 'xf': np.array([0.0, 1.0, 2.0, 3.0]), 'f': np.array(g.base(12), dtype=float if g.flavour != 'iarr' else np.int64).reshape(4, 3)},
        'interp_left': lambda: {'x0': g.wrap_plain([0.5, 1.0, 2.5]), 'x': g.wrap_plain([0.0, 1.0, 2.0, 3.0]), 'y': rng.choice([None, g.wrap([5, 6, 7, 8])])},
        'remove_poly': lambda: {'values': g.rec() if g.flavour in ('farr', 'iarr') else np.array(g.base()), 'poly_fit': rng.choice([0, 1, 2])},
        'gen_ricker_wavelet_asig': lambda: {'omega': 2.0, 't0': 1.0, 'duration': 4.0, 'dt': g.dt},
        'get_zero_crossings_array_indices': lambda: {'values': g.rec(), 'keep_adj_zeros': rng.random() < 0.5, 'tol': rng.choice([0.0, 0.0, 1.5])},
        'get_zero_and_peak_array_indices': lambda: {'pvals': g.rec(), 'zvals': rng.choice([None, None]), 'min_step': 0},
        'get_major_change_indices': lambda: {'y': g.rec(), 'already_diff': rng.random() < 0.3},
        'get_switched_peak_array_indices': lambda: {'values': g.rec() if g.flavour in ('farr', 'iarr') else np.array(g.base()), 'tol': rng.choice([0.0, 0.0, 1.0])},
        'get_peak_array_indices': lambda: {'values': g.rec(), 'ptype': rng.choice(['all', 'min', 'max'])},
        'get_n_cyc_array': lambda: {'values': g.rec() if g.flavour in ('farr', 'iarr') else np.array(g.base()), 'opt': rng.choice(['all', 'switched']), 'start': rng.choice(['origin', 'peak'])},
        'put_array_in_2d_array': lambda: {'values': g.rec(), 'shifts': g.wrap_plain([0, 2, 5]) if g.flavour not in ('farr',) else np.array([0, 2, 5]), 'clip': rng.choice(['none', 'end', 'start', 'both'])},
        'join_sig_w_time_shift': lambda: {'sig': g.sig(), 'time_shifts': np.array([0.0, 2 * g.dt, 5 * g.dt]), 'jtype': rng.choice(['add', 'sub'])},
        'join_values_w_shifts': lambda: {'values': g.rec(), 'shifts': np.array([0, 2, 5]), 'jtype': rng.choice(['add', 'sub'])},
        'time_indices': lambda: {'npts': 100, 'dt': g.dt, 'start': 1, 'end': 5, 'index': rng.random() < 0.5},
        'interp_array_to_approx_dt': lambda: {'values': g.rec(), 'dt': g.dt, 'target_dt': g.dt / rng.choice([1, 2, 3]), 'even': rng.random() < 0.5},
        'interp_to_approx_dt': lambda: {'asig': g.sig(), 'target_dt': g.dt / rng.choice([1, 2, 3]), 'even': rng.random() < 0.5},
        'resample_to_approx_dt': lambda: {'asig': g.sig(), 'target_dt': g.dt * rng.choice([0.5, 1, 2]), 'even': rng.random() < 0.5},
        'calc_sig_dur': lambda: {'asig': g.sig(), 'im': rng.choice([None, eqsig.im.calc_cav]), 'se': rng.random() < 0.5},
        'cumulative_response_spectra': lambda: {'acc_signal': g.sig(), 'fun_name': 'arias_intensity', 'periods': rng.choice([None, g.wrap_plain([0.2, 1.0])]), 'xi': 0.05},
        'calc_bracketed_duration': lambda: {'asig': g.sig(), 'threshold': 1.0},
        'calc_brac_dur': lambda: {'asig': g.sig(), 'threshold': rng.choice([1.0, 1e9]), 'se': rng.random() < 0.5},
        'calc_acc_rms': lambda: {'asig': g.sig(), 'threshold': 1.0},
        'calc_a_rms': lambda: {'asig': g.sig(), 'threshold': 1.0},
        'calc_n_cyc_array_w_power_law': lambda: {'values': np.array(g.rec()), 'a_ref': 2.0, 'b': rng.choice([0.3, 0.5]), 'cut_off': 0.01},
        'calc_cyc_amp_array_w_power_law': lambda: {'values': np.array(g.rec()), 'n_cyc': 15, 'b': 0.3},
        'calc_cyc_amp_gm_arrays_w_power_law': lambda: {'values0': np.array(g.rec()), 'values1': np.array(g.rec()), 'n_cyc': 15, 'b': 0.3},
        'calc_cyc_amp_combined_arrays_w_power_law': lambda: {'values0': np.array(g.rec()), 'values1': np.array(g.rec()), 'n_cyc': 15, 'b': 0.3},
        'calc_asi': lambda: {'asig': g.sig(), 'periods': g.wrap_plain([0.1, 0.5, 1.0])},
        'calc_vsi': lambda: {'asig': g.sig(), 'periods': g.wrap_plain([0.1, 0.5, 1.0])},
        'calc_vsi_temporal': lambda: {'asig': g.sig(), 'periods': np.array([0.1, 0.5, 1.0])},
        'calc_cav_dp': lambda: {'asig': eqsig.AccSignal(g.rec(3 * int(1 / g.dt) + 8), g.dt)},
        'save_values_and_dt': lambda: {'ffp': os.path.join(tmpdir, 'a.txt'), 'values': g.rec(), 'dt': g.dt, 'label': 'lab'},
        'save_signal': lambda: {'ffp': os.path.join(tmpdir, 'b.txt'), 'signal': g.sig()},
        'combine_at_angle': lambda: {'acc_sig_ns': g.sig(), 'acc_sig_we': g.sig(), 'angle': 30.0},
        'compute_rotated': lambda: {'acc_sig_ns': g.sig(), 'acc_sig_we': g.sig(), 'angle_off_ns': 10.0, 'parameter': rng.choice(['pga', 'arias_intensity', None]), 'points': 5},
        'single_elastic_response': lambda: {'motion': np.array(g.rec(16)), 'step': g.dt, 'period': 0.5, 'xi': 0.05},
        'slow_response_spectra': lambda: {'motion': np.array(g.rec(16)), 'step': g.dt, 'periods': np.array([0.3, 1.0]), 'xis': [0.05]},
        'compute_a_and_b': lambda: {'xi': 0.05, 'w': np.array([3.0, 10.0]), 'dt': g.dt},
        'absmax': lambda: {'a': np.array(g.base(12), dtype=float if g.flavour != 'iarr' else np.int64).reshape(3, 4), 'axis': rng.choice([None, 1])},
        'calc_resp_uke_spectrum': lambda: {'acc_signal': g.sig(), 'periods': rng.choice([None, g.wrap_plain([0.2, 1.0])])},
        'calc_input_energy_spectrum': lambda: {'acc_signal': g.sig(), 'periods': g.wrap_plain([0.2, 1.0]), 'series': rng.random() < 0.5},
        'generate_gaussian': lambda: {'n_d2': 8},
        'transform_w_scipy_fft': lambda: {'acc': g.rec(32)},
        'transform': lambda: {'acc': g.rec(32)},
        'transform_slow': lambda: {'acc': g.rec(32), 'ith': 1},
        'dep_itransform': lambda: {'stock': eqsig.stockwell.transform(np.array(g.base(16)))},
        'itransform': lambda: {'stock': eqsig.stockwell.transform(np.array(g.base(16)))},
        'get_max_tifq_vals_freq': lambda: {'tifq_values': eqsig.stockwell.transform(np.array(g.base(16))), 'dt': g.dt},
        'trim_to_length': lambda: {'values': np.array(g.base(60), dtype=float if g.flavour != 'iarr' else np.int64).reshape(3, 20), 'npts': 12, 'surf2depth_travel_times': np.array([0.0, 2 * g.dt, 3 * g.dt]),
                                   'dt': g.dt, 'trim': rng.random() < 0.5, 'start': rng.random() < 0.5, 's2s_travel_time': rng.choice([0.0, 2 * g.dt])},
        'calc_surface_energy': lambda: {'asig': g.sig(), 'travel_times': rng.choice([g.wrap_plain([0.0, 2 * g.dt, 3.5 * g.dt]), 2 * g.dt]), 'nodal': rng.random() < 0.5, 'trim': rng.random() < 0.5, 'start': rng.random() < 0.5,
                                        'up_red': rng.choice([1.0, np.array([1.0, 0.5, 0.25])]), 'down_red': None},
        'calc_cum_abs_surface_energy': lambda: {'asig': g.sig(), 'travel_times': g.wrap_plain([0.0, 2 * g.dt, 3.5 * g.dt]), 'nodal': rng.random() < 0.5},
        'get_time_shift_motions': lambda: {'asig': g.sig(), 'travel_times': g.wrap_plain([0.0, 2 * g.dt, 3.5 * g.dt]), 'nodal': rng.random() < 0.5, 'trim': rng.random() < 0.5},
        'calc_roll_av_vals': lambda: {'values': g.rec(), 'steps': rng.choice([1, 3, 4]), 'mode': rng.choice(['forward', 'backward', 'centre'])},
        'calc_step_fn_vals_error': lambda: {'values': g.rec(12), 'pow': rng.choice([1, 2]), 'dir': rng.choice([None, 'down', 'up'])},
        'calc_step_fn_steps_vals': lambda: {'values': g.rec(12), 'ind': rng.choice([None, 4])},
        'get_section_average': lambda: {'series': g.sig(), 'start': 1, 'end': 5, 'index': True},
    }
    if name in ('get_stockwell_freqs', 'get_stockwell_times', 'get_max_stockwell_freq'):
        s = g.sig(n=16)
        if rng.random() < 0.7 or name != 'get_max_stockwell_freq':
            s.swtf = eqsig.stockwell.transform(s.values)
        return {'asig': s}
    if name in ('load_values_and_dt', 'load_signal', 'load_sig', 'load_asig'):
        p = os.path.join(tmpdir, 'in.txt')
        with open(p, 'w') as f:
            f.write('lab\n5 0.0100\n' + '\n'.join('%.6f' % v for v in [0.5, -1.25, 2.0, 0.0, 3.5]))
        A = {'ffp': p}
        if name == 'load_signal':
            A['astype'] = rng.choice(['signal', 'acc_sig'])
        return A
    if name == 'load_3_comp_values_and_dt_from_v2a':
        return None
    if name in special:
        A = special[name]()
        if name in ('calc_surface_energy',):
            if isinstance(A['up_red'], np.ndarray) and hasattr(A['travel_times'], '__len__'):
                A['down_red'] = np.array([1.0, 0.5, 0.25])
            else:
                A['up_red'], A['down_red'] = 1.0, 1.0
        return A
    for p in sp.parameters.values():
        if p.name in ARR:
            A[p.name] = g.rec()
        elif p.name in SIG:
            A[p.name] = g.sig()
        elif p.name in ('dt', 'step'):
            A[p.name] = g.dt
        elif p.name == 'periods':
            A[p.name] = g.periods()
        elif p.name == 'xi':
            A[p.name] = rng.choice([0.0, 0.05, 0.3])
        elif p.default is not inspect.Parameter.empty:
            pass
        else:
            return None
    return A


def public_functions():
    """{qualified IR name: callable} for every public module-level function of the package"""
    import importlib
    res = {}
    mods = ['design_spectra', 'displacements', 'exceptions', 'fns.average', 'fns.frequency', 'fns.generic', 'fns.peaks_and_crossings', 'fns.time_shift',
            'fns.time_step', 'im', 'loader', 'multiple', 'sdof', 'stockwell', 'surface', 'single']
    for m in mods:
        mod = importlib.import_module('eqsig.' + m)
        for nm, fn in vars(mod).items():
            if inspect.isfunction(fn) and fn.__module__ == mod.__name__ and not nm.startswith('_'):
                res['%s.%s' % (m, nm)] = fn
    return res


# ----------------------------------------------------------------------------- function cases
def fn_case(rep, g, qual, fn, tmpdir, stats):
    A = make_args(g, qual, fn, tmpdir)
    if A is None:
        stats['no_generator'].add(qual)
        return None
    names = list(A)
    before = [words(A[k]) for k in names]
    out = []
    err = None
    with warnings.catch_warnings():
        warnings.simplefilter('ignore')
        with np.errstate(all='ignore'):
            for _ in range(2):
                try:
                    out.append(fn(**A))
                except Exception as e:  # noqa
                    err = '%s: %s' % (type(e).__name__, e)
                    break
    after = [words(A[k]) for k in names]
    if err is not None:
        stats['raised'][qual] = stats['raised'].get(qual, 0) + 1
        r1 = r2 = [0]
        shares = []
    else:
        r1, r2 = fingerprint(words(out[0])), fingerprint(words(out[1]))
        shares = []
        for k in names:
            for a in arrays_in(A[k]):
                if any(np.shares_memory(a, r) for r in arrays_in(out[0])):
                    root = k + '._values' if not isinstance(A[k], (np.ndarray, list, tuple)) else k
                    if root not in shares:
                        shares.append(root)
    site = qual
    coq = 'CFn "%s" [%s] [%s] %s %s [%s]' % (qual, '; '.join(zlist(b) for b in before), '; '.join(zlist(a) for a in after), zlist(r1), zlist(r2),
                                            '; '.join('"%s"' % s for s in shares))
    replay = {'function': qual, 'flavour': g.flavour, 'args': {k: core.jsonable(A[k]) if not hasattr(A[k], 'npts') else {'signal_values': core.jsonable(np.asarray(A[k].values)), 'dt': A[k].dt} for k in names},
              'changed_arguments': [k for k, b, a in zip(names, before, after) if b != a], 'raised': err,
              'second_call_differs': r1 != r2, 'result_shares_memory_with': shares}
    return Case(coq, replay, site, nontrivial=True, klass='%s[%s]' % ('fn', g.flavour))


# ----------------------------------------------------------------------------- object histories
def obj_snapshot(s):
    v = s.values
    return words(np.asarray(v)) if isinstance(v, np.ndarray) else words(v)


def mutators(g, s, cls):
    """list of (python method name, IR suffix, thunk, list of caller arrays passed)"""
    rng = g.rng
    n = s.npts
    fs = 1.0 / s.dt
    w = g.rec(n if rng.random() < 0.5 else 2 * rng.randint(4, 40))     # reset_values also with a record of another length
    series = g.rec(n)
    rt = g.wrap_plain([0.2, 0.5, 1.0])
    other = type(s)(g.rec(n), s.dt)
    L = [
        ('reset_values', '', lambda: s.reset_values(w), [w]),
        ('butter_pass', '', lambda: s.butter_pass(rng.choice([(0.02 * fs, 0.2 * fs), (None, 0.2 * fs), (0.02 * fs, None), [0.02 * fs, 0.2 * fs]]),
                                                remove_gibbs=rng.choice([None, 'start', 'end', 'mid'])), []),
        ('remove_average', '', lambda: s.remove_average(), []),
        ('remove_poly', '', lambda: s.remove_poly(rng.choice([0, 1, 2])), []),
        ('add_constant', '', lambda: s.add_constant(rng.choice([1, 0.5])), []),
        ('add_series', '', lambda: s.add_series(series), [series]),
        ('add_signal', '', lambda: s.add_signal(other), []),
        ('running_average', '', lambda: s.running_average(rng.choice([1, 3, 4])), []),
        ('gen_fa_spectrum', '', lambda: s.gen_fa_spectrum(), []),
        ('gen_smooth_fa_spectrum', '', lambda: s.gen_smooth_fa_spectrum(), []),
        ('get_section_average', '', lambda: s.get_section_average(start=0, end=4, index=True), []),
        ('fa_spectrum', '.get', lambda: s.fa_spectrum, []),
        ('smooth_fa_spectrum', '.get', lambda: s.smooth_fa_spectrum, []),
        ('time', '.get', lambda: s.time, []),
        ('values', '.get', lambda: s.values, []),
        ('clear_cache', '', lambda: s.clear_cache(), []),
    ]
    if cls == 'AccSignal':
        L += [
            ('correct_me', '', lambda: s.correct_me(), []),
            ('remove_rolling_average', '', lambda: s.remove_rolling_average(mtype=rng.choice(['velocity', 'acc']), freq_window=max(1, int(fs / 8))), []),
            ('rebase_displacement', '', lambda: s.rebase_displacement(), []),
            ('set_zero_residual_velocity', '', lambda: s.set_zero_residual_velocity(rng.choice([None, (2 * s.dt, 6 * s.dt), (2 * s.dt, None)])), []),
            ('set_zero_residual_displacement', '', lambda: s.set_zero_residual_displacement(), []),
            ('set_zero_residual_displacement_and_velocity', '', lambda: s.set_zero_residual_displacement_and_velocity(rng.choice([None, (2 * s.dt, 6 * s.dt), (2 * s.dt, None)])), []),
            ('generate_displacement_and_velocity_series', '', lambda: s.generate_displacement_and_velocity_series(trap=rng.random() < 0.7), []),
            ('gen_response_spectrum', '', lambda: s.gen_response_spectrum(response_times=rt), [rt]),
            ('response_series', '', lambda: s.response_series(response_times=rt), [rt]),
            ('velocity', '.get', lambda: s.velocity, []),
            ('displacement', '.get', lambda: s.displacement, []),
            ('pga', '.get', lambda: s.pga, []),
            ('pgv', '.get', lambda: s.pgv, []),
            ('s_a', '.get', lambda: s.s_a, []),
            ('generate_cumulative_stats', '', lambda: s.generate_cumulative_stats(), []),
        ]
    return L


def meth_case(cls_ir, qual_meth, s, callers, pre_values, shares_caller):
    before, after = callers
    v = s.values
    isnd = isinstance(v, np.ndarray) and v.dtype.kind in 'fiuc' and v.ndim == 1
    shares_old = bool(isinstance(v, np.ndarray) and isinstance(pre_values, np.ndarray) and np.shares_memory(v, pre_values))
    try:
        ln = len(v)
    except TypeError:
        ln = 10 ** 6
    t = np.asarray(s.time, dtype=float)
    coq = 'CMeth "%s" "%s" [%s] [%s] %s %s %s %d%%nat %d%%nat %s %s' % (
        cls_ir, qual_meth, '; '.join(zlist(b) for b in before), '; '.join(zlist(a) for a in after), cbool(shares_old), cbool(shares_caller), cbool(isnd),
        int(s.npts), ln, q(s.dt), qlist(t.tolist()))
    return coq, isnd, shares_old


def object_history(rep, g, cls, cases, stats):
    import eqsig
    rng = g.rng
    g.n = min(g.n, 64)
    caller = g.rec()
    how = rng.choice(['ctor', 'reset'])
    with warnings.catch_warnings():
        warnings.simplefilter('ignore')
        if how == 'ctor':
            s = getattr(eqsig, cls)(caller, g.dt)
            first = '__init__'
        else:
            s = getattr(eqsig, cls)(np.zeros(4), g.dt)
            s.reset_values(caller)
            first = 'reset_values'
    mod = 'single'
    held = [('caller', caller)]          # every caller array ever passed in
    hist = [first]

    def emit(meth, suffix, before, pre_values, err):
        after = [words(a) for _, a in held]
        qual = '%s.%s.%s%s' % (mod, cls, meth, suffix)
        v = s.values
        shares_caller = any(isinstance(v, np.ndarray) and isinstance(a, np.ndarray) and np.shares_memory(v, a) for _, a in held) or any(v is a for _, a in held)
        # a call that raised did not reach the statements the IR describes: "buffer kept" is then not compared with the IR
        coq, isnd, shares_old = meth_case(cls, qual, s, (before, after), None if err else pre_values, shares_caller)
        replay = {'function': qual, 'history': list(hist), 'flavour': g.flavour, 'args': {'caller_arrays': {k: core.jsonable(a) for k, a in held}, 'dt': g.dt},
                  'changed_caller_arrays': [k for (k, _), b, a in zip(held, before, after) if b != a], 'values_shares_memory_with_caller_array': shares_caller,
                  'values_is_numeric_ndarray': isnd, 'npts': int(s.npts), 'len_values': len(s.values) if hasattr(s.values, '__len__') else None,
                  'values_buffer_kept': shares_old, 'raised': err, 'len_time': int(len(s.time)), 'time_first_last': [float(s.time[0]), float(s.time[-1])] if len(s.time) else [],
                  'dt_times_npts_minus_1': float(s.dt * (s.npts - 1))}
        cases.append(Case(coq, replay, qual, nontrivial=True, klass='history[%s,%s]' % (cls, g.flavour)))

    emit(first, '', [words(a) for _, a in held], None, None)
    nsteps = rng.randint(3, 7)
    for _ in range(nsteps):
        name, suffix, thunk, passed = rng.choice(mutators(g, s, cls))
        for i, a in enumerate(passed):
            held.append(('%s_arg%d_%d' % (name, i, len(held)), a))
        before = [words(a) for _, a in held]
        pre = s.values
        err = None
        with warnings.catch_warnings():
            warnings.simplefilter('ignore')
            with np.errstate(all='ignore'):
                try:
                    thunk()
                except Exception as e:  # noqa
                    err = '%s: %s' % (type(e).__name__, e)
                    stats['raised'][name] = stats['raised'].get(name, 0) + 1
        hist.append(name)
        emit(name, suffix, before, pre, err)
    # vice versa: overwrite every caller array, the object must not change
    ob = obj_snapshot(s)
    for _, a in held:
        if isinstance(a, np.ndarray):
            a += 1 if a.dtype.kind in 'iu' else 1.5
        elif isinstance(a, list) and a:
            a[0] = a[0] + 1
            a.append(7)
    oa = obj_snapshot(s)
    cases.append(Case('CVice %s %s' % (zlist(ob), zlist(oa)), {'function': 'caller write after ' + '/'.join(hist), 'args': {'class': cls, 'flavour': g.flavour, 'history': hist},
                      'object_changed': ob != oa}, 'single.%s[caller-write]' % cls, nontrivial=True, klass='vice[%s,%s]' % (cls, g.flavour)))


def cluster_history(rep, g, cases, stats, unequal=False):
    """unequal: the Cluster is built from a list of records of different lengths (no 2-d array can be formed from them); the
    history then starts with an in-place mutator applied to a member signal"""
    import eqsig
    rng = g.rng
    n = g.n = min(g.n, 64)
    if unequal:
        n = g.n = max(n, 16)
        lens = [n, n - 2 * rng.randint(1, 3)] + ([n - 2 * rng.randint(0, 3)] if rng.random() < 0.4 else [])
        rng.shuffle(lens)
        rows = [g.rec(m) for m in lens]
        shape = 'list'
    else:
        rows = [g.rec(n), g.rec(n)] + ([g.rec(n)] if rng.random() < 0.4 else [])
        shape = rng.choice(['list', '2d']) if g.flavour in ('farr', 'iarr') else 'list'
    callers = np.array(rows) if shape == '2d' else rows
    held = [('values', callers)]
    stypes = rng.choice(['custom', 'acc'])
    if unequal and g.flavour == 'farr' and rng.random() < 0.7:
        stypes = 'acc'
    with warnings.catch_warnings():
        warnings.simplefilter('ignore')
        c = eqsig.Cluster(callers, g.dt, stypes=stypes, master_index=rng.randrange(len(rows)))
    hist = ['__init__']
    tag = '[unequal lengths]' if unequal else ''
    mcls = 'AccSignal' if stypes == 'acc' else 'Signal'

    def emit(meth, before, pres, err):
        after = [words(a) for _, a in held]
        for i in range(c.n_signals):
            s = c.signal_by_index(i)
            v = s.values
            allarr = arrays_in(callers)
            shares_caller = any(isinstance(v, np.ndarray) and np.shares_memory(v, a) for a in allarr)
            qual = 'multiple.Cluster.%s' % meth
            coq, isnd, shares_old = meth_case('Cluster', qual, s, (before, after), None, shares_caller)
            replay = {'function': qual, 'history': list(hist), 'signal': i, 'flavour': g.flavour, 'args': {'values': core.jsonable(callers), 'dt': g.dt, 'stypes': stypes},
                      'changed_caller_arrays': before != after, 'values_shares_memory_with_caller_array': shares_caller, 'values_is_numeric_ndarray': isnd,
                      'values_type': type(v).__name__, 'raised': err}
            cases.append(Case(coq, replay, qual + tag, nontrivial=True, klass='history[Cluster%s,%s]' % (tag, g.flavour)))

    def member_step(i, name, thunk):
        """a mutator applied to member signal i: caller arrays bit-exact before/after, the member's buffer not shared with them
        (checked with the member class's IR entry, as in object_history)"""
        s = c.signal_by_index(i)
        before = [words(a) for _, a in held]
        pre = s.values
        err = None
        with warnings.catch_warnings():
            warnings.simplefilter('ignore')
            with np.errstate(all='ignore'):
                try:
                    thunk(s)
                except Exception as e:  # noqa
                    err = '%s: %s' % (type(e).__name__, e)
                    stats['raised'][name] = stats['raised'].get(name, 0) + 1
        hist.append('signal_by_index(%d).%s' % (i, name))
        after = [words(a) for _, a in held]
        v = s.values
        shares_caller = any(isinstance(v, np.ndarray) and np.shares_memory(v, a) for a in arrays_in(callers))
        qual = 'single.%s.%s' % (mcls, name)
        coq, isnd, shares_old = meth_case(mcls, qual, s, (before, after), None if err else pre, shares_caller)
        replay = {'function': 'Cluster member: ' + qual, 'history': list(hist), 'signal': i, 'flavour': g.flavour,
                  'args': {'values': core.jsonable(callers), 'dt': g.dt, 'stypes': stypes}, 'changed_caller_arrays': before != after,
                  'values_shares_memory_with_caller_array': shares_caller, 'values_is_numeric_ndarray': isnd, 'values_buffer_kept': shares_old, 'raised': err}
        cases.append(Case(coq, replay, 'multiple.Cluster[member %s]%s' % (name, tag), nontrivial=True, klass='history[Cluster member%s,%s]' % (tag, g.flavour)))

    emit('__init__', [words(a) for _, a in held], None, None)
    fs = 1.0 / g.dt
    if unequal:
        i = rng.randrange(c.n_signals)
        if mcls == 'AccSignal':
            name, thunk = rng.choice([('rebase_displacement', lambda s: s.rebase_displacement()),
                                      ('rebase_displacement', lambda s: s.rebase_displacement()),
                                      ('set_zero_residual_velocity', lambda s: s.set_zero_residual_velocity((2 * s.dt, 6 * s.dt)))])
        else:
            name, thunk = rng.choice([('add_constant', lambda s: s.add_constant(0.5)), ('remove_average', lambda s: s.remove_average())])
        member_step(i, name, thunk)
    for _ in range(rng.randint(1, 3)):
        name, thunk = rng.choice([('same_start', lambda: c.same_start(start=0, end=4 * g.dt)), ('time_match', lambda: c.time_match(steps=rng.choice([3, 5]))),
                                  ('combine_motions', lambda: c.combine_motions(0.1 * fs)), ('values_by_index', lambda: c.values_by_index(0))])
        before = [words(a) for _, a in held]
        err = None
        with warnings.catch_warnings():
            warnings.simplefilter('ignore')
            with np.errstate(all='ignore'):
                try:
                    thunk()
                except Exception as e:  # noqa
                    err = '%s: %s' % (type(e).__name__, e)
                    stats['raised'][name] = stats['raised'].get(name, 0) + 1
        hist.append(name)
        emit(name, before, None, err)
    ob = sum([obj_snapshot(c.signal_by_index(i)) for i in range(c.n_signals)], [])
    snap = core.jsonable(callers) if unequal else None
    for a in arrays_in(callers):
        a += 1 if a.dtype.kind in 'iu' else 1.5
    if isinstance(callers, list):
        for r in callers:
            if isinstance(r, list):
                r[0] = r[0] + 1
    oa = sum([obj_snapshot(c.signal_by_index(i)) for i in range(c.n_signals)], [])
    cases.append(Case('CVice %s %s' % (zlist(ob), zlist(oa)), {'function': 'caller write after Cluster ' + '/'.join(hist), 'args': {'flavour': g.flavour, 'history': hist, 'caller_values_before_the_write': snap, 'dt': g.dt, 'stypes': stypes}, 'object_changed': ob != oa},
                      'multiple.Cluster[caller-write]' + tag, nontrivial=True, klass='vice[Cluster%s,%s]' % (tag, g.flavour)))


RULE += ('; scripted histories: constructor / reset_values with non-dyadic dt and lengths on a rounding edge of npts*dt (7, 14, 28, 56, 57, 111..115, 226 for 0.005*2^k; 3, 6, 12, 24, 29, 48, 53 for 0.025*2^k; '
         '1001, 1003 for 0.001/0.004) plus random (dt, length) pairs; running_average with centred chunks around and above the record length, also after reset_values to a shorter record')


# (dt, npts) for which the rounded product npts*dt lies just above npts steps of dt: an axis built from a float stop and step
# (np.arange(0, npts*dt, dt)) would have npts+1 entries there; dt*[0..npts-1] has npts
AXIS_PAIRS = [(0.005, 7), (0.01, 14), (0.02, 28), (0.01, 56), (0.005, 57), (0.02, 111), (0.01, 113), (0.005, 115), (0.02, 226),      # same lengths for 0.005 * 2^k
              (0.025, 3), (0.05, 6), (0.1, 12), (0.2, 24), (0.05, 29), (0.1, 53), (0.025, 48),                                     # same lengths for 0.025 * 2^k
              (0.001, 1001), (0.004, 1003)]


def scripted_history(rep, g, cls, dt, n0, how, steps, cases, stats, tag):
    """object history with a prescribed record length, time step and list of steps; steps = ('reset_values', npts) |
    ('running_average', width) | ('time', None) | ('values', None); every step is emitted like a step of object_history
    (caller arrays bit-exact, no shared buffer, numeric ndarray, len(values) = npts = len(time), time = dt*[0..npts-1])"""
    import eqsig
    g.dt = dt
    caller = g.rec(n0)
    with warnings.catch_warnings():
        warnings.simplefilter('ignore')
        if how == 'ctor':
            s = getattr(eqsig, cls)(caller, dt)
            first = '__init__'
        else:
            s = getattr(eqsig, cls)(np.zeros(4), dt)
            s.reset_values(caller)
            first = 'reset_values'
    held = [('caller', caller)]
    hist = ['%s(npts=%d, dt=%r)' % (first, n0, dt)]

    def emit(meth, suffix, before, pre_values, err):
        after = [words(a) for _, a in held]
        qual = 'single.%s.%s%s' % (cls, meth, suffix)
        v = s.values
        shares_caller = any(isinstance(v, np.ndarray) and isinstance(a, np.ndarray) and np.shares_memory(v, a) for _, a in held) or any(v is a for _, a in held)
        coq, isnd, shares_old = meth_case(cls, qual, s, (before, after), None if err else pre_values, shares_caller)
        tm = s.time
        replay = {'function': qual, 'history': list(hist), 'flavour': g.flavour, 'args': {'caller_arrays': {k: core.jsonable(a) for k, a in held}, 'dt': dt},
                  'changed_caller_arrays': [k for (k, _), b, a in zip(held, before, after) if b != a], 'values_shares_memory_with_caller_array': shares_caller,
                  'values_is_numeric_ndarray': isnd, 'npts': int(s.npts), 'len_values': len(s.values) if hasattr(s.values, '__len__') else None,
                  'values_buffer_kept': shares_old, 'raised': err, 'len_time': int(len(tm)), 'time_first_last': [float(tm[0]), float(tm[-1])] if len(tm) else [],
                  'dt_times_npts_minus_1': float(s.dt * (s.npts - 1))}
        cases.append(Case(coq, replay, qual, nontrivial=True, klass='history[%s,%s,%s]' % (cls, g.flavour, tag)))

    emit(first, '', [words(a) for _, a in held], None, None)
    for name, arg in steps:
        suffix, passed = '', []
        if name == 'reset_values':
            w = g.rec(arg)
            passed = [w]
            thunk = lambda: s.reset_values(w)
        elif name == 'running_average':
            thunk = lambda: s.running_average(arg)
        else:
            suffix = '.get'
            thunk = lambda: getattr(s, name)
        for i, a in enumerate(passed):
            held.append(('%s_arg%d_%d' % (name, i, len(held)), a))
        before = [words(a) for _, a in held]
        pre = s.values
        err = None
        with warnings.catch_warnings():
            warnings.simplefilter('ignore')
            with np.errstate(all='ignore'):
                try:
                    thunk()
                except Exception as e:  # noqa
                    err = '%s: %s' % (type(e).__name__, e)
                    stats['raised'][name] = stats['raised'].get(name, 0) + 1
        hist.append(name if arg is None else '%s(%r)' % (name, arg))
        emit(name, suffix, before, pre, err)
    ob = obj_snapshot(s)
    for _, a in held:
        if isinstance(a, np.ndarray):
            a += 1 if a.dtype.kind in 'iu' else 1.5
        elif isinstance(a, list) and a:
            a[0] = a[0] + 1
            a.append(7)
    oa = obj_snapshot(s)
    cases.append(Case('CVice %s %s' % (zlist(ob), zlist(oa)), {'function': 'caller write after ' + '/'.join(hist), 'args': {'class': cls, 'flavour': g.flavour, 'history': hist},
                      'object_changed': ob != oa}, 'single.%s[caller-write]' % cls, nontrivial=True, klass='vice[%s,%s]' % (cls, g.flavour)))


def length_histories(rep, rng, tier, cases, stats):
    """deterministic part of the object histories: (a) records whose (dt, length) pair sits on a rounding edge of npts*dt
    (constructor, reset_values, reset_values from / to such a length), plus a random sample of non-dyadic (dt, length) pairs;
    (b) running_average with centred chunks 2*int(width/2)+1 around and above the record length, on short records and on a
    long record smoothed, reset to a short one and smoothed again with the same width"""
    k = 0
    pairs = list(AXIS_PAIRS)
    for _ in range(12 if tier == 'quick' else 150):
        pairs.append((rng.choice([0.005, 0.01, 0.02, 0.025, 0.05, 0.1, 0.2, 0.004, 0.001, 0.0025, 0.04, 0.3]), rng.randint(2, 130)))
    for dt, n in pairs:
        g = G(rng, tier, FLAVOURS[k % 4])
        cls = 'AccSignal' if k % 3 else 'Signal'
        same_dt = [m for d, m in AXIS_PAIRS if d == dt and m != n and m < 300] or [7, 12]
        other = same_dt[k % len(same_dt)]
        if k % 2 == 0:
            scripted_history(rep, g, cls, dt, n, 'ctor', [('time', None), ('reset_values', other), ('time', None)][:3 if n < 300 else 1], cases, stats, 'axis')
        else:
            scripted_history(rep, g, cls, dt, other, 'reset' if k % 4 == 1 else 'ctor', [('reset_values', n), ('time', None)], cases, stats, 'axis')
        k += 1
    scripts = [(6, [('running_average', 5), ('running_average', 6), ('running_average', 7), ('running_average', 9)]),
               (5, [('running_average', 9)]),
               (8, [('running_average', 7), ('running_average', 8), ('running_average', 9.5), ('running_average', 12), ('running_average', 17), ('values', None)]),
               (40, [('running_average', 9), ('reset_values', 6), ('running_average', 9), ('time', None)]),
               (64, [('running_average', 20), ('reset_values', 12), ('running_average', 20), ('reset_values', 30), ('running_average', 20)]),
               (4, [('running_average', 4), ('running_average', 40)]),
               (9, [('running_average', 9), ('running_average', 10), ('running_average', 11)]),
               (2, [('running_average', 2), ('running_average', 3)])]
    for n, steps in scripts:
        for fl in (FLAVOURS if tier != 'quick' else [FLAVOURS[k % 4], FLAVOURS[(k + 1) % 4]]):
            g = G(rng, tier, fl)
            scripted_history(rep, g, 'AccSignal' if k % 2 else 'Signal', gens.dyadic_dt(rng, 3, 7), n, 'ctor' if k % 3 else 'reset', steps, cases, stats, 'chunk>=record')
            k += 1


# ----------------------------------------------------------------------------- run
def run(rep, rng, tier):
    res, gen_err = regen()
    ok = rep.prove('Prop_C05', gen_failed=gen_err)
    if res is not None:
        rep.extra['translated'] = {'functions': len(res['funcs']), 'methods': {c['name']: len(c['methods']) for c in res['classes']},
                                   'excluded': res['excluded'], 'assumed_pure_callbacks': res['assumed_pure'], 'dtype_conditional': res['dtype_conditional']}
        rep.obligations += 2 + 3 * len(res['classes'])       # aggregated vm_compute obligations of gen/Gen_effects_obl.v
        if ok:
            rep.discharged += 2 + 3 * len(res['classes'])
    if not ok and gen_err is None:
        # which obligation flipped (the definitions still compile even when an obligation fails)
        okb, _ = core.make(['model/K_C05.vo'])
        if okb:
            rep.extra['failing_static'] = core.coq_eval('model.K_C05', '(failing_funcs, failing_methods, failing_nd)', extra_imports='From EQ Require Import model.M_effects gen.Gen_effects.\n')
    funcs = public_functions()
    translated = set(f['name'] for f in res['funcs']) if res is not None else set(funcs)
    stats = {'no_generator': set(), 'raised': {}}
    cases = []
    tmpdir = tempfile.mkdtemp(prefix='c05_')
    import atexit, shutil
    atexit.register(shutil.rmtree, tmpdir, True)
    reps = 2 if tier == 'quick' else 6
    exercised = set()
    for qual in sorted(funcs):
        if qual not in translated:
            continue
        for fl in FLAVOURS:
            for _ in range(reps):
                g = G(rng, tier, fl)
                try:
                    c = fn_case(rep, g, qual, funcs[qual], tmpdir, stats)
                except Exception as e:  # noqa  (generator problem, not an implementation problem)
                    stats.setdefault('generator_errors', {})[qual] = '%s: %s' % (type(e).__name__, e)
                    c = None
                if c is not None:
                    cases.append(c)
                    exercised.add(qual)
    nh = 120 if tier == 'quick' else 600
    for k in range(nh):
        g = G(rng, tier, FLAVOURS[k % 4])
        object_history(rep, g, 'AccSignal' if k % 3 else 'Signal', cases, stats)
    for k in range(nh // 4):
        g = G(rng, tier, FLAVOURS[k % 4])
        cluster_history(rep, g, cases, stats)
    for k in range(nh // 10):      # clusters built from a list of float64 arrays of different lengths
        g = G(rng, tier, 'farr')
        cluster_history(rep, g, cases, stats, unequal=True)
    length_histories(rep, rng, tier, cases, stats)
    rep.extra['functions_exercised'] = len(exercised)
    rep.extra['functions_without_generator'] = sorted(stats['no_generator'])
    rep.extra['calls_that_raised'] = stats['raised']
    if stats.get('generator_errors'):
        rep.extra['generator_errors'] = stats['generator_errors']
    rep.correspond('model.K_C05', 'check_case', cases, describe='model_out (%s)', max_cases=250, max_bytes=2_500_000,
                   extra_imports='From EQ Require Import model.M_effects gen.Gen_effects.\nLocal Open Scope string_scope.\n')


def finish(rep):
    return rep.finish(rule=RULE, trusted=TRUSTED,
                      assumptions=['the effect IR abstracts values, dtypes and lengths; loops and branches are non-deterministic',
                                   'translator classification table (validated dynamically each run)'],
                      checker_cmd='translator/py2ir_effects.py -> coq/gen/Gen_effects*.v; cd coq && make props/Prop_C05.vo (Print Assumptions on every theorem); '
                                  'dynamic cross-check: coqc -Q coq EQ coq/run/C05_*.v')
