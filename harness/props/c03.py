"""C03 — response spectra are peak responses with consistent pseudo-spectral relations.

Theorems (Prop_C03) are about model/M_spectra.v on top of the response rows of model/M_sdof.v. Tie: the spectra layer is
run at Q on the implementation's own response_series rows (whose tie to the recurrence model is K_C01, a reduced set
of which runs here too) and compared with pseudo_response_spectra / true_response_spectra / AccSignal.s_d,s_v,s_a /
the energy spectra / calc_asi / calc_vsi; the property's predicates (non-negative, one entry per period, object >= raw,
input energy sign) are evaluated on implementation outputs inside Coq.

Source-text ties: Gen_sdof_loop.v (pseudo relations, 6 dt cut; translator/py2coq_sdof_loop.py, shared with C01) and Gen_c03.v
(sdof.absmax, response_series, calc_resp_uke_spectrum, calc_input_energy_spectrum, im.calc_asi, im.calc_vsi incl. defaults, call
argument order and the tuple component used; translator/py2coq_c03.py) are regenerated from $EQSIG_REPO on every run and the
`*_is_source` theorems of Prop_C03 / Prop_C03_source re-proved.
"""
import math
import numpy as np
from harness import core, gens
from harness.core import q, qlist, qmat, Case, guarded, ImplError
from harness.props import c01

PI2 = 2 * np.pi
RULE = ('cases = (function, record, dt, periods (with/without leading 0, on both sides of 6*dt and exactly at 6*dt for dyadic dt), xi, container kind list/tuple/array, min_dt_ratio in {1,2,4,8}); object history: spectra read, another period grid of the same length and end points assigned through the response_times setter, spectra read again; true_response_spectra also with xi exactly 0 (int and float) on constant-acceleration / pulse records with T up to 40 durations; object histories: record changed between two reads, and two gen_response_spectrum calls (or a lazy read, then a call) on one object with a larger min_dt_ratio the second time and T_min/20 < dt; '
        'spectra compared at 1e-13 with the Q-model applied to the implementation\'s own response_series rows; object-level: refinement factor compared exactly, interpolated record at 1e-13, '
        'spectra at 1e-13 on rows of the refined record, and S_d(object) >= S_d(raw); energy spectra at 1e-12 of the sum of absolute terms; final input energy >= 0 evaluated on outputs (known finding); '
        'non-finite outputs are violations; non-trivial = record not identically zero')
TRUSTED = [
    'Coq 8.16.1 kernel + vm_compute; Interval (one refutation witness)',
    'hand model coq/model/M_spectra.v: w = 2*pi/T with placeholder, 6*dt cut, object step rule, np.interp refinement are tied by the correspondence of this run (model/K_C03.v) '
    '(+ the scalar readings of Gen_sdof_loop.v); absmax, uke_row, input_energy(_series), spectrum_intensity(_raw) are in addition proved equal, for all inputs, to the definitions '
    'generated from the source text (Prop_C03_source)',
    'translator/py2coq_c03.py (Python ast, fail-closed whitelist; grammar of py2coq_numpy.py + np.sum/np.cumsum(axis=1), cumulative_trapezoid without keywords, .max(axis)/.min(axis), scalar '
    'comparisons, np.where on scalars, `if p is None` defaults, 3-tuple unpacking of the response call): its READINGS are trusted and tied only by the correspondence -- 2-d arrays one row '
    '(= one period) at a time (axis=1, np.diff last axis, broadcasting of .values, a.max(axis) = row maximum), np.array(periods) = identity on a list, cumulative_trapezoid(y) = '
    'tl (cumtrapz 1 y), an option None = argument omitted / None; np.arange and the called response functions (nigam_and_jennings_response: C01; pseudo_response_spectra: Gen_sdof_loop + '
    'correspondence) are INPUT functions of the generated definitions, only the literals / argument order / returned component are tied; calc_vsi is defined twice in im.py (identical '
    'text), the last definition is translated',
    'response rows given to the Q-model are the implementation\'s own response_series output on the same (possibly refined) record; that function is tied by K_C01 (C01)',
    'object-level factor: dt/target_dt is compared in exact arithmetic; cases whose float quotient is within 1e-9 of an integer are skipped and counted (float rounding of that quotient is C14\'s subject)',
    'translator/py2coq_sdof_loop.py (Python ast, fail-closed, structural location of the statements) for `w = 2 * np.pi / periods`, `svs = w * sds`, `sas = w ** 2 * sds` and `np.where(periods < dt * 6, absmax(motion), sas)`: reads the array statements as scalar statements per period (accepted forms in the header of coq/gen/Gen_sdof_loop.v); the numpy broadcasting / np.where semantics behind that reading is tied by the correspondence',
    'exact real arithmetic in the theorems; Python harness',
]


def m2(x):
    return np.atleast_2d(np.array(x, dtype=float))


def finite(*xs):
    return all(np.all(np.isfinite(np.array(x, dtype=float))) for x in xs)


def gen_periods(rng, dt, lead0, dyadic):
    k = rng.randint(1, 5)
    ps = []
    for _ in range(k):
        r = rng.random()
        if r < 0.35:
            P = dt * rng.choice([0.5, 1, 2, 3, 5, 5.5, 6, 6.5, 7, 8])       # around the 6*dt cut, incl. exactly on it
        else:
            P = dt * 10 ** rng.uniform(math.log10(0.25), math.log10(2e3))
        ps.append(float(P))
    if rng.random() < 0.6:
        ps.sort()
    if lead0:
        ps = [0.0] + ps
    return ps


def fragile_cut(periods, dt):
    """the float test `T < dt * 6` and the exact-rational one disagree (dt * 6 rounds across T): skip and count"""
    from fractions import Fraction as F
    return any((P < dt * 6) != (F(P) < F(dt) * 6) for P in periods)


def exact_factor(dt, ratio, minp):
    from fractions import Fraction as F
    tq = max(F(minp) / 20, F(dt) / ratio)
    if tq < F(dt):
        return int(math.ceil(F(dt) / tq))
    return 1


def regen_objlayer():
    """re-translate AccSignal.gen_response_spectrum / generate_response_spectrum and the lazy getters s_a, s_v, s_d of
    eqsig/single.py into coq/gen/Gen_c03_obj.v (fail closed): the C03_object_*_is_source theorems of Prop_C03 are then
    re-proved against the code that is in the repo now"""
    import sys, os
    try:
        sys.path.insert(0, os.path.join(core.VERIF, 'translator'))
        import py2coq_objlayer
        py2coq_objlayer.regenerate_c03(repo=core.REPO)
    except Exception as e:  # fail closed
        return 'py2coq_objlayer(C03): %s: %s' % (type(e).__name__, e)
    return None


def regen_c03():
    """re-translate absmax / response_series / calc_resp_uke_spectrum / calc_input_energy_spectrum (eqsig/sdof.py) and calc_asi /
    calc_vsi (eqsig/im.py) into coq/gen/Gen_c03.v (fail closed): the `*_is_source` theorems of Prop_C03_source are then re-proved
    against the code that is in the repo now. None or an error message"""
    import os, sys
    try:
        sys.path.insert(0, os.path.join(core.VERIF, 'translator'))
        import py2coq_c03
        py2coq_c03.regenerate(repo=core.REPO)
    except Exception as e:
        return 'translator/py2coq_c03.py failed: %s: %s' % (type(e).__name__, e)
    return None


def run(rep, rng, tier):
    import eqsig
    from eqsig import sdof
    # the pseudo-spectral lines and the 6 dt cut are re-extracted from the source text on every run (Gen_sdof_loop.v, shared with C01)
    rep.prove('Prop_C03', gen_failed='; '.join(m for m in (c01.regen_loop(), regen_objlayer()) if m) or None)
    rep.prove('Prop_C03_e2e')
    # absmax, the energy spectra and calc_asi / calc_vsi (bodies, defaults, call wiring) re-extracted from the source text (Gen_c03.v)
    rep.prove('Prop_C03_source', gen_failed=regen_c03())
    N = 1 if tier == 'quick' else 8
    cases = []
    fragile = 0

    def viol(site, args, r):
        rep.violation(site, {'function': site, 'args': args, 'impl_error': str(r)})

    def add(coq, site, args, nz=True, impl=None):
        rp = {'function': site, 'args': args}
        if impl is not None:
            rp['impl'] = impl
        cases.append(Case(coq, rp, site, nontrivial=nz, klass=site))

    def record(maxlen=150):
        n = gens.small_len(rng, 2, maxlen)
        rec, kind = c01.gen_record(rng, n)
        if kind in ('hat', 'step') and rng.random() < 0.5:
            rec = -rec
        return rec

    CONT = {'array': np.array, 'list': list, 'tuple': tuple}
    # ---- pseudo / true spectra
    for k in range(45 * N):
        rec = record()
        dyadic = rng.random() < 0.4
        dt = rng.choice([0.25, 0.125, 0.0625]) if dyadic else rng.choice([0.01, 0.005, 0.02])
        lead0 = rng.random() < 0.4
        periods = gen_periods(rng, dt, lead0, dyadic)
        if fragile_cut(periods, dt):
            fragile += 1
            continue
        xi = rng.choice(c01.XIS)
        cont = rng.choice(list(CONT))
        int_periods = rng.random() < 0.2
        if int_periods:    # all-integer period containers (list / tuple / int ndarray), with and without a leading 0
            dt = rng.choice([0.25, 0.125, 0.5])
            periods = ([0] if lead0 else []) + sorted(rng.sample([1, 2, 3, 4, 8], rng.randint(1, 3)))
        which = 'pseudo' if k % 3 else 'true'
        fn = sdof.pseudo_response_spectra if which == 'pseudo' else sdof.true_response_spectra
        site = 'sdof.%s_response_spectra[%s%s]' % (which, cont, ',int periods' if int_periods else '')
        args = {'dt': dt, 'xi': xi, 'periods': periods, 'values': list(map(float, rec))}
        rows = guarded(sdof.response_series, rec, dt, np.array(periods, dtype=float), xi)
        out = guarded(fn, rec, dt, CONT[cont](periods), xi)
        if isinstance(rows, ImplError) or isinstance(out, ImplError):
            viol(site, args, rows if isinstance(rows, ImplError) else out)
            continue
        if not finite(*out):
            viol(site, args, 'non-finite output %r' % (out,))
            continue
        u, v, a = map(m2, rows)
        sd, sv, sa = (np.array(x, dtype=float) for x in out)
        if which == 'pseudo':
            coq = 'KPseudo %s %s %s %s %s %s %s %s %s %s %s' % (q(PI2), q(dt), qlist(periods), qlist(rec), qmat(u), qmat(v), qmat(a), qlist(sd), qlist(sv), qlist(sa), q(1e-13))
        else:
            coq = 'KTrue %s %s %s %s %s %s %s %s %s %s' % (q(dt), qlist(periods), qlist(rec), qmat(u), qmat(v), qmat(a), qlist(sd), qlist(sv), qlist(sa), q(1e-13))
        add(coq, site, args, nz=bool(np.any(rec != 0)), impl=[list(sd), list(sv), list(sa)])

    # ---- true spectra of the UNDAMPED oscillator (xi exactly 0, passed as int 0 or 0.0) on forced responses: the true S_v is
    # max|v| of the response series, which differs from the pseudo velocity w*max|u| (e.g. a constant acceleration shorter than
    # T/4: max|v| = sin(w t_end)/w, w*max|u| = (1 - cos(w t_end))/w), and the true S_a is max|a_total| of the series
    for k in range(6 * N):
        dt = rng.choice([0.01, 0.005, 0.02, 0.25, 0.125])
        shape = k % 3
        if shape == 0:       # constant acceleration, oscillators much longer than the record (response still growing at the end)
            n = rng.randint(8, 120)
            rec = np.ones(n) * rng.choice([1.0, -1.0, 2.0, 0.5])
            dur = (n - 1) * dt
            periods = sorted(dur * rng.uniform(4.5, 40) for _ in range(rng.randint(1, 4)))
            if rng.random() < 0.5:
                periods = periods + [dt * rng.uniform(8, 60)]
        elif shape == 1:     # one-sided pulse followed by free vibration / any record of the C01 generator
            n = rng.randint(12, 120)
            m = rng.randint(2, n - 1)
            rec = np.array([float(rng.choice([1, 2, -1]))] * m + [0.0] * (n - m))
            periods = [dt * 10 ** rng.uniform(math.log10(7), math.log10(2e3)) for _ in range(rng.randint(1, 4))]
        else:
            rec = record(120)
            periods = gen_periods(rng, dt, False, False)
        if rng.random() < 0.3:
            periods = [0.0] + list(periods)
        periods = [float(P) for P in periods]
        if fragile_cut(periods, dt):
            fragile += 1
            continue
        xi0 = [0, 0.0][k % 2]
        cont = rng.choice(list(CONT))
        site = 'sdof.true_response_spectra[xi=%r,%s]' % (xi0, cont)
        args = {'dt': dt, 'xi': xi0, 'periods': periods, 'values': list(map(float, rec))}
        rows = guarded(sdof.response_series, rec, dt, np.array(periods, dtype=float), 0.0)
        out = guarded(sdof.true_response_spectra, rec, dt, CONT[cont](periods), xi0)
        if isinstance(rows, ImplError) or isinstance(out, ImplError):
            viol(site, args, rows if isinstance(rows, ImplError) else out)
            continue
        if not finite(*out):
            viol(site, args, 'non-finite output %r' % (out,))
            continue
        u, v, a = map(m2, rows)
        sd, sv, sa = (np.array(x, dtype=float) for x in out)
        coq = 'KTrue %s %s %s %s %s %s %s %s %s %s' % (q(dt), qlist(periods), qlist(rec), qmat(u), qmat(v), qmat(a), qlist(sd), qlist(sv), qlist(sa), q(1e-13))
        add(coq, site, args, nz=bool(np.any(rec != 0)), impl=[list(sd), list(sv), list(sa)])

    # ---- object level: AccSignal.s_d / s_v / s_a through gen_response_spectrum(min_dt_ratio)
    for k in range(30 * N + 6 * N + 5 * N):
        rec = record(80)
        dt = rng.choice([0.25, 0.125, 0.01, 0.02, 0.005])
        ratio = rng.choice([1, 2, 4, 8])
        lead0 = rng.random() < 0.35
        # periods whose minimum forces refinement (T_min/20 < dt) or not
        base = dt * rng.choice([1.0, 1.2, 2.0, 2.5, 3.0, 5.0, 6.0, 7.0, 9.0, 10.0, 13.0, 15.0, 20.0, 40.0, 80.0])   # dt/target_dt integer and not
        periods = sorted([base] + [base * rng.uniform(1, 30) for _ in range(rng.randint(0, 3))])
        if lead0:
            periods = [0.0] + periods
        if fragile_cut(periods, dt):
            fragile += 1
            continue
        minp = periods[1] if lead0 else periods[0]
        target = max(minp / 20, dt / ratio)
        mode = k % 3
        site = 'AccSignal.s_d/s_v/s_a[%s]' % ['gen_response_spectrum(min_dt_ratio)', 'lazy default', 'gen_response_spectrum(response_times=)'][mode]
        args = {'dt': dt, 'min_dt_ratio': ratio, 'periods': periods, 'values': list(map(float, rec))}

        # 40%: the spectra are first read on ANOTHER record, the record is then changed through the public API, and the
        # spectra are read again (lazily): they must be those of the current record
        mutate = rng.random() < 0.4
        how = rng.choice(['reset_values', 'add_constant+add_series', 'add_series'])
        # the last 6*N cases: ONE object answers twice for the same record, periods and damping; the second call asks for a
        # larger min_dt_ratio (or: the spectra are first read lazily = ratio 4, then gen_response_spectrum(min_dt_ratio=8)),
        # with T_min/20 < dt so that the ratio decides the integration step: the spectra are those of the LAST call's step
        first = None
        if k >= 30 * N:
            mutate, mode = False, 0
            j = k - 30 * N
            if j % 3 == 2:
                first, ratio = 'lazy', 8
            else:
                ratio = rng.choice([2, 4, 8])
                first = rng.choice([r for r in (1, 2, 4) if r < ratio])
            r1 = 4 if first == 'lazy' else first
            # T_min/20 < dt/r1 for 5 bases in 6: the step of the first call is then dt/r1 and the second call's is finer
            bases = [b for b in (1.0, 1.2, 2.0, 2.5, 3.0, 5.0, 6.0, 7.0, 9.0, 10.0, 13.0, 15.0) if b * r1 < 20]
            base = dt * (rng.choice(bases) if rng.random() < 5 / 6 else rng.choice([10.0, 13.0, 15.0, 19.0]))
            periods = sorted([base] + [base * rng.uniform(1, 30) for _ in range(rng.randint(0, 3))])
            if lead0:
                periods = [0.0] + periods
            if fragile_cut(periods, dt):
                fragile += 1
                continue
            minp = base
            xi_kw = [{}, {'xi': 0.05}][(j // 3) % 2]
            what = 'read s_a (lazy, default min_dt_ratio 4)' if first == 'lazy' else 'gen_response_spectrum(%smin_dt_ratio=%d)' % ('xi=0.05, ' if xi_kw else '', first)
            site = 'AccSignal.s_d/s_v/s_a[gen_response_spectrum(min_dt_ratio); second call on the object, larger min_dt_ratio]'
            args = {'dt': dt, 'min_dt_ratio': ratio, 'periods': periods, 'values': list(map(float, rec)),
                    'history': ['construct', what, 'gen_response_spectrum(%smin_dt_ratio=%d)' % ('xi=0.05, ' if xi_kw else '', ratio), 'read s_d, s_v, s_a'],
                    'refinement_factor_first_call': exact_factor(dt, 4 if first == 'lazy' else first, minp),
                    'refinement_factor_second_call': exact_factor(dt, ratio, minp)}
        # the last 5*N cases: the spectra are first read for ANOTHER period grid with the same number of points and the same
        # first and last period (log-spaced), the periods are then assigned through the response_times setter and the spectra
        # are read again (lazily): they are those of the periods the object holds now
        other_periods = None
        if k >= 36 * N:
            mutate, mode, first = False, 1, None
            npts = rng.randint(3, 6)
            last = base * rng.uniform(4, 30)
            periods = [float(x) for x in np.linspace(base, last, npts)]
            other_periods = [float(x) for x in np.geomspace(base, last, npts)]
            other_periods[0], other_periods[-1] = periods[0], periods[-1]
            if lead0:
                periods, other_periods = [0.0] + periods, [0.0] + other_periods
            if fragile_cut(periods, dt):
                fragile += 1
                continue
            minp = base
            cont = rng.choice(['array', 'list'])
            site = 'AccSignal.s_d/s_v/s_a[read; response_times = other grid, same length and end points; read again]'
            args = {'dt': dt, 'min_dt_ratio': 4, 'periods': periods, 'values': list(map(float, rec)), 'first_periods': other_periods, 'assigned_as': cont,
                    'history': ['construct with response_times=first_periods', 'read s_a', 'response_times = periods', 'read s_d, s_v, s_a']}
        if mutate:
            mode, ratio = 1, 4
            site = 'AccSignal.s_d/s_v/s_a[read; %s; read again]' % how
            args['history'] = ['construct on 0.5*values+1', 'read s_a', how, 'read s_d, s_v, s_a']
        if mode == 1:
            ratio = 4
            args['min_dt_ratio'] = 4
        target = max(minp / 20, dt / ratio)
        if exact_factor(dt, ratio, minp) != (int(np.ceil(dt / target)) if target < dt else 1):
            fragile += 1          # the float quotient dt/target_dt rounds across an integer: C14's subject, not C03's
            continue

        def obj():
            if mutate:
                other = rec * 0.5 + 1.0
                s = eqsig.AccSignal(other, dt, response_times=np.array(periods))
                _ = s.s_a
                if how == 'reset_values':
                    s.reset_values(rec)
                elif how == 'add_series':
                    s.add_series(rec - other)
                else:
                    s.add_constant(-1.0)
                    s.add_series(rec * 0.5)
            elif other_periods is not None:
                s = eqsig.AccSignal(rec, dt, response_times=np.array(other_periods))
                _ = s.s_a
                s.response_times = np.array(periods) if cont == 'array' else list(periods)
            elif first is not None:
                s = eqsig.AccSignal(rec, dt, response_times=np.array(periods))
                if first == 'lazy':
                    _ = s.s_a
                else:
                    s.gen_response_spectrum(min_dt_ratio=first, **xi_kw)
                s.gen_response_spectrum(min_dt_ratio=ratio, **xi_kw)
            elif mode == 0:
                s = eqsig.AccSignal(rec, dt, response_times=np.array(periods))
                s.gen_response_spectrum(min_dt_ratio=ratio)
            elif mode == 1:
                s = eqsig.AccSignal(rec, dt, response_times=np.array(periods))
            else:
                s = eqsig.AccSignal(rec, dt)
                s.gen_response_spectrum(response_times=np.array(periods), min_dt_ratio=ratio)
            return np.array(s.s_d, dtype=float), np.array(s.s_v, dtype=float), np.array(s.s_a, dtype=float), np.array(s.values, dtype=float)
        out = guarded(obj)
        if isinstance(out, ImplError):
            viol(site, args, out)
            continue
        if not finite(*out):
            viol(site, args, 'non-finite output')
            continue
        rec = out[3]           # the object's current record (after a history: what the public API left in .values)
        args['current_values'] = list(map(float, rec))
        # what the harness observes of the refinement: the implementation's own interpolation helper
        from eqsig.fns.time_step import interp_array_to_approx_dt
        if target < dt:
            vi, dti = interp_array_to_approx_dt(rec, dt, target, even=False)
            m = int(round(dt / dti))
        else:
            vi, m = rec, 1
        from fractions import Fraction as F
        if any((P < (dt / m) * 6) != (F(P) < F(dt) / m * 6) for P in periods):
            fragile += 1       # T vs 6*dt decided differently by floats and by exact arithmetic at the refined step
            continue
        rows = guarded(sdof.response_series, vi, dt / m, np.array(periods), 0.05)
        raw = guarded(sdof.pseudo_response_spectra, rec, dt, np.array(periods), 0.05)
        if isinstance(rows, ImplError) or isinstance(raw, ImplError):
            viol(site, args, rows if isinstance(rows, ImplError) else raw)
            continue
        u, v, a = map(m2, rows)
        coq = 'KObj %s %s %s %s %s (%d)%%Z %s %s %s %s %s %s %s %s' % (q(PI2), q(dt), q(ratio), qlist(periods), qlist(rec), m, qlist(vi), qmat(u), qmat(v), qmat(a),
                                                                       qlist(out[0]), qlist(out[1]), qlist(out[2]), q(1e-13))
        add(coq, site, args, nz=bool(np.any(rec != 0)), impl=[list(x) for x in out])
        add('KGeRaw %s %s %s' % (q(1e-9), qlist(raw[0]), qlist(out[0])), 'AccSignal.s_d[never below the raw-sample value]', args, nz=bool(np.any(rec != 0)))

    # ---- energy spectra (the witness of the known input-energy-sign finding always runs first)
    for k in range(25 * N + 1):
        rec = record(120)
        dt = rng.choice([0.25, 0.01, 0.005, 0.02])
        periods = [dt * 10 ** rng.uniform(math.log10(0.5), math.log10(500)) for _ in range(rng.randint(1, 4))]
        xi = rng.choice([0.0, 0.05, 0.3, None])
        if k == 0:
            rec, dt, periods, xi = np.array([-3.0, 1.0]), 0.1, [0.5, 1.0, 5.0], 0.05
        site = 'sdof.calc_input_energy_spectrum/calc_resp_uke_spectrum'
        args = {'dt': dt, 'xi': xi, 'periods': periods, 'values': list(map(float, rec))}
        # every third case: periods omitted -> the object's response_times; else periods as array / list
        pmode = ['array', 'default', 'list'][k % 3] if k else 'array'
        args['periods_passed_as'] = pmode
        if pmode == 'default':
            asig = guarded(eqsig.AccSignal, rec, dt, response_times=np.array(periods))
            if isinstance(asig, ImplError):
                viol(site, args, asig)
                continue
            pkw = {}
        else:
            asig = eqsig.AccSignal(rec, dt)
            pkw = {'periods': np.array(periods) if pmode == 'array' else list(periods)}
        rows = guarded(sdof.response_series, rec, dt, np.array(periods), 0.05 if xi is None else xi)
        e1 = guarded(sdof.calc_input_energy_spectrum, asig, xi=xi, **pkw)
        e2 = guarded(sdof.calc_input_energy_spectrum, asig, xi=xi, series=True, **pkw)
        e3 = guarded(sdof.calc_resp_uke_spectrum, asig, xi=xi, **pkw)
        bad = [x for x in (rows, e1, e2, e3) if isinstance(x, ImplError)]
        if bad:
            viol(site, args, bad[0])
            continue
        if not finite(e1, e2, e3):
            viol(site, args, 'non-finite output')
            continue
        v = m2(rows[1])
        add('KEnergy %s %s %s %s %s %s %s' % (q(dt), qlist(rec), qmat(v), qlist(e1), qmat(m2(e2)), qlist(e3), q(1e-12)), site, args, nz=bool(np.any(rec != 0)),
            impl={'input_energy': list(map(float, e1)), 'uke': list(map(float, e3))})
        scale = float(np.max(np.sum(np.abs(rec * v * dt), axis=1))) if len(rec) else 0.0
        c = Case('KSignEnd %s %s' % (q(1e-12 * scale), qlist(e1)), {'function': 'eqsig.sdof.calc_input_energy_spectrum', 'args': args, 'impl': list(map(float, e1)),
                                                                  'property_predicate': 'input energy at the end of the record >= 0'},
                 'calc_input_energy_spectrum[sign]', nontrivial=bool(np.any(rec != 0)), klass='calc_input_energy_spectrum[sign]')
        cases.append(c)

    # ---- spectrum intensities (consumers of the pseudo spectra)
    for k in range(4 * N):
        rec = record(60)
        dt = rng.choice([0.01, 0.02])
        asig = eqsig.AccSignal(rec, dt)
        for fn, nm, P, col, g in ((eqsig.im.calc_asi, 'calc_asi', np.arange(0.1, 1.51, 0.01), 2, 9.81), (eqsig.im.calc_vsi, 'calc_vsi', np.arange(0.1, 2.51, 0.01), 1, None)):
            args = {'dt': dt, 'values': list(map(float, rec))}
            if k % 2 == 0:       # defaults: xi = 0.05 and the function's own period grid
                xi_, kw = 0.05, {}
            else:                # explicit xi / periods (keyword and positional)
                xi_ = [0.02, 0.1][(k // 2) % 2]
                P = [[0.1, 0.25, 0.5, 1.0, 2.0], [0.3, 0.05, 1.5]][(k // 2) % 2]
                kw = {'xi': xi_, 'periods': P}
                args.update(xi=xi_, periods=list(P))
            out = guarded(fn, asig, **kw)
            ps = guarded(sdof.pseudo_response_spectra, rec, dt, P, xi_)
            if isinstance(out, ImplError) or isinstance(ps, ImplError):
                viol('im.' + nm, args, out if isinstance(out, ImplError) else ps)
                continue
            if not finite(out):
                viol('im.' + nm, args, 'non-finite output %r' % (out,))
                continue
            if g is None:
                coq = 'KIntensityRaw %s %s %s' % (qlist(ps[col]), q(float(out)), q(1e-12))
            else:
                coq = 'KIntensity %s %s %s %s' % (q(g), qlist(ps[col]), q(float(out)), q(1e-12))
            add(coq, 'im.' + nm, args, nz=bool(np.any(rec != 0)), impl=float(out))
    rep.extra['fragile_skipped'] = fragile
    rep.correspond('model.K_C03', 'check_case', cases, max_cases=60, max_bytes=2_500_000, timeout=900)

    # ---- reduced structural tie of the response rows (shared with C01)
    tie = []
    for k in range(15 * N):
        n = gens.small_len(rng, 2, 200)
        rec, kind = c01.gen_record(rng, n)
        dt = rng.choice([0.01, 0.005, 0.02, 0.25])
        lead0 = rng.random() < 0.35
        periods = c01.gen_periods(rng, dt, lead0)
        xi = rng.choice(c01.XIS)
        entry = c01.ENTRIES[k % 3]
        cfs = guarded(c01.coeff_lists, xi, periods, dt)
        out = guarded(c01.call_entry, entry, rec, dt, periods, xi)
        if isinstance(cfs, ImplError) or isinstance(out, ImplError):
            viol(entry, {'dt': dt, 'xi': xi, 'periods': periods, 'values': list(rec)}, cfs if isinstance(cfs, ImplError) else out)
            continue
        tie.append(c01.mk_case(entry, rec, dt, periods, xi, cfs, out, 1e-12, 'tie/%s' % entry))
    rep.correspond('model.K_C01', 'check_case', tie, max_cases=60, max_bytes=3_000_000, timeout=900)


def finish(rep):
    return rep.finish(rule=RULE, trusted=TRUSTED, assumptions=['exact real arithmetic in the theorems'])
