"""C19 — surface-energy and time-shift utilities match the shifted-wave definition."""
import numpy as np
from harness import core, gens
from harness.core import q, qlist, qmat, zlist, cbool, Case, guarded, guarded_pure, ImplError

FN = ['calc_surface_energy', 'calc_cum_abs_surface_energy', 'get_time_shift_motions']
CLIPS = ['none', 'start', 'end', 'both']
RULE = ('surface functions: cases = (function in {calc_surface_energy, calc_cum_abs_surface_energy, get_time_shift_motions}, record, dt, travel times, '
        'up/down reductions scalar or ndarray (separate objects, or one float64 array object passed for both: 3 in 10 cases, nodal), stt >= 0, nodal x trim x start in {T,F}^3), called on an AccSignal with the travel times given as python scalar, list or ndarray; '
        'every call is made twice on the same argument objects: ndarray arguments bit-identical afterwards and both results identical. '
        'Exact domain (tolerance 0): integer records (|a| <= 10, 1..60 samples, incl. records ending non-zero), dt = 2^-j, travel times and stt multiples of dt/8 '
        '(zero, fractional, half- and whole-sample delays, delays beyond the record), reductions multiples of 1/4 (incl. 0 and negative); '
        '1 in 10 (1 in 5 of the relational runs): travel times of whole seconds held as INTEGERS (python int, list of int, int64 ndarray) with dt = 2^-j >= 1/8 and fractional scalar reductions (multiples of 1/8). '
        'Tolerance domain (1e-9 of the largest model value): float records incl. the shipped motion, dt in {0.01,0.005,0.02}, fractional travel times kept 0.05 samples away from every int()/interp branch point. '
        'With trim and start, int(stt/dt) - min int(tt/dt) <= npts is kept (numpy can raise beyond it). '
        'Relational predicates evaluated inside Coq on implementation outputs only: rows = #travel times, npts columns when trimmed, cumulative rows start >= 0 and never decrease, '
        'identically zero for zero travel time at a nodal surface with equal reductions, alpha*|alpha| / alpha^2 / alpha scaling between two runs, each batch row against the single-travel-time call '
        '(trimmed: equal; untrimmed: prefix, and constant after the first extra sample when start=False). '
        'Helpers: put_array_in_2d_array (integer and float values, shifts in [-8, 8] with negative/zero/positive entries, 4 clip modes, compared with the list model AND with the index definition) and '
        'join_values_w_shifts (add/sub, shifts >= 0: numpy cannot broadcast otherwise). non-trivial = record not identically zero and at least one positive travel time / non-zero shift')
TRUSTED = [
    'Coq 8.16.1 kernel + vm_compute',
    'hand-written model coq/model/M_surface.v (+ kin_energy of M_im.v, cumtrapz/cumsum/diff of lib/NpList.v); tie = correspondence of this run (model/K_C19.v)',
    'exact arithmetic (rounding not modelled): exact domain sized so every intermediate has < 2^45 significant bits; tolerance domain measured at 1e-9',
    'np.interp / np.pad / scipy cumulative_trapezoid semantics are modelled (interp_grid0, app/repeat, cumtrapz) and exercised by the correspondence',
    'Q-run vs R-theorems: same polymorphic definitions instantiated at Q and R',
    'source-text tie: translator/py2coq_c19.py (Python ast -> coq/gen/Gen_c19.v by symbolic execution, fail closed, re-run on every check) + the C19_*_is_source theorems for '
    'trim_to_length, calc_surface_energy, calc_cum_abs_surface_energy, get_time_shift_motions, put_array_in_2d_array, join_values_w_shifts: trusted there are only the '
    'translator\'s fixed readings of the NumPy / SciPy primitives (coq/lib/NpSurf.v: slice normalisation, slice store, broadcasting, np.pad, np.arange, np.interp on the sample '
    'grid, int() as truncation) and of the arguments (asig.npts = len(asig.values); reductions both scalars or both arrays)',
    'Python harness',
]


def _asig(vals, dt):
    import eqsig
    return eqsig.AccSignal(np.array(vals, dtype=float), dt)


def call_surface(which, vals, dt, tts_arg, nodal, ur, dr, stt, trim, start):
    """tts_arg / ur / dr are passed to the implementation as given (scalar, list or ndarray); result as list of rows"""
    import eqsig.surface as S
    f = getattr(S, FN[which])
    r = f(_asig(vals, dt), tts_arg, nodal=nodal, up_red=ur, down_red=dr, stt=stt, trim=trim, start=start)
    r = np.array(r, dtype=float)
    if r.ndim == 1:
        r = r[np.newaxis, :]
    return [list(map(float, row)) for row in r]


def red_coq(r):
    if hasattr(r, '__len__'):
        return '(true, %s)' % qlist(list(r))
    return '(false, %s)' % qlist([r])


def replay_call(rp):
    a = rp['args']
    fn = rp['function'].split('.')[-1].split('[')[0]
    if fn in FN:
        tts = a['travel_times']
        tts = np.array(tts) if isinstance(tts, list) and a.get('tt_kind') != 'list' else tts
        ur, dr = a['up_red'], a['down_red']
        if isinstance(ur, list):
            ur, dr = np.array(ur), np.array(dr)
            if str(a.get('reductions_object', '')).startswith('one ndarray'):
                dr = ur
        return call_surface(FN.index(fn), a['values'], a['dt'], tts, a['nodal'], ur, dr, a['stt'], a['trim'], a['start'])
    from eqsig.fns import time_shift as ts
    if fn == 'put_array_in_2d_array':
        return np.array(ts.put_array_in_2d_array(np.array(a['values'], dtype=a.get('values_dtype')), np.array(a['shifts'], dtype=int), clip=a['clip']), dtype=float).tolist()
    return np.array(ts.join_values_w_shifts(np.array(a['values'], dtype=a.get('values_dtype')), np.array(a['shifts'], dtype=int), jtype=a['jtype']), dtype=float).tolist()


def gen_config(rng, exact, tier, shared_red=False, int_tts=False):
    """one configuration of the surface functions (all values python floats).
    shared_red: nodal surface, float64 ndarray reductions, and the SAME array object is passed for up_red and down_red
    int_tts (exact domain): travel times are whole seconds held as INTEGERS (python int / list of int / integer ndarray), dt = 2^-j >= 1/8,
    and the reductions are scalars of which at least one is not a whole number (the same real inputs as with float travel times)"""
    int_tts = bool(int_tts and exact and not shared_red)
    if exact:
        n = gens.small_len(rng, 1, 60)
        vals, style = gens.int_record(rng, n, amp=rng.choice([3, 10]))
        dt = 2.0 ** (-rng.randint(0, 6))
        ntt = rng.choice([1, 1, 2, 3, 4])
        unit = dt / rng.choice([4, 4, 8, 2, 1])
        kmax = rng.choice([4, 12, 24, 24, 8 * (n + 2)])
        tts = [unit * rng.randint(0, kmax) for _ in range(ntt)]
        r = rng.random()
        if r < 0.12:
            tts = [0.0] * ntt
        elif r < 0.25:
            tts[rng.randrange(ntt)] = 0.0
        elif r < 0.4:   # whole- and half-sample delays only
            tts = [dt / 2 * rng.randint(0, 10) for _ in range(ntt)]
        stt = unit * rng.randint(0, rng.choice([0, 4, 16, 40]))
        redv = [1.0, 1.0, 0.5, 0.75, 1.25, 2.0, 0.25, 0.0, -1.0, 1.5]
        if int_tts:
            dt = 2.0 ** (-rng.randint(0, 3))
            tts = [rng.randint(0, rng.choice([2, 4, 4])) for _ in range(ntt)]
            if not any(tts):
                tts[rng.randrange(ntt)] = rng.randint(1, 3)
            stt = (dt / rng.choice([4, 2, 1])) * rng.randint(0, rng.choice([0, 4, 16]))
    else:
        n = gens.small_len(rng, 2, 140)
        vals, style = gens.float_record(rng, n)
        dt = rng.choice([0.01, 0.005, 0.02])
        ntt = rng.choice([1, 2, 3, 4])
        fr = lambda: rng.choice([rng.uniform(0.05, 0.45), rng.uniform(0.55, 0.95)])
        tts = [dt * (rng.randint(0, rng.choice([3, 10, 40])) + fr()) for _ in range(ntt)]
        stt = dt * (rng.randint(0, rng.choice([0, 5, 30])) + fr())
        redv = None
    arr_red = shared_red or (rng.random() < 0.45 and not int_tts)
    same_obj = False
    if arr_red:
        ur = np.array([rng.choice(redv) if redv else rng.uniform(0.2, 1.5) for _ in range(ntt)])
        dr = np.array([rng.choice(redv) if redv else rng.uniform(0.2, 1.5) for _ in range(ntt)])
        if shared_red or rng.random() < 0.2:
            dr = ur.copy()
            same_obj = shared_red or rng.random() < 0.5
    else:
        ur = rng.choice(redv) if redv else rng.uniform(0.2, 1.5)
        dr = ur if rng.random() < 0.5 else (rng.choice(redv) if redv else rng.uniform(0.2, 1.5))
        if int_tts:      # fractional scalar factors (0.9, 0.6 are not dyadic: multiples of 1/8 keep the arithmetic exact)
            frv = [0.5, 0.75, 1.25, 0.25, 1.5, 0.875, 0.625, -0.5, 2.5]
            if float(ur).is_integer():
                ur = rng.choice(frv)
            if rng.random() < 0.6 or float(dr).is_integer() and rng.random() < 0.5:
                dr = rng.choice(frv)
    nodal, trim, start = shared_red or rng.random() < 0.55, rng.random() < 0.5, rng.random() < 0.5
    if shared_red and not np.any(ur):
        ur[0] = dr[0] = 0.75
    if trim and start:   # numpy raises when a row would start beyond the trimmed length
        sds_min = min(int(t / dt) for t in tts)
        while int(stt / dt) - sds_min > n:
            stt = stt / 2
    return dict(vals=[float(x) for x in vals], dt=float(dt), tts=[int(t) for t in tts] if int_tts else [float(t) for t in tts], ur=ur, dr=dr,
                stt=float(stt), nodal=nodal, trim=trim, start=start, exact=exact, same_red_obj=same_obj, int_tts=int_tts)


def args_of(cfg, which, tt_kind):
    return {'values': cfg['vals'], 'dt': cfg['dt'], 'travel_times': cfg['tts'] if tt_kind != 'scalar' else cfg['tts'][0], 'tt_kind': tt_kind,
            'tt_dtype': 'int' if cfg.get('int_tts') else 'float',
            'up_red': cfg['ur'].tolist() if hasattr(cfg['ur'], '__len__') else cfg['ur'],
            'down_red': cfg['dr'].tolist() if hasattr(cfg['dr'], '__len__') else cfg['dr'],
            'stt': cfg['stt'], 'nodal': cfg['nodal'], 'trim': cfg['trim'], 'start': cfg['start'],
            'reductions_object': 'one ndarray object passed as up_red AND down_red' if (cfg.get('same_red_obj') and hasattr(cfg['ur'], '__len__')) else 'separate objects'}


_PURITY_SEEN = set()


def run_cfg(rep, cfg, which, rng):
    """call the implementation on a configuration; returns rows or None (violation already reported)"""
    ntt = len(cfg['tts'])
    tt_kind = rng.choice(['scalar', 'list', 'array']) if ntt == 1 else rng.choice(['list', 'array'])
    tts_arg = cfg['tts'][0] if tt_kind == 'scalar' else (list(cfg['tts']) if tt_kind == 'list' else np.array(cfg['tts']))
    if cfg.get('int_tts'):      # whole seconds held as integers: python int, list of int, integer ndarray
        assert isinstance(cfg['tts'][0], int) and (tt_kind != 'array' or tts_arg.dtype.kind == 'i')
    ur, dr = cfg['ur'], cfg['dr']
    ur = ur.copy() if hasattr(ur, '__len__') else ur
    dr = dr.copy() if hasattr(dr, '__len__') else dr
    if cfg.get('same_red_obj') and hasattr(ur, '__len__'):
        dr = ur          # equal reductions given as one and the same array object
    site = 'eqsig.surface.' + FN[which]
    # the functions are pure in their arguments: travel times / reductions (ndarrays) bit-identical after the call, and a second
    # call on the very same argument objects returns the identical result
    r = guarded_pure(call_surface, which, cfg['vals'], cfg['dt'], tts_arg, cfg['nodal'], ur, dr, cfg['stt'], cfg['trim'], cfg['start'])
    if isinstance(r, ImplError):
        if str(r).startswith(('InputMutated', 'NotRepeatable')):     # one violation per function is enough (the first input found)
            if site in _PURITY_SEEN:
                rep.extra['suppressed_duplicate_purity_violations'] = rep.extra.get('suppressed_duplicate_purity_violations', 0) + 1
                return None, tt_kind
            _PURITY_SEEN.add(site)
        rep.violation(site, {'function': site, 'args': args_of(cfg, which, tt_kind), 'impl_error': str(r),
                             'argument_order': '0 which, 1 values, 2 dt, 3 travel_times, 4 nodal, 5 up_red, 6 down_red, 7 stt, 8 trim, 9 start'})
        return None, tt_kind
    return r, tt_kind


def mk_case(cfg, which, out, tt_kind):
    rtol = 0 if cfg['exact'] else 1e-9
    coq = ('{| c_which := %d; c_nodal := %s; c_trim := %s; c_start := %s; c_dt := %s; c_vals := %s; c_tts := %s; c_ur := %s; c_dr := %s; '
           'c_stt := %s; c_out := %s; c_rtol := %s |}'
           % (which, cbool(cfg['nodal']), cbool(cfg['trim']), cbool(cfg['start']), q(cfg['dt']), qlist(cfg['vals']), qlist(cfg['tts']),
              red_coq(cfg['ur']), red_coq(cfg['dr']), q(cfg['stt']), qmat(out), q(rtol)))
    site = 'eqsig.surface.' + FN[which]
    nontriv = any(v != 0 for v in cfg['vals']) and any(t > 0 for t in cfg['tts'])
    klass = '%s/%s/nodal=%d,trim=%d,start=%d/%s' % (FN[which], 'exact' if cfg['exact'] else 'tol', cfg['nodal'], cfg['trim'], cfg['start'],
                                                   'arr' if hasattr(cfg['ur'], '__len__') else 'scalar')
    return Case(coq, {'function': site, 'args': args_of(cfg, which, tt_kind), 'impl': out}, site, nontrivial=nontriv, klass=klass)


RULE += ('; weak records: float records scaled by 1e-3..1e-6 through the model correspondence (tolerance relative to the largest model value), '
         'alpha scaling with alpha = 2^-10..2^-30 (exact domain, tolerance 0) and alpha = 1e-3..1e-6 (float records, 1e-9)')


def low_amplitude_cases(rep, rng, tier, cases, scales):
    """weak records (an O(1) m/s2 record expressed in small units, alpha = 1e-3 .. 1e-6): the model correspondence of the three
    surface functions in the tolerance domain (tolerance relative to the largest model value, so it scales with alpha^2), the
    alpha^2 / alpha|alpha| / alpha predicate between a record and its weak copy: exact domain with alpha = 2^-k (every float
    operation stays exact: tolerance 0), float records with alpha = 10^-e (1e-9 of the largest scaled value)"""
    n_low, n_sc = (18, 18) if tier == 'quick' else (240, 240)
    for k in range(n_low):
        cfg = gen_config(rng, False, tier)
        al = 10.0 ** (-(3 + k % 4)) * rng.choice([1.0, 1.0, 2.5, 0.4])
        cfg = dict(cfg, vals=[float(al * v) for v in cfg['vals']])
        which = [1, 1, 0, 1, 2, 1][k % 6]
        r, tt_kind = run_cfg(rep, cfg, which, rng)
        if r is not None:
            c = mk_case(cfg, which, r, tt_kind)
            c.klass += '/low-amplitude'
            cases.append(c)
    for k in range(n_sc):
        exact = k % 3 != 2
        cfg = gen_config(rng, exact, tier)
        which = [1, 1, 0, 1, 1, 2][k % 6]
        r1, tk = run_cfg(rep, cfg, which, rng)
        if r1 is None:
            continue
        if exact:
            al = 2.0 ** (-rng.choice([10, 14, 17, 20, 20, 24, 30])) * rng.choice([1.0, 1.0, -1.0, 3.0])
        else:
            al = 10.0 ** (-rng.choice([3, 4, 5, 6])) * rng.choice([1.0, -1.0, 2.5])
        cfg2 = dict(cfg, vals=[float(al * v) for v in cfg['vals']])
        r2, _ = run_cfg(rep, cfg2, which, rng)
        if r2 is None:
            continue
        site = 'eqsig.surface.%s[alpha-scaling]' % FN[which]
        a = args_of(cfg, which, tk)
        a['alpha'] = al
        scales.append(Case('(%d%%nat, %s, %s, %s, %s)' % (which, q(al), qmat(r1), qmat(r2), q(0 if exact else 1e-9)),
                           {'function': site, 'args': a, 'impl': {'base': r1, 'scaled': r2}}, site,
                           nontrivial=any(v != 0 for v in cfg['vals']), klass=site + '/low-amplitude/' + ('exact' if exact else 'tol')))


RULE += ('; raw-count records: put_array_in_2d_array / join_values_w_shifts (add and sub) on values held in a narrow or unsigned integer dtype '
         '(uint8, uint16, int16, int8, uint32; counts up to full scale, so sums / differences of the original and a shifted copy leave the dtype range and '
         'differences of unsigned counts are negative), compared at tolerance 0 with the same list models (the mathematical integers)')

NARROW = [('uint8', 0, 255), ('uint16', 0, 65535), ('int16', -32768, 32767), ('int8', -128, 127), ('uint32', 0, 2 ** 32 - 1)]


def narrow_dtype_cases(rep, rng, tier, puts, joins):
    """values given as raw digitiser counts in a narrow / unsigned integer dtype: the helpers place / join the mathematical values
    (the unchanged code allocates float64 and joins in float64: every value here is an integer below 2^33, so exact)"""
    from eqsig.fns import time_shift as ts
    n_cases = 30 if tier == 'quick' else 400
    for k in range(n_cases):
        dname, lo, hi = NARROW[k % 3] if k % 5 else NARROW[3 + (k // 5) % 2]
        n = gens.small_len(rng, 1, 24)
        style = rng.choice(['full', 'full', 'small', 'edges'])
        if style == 'full':
            vi = [rng.randint(lo, hi) for _ in range(n)]
        elif style == 'small':
            vi = [rng.randint(max(lo, -20), min(hi, 20)) for _ in range(n)]
        else:
            vi = [rng.choice([lo, hi, hi - 1, lo + 1, (hi + 1) // 2, 0, 1]) for _ in range(n)]
        if not any(vi):
            vi[0] = hi
        arr = np.array(vi, dtype=dname)
        assert arr.dtype == np.dtype(dname) and arr.tolist() == vi
        ns = rng.choice([1, 2, 3])
        sh = [rng.randint(0, rng.choice([0, 1, 3, n + 2])) for _ in range(ns)]
        if k % 3 == 0:
            lo_s, hi_s = rng.choice([(-6, 6), (-3, 0), (0, 4)])
            shifts = [rng.randint(lo_s, hi_s) for _ in range(ns)]
            clip = rng.choice(CLIPS)
            site = 'eqsig.fns.time_shift.put_array_in_2d_array[clip=%s]' % clip
            args = {'values': vi, 'values_dtype': dname, 'shifts': shifts, 'clip': clip}
            r = guarded(ts.put_array_in_2d_array, arr.copy(), np.array(shifts, dtype=int), clip=clip)
            if isinstance(r, ImplError):
                rep.violation(site, {'function': site, 'args': args, 'impl_error': str(r)})
            else:
                out = [list(map(float, row)) for row in np.array(r, dtype=float)]
                puts.append(Case('(%s, %s, %d%%nat, %s)' % (qlist(vi), zlist(shifts), CLIPS.index(clip), qmat(out)),
                                 {'function': site, 'args': args, 'impl': out}, site,
                                 nontrivial=any(s != 0 for s in shifts), klass='%s/dtype=%s' % (site, dname)))
        for jt in ('add', 'sub'):
            site = 'eqsig.fns.time_shift.join_values_w_shifts[%s]' % jt
            args = {'values': vi, 'values_dtype': dname, 'shifts': sh, 'jtype': jt}
            r = guarded(ts.join_values_w_shifts, arr.copy(), np.array(sh, dtype=int), jtype=jt)
            if isinstance(r, ImplError):
                rep.violation(site, {'function': site, 'args': args, 'impl_error': str(r)})
            else:
                out = [list(map(float, row)) for row in np.array(r, dtype=float)]
                joins.append(Case('(%s, %s, %s, %s)' % (cbool(jt == 'add'), qlist(vi), zlist(sh), qmat(out)),
                                  {'function': site, 'args': args, 'impl': out}, site,
                                  nontrivial=True, klass='%s/dtype=%s' % (site, dname)))


def regen_c19():
    """re-translate eqsig/surface.py and eqsig/fns/time_shift.py -> coq/gen/Gen_c19.v (fail closed: the message is handed to rep.prove)"""
    import os, sys
    sys.path.insert(0, os.path.join(core.VERIF, 'translator'))
    try:
        import py2coq_c19
        py2coq_c19.regenerate(repo=core.REPO)
    except Exception as e:
        return 'py2coq_c19: %s: %s' % (type(e).__name__, e)
    return None


def run(rep, rng, tier):
    from eqsig.fns import time_shift as ts
    rep.prove('Prop_C19', gen_failed=regen_c19())
    _PURITY_SEEN.clear()
    cases, scales, rows, puts, joins = [], [], [], [], []
    n_exact, n_tol, n_rel, n_put = (300, 45, 75, 160) if tier == "quick" else (4500, 600, 1200, 2500)

    # --- model correspondence, exact and tolerance domains
    for k in range(n_exact + n_tol):
        # 3 in 10 (all three functions): one array object for both reductions; 1 in 10 (exact domain): integer travel times + fractional scalar reductions
        cfg = gen_config(rng, k < n_exact, tier, shared_red=(k % 10 >= 7), int_tts=(k < n_exact and k % 10 == 3))
        which = k % 3
        r, tt_kind = run_cfg(rep, cfg, which, rng)
        if r is not None:
            cases.append(mk_case(cfg, which, r, tt_kind))

    # --- relational clauses on implementation outputs (exact domain)
    for k in range(n_rel):
        cfg = gen_config(rng, True, tier, int_tts=(k % 5 == 2))
        which = k % 3
        r1, tk = run_cfg(rep, cfg, which, rng)
        if r1 is None:
            continue
        # alpha scaling
        al = rng.choice([2.0, -1.0, -0.5, 3.0, 0.25, -2.0, 0.0])
        cfg2 = dict(cfg, vals=[al * v for v in cfg['vals']])
        r2, _ = run_cfg(rep, cfg2, which, rng)
        if r2 is not None:
            site = 'eqsig.surface.%s[alpha-scaling]' % FN[which]
            a = args_of(cfg, which, tk)
            a['alpha'] = al
            scales.append(Case('(%d%%nat, %s, %s, %s, 0)' % (which, q(al), qmat(r1), qmat(r2)),
                               {'function': site, 'args': a, 'impl': {'base': r1, 'scaled': r2}}, site,
                               nontrivial=any(v != 0 for v in cfg['vals']), klass=site))
        # each batch row against the single-travel-time call
        if len(cfg['tts']) >= 2:
            for j in range(len(cfg['tts'])):
                ur = float(cfg['ur'][j]) if hasattr(cfg['ur'], '__len__') else cfg['ur']
                dr = float(cfg['dr'][j]) if hasattr(cfg['dr'], '__len__') else cfg['dr']
                cfg1 = dict(cfg, tts=[cfg['tts'][j]], ur=ur, dr=dr)
                rs, _ = run_cfg(rep, cfg1, which, rng)
                if rs is None:
                    continue
                mode = 0 if cfg['trim'] else (2 if cfg['start'] else 1)
                site = 'eqsig.surface.%s[row-vs-single,%s]' % (FN[which], ['trimmed', 'untrimmed', 'untrimmed+start'][mode])
                a = args_of(cfg, which, tk)
                a['row'] = j
                rows.append(Case('(%d%%nat, %s, %s, 0)' % (mode, qlist(r1[j]), qlist(rs[0])),
                                 {'function': site, 'args': a, 'impl': {'batch_row': r1[j], 'single': rs[0]}}, site,
                                 nontrivial=any(v != 0 for v in cfg['vals']), klass=site))

    # --- put_array_in_2d_array / join_values_w_shifts
    for k in range(n_put):
        n = gens.small_len(rng, 1, 40)
        if rng.random() < 0.7:
            vals, _ = gens.int_record(rng, n, amp=20, style=rng.choice(['uniform', 'startnz', 'walk', 'sparse']))
        else:
            vals, _ = gens.float_record(rng, n)
        ns = rng.choice([1, 2, 3, 5])
        lo, hi = rng.choice([(-8, 8), (-3, 3), (0, 6), (-6, 0), (-5, -1), (1, 5), (0, 0)])
        shifts = [rng.randint(lo, hi) for _ in range(ns)]
        clip = rng.choice(CLIPS)
        site = 'eqsig.fns.time_shift.put_array_in_2d_array[clip=%s]' % clip
        args = {'values': list(map(float, vals)), 'shifts': shifts, 'clip': clip}
        v0 = np.array(vals, dtype=float)
        r = guarded(ts.put_array_in_2d_array, v0, np.array(shifts, dtype=int), clip=clip)
        if isinstance(r, ImplError):
            rep.violation(site, {'function': site, 'args': args, 'impl_error': str(r)})
        else:
            out = [list(map(float, row)) for row in np.array(r, dtype=float)]
            puts.append(Case('(%s, %s, %d%%nat, %s)' % (qlist(vals), zlist(shifts), CLIPS.index(clip), qmat(out)),
                             {'function': site, 'args': args, 'impl': out}, site,
                             nontrivial=any(s != 0 for s in shifts) and any(v != 0 for v in vals),
                             klass='%s/%s' % (site, 'mixed' if min(shifts) < 0 < max(shifts) else ('neg' if min(shifts) < 0 else 'nonneg'))))
        if k % 2 == 0:
            vi, _ = gens.int_record(rng, n, amp=20, style=rng.choice(['uniform', 'startnz', 'walk']))
            sh = [rng.randint(0, rng.choice([0, 3, 8, n + 2])) for _ in range(ns)]
            jt = rng.choice(['add', 'sub'])
            site = 'eqsig.fns.time_shift.join_values_w_shifts[%s]' % jt
            args = {'values': list(map(float, vi)), 'shifts': sh, 'jtype': jt}
            r = guarded(ts.join_values_w_shifts, np.array(vi, dtype=float), np.array(sh, dtype=int), jtype=jt)
            if isinstance(r, ImplError):
                rep.violation(site, {'function': site, 'args': args, 'impl_error': str(r)})
            else:
                out = [list(map(float, row)) for row in np.array(r, dtype=float)]
                joins.append(Case('(%s, %s, %s, %s)' % (cbool(jt == 'add'), qlist(vi), zlist(sh), qmat(out)),
                                  {'function': site, 'args': args, 'impl': out}, site,
                                  nontrivial=any(s != 0 for s in sh) and any(v != 0 for v in vi), klass=site))

    narrow_dtype_cases(rep, rng, tier, puts, joins)
    low_amplitude_cases(rep, rng, tier, cases, scales)
    rep.correspond('model.K_C19', 'check_case', cases, describe='model_out %s')
    rep.correspond('model.K_C19', 'chk_scale', scales)
    rep.correspond('model.K_C19', 'chk_row_single', rows)
    rep.correspond('model.K_C19', 'chk_put', puts, describe='(fun c => let \'(v, s, cl, _) := c in M_surface.put_in_2d v s cl) %s')
    rep.correspond('model.K_C19', 'chk_join', joins, describe='(fun c => let \'(a, v, s, _) := c in M_surface.join_w_shifts a v s) %s')


def finish(rep):
    return rep.finish(rule=RULE, trusted=TRUSTED, assumptions=['exact real arithmetic in the theorems', 'travel times >= 0, stt >= 0, dt > 0'])
