"""C07 — Konno-Ohmachi smoothing is a normalised non-negative log-frequency window.

Two halves of the tie (DESIGN 2.2/2.4):
 * window values: per-target `interval` goals stated about the R-model itself (M_smooth.smooth / smoothing_matrix on
   the shipped rationals), proved through the reflection lemmas of proofs/P_C07_ivl.v (harness/ivl.py runs them);
 * array plumbing and the relational clauses: model/K_C07.check_case evaluated by vm_compute at Q on the
   implementation's own outputs (matrix columns, direct form, matrix form, scaled / constant spectra, bandwidth limits).
"""
import math
import numpy as np
from fractions import Fraction
from harness import core, gens
from harness import ivl_c07 as ivl
from harness.core import q, qlist, qmat, cbool, Case, guarded, ImplError, frac

RTOL = 1e-10      # interval goals: |model - impl| <= RTOL * max|amplitude|   (matrix entries: absolute, weights are <= 1)
KTOL = 1e-11      # vm_compute structure checks (column sums, dot products, scaling)
BANDS = [5, 20, 40, 100]

RULE = ('interval goals: one per (case, target) for calc_smooth_fa_spectrum (explicit and default targets, with/without the zero bin, real and complex spectra), '
        'Signal/AccSignal.smooth_fa_spectrum (targets set through the constructor, both setters, set_smooth_fa_frequecies_by_range and gen_smooth_fa_spectrum(band=..); after a by-range call the targets the object holds are also checked inside Coq to be the geometric grid between the limits: K_C07 kind 6) and entries of '
        'calc_smoothing_matrix_konno_1998; 4-31 non-zero Fourier frequencies (uniform FFT grids and irregular ascending ones), 1-12 targets inside / outside / exactly on the grid, '
        'band in {5,20,40,100} and non-integer bands in [5,100]; tolerance 1e-10 x max|amplitude| (1e-10 absolute for matrix entries). '
        'vm_compute cases on implementation outputs: weights in [0,1], column sums 1, matrix form = direct form = Q dot product, min <= smoothed <= max, |alpha| scaling, constant reproduced (1e-11 relative); '
        'the same matrix form = direct form case on the SECOND of two consecutive smoothings (direct calls, and two Signal objects with the same dt/npts) with the same Fourier grid and band and target grids of equal length and end points but different interior (geometric / linear); '
        'bandwidth limits (calc_bandwidth_freqs/f_min/f_max, get_sig_freq_range) compared exactly on integer/dyadic spectra through a stub object and on real AccSignal spectra '
        '(a case whose float threshold product decides a comparison differently from exact arithmetic is counted fragile and skipped); '
        'non-trivial = at least 3 non-zero frequencies and a non-constant |spectrum| (smoothing), or some but not all samples above the limit (bandwidth)')
TRUSTED = [
    'Coq 8.16.1 kernel + vm_compute; Coq-Interval (its reflexive checker runs inside the kernel at every Qed of the generated goals)',
    'hand-written model coq/model/M_smooth.v; tie = the interval goals (stated about M_smooth.smooth / smoothing_matrix, reflected by proofs/P_C07_ivl.v) and the vm_compute correspondence model/K_C07.v of this run',
    'exact real arithmetic: log10 = ln/ln 10, sin, division; float rounding measured against 1e-10, not proved',
    'source-text tie: translator/py2coq_c07.py (Python ast -> coq/gen/Gen_c07.v by symbolic execution, fail closed, re-run on every check) + the C07_*_is_source theorems: '
    'trusted there is only the translator\'s reading of each accepted statement shape (coq/lib/PyRes.v: the (n,1) x (1,m) broadcasts read column by column, np.sum(.., axis=0), '
    'the in-place column normalisation, np.dot, builtin max, np.where first/last, v[k] / np.take; operand lengths are stated by the generated *_shapes predicates, not checked) '
    'and the object layer (which arrays .fa_spectrum / .smooth_fa_spectrum / .smooth_fa_frequencies hold); np.sin / np.log10 stay parameters of the generated definitions',
    '|complex amplitude| is taken by numpy in the harness for Signal spectra (the model receives the modulus)',
    'Python harness (generators, rational encoding, goal emission, parsing of @@OK/@@FAIL)',
]

IVL_HEADER = """From Coq Require Import ZArith QArith Reals List Bool.
From Interval Require Import Tactic.
From EQ Require Import lib.Num lib.NpList model.M_smooth proofs.P_C07_ivl.
Import ListNotations.
Local Open Scope Q_scope.
"""


# ------------------------------------------------------------------ helpers
def qq(x):
    return q(x) + '%Q'


def boollist(bs):
    return '[' + '; '.join(cbool(b) for b in bs) + ']'


class Stub:
    """minimal object with the attributes the bandwidth / matrix functions read"""

    def __init__(self, **kw):
        self.__dict__.update(kw)


def drop_zero(F, A):
    if len(F) and F[0] == 0:
        return F[1:], A[1:]
    return F, A


def float_model(b, F, A, fc):
    """informational only (replay files): float evaluation of the model formula"""
    fr, am = drop_zero(np.asarray(F, float), np.abs(np.asarray(A)))
    with np.errstate(all='ignore'):
        x = b * np.log10(fr / fc)
        w = np.where(x == 0, 1.0, (np.sin(x) / np.where(x == 0, 1.0, x)) ** 4)
    return float(np.sum(am * w) / np.sum(w))


class IvlSet:
    """collects interval goals + the Case objects that describe them"""

    def __init__(self):
        self.goals, self.cases, self.n_def = [], [], 0

    def new_defs(self, b, F, A, TG):
        k = self.n_def
        self.n_def += 1
        fr, am = drop_zero(list(F), list(A))
        names = {'F': 'c%d_F' % k, 'A': 'c%d_A' % k, 'T': 'c%d_T' % k, 'fr': 'c%d_fr' % k, 'am': 'c%d_am' % k}
        defs = {
            names['F']: 'Definition %s : list Q := %s.' % (names['F'], qlist(F)),
            names['A']: 'Definition %s : list Q := %s.' % (names['A'], qlist(A)),
            names['T']: 'Definition %s : list Q := %s.' % (names['T'], qlist(TG)),
            names['fr']: 'Definition %s : list Q := %s.' % (names['fr'], qlist(fr)),
            names['am']: 'Definition %s : list Q := %s.' % (names['am'], qlist(am)),
        }
        return k, names, defs, fr, am

    def add_smooth(self, site, b, F, A, TG, out, ks, args, klass, prec=60):
        """goals |nth k (smooth b F A TG) - out[k]| <= RTOL*max|A| for k in ks. A = real amplitudes (sign kept) or moduli"""
        cid, nm, defs, fr, am = self.new_defs(b, F, A, TG)
        scale = max([abs(float(a)) for a in am] + [0.0])
        tol = RTOL * scale if scale > 0 else 0.0
        nontriv = len(fr) >= 3 and len(set(abs(float(a)) for a in am)) > 1
        for k in ks:
            fc = TG[k]
            mask = [frac(f) == frac(fc) for f in fr]
            mname = 'c%d_m%d' % (cid, k)
            d = dict(defs)
            d[mname] = 'Definition %s : list bool := %s.' % (mname, boollist(mask))
            stmt = ('(Rabs (nth %d (smooth (Q2R %s) (map Q2R %s) (map Q2R %s) (map Q2R %s)) 0 - Q2R %s) <= Q2R %s)%%R'
                    % (k, qq(b), nm['F'], nm['A'], nm['T'], qq(out[k]), qq(tol)))
            script = ('apply (smooth_point_check %s %s %s %s %d%%nat %s %s %s %s %s %s); '
                      '[vm_compute; reflexivity | vm_compute; reflexivity | vm_compute; reflexivity | vm_compute; reflexivity | '
                      'cbv [%s %s %s]; c07_flatten; interval with (i_prec %d)]'
                      % (qq(b), nm['F'], nm['A'], nm['T'], k, mname, nm['fr'], nm['am'], qq(fc), qq(out[k]), qq(tol),
                         nm['fr'], nm['am'], mname, prec))
            self.goals.append(ivl.Goal(stmt, script, d, cost=2.0 * len(fr) + 8))
            rp = {'function': site, 'args': dict(args, target_index=k, target=float(fc)), 'impl': float(out[k]),
                  'model_float_estimate(informational)': float_model(float(b), F, A, float(fc)), 'tolerance': tol,
                  'on_grid': any(mask)}
            self.cases.append(Case(stmt, rp, site, nontrivial=nontriv, klass=klass + ('/ongrid' if any(mask) else '/offgrid')))

    def add_matrix(self, site, b, F, TG, M, entries, args, klass, prec=60):
        """goals |M_model[i][k] - M[i, k]| <= RTOL for (i, k) in entries (i indexes the non-zero frequencies)"""
        cid, nm, defs, fr, _ = self.new_defs(b, F, [], TG)
        for (i, k) in entries:
            fc = TG[k]
            mask = [frac(f) == frac(fc) for f in fr]
            mname = 'c%d_m%d' % (cid, k)
            d = dict(defs)
            d[mname] = 'Definition %s : list bool := %s.' % (mname, boollist(mask))
            obs = M[i, k]
            stmt = ('(Rabs (nth %d (nth %d (smoothing_matrix (Q2R %s) (map Q2R %s) (map Q2R %s)) []) 0 - Q2R %s) <= Q2R %s)%%R'
                    % (i, k, qq(b), nm['F'], nm['T'], qq(obs), qq(RTOL)))
            script = ('apply (matrix_point_check %s %s %s %d%%nat %d%%nat %s %s %s %s %s %s); '
                      '[vm_compute; reflexivity | vm_compute; reflexivity | vm_compute; reflexivity | vm_compute; reflexivity | '
                      'cbv [%s %s]; c07_flatten; interval with (i_prec %d)]'
                      % (qq(b), nm['F'], nm['T'], k, i, mname, nm['fr'], qq(fc), qq(fr[i]), qq(obs), qq(RTOL), nm['fr'], mname, prec))
            self.goals.append(ivl.Goal(stmt, script, d, cost=1.0 * len(fr) + 8))
            rp = {'function': site, 'args': dict(args, row=i, column=k, target=float(fc), frequency=float(fr[i])), 'impl': float(obs),
                  'tolerance': RTOL, 'on_grid_entry': bool(mask[i])}
            self.cases.append(Case(stmt, rp, site, nontrivial=len(fr) >= 3, klass=klass + ('/ongrid' if mask[i] else '/offgrid')))


# ------------------------------------------------------------------ generators
def fft_grid(rng):
    """frequencies of a Signal: arange(points)/(n*dt) incl. the zero bin"""
    n = rng.choice([8, 16, 16, 32, 32, 64])
    dt = rng.choice([0.01, 0.005, 0.02, 0.05, 2.0 ** -rng.randint(3, 7)])
    pts = n // 2
    return np.arange(pts) / (n * dt)


def irregular_grid(rng, n):
    f0 = rng.uniform(0.05, 2.0)
    out, cur = [], f0
    for _ in range(n):
        out.append(cur)
        cur = cur * rng.uniform(1.02, 1.6) if rng.random() < 0.7 else cur + rng.uniform(0.01, 3.0)
    return np.array(out)


def make_grid(rng):
    r = rng.random()
    if r < 0.45:
        return fft_grid(rng), 'fft0'
    if r < 0.7:
        return fft_grid(rng)[1:], 'fft'
    return irregular_grid(rng, rng.randint(4, 31)), 'irregular'


def make_targets(rng, F, nmax=12):
    nz = F[F != 0]
    lo, hi = float(nz.min()), float(nz.max())
    n = rng.randint(1, nmax)
    out = []
    for _ in range(n):
        r = rng.random()
        if r < 0.35:
            out.append(float(rng.choice(list(nz))))                                # exactly on the grid
        elif r < 0.75:
            out.append(math.exp(rng.uniform(math.log(lo), math.log(hi))))          # inside
        elif r < 0.87:
            out.append(lo * rng.uniform(0.2, 0.98))                                # below the grid
        else:
            out.append(hi * rng.uniform(1.02, 4.0))                                # above the grid
    if rng.random() < 0.6:
        out.sort()
    return np.array(out)


def make_amps(rng, n, complex_ok=True):
    r = rng.random()
    if r < 0.45:
        return np.array([rng.gauss(0, 1) for _ in range(n)]) * rng.choice([1.0, 1e-3, 250.0])
    if r < 0.6:
        return np.array([float(rng.randint(-9, 9)) for _ in range(n)])
    if r < 0.7:
        a = np.zeros(n)
        a[rng.randrange(n)] = rng.uniform(0.5, 3)
        return a
    if r < 0.85 and complex_ok:
        return np.array([complex(rng.gauss(0, 1), rng.gauss(0, 1)) for _ in range(n)])
    return np.abs(np.array([rng.gauss(0, 1) for _ in range(n)])) + 0.1


def make_band(rng):
    return rng.choice(BANDS) if rng.random() < 0.75 else rng.choice([12.5, 33.3, 7.0, 64.25, rng.uniform(5, 100)])


def pick(rng, n, k):
    idx = list(range(n))
    rng.shuffle(idx)
    return sorted(idx[:k])


def mod(A):
    """what the model receives as amplitude: the real value (sign kept, the model takes |.|) or the modulus of a complex one"""
    A = np.asarray(A)
    return np.abs(A) if np.iscomplexobj(A) else A.astype(float)


# ------------------------------------------------------------------ source-text tie
def regen_c07():
    """re-translate calc_smooth_fa_spectrum / generate_smooth_fa_spectrum / calc_smoothing_matrix_konno_1998 /
    calc_smooth_fa_spectrum_w_custom_matrix / get_sig_array_indexes_range / get_sig_freq_range (eqsig/fns/frequency.py) and
    calc_bandwidth_freqs / f_min / f_max (eqsig/im.py) into coq/gen/Gen_c07.v (fail closed): the `*_is_source` theorems of
    Prop_C07 are then re-proved against the code that is in the repo now"""
    import os, sys
    try:
        sys.path.insert(0, os.path.join(core.VERIF, 'translator'))
        import py2coq_c07
        py2coq_c07.regenerate(repo=core.REPO)
    except Exception as e:
        return 'py2coq_c07: %s: %s' % (type(e).__name__, e)
    try:  # the object layer (Signal.gen_smooth_fa_spectrum, the lazy getter, the frequency setters) -> coq/gen/Gen_c07_obj.v
        import py2coq_objlayer
        py2coq_objlayer.regenerate_c07(repo=core.REPO)
    except Exception as e:
        return 'py2coq_objlayer(C07): %s: %s' % (type(e).__name__, e)
    return None


# ------------------------------------------------------------------ run
def run(rep, rng, tier):
    import eqsig, time, warnings
    from eqsig.fns import frequency as fq
    warnings.simplefilter('ignore', RuntimeWarning)   # numpy's 0/0 warning for on-grid targets (the value is replaced by the code)
    timing = rep.extra.setdefault('timing_s', {})
    t0 = time.time()
    rep.prove('Prop_C07', targets=['props/Prop_C07.vo', 'proofs/P_C07_ivl.vo', 'model/K_C07.vo'], gen_failed=regen_c07())
    timing['prove'] = round(time.time() - t0, 1)
    t0 = time.time()
    S = IvlSet()
    kc = []          # vm_compute cases
    fragile = 0
    quick = tier == 'quick'
    n_direct, n_sig, n_mat, per_case = (12, 6, 6, 2) if quick else (100, 40, 40, 4)
    n_struct, n_bw = (40, 100) if quick else (600, 1500)

    seen_err = {}

    def viol(site, args, r, **more):
        # one replay per (site, kind of error); the rest are only counted
        key = (site, str(r).split(':')[0])
        seen_err[key] = seen_err.get(key, 0) + 1
        rep.extra.setdefault('implementation_errors', {})['%s / %s' % key] = seen_err[key]
        if seen_err[key] == 1:
            rep.violation(site, dict({'function': site, 'args': args, 'impl_error': str(r)}, **more))

    # ---- (I) interval goals: direct form
    for c in range(n_direct):
        F, gk = make_grid(rng)
        default = rng.random() < 0.2
        TG = None if default else make_targets(rng, F)
        A = make_amps(rng, len(F))
        b = make_band(rng)
        args = {'fa_frequencies': list(map(float, F)), 'fa_spectrum': [complex(a) if np.iscomplexobj(A) else float(a) for a in A],
                'smooth_fa_frequencies': None if default else list(map(float, TG)), 'band': b}
        r = guarded(fq.calc_smooth_fa_spectrum, F.copy(), A.copy(), None if default else TG.copy(), band=b)
        site = 'calc_smooth_fa_spectrum'
        if isinstance(r, ImplError):
            viol(site, args, r)
            continue
        tg_model = list(drop_zero(F, F)[0]) if default else list(TG)
        if len(r) != len(tg_model) or not np.all(np.isfinite(r)):
            rep.violation(site, {'function': site, 'args': args, 'impl': repr(r), 'expected': 'one finite value per target'})
            continue
        ks = pick(rng, len(tg_model), per_case)
        # always include an on-grid target when there is one
        nzF = set(float(f) for f in F if f != 0)
        on = [k for k, t in enumerate(tg_model) if float(t) in nzF]
        if on and not set(on) & set(ks):
            ks = sorted(set(ks[:-1] + [rng.choice(on)])) if len(ks) > 1 else [rng.choice(on)]
        S.add_smooth(site, b, F, mod(A), tg_model, r, ks, args, 'direct/%s%s' % (gk, '/default' if default else ''))

    grids = []
    # ---- (I) interval goals: Signal.smooth_fa_spectrum
    for c in range(n_sig):
        npts = rng.choice([9, 12, 16, 20, 31, 32, 40, 60])
        dt = rng.choice([0.01, 0.02, 0.005, 0.05])
        vals, _ = gens.float_record(rng, npts, style=rng.choice(['gauss', 'sine', 'motion', 'offset']))
        how = rng.choice(['ctor', 'setter_freqs', 'setter_frequencies', 'by_range', 'gen_band', 'ctor_range', 'read_then_by_range', 'read_then_gen_freqs', 'read_then_setter',
                          'read_then_add_constant', 'read_then_add_series', 'read_then_reset_values'])
        cls = rng.choice([eqsig.AccSignal, eqsig.Signal])
        site = 'Signal.smooth_fa_spectrum[%s]' % how
        args = {'values': list(map(float, vals)), 'dt': dt, 'how': how, 'class': cls.__name__}
        b = 40

        grid = []          # (limits, n_points) when the targets were set by range: checked as a geometric grid (kind 6)

        def build():
            nonlocal b
            probe = cls(vals.copy(), dt)
            F = probe.fa_frequencies
            TG = make_targets(rng, F, nmax=8)
            if how == 'ctor':
                s = cls(vals.copy(), dt, smooth_fa_freqs=TG)
            elif how == 'setter_freqs':
                s = cls(vals.copy(), dt)
                _ = s.smooth_fa_spectrum          # fill the cache with the default targets first
                s.smooth_fa_freqs = TG
            elif how == 'setter_frequencies':
                s = cls(vals.copy(), dt)
                s.smooth_fa_frequencies = TG
            elif how == 'by_range':
                s = cls(vals.copy(), dt)
                lim = (float(F[1]) * rng.uniform(0.5, 1.5), float(F[-1]) * rng.uniform(0.5, 1.5))
                npnt = rng.randint(2, 9)
                s.set_smooth_fa_frequecies_by_range(lim, npnt)
                grid.append((lim, npnt))
            elif how == 'ctor_range':
                s = cls(vals.copy(), dt, smooth_freq_range=(float(F[1]), float(F[-1])))
                grid.append(((float(F[1]), float(F[-1])), 50))
            elif how.startswith('read_then'):
                # smooth once on one target grid, then change the targets (same number of points, same band) through
                # each public path, then read again: the spectrum must be the one of the NEW targets
                while len(TG) < 2:
                    TG = make_targets(rng, F, nmax=8)
                s = cls(vals.copy(), dt, smooth_fa_freqs=TG)
                _ = np.array(s.smooth_fa_spectrum)
                k = len(TG)
                if how == 'read_then_add_constant':        # the record changes through the public API: the smoothed spectrum
                    s.add_constant(rng.choice([0.5, -1.25, 3.0]))  # read next is the one of the record the object holds now
                elif how == 'read_then_add_series':
                    s.add_series(np.array(vals)[::-1] * 0.5)
                elif how == 'read_then_reset_values':
                    s.reset_values(np.array(vals)[::-1] * 2.0 + 0.25)
                elif how == 'read_then_by_range':
                    lim = (float(F[1]) * rng.uniform(0.5, 1.5), float(F[-1]) * rng.uniform(0.5, 1.5))
                    s.set_smooth_fa_frequecies_by_range(lim, k)
                    grid.append((lim, k))
                else:
                    TG2 = make_targets(rng, F, nmax=8)
                    while len(TG2) != k:
                        TG2 = make_targets(rng, F, nmax=8)
                    if how == 'read_then_gen_freqs':
                        s.gen_smooth_fa_spectrum(smooth_fa_freqs=TG2)
                    else:
                        s.smooth_fa_frequencies = TG2
            else:
                s = cls(vals.copy(), dt, smooth_fa_freqs=TG)
                b = make_band(rng)
                s.gen_smooth_fa_spectrum(band=b)
            out = np.array(s.smooth_fa_spectrum, dtype=float)
            return s, out

        r = guarded(build)
        if isinstance(r, ImplError):
            viol(site, args, r)
            continue
        s, out = r
        F = np.array(s.fa_frequencies, dtype=float)
        A = np.array(s.fa_spectrum)
        TG = np.array(s.smooth_fa_frequencies, dtype=float)
        args['band'] = b
        args['smooth_fa_frequencies'] = list(map(float, TG))
        if len(out) != len(TG) or not np.all(np.isfinite(out)):
            rep.violation(site, {'function': site, 'args': args, 'impl': repr(out), 'expected': 'one finite value per target'})
            continue
        ks = pick(rng, len(TG), per_case)
        S.add_smooth(site, b, F, mod(A), list(TG), out, ks, args, 'signal/%s' % how)
        if grid:
            grids.append((site + '[targets]', dict(args, limits=list(grid[-1][0]), n_points=grid[-1][1]), list(map(float, TG)), grid[-1]))

    # ---- (I) interval goals: smoothing-matrix entries
    for c in range(n_mat):
        F, gk = make_grid(rng)
        default = rng.random() < 0.15
        TG = None if default else make_targets(rng, F, nmax=6)
        b = make_band(rng)
        site = 'calc_smoothing_matrix_konno_1998'
        args = {'fa_frequencies': list(map(float, F)), 'smooth_fa_frequencies': None if default else list(map(float, TG)), 'band': b}
        M = guarded(fq.calc_smoothing_matrix_konno_1998, F.copy(), None if default else TG.copy(), band=b)
        if isinstance(M, ImplError):
            viol(site, args, M)
            continue
        fr = drop_zero(F, F)[0]
        tg_model = list(fr) if default else list(TG)
        M = np.asarray(M, dtype=float)
        if M.shape != (len(fr), len(tg_model)) or not np.all(np.isfinite(M)):
            rep.violation(site, {'function': site, 'args': args, 'impl': repr(M), 'expected': 'finite matrix of shape (n_freq, n_target)'})
            continue
        entries = []
        for _ in range(per_case):
            k = rng.randrange(len(tg_model))
            on = [i for i, f in enumerate(fr) if float(f) == float(tg_model[k])]
            i = rng.choice(on) if on and rng.random() < 0.5 else int(np.argmin(np.abs(np.log(fr / tg_model[k])))) if rng.random() < 0.5 else rng.randrange(len(fr))
            entries.append((i, k))
        S.add_matrix(site, b, F, tg_model, M, sorted(set(entries)), args, 'matrix/%s' % gk)

    # ---- (K) vm_compute: structure, scaling, constant
    def kcase(kind, site, args, impl, nontriv, klass, a=(), al=0, cols=(), d=(), d2=(), m=(), ratio=0, s=(), f=(), has=False, lo=0, hi=0, lo1=0, hi1=0, tol=KTOL):
        coq = ('{| c_kind := %d; c_tol := %s; c_a := %s; c_al := %s; c_cols := %s; c_d := %s; c_d2 := %s; c_m := %s; '
               'c_ratio := %s; c_s := %s; c_f := %s; c_has := %s; c_lo := %s; c_hi := %s; c_lo1 := %s; c_hi1 := %s |}'
               % (kind, q(tol), qlist(a), q(al), qmat(cols), qlist(d), qlist(d2), qlist(m), q(ratio), qlist(s), qlist(f), cbool(has), q(lo), q(hi), q(lo1), q(hi1)))
        kc.append(Case(coq, {'function': site, 'args': args, 'impl': impl}, site, nontrivial=nontriv, klass=klass))

    for site, gargs, tg, (lim, npnt) in grids:
        kcase(6, site, gargs, tg, npnt >= 3, 'signal/by_range_targets', al=npnt, d=tg, lo=lim[0], hi=lim[1], tol=1e-9)

    for c in range(n_struct):
        kind = rng.choice([0, 0, 5, 1, 2])
        if kind == 0:
            F = fft_grid(rng) if rng.random() < 0.7 else np.concatenate([[0.0], irregular_grid(rng, rng.randint(3, 40))])
        elif kind == 5:
            F = fft_grid(rng)[1:] if rng.random() < 0.5 else irregular_grid(rng, rng.randint(3, 40))
        else:
            F, _ = make_grid(rng)
        default = rng.random() < 0.15
        TG = None if default else make_targets(rng, F)
        b = make_band(rng)
        A = make_amps(rng, len(F))
        base = {'fa_frequencies': list(map(float, F)), 'smooth_fa_frequencies': None if default else list(map(float, TG)), 'band': b}
        aj = [complex(a) if np.iscomplexobj(A) else float(a) for a in A]
        if kind in (0, 5):
            site = 'matrix_vs_direct[%s]' % ('zero_bin' if kind == 0 else 'no_zero_bin')
            args = dict(base, fa_spectrum=aj)
            M = guarded(fq.calc_smoothing_matrix_konno_1998, F.copy(), None if default else TG.copy(), band=b)
            d = guarded(fq.calc_smooth_fa_spectrum, F.copy(), A.copy(), None if default else TG.copy(), band=b)
            mm = guarded(fq.calc_smooth_fa_spectrum_w_custom_matrix, Stub(fa_spectrum=A.copy()), M) if kind == 0 and not isinstance(M, ImplError) else []
            bad = [x for x in (M, d, mm) if isinstance(x, ImplError)]
            if bad:
                viol(site, args, bad[0])
                continue
            if not (np.all(np.isfinite(M)) and np.all(np.isfinite(d)) and np.all(np.isfinite(mm))):
                rep.violation(site, {'function': site, 'args': args, 'impl': {'matrix': repr(M), 'direct': repr(d)}, 'expected': 'finite values'})
                continue
            am = mod(A)
            kcase(kind, site, args, {'direct': list(map(float, d)), 'custom_matrix': list(map(float, mm))},
                  len(F) >= 4 and len(set(np.abs(am[1:] if kind == 0 else am))) > 1, site, a=am, cols=np.asarray(M, float).T, d=d, m=mm)
        elif kind == 1:
            site = 'calc_smooth_fa_spectrum[scaling]'
            al = rng.choice([-1.0, 2.0, -0.5, 3.25, rng.uniform(-30, 30), 1e-3])
            args = dict(base, fa_spectrum=aj, alpha=al)
            d = guarded(fq.calc_smooth_fa_spectrum, F.copy(), A.copy(), None if default else TG.copy(), band=b)
            d2 = guarded(fq.calc_smooth_fa_spectrum, F.copy(), al * A, None if default else TG.copy(), band=b)
            bad = [x for x in (d, d2) if isinstance(x, ImplError)]
            if bad:
                viol(site, args, bad[0])
                continue
            if not (np.all(np.isfinite(d)) and np.all(np.isfinite(d2))):
                rep.violation(site, {'function': site, 'args': args, 'impl': {'d': repr(d), 'd2': repr(d2)}, 'expected': 'finite values'})
                continue
            kcase(1, site, args, {'d': list(map(float, d)), 'd_scaled': list(map(float, d2))}, len(F) >= 4, site, a=mod(A), al=al, d=d, d2=d2)
        else:
            site = 'calc_smooth_fa_spectrum[constant]'
            cst = rng.choice([1.0, 0.25, 3.0, rng.uniform(0.01, 50)])
            A = np.array([cst * rng.choice([-1.0, 1.0]) for _ in range(len(F))])
            args = dict(base, fa_spectrum=list(map(float, A)))
            d = guarded(fq.calc_smooth_fa_spectrum, F.copy(), A.copy(), None if default else TG.copy(), band=b)
            if isinstance(d, ImplError):
                viol(site, args, d)
                continue
            if not np.all(np.isfinite(d)):
                rep.violation(site, {'function': site, 'args': args, 'impl': repr(d), 'expected': 'the constant %r at every target' % cst})
                continue
            kcase(2, site, args, list(map(float, d)), len(F) >= 4, site, a=A, d=d)

    # ---- (K) structure on real Signal objects: matrix route through the object's own spectrum
    for c in range(10 if quick else 60):
        npts = [33, 100, 16, 64, 128][c % 5] if c < 10 else rng.choice([16, 33, 64, 100, 128])
        dt = rng.choice([0.01, 0.02, 0.005])
        vals, _ = gens.float_record(rng, npts)
        site = 'matrix_vs_direct[AccSignal]'
        args = {'values': list(map(float, vals)), 'dt': dt}

        def build():
            s = eqsig.AccSignal(vals.copy(), dt)
            if rng.random() < 0.5:
                s.smooth_fa_frequencies = make_targets(rng, s.fa_frequencies)
            hist = [None, 'add_constant', 'add_series', 'reset_values', 'add_constant'][c % 5]
            if hist is not None:
                # the smoothed spectrum is read, the record is then changed through the public API, and everything below is
                # taken from the object as it is now: its smoothed spectrum is the weighted mean of its CURRENT amplitudes
                _ = np.array(s.smooth_fa_spectrum)
                if hist == 'add_constant':
                    s.add_constant([0.5, -1.25, 3.0][c % 3])
                elif hist == 'add_series':
                    s.add_series(vals[::-1] * 0.5)
                else:
                    s.reset_values(vals[::-1] * 2.0 + 0.25)
                args['history'] = 'read smooth_fa_spectrum; %s; read again' % hist
            M = fq.calc_smoothing_matrix_konno_1998(s.fa_frequencies, s.smooth_fa_frequencies)
            return s, M, fq.calc_smooth_fa_spectrum_w_custom_matrix(s, M), np.array(s.smooth_fa_spectrum)
        r = guarded(build)
        if isinstance(r, ImplError):
            viol(site, args, r)
            continue
        s, M, mm, d = r
        args['smooth_fa_frequencies'] = list(map(float, s.smooth_fa_frequencies))
        if not (np.all(np.isfinite(M)) and np.all(np.isfinite(d)) and np.all(np.isfinite(mm))):
            rep.violation(site, {'function': site, 'args': args, 'impl': {'direct': repr(d)}, 'expected': 'finite values'})
            continue
        kcase(0, site, args, {'direct': list(map(float, d)), 'custom_matrix': list(map(float, mm))}, True, site,
              a=np.abs(s.fa_spectrum), cols=np.asarray(M, float).T, d=d, m=mm)

    # ---- (K) call histories: two consecutive smoothings whose Fourier grids and band are the same and whose target grids have the
    # same number of points and exactly equal first and last value but different interior points (geometric, then linear): each
    # result is the weighted mean for ITS OWN targets (direct calls; and two Signal objects with the same dt / number of samples)
    def twin_targets(lo, hi, n):
        t1, t2 = np.geomspace(lo, hi, n), np.linspace(lo, hi, n)
        t1[0] = t2[0] = lo
        t1[-1] = t2[-1] = hi
        return t1, t2

    for c in range(8 if quick else 80):
        obj = c % 2 == 1
        n = rng.randint(3, 10)
        b = make_band(rng) if not obj else 40
        if not obj:
            kind = rng.choice([0, 5])
            F = fft_grid(rng) if kind == 0 else fft_grid(rng)[1:]
            nz = F[F != 0]
            lo, hi = float(nz[0]) * rng.uniform(0.5, 2.0), float(nz[-1]) * rng.uniform(0.4, 1.5)
            T1, T2 = twin_targets(lo, hi, n)
            if c % 4 == 2:
                T1, T2 = T2, T1
            A1, A = make_amps(rng, len(F)), make_amps(rng, len(F))
            site = 'matrix_vs_direct[%s; second call, targets with the same length and end points as the first call]' % ('zero_bin' if kind == 0 else 'no_zero_bin')
            args = {'fa_frequencies': list(map(float, F)), 'smooth_fa_frequencies': list(map(float, T2)), 'band': b,
                    'fa_spectrum': [complex(a) if np.iscomplexobj(A) else float(a) for a in A],
                    'history': ['calc_smooth_fa_spectrum(fa_frequencies, first_fa_spectrum, first_smooth_fa_frequencies, band)', 'calc_smooth_fa_spectrum(fa_frequencies, fa_spectrum, smooth_fa_frequencies, band)'],
                    'first_smooth_fa_frequencies': list(map(float, T1)), 'first_fa_spectrum': [complex(a) if np.iscomplexobj(A1) else float(a) for a in A1]}

            def build():
                fq.calc_smooth_fa_spectrum(F.copy(), A1.copy(), T1.copy(), band=b)
                d = fq.calc_smooth_fa_spectrum(F.copy(), A.copy(), T2.copy(), band=b)
                M = fq.calc_smoothing_matrix_konno_1998(F.copy(), T2.copy(), band=b)
                mm = fq.calc_smooth_fa_spectrum_w_custom_matrix(Stub(fa_spectrum=A.copy()), M) if kind == 0 else []
                return mod(A), M, mm, d
        else:
            kind = 0
            npts = rng.choice([16, 33, 64, 100])
            dt = rng.choice([0.01, 0.02, 0.005])
            v1, _ = gens.float_record(rng, npts)
            v2, _ = gens.float_record(rng, npts)
            cls1, cls2 = [(eqsig.AccSignal, eqsig.AccSignal), (eqsig.Signal, eqsig.AccSignal), (eqsig.AccSignal, eqsig.Signal)][(c // 2) % 3]
            F = np.array(cls2(v2.copy(), dt).fa_frequencies, dtype=float)
            lo, hi = float(F[1]) * rng.uniform(0.5, 2.0), float(F[-1]) * rng.uniform(0.4, 1.5)
            T1, T2 = twin_targets(lo, hi, n)
            if c % 4 == 3:
                T1, T2 = T2, T1
            site = 'matrix_vs_direct[Signal; another Signal with the same dt/npts smoothed before on targets with the same length and end points]'
            args = {'values': list(map(float, v2)), 'dt': dt, 'class': cls2.__name__, 'smooth_fa_frequencies': list(map(float, T2)),
                    'history': ['%s(first_values, dt, smooth_fa_freqs=first_smooth_fa_frequencies).smooth_fa_spectrum' % cls1.__name__,
                                '%s(values, dt, smooth_fa_freqs=smooth_fa_frequencies).smooth_fa_spectrum' % cls2.__name__],
                    'first_values': list(map(float, v1)), 'first_smooth_fa_frequencies': list(map(float, T1))}

            def build():
                s1 = cls1(v1.copy(), dt, smooth_fa_freqs=T1.copy())
                _ = np.array(s1.smooth_fa_spectrum)
                s2 = cls2(v2.copy(), dt, smooth_fa_freqs=T2.copy())
                d = np.array(s2.smooth_fa_spectrum)
                M = fq.calc_smoothing_matrix_konno_1998(s2.fa_frequencies, s2.smooth_fa_frequencies)
                return np.abs(s2.fa_spectrum), M, fq.calc_smooth_fa_spectrum_w_custom_matrix(s2, M), d
        r = guarded(build)
        if isinstance(r, ImplError):
            viol(site, args, r)
            continue
        am, M, mm, d = r
        if not (np.all(np.isfinite(M)) and np.all(np.isfinite(d)) and np.all(np.isfinite(mm))):
            rep.violation(site, {'function': site, 'args': args, 'impl': {'direct': repr(d)}, 'expected': 'finite values'})
            continue
        kcase(kind, site, args, {'direct': list(map(float, d)), 'custom_matrix': list(map(float, mm))},
              len(set(np.abs(am[1:] if kind == 0 else am))) > 1, site, a=am, cols=np.asarray(M, float).T, d=d, m=mm)

    # ---- (K) bandwidth limits
    def bw_fragile(s, lim_float, lim_exact):
        return any((float(x) > lim_float) != (frac(x) > lim_exact) for x in s)

    def bw_case(site, kind, s, f, ratio, args, obj):
        nonlocal fragile
        s = np.asarray(s, dtype=float)
        if not np.all(np.isfinite(s)):       # a smoothed spectrum must be finite (the f == fc entry is replaced, never evaluated)
            viol(site, args, 'non-finite smoothed spectrum %r' % (s.tolist(),))
            return
        mx = max(s)
        if kind == 3:
            lf, le = mx * ratio, frac(mx) * frac(ratio)
        else:
            lf, le = mx / ratio, frac(mx) / frac(ratio)
        if bw_fragile(s, lf, le):
            fragile += 1
            return
        if kind == 3:
            r = guarded(eqsig.im.calc_bandwidth_freqs, obj, ratio=ratio)
            r1 = guarded(eqsig.im.calc_bandwidth_f_min, obj, ratio=ratio)
            r2 = guarded(eqsig.im.calc_bandwidth_f_max, obj, ratio=ratio)
        else:
            r = guarded(fq.get_sig_freq_range, obj, ratio=ratio)
            r1 = r2 = None
        rs = [x for x in (r, r1, r2) if x is not None]
        errs = [x for x in rs if isinstance(x, ImplError)]
        if errs and (len(errs) != len(rs) or any('IndexError' not in str(e) for e in errs)):
            viol(site, args, errs[0], impl={'calc_bandwidth_freqs/get_sig_freq_range': repr(r), 'calc_bandwidth_f_min': repr(r1), 'calc_bandwidth_f_max': repr(r2)},
                 expected='either every variant returns limits or every variant raises IndexError (no sample above the limit)')
            return
        has = not errs
        lo, hi = (float(r[0]), float(r[1])) if has else (0.0, 0.0)
        lo1, hi1 = (float(r1), float(r2)) if has and kind == 3 else (lo, hi)
        above = int(np.sum(s > lf))
        kcase(kind, site, args, {'has': has, 'lo': lo, 'hi': hi, 'f_min': lo1, 'f_max': hi1}, 0 < above < len(s),
              '%s/%s' % (site, 'has' if has else 'empty'), ratio=ratio, s=s, f=f, has=has, lo=lo, hi=hi, lo1=lo1, hi1=hi1, tol=0)

    for c in range(n_bw):
        n = rng.randint(1, 40)
        style = rng.choice(['int', 'plateau', 'twopeak', 'dyadic', 'zeros', 'edge'])
        if style == 'int':
            s = [rng.randint(0, 16) for _ in range(n)]
        elif style == 'plateau':
            s = [int(v) + 6 for v in gens.plateau_series(rng, n, levels=5)] if n > 1 else [3]
        elif style == 'twopeak':
            s = [max(0, 12 - abs(i - n // 4) * rng.randint(1, 4)) + max(0, 12 - abs(i - 3 * n // 4) * 2) for i in range(n)]
        elif style == 'dyadic':
            s = [rng.randint(0, 64) / 8.0 for _ in range(n)]
        elif style == 'zeros':
            s = [0] * n
        else:
            s = [rng.randint(0, 4) for _ in range(n)]
            s[rng.choice([0, n - 1])] = 16
        s = np.array(s, dtype=float)
        f = np.cumsum([rng.choice([0.25, 0.5, 1.0, 1.5]) for _ in range(n)])
        kind = 3 if rng.random() < 0.7 else 4
        if kind == 3:
            ratio = rng.choice([0.5, 0.25, 0.75, 0.125, 0.707, 0.707, 1.0, 2.0, 0.9375])
            site = 'calc_bandwidth_freqs'
        else:
            ratio = rng.choice([2, 4, 8, 15, 15, 1, 1.5, 0.5])
            site = 'get_sig_freq_range'
        obj = Stub(smooth_fa_spectrum=s.copy(), smooth_fa_frequencies=f.copy())
        bw_case(site, kind, s, f, ratio, {'smooth_fa_spectrum': list(map(float, s)), 'smooth_fa_frequencies': list(map(float, f)), 'ratio': ratio}, obj)

    for c in range(10 if quick else 100):
        npts = rng.choice([64, 128, 200, 256])
        dt = rng.choice([0.01, 0.02, 0.005])
        vals, _ = gens.float_record(rng, npts)
        args = {'values': list(map(float, vals)), 'dt': dt}
        asig = guarded(eqsig.AccSignal, vals.copy(), dt)
        if isinstance(asig, ImplError):
            continue
        if rng.random() < 0.5:
            asig.set_smooth_fa_frequecies_by_range((float(asig.fa_frequencies[1]), float(asig.fa_frequencies[-1])), rng.randint(5, 40))
        sm = guarded(lambda: np.array(asig.smooth_fa_spectrum, dtype=float))
        if isinstance(sm, ImplError):
            viol('Signal.smooth_fa_spectrum', args, sm)
            continue
        kind = 3 if rng.random() < 0.7 else 4
        ratio = rng.choice([0.707, 0.5, 0.9]) if kind == 3 else rng.choice([15, 2, 4])
        args['ratio'] = ratio
        args['smooth_fa_frequencies'] = list(map(float, asig.smooth_fa_frequencies))
        bw_case('calc_bandwidth_freqs[AccSignal]' if kind == 3 else 'get_sig_freq_range[AccSignal]', kind, sm,
                np.array(asig.smooth_fa_frequencies, dtype=float), ratio, args, asig)

    rep.extra['fragile_skipped'] = fragile
    rep.extra['interval_goals'] = len(S.goals)

    # ---- run
    timing['generate+implementation'] = round(time.time() - t0, 1)
    t0 = time.time()
    rep.correspond('model.K_C07', 'check_case', kc, describe='model_out %s')
    timing['vm_compute_cases'] = round(time.time() - t0, 1)
    t0 = time.time()
    rep.cases.extend(S.cases)
    failing, errors = ivl.run_goals('C07', IVL_HEADER, S.goals, timeout=2400, goal_timeout=300)
    if failing:
        # second opinion at higher precision before calling it a disagreement (an enclosure that is merely too wide is not a failing input)
        retry = [ivl.Goal(S.goals[i].stmt, S.goals[i].script.replace('i_prec 60', 'i_prec 200'), S.goals[i].defs, S.goals[i].cost) for i in failing]
        f2, e2 = ivl.run_goals('C07r', IVL_HEADER, retry, timeout=2400, goal_timeout=600)
        errors += e2
        failing = [failing[j] for j in f2]
    timing['interval_goals'] = round(time.time() - t0, 1)
    for e in errors:
        rep.unchecked('interval:model.M_smooth', e)
    rep.obligations += len(S.goals)
    rep.discharged += len(S.goals) - len(failing) if not errors else 0
    by_site = {}
    for i in failing:
        c = S.cases[i]
        if c.site not in by_site:
            by_site[c.site] = (c, 0)
        by_site[c.site] = (by_site[c.site][0], by_site[c.site][1] + 1)
    for site, (c, n) in sorted(by_site.items()):
        rep.violation(site, c.replay, coq_goal=c.coq[:6000], n_failing=n,
                      note='the interval tactic could not prove |model - implementation| <= tolerance for this input (also not at 200 bits)')


def finish(rep):
    return rep.finish(rule=RULE, trusted=TRUSTED, assumptions=['exact real arithmetic in the theorems; column of raw weights not identically zero (proved for on-grid targets and for targets with a Fourier frequency in the main lobe)'],
                      checker_cmd='translator/py2coq_c07.py /repo -> coq/gen/Gen_c07.v; cd /verif/coq && make props/Prop_C07.vo proofs/P_C07_ivl.vo model/K_C07.vo && coqc (Print Assumptions on every theorem); '
                                  'correspondence: coqc -Q /verif/coq EQ coq/run/C07_*.v (vm_compute) and coq/run/C07_ivl_*.v (interval goals, Qed)')


def replay_call(rp):
    """re-run the recorded call on the implementation (used by harness/replay.py)"""
    import eqsig
    from eqsig.fns import frequency as fq
    a, site = rp.get('args', {}), rp.get('function', '')

    def arr(x):
        if x is None:
            return None
        return np.array([complex(*v) if isinstance(v, (list, tuple)) else v for v in x])
    if 'values' in a:                                             # Signal / AccSignal based sites
        cls = getattr(eqsig, a.get('class', 'AccSignal'))
        s = cls(np.array(a['values']), a['dt'])
        if 'smooth_fa_frequencies' in a:
            s.smooth_fa_frequencies = np.array(a['smooth_fa_frequencies'])
        if site.startswith('calc_bandwidth_freqs'):
            return {'calc_bandwidth_freqs': eqsig.im.calc_bandwidth_freqs(s, ratio=a['ratio']),
                    'f_min': eqsig.im.calc_bandwidth_f_min(s, ratio=a['ratio']), 'f_max': eqsig.im.calc_bandwidth_f_max(s, ratio=a['ratio'])}
        if site.startswith('get_sig_freq_range'):
            return fq.get_sig_freq_range(s, ratio=a['ratio'])
        if 'band' in a and a['band'] != 40:
            s.gen_smooth_fa_spectrum(band=a['band'])
        return {'smooth_fa_spectrum': s.smooth_fa_spectrum}
    if 'smooth_fa_spectrum' in a:                                 # bandwidth on a stub object
        obj = Stub(smooth_fa_spectrum=np.array(a['smooth_fa_spectrum']), smooth_fa_frequencies=np.array(a['smooth_fa_frequencies']))
        if site.startswith('get_sig_freq_range'):
            return guarded(fq.get_sig_freq_range, obj, ratio=a['ratio'])
        return {'calc_bandwidth_freqs': guarded(eqsig.im.calc_bandwidth_freqs, obj, ratio=a['ratio']),
                'f_min': guarded(eqsig.im.calc_bandwidth_f_min, obj, ratio=a['ratio']), 'f_max': guarded(eqsig.im.calc_bandwidth_f_max, obj, ratio=a['ratio'])}
    F, TG, b = arr(a['fa_frequencies']), arr(a.get('smooth_fa_frequencies')), a.get('band', 40)
    out = {}
    if 'fa_spectrum' in a:
        A = arr(a['fa_spectrum']) * a.get('alpha', 1.0)
        out['calc_smooth_fa_spectrum'] = guarded(fq.calc_smooth_fa_spectrum, F, A, TG, band=b)
    if 'matrix' in site:
        M = guarded(fq.calc_smoothing_matrix_konno_1998, F, TG, band=b)
        out['calc_smoothing_matrix_konno_1998'] = M
        if 'fa_spectrum' in a and 'no_zero_bin' not in site and not isinstance(M, ImplError):
            out['calc_smooth_fa_spectrum_w_custom_matrix'] = guarded(fq.calc_smooth_fa_spectrum_w_custom_matrix, Stub(fa_spectrum=arr(a['fa_spectrum'])), M)
    return out
