"""C06 — Fourier amplitude spectrum is dt x DFT of the zero-padded record on the stated grid."""
import math, warnings
import numpy as np
from fractions import Fraction
from harness import core, gens
from harness import ivl_c06 as ivl
from harness.core import q, qlist, cbool, Case, guarded, ImplError, frac

RULE = ('cases: (a) spectrum of a record through Signal/AccSignal.gen_fa_spectrum(p2_plus, n) (+ the .fa_spectrum/.fa_freqs properties), '
        'calc_fa_spectrum(n, p2_plus) and generate_fa_spectrum(n_pad): transform length N, number of bins and frequency grid compared inside Coq '
        '(exactly for dyadic dt and power-of-two N, 1e-15 relative otherwise); every bin whose twiddles are 0/+-1 (bins 0 and N/4; all bins of N<=4) '
        'compared with the Q model (tolerance 0 for integer records, dyadic dt and N<=4; 1e-12*dt*sum|x| otherwise); '
        '(b) for N<=32 every bin (real and imaginary part) is an `interval` goal |dt*DFT_R - observed| <= 1e-12*dt*sum|x| on the R model; '
        '(c) long records (up to 2^20+1 samples): N, bins and sampled frequencies only; '
        '(d) relational clauses evaluated in Coq on implementation outputs: object-level = array-level, linearity, trailing zeros, Parseval (even N), '
        'fas2values(fas(x)) = padded x - mean - Nyquist (even N, strict length), fas2values structure on arbitrary half spectra (representable samples at Q, '
        'all samples by interval for N<=32), max_fa_period against argmax of re^2+im^2 of the object\'s own spectrum (near-ties skipped as fragile); '
        '(d\') the Signal / AccSignal handed back by fas2signal(fas, dt, stype) (arbitrary complex half spectra and spectra of records with a mean, any length incl. '
        'non-powers of two, non-zero first bin): its .fa_spectrum / .fa_freqs (either order) as a spectrum case of ITS OWN record (real part of .values; the imaginary '
        'rounding residue must be < 1e-14 sum|values|, else skipped as fragile), object-level = generate_fa_spectrum(obj), every bin by interval for 4 < N <= 32; '
        '(e) calc_fourier_moment(asig, n) (n in 0..6) and get_bandwidth_boore_2003(asig) on Signal / AccSignal objects and on stand-in objects with '
        'arbitrary ascending grids and complex spectra: the object\'s own fa_frequencies / fa_spectrum (real and imaginary parts) shipped, pi = the '
        'rational value of the float np.pi, the COMPLEX model moment (complex square of the spectrum) compared with the complex128 result within '
        '1e-9 * (sum of absolute panel contributions) (tolerance 0 for n = 0 on small dyadic stand-ins); bandwidth compared csqrt-free: '
        'out^2 = m2^2 / (m0 m4) on the implementation\'s own moments, Re(out) >= 0, nan exactly when m0 m4 = 0 (near-zero m0 m4 skipped as fragile); '
        'np.trapz is bound to np.trapezoid (the name NumPy renamed it to) only around these calls when the installed NumPy has no np.trapz; the unpatched call is '
        'observed first and the number of AttributeErrors is recorded in the evidence (not a violation: outside the property statement); '
        '(a\') records stored as int16/int32/int64 ndarrays through Signal/AccSignal.fa_spectrum and gen_fa_spectrum(p2_plus) (the model is given the same numbers); '
        'non-trivial = record not identically zero and at least 2 samples')
TRUSTED = [
    'Coq 8.16.1 kernel + vm_compute; Coq Interval tactic (proofs checked by the kernel at Qed)',
    'hand-written model coq/lib/Dft.v + coq/model/M_fourier.v; tie = correspondence of this run (model/K_C06.v) + interval goals (harness/ivl.py)',
    'translator/py2coq_c06.py (re-run on every check) + the C06_*_is_source theorems for the statements around the transform in Signal.gen_fa_spectrum, '
    'generate_fa_spectrum, calc_fa_spectrum, fas2values, fas2signal (N rule, int(N/2) bins, [range(points)], * dt, the grid, the asserts, the Hermitian completion): '
    'trusted there is only the translator\'s reading of each whitelisted NumPy / Python call as its list / Z primitive (lib/NpArr.v, lib/NpList.v, lib/PyVal.v; '
    'np.fft.fft / np.fft.ifft stay parameters, instantiated by the defining sums and measured by the interval goals) and .npts == len(.values)',
    'translator/py2coq_c06b.py (re-run on every check) + the C06_*_is_source theorems of Prop_C06_source for calc_fourier_moment, get_bandwidth_boore_2003 '
    '(eqsig/fns/frequency.py) and max_fa_period (eqsig/im.py): every operand, literal (the 2\'s, the exponents 0/2/4, `1.`), attribute, the `x=` keyword and '
    'operator is taken from the source text; trusted there is the reading of Python / NumPy complex arithmetic as the textbook formulas on (re, im) pairs and '
    'of np.trapz(y, x=x) as (diff(x) * (y[1:] + y[:-1]) / 2.0).sum() (written out in the header of gen/Gen_c06b.v), np.argmax = first maximal index, '
    'the object layer (.fa_frequencies, .fa_spectrum); np.pi, np.abs of a complex array (used only through `orders as re^2+im^2`, proved for the real '
    'modulus) and np.sqrt of a complex number (checked only through out^2 and Re(out) >= 0) are parameters; a non-integer exponent n is outside the model',
    'np.trapz does not exist in the installed NumPy (>= 2.4: renamed np.trapezoid), so calc_fourier_moment / get_bandwidth_boore_2003 raise AttributeError '
    'for every input there; the correspondence calls them with np.trapz temporarily bound to np.trapezoid (environment finding, not under the property text)',
    'exact arithmetic (rounding not modelled): NumPy FFT is measured against the defining sum within 1e-12*dt*sum|x|, not proved',
    'Q-run vs R-theorems: same polymorphic definitions; rational twiddle table proved equal to cos/sin where used (C06_twiddle_table)',
    'Python harness (generators, rational encoding, goal emission, parsing)',
]
WHICH = ['gen_fa_spectrum', 'calc_fa_spectrum', 'generate_fa_spectrum']
IVL_PRE = ('From EQ Require Import lib.Num lib.NpList lib.Dft model.M_fourier.\n'
           'Definition sp_re (s : list R * list R * list R) := fst (fst s).\n'
           'Definition sp_im (s : list R * list R * list R) := snd (fst s).\n'
           'Ltac ivl_prove := lazy -[Rplus Rmult Rminus Ropp Rdiv Rinv cos sin PI IZR Rabs Rle]; interval with (i_prec 70).\n')


# ------------------------------------------------------------------ encoding helpers
def zopt(v):
    return 'None' if v is None else '(Some (%d)%%Z)' % int(v)


def rnum(x):
    """exact value of a float as an R-scope term"""
    fr = frac(x)
    if fr.denominator == 1:
        return '(%d)' % fr.numerator
    return '(%d/%d)' % (fr.numerator, fr.denominator)


def rlist(xs):
    return '[' + '; '.join(rnum(v) for v in xs) + ']'


def rfrac(fr):
    return '(%d/%d)' % (fr.numerator, fr.denominator)


def is_pow2(n):
    return n >= 1 and (n & (n - 1)) == 0


def dyadic(x):
    """x is a power of two (so N*dt and k/(N*dt) are exact floats for power-of-two N)"""
    fr = frac(x)
    return fr.numerator == 1 and (fr.denominator & (fr.denominator - 1)) == 0


# ------------------------------------------------------------------ implementation calls
def impl_spectrum(cls, which, x, dt, nopt, p2opt, npad, via_property=False, store=None):
    """returns (complex spectrum, freqs) through the public entry point `which`; store = name of an integer numpy dtype: the
    record is handed over as an ndarray of that dtype (raw counts; the values must be integers inside its range)"""
    import eqsig
    from eqsig.fns import frequency as fq
    src = np.array(x, dtype=float)
    if store is not None:
        src = src.astype(np.dtype(store))
        assert np.array_equal(src.astype(float), np.array(x, dtype=float))
    sig = getattr(eqsig, cls)(src, dt)
    if which == 0:
        if via_property and nopt is None and p2opt is None:
            fa0, fr0 = np.array(sig.fa_spectrum), np.array(sig.fa_freqs)
            # the caller re-uses the array it built the object from: the object's record, and the spectrum of that record, stay
            if store is None:
                src *= -2.0
                src += 3.0
            else:
                src //= 2
                src += 3
            fa1, fr1, v1 = np.array(sig.fa_spectrum), np.array(sig.fa_freqs), np.array(sig.values, dtype=float)
            if not np.array_equal(v1, np.array(x, dtype=float)):
                raise RuntimeError('RecordChangedUnderObject: writing into the array the object was constructed from changed its record '
                                   '(the spectrum it reports is that of the old record)')
            if not (np.array_equal(fa0, fa1) and np.array_equal(fr0, fr1)):
                raise RuntimeError('NotRepeatable: fa_spectrum / fa_freqs changed between two reads with no operation on the object')
            return fa0, fr0
        kw = {}
        if p2opt is not None:
            kw['p2_plus'] = int(p2opt)
        if nopt is not None:
            kw['n'] = int(nopt)
        sig.gen_fa_spectrum(**kw)
        return np.array(sig.fa_spectrum), np.array(sig.fa_freqs)
    if which == 1:
        kw = {}
        if p2opt is not None:
            kw['p2_plus'] = int(p2opt)
        if nopt is not None:
            kw['n'] = int(nopt)
        fa, fr = fq.calc_fa_spectrum(sig, **kw)
        return np.array(fa), np.array(fr)
    fa, fr = fq.generate_fa_spectrum(sig, n_pad=bool(npad))
    return np.array(fa), np.array(fr)


def impl_history(cls, x0, x, dt, pre, order, modify=None):
    """spectrum and grid read from an object that already has a history: something Fourier-related was computed for an
    earlier record (x0) or with other options, then the record was replaced (reset_values) or modified in place;
    returns (current values, spectrum, freqs) - the property speaks about the object's current record"""
    import eqsig
    sig = getattr(eqsig, cls)(np.array(x0, dtype=float), dt)
    if pre[0] == 'spec':
        sig.fa_spectrum
    elif pre[0] == 'freqs':
        sig.fa_freqs
    elif pre[0] == 'p2':
        sig.gen_fa_spectrum(p2_plus=pre[1])
    else:
        sig.gen_fa_spectrum(n=pre[1])
    if modify is None:
        sig.reset_values(np.array(x, dtype=float))
    elif modify[0] == 'add_constant':
        sig.add_constant(modify[1])
    else:
        sig.add_series(np.array(modify[1], dtype=float))
    if order:
        fr = np.array(sig.fa_freqs); fa = np.array(sig.fa_spectrum)
    else:
        fa = np.array(sig.fa_spectrum); fr = np.array(sig.fa_freqs)
    return np.array(sig.values, dtype=float), fa, fr


def impl_fas2signal_object(re, im, dt, stype, order):
    """the Signal / AccSignal handed back by the inverse helper fas2signal(fas, dt, stype) is an ordinary object: the spectrum and the
    grid it reports (.fa_spectrum / .fa_freqs, read in either order) and the array-level generate_fa_spectrum(obj) belong to the
    object's OWN record (obj.values: the reconstructed series, without the mean / Nyquist component of whatever `fas` came from,
    2*len(fas) samples - not necessarily a power of two), not to the half spectrum that was handed in.
    Returns (record now (complex array as stored), object-level spectrum, object-level freqs, array-level spectrum, array-level freqs)"""
    from eqsig.fns import frequency as fq
    fas = np.array(re, dtype=float) + 1j * np.array(im, dtype=float)
    keep = fas.copy()
    sig = fq.fas2signal(fas, dt, stype=stype)
    if order:
        fr = np.array(sig.fa_freqs); fa = np.array(sig.fa_spectrum)
    else:
        fa = np.array(sig.fa_spectrum); fr = np.array(sig.fa_freqs)
    afa, afr = fq.generate_fa_spectrum(sig)
    if not np.array_equal(keep, fas):
        raise ImplError('InputMutated: the half spectrum handed to fas2signal was modified (by the call or by reading the spectrum of the returned object)')
    return np.array(sig.values), fa, fr, np.array(afa), np.array(afr)


def impl_fas2values(re, im, dt, as_signal=None):
    from eqsig.fns import frequency as fq
    fas = np.array(re, dtype=float) + 1j * np.array(im, dtype=float)
    # the half spectrum handed in (typically an object's cached fa_spectrum) must not be modified, and a second call must agree
    if as_signal is None:
        r = core.guarded_pure(fq.fas2values, fas, dt)
    else:
        r = core.guarded_pure(lambda f, d: np.array(fq.fas2signal(f, d, stype=as_signal).values), fas, dt)
    if isinstance(r, ImplError):
        raise RuntimeError(str(r))
    return np.array(r)


def impl_max_fa_period(cls, x, dt, pre=None):
    """pre = ['p2_plus', p] / ['n', N]: the object's spectrum is first generated with that (public) option; the dominant
    period is then the one of the largest bin of the spectrum the object reports"""
    import eqsig
    sig = getattr(eqsig, cls)(np.array(x, dtype=float), dt)
    with warnings.catch_warnings():
        warnings.simplefilter('ignore')
        if pre is not None:
            sig.gen_fa_spectrum(**{pre[0]: pre[1]})
        p = eqsig.im.max_fa_period(sig)
        return np.array(sig.fa_spectrum), np.array(sig.fa_frequencies), float(p)


class trapz_shim:
    """np.trapz was removed from NumPy (2.4: renamed np.trapezoid); calc_fourier_moment still calls it and raises AttributeError
    for every input under such a NumPy.  For the duration of a call np.trapz is bound to np.trapezoid (same function)."""
    def __enter__(self):
        self.added = not hasattr(np, 'trapz') and hasattr(np, 'trapezoid')
        if self.added:
            np.trapz = np.trapezoid
        return self

    def __exit__(self, *a):
        if self.added:
            try:
                del np.trapz
            except AttributeError:
                pass
        return False


def spectral_object(kind, x, dt):
    """('Signal' | 'AccSignal', record, dt) or ('standin', (fr, re, im), None): an object with .fa_frequencies / .fa_spectrum"""
    import eqsig, types
    if kind == 'standin':
        fr, re, im = x
        return types.SimpleNamespace(fa_frequencies=np.array(fr, dtype=float), fa_spectrum=np.array(re, dtype=float) + 1j * np.array(im, dtype=float))
    return getattr(eqsig, kind)(np.array(x, dtype=float), dt)


def as_complex(v, what):
    if not isinstance(v, (complex, np.complexfloating)):
        raise TypeError('%s returned %s (%r), expected a complex number' % (what, type(v).__name__, v))
    return complex(v)


UNPATCHED = {'calls': 0, 'AttributeError': 0, 'other': 0}


def observe_unpatched(fn, *a):
    """where the installed NumPy has no np.trapz: the call as shipped (no shim) is observed to raise AttributeError.  Counted only
    (reported in the evidence); it is outside every clause of the property statement, so it is not a violation."""
    if hasattr(np, 'trapz'):
        return
    UNPATCHED['calls'] += 1
    try:
        with warnings.catch_warnings():
            warnings.simplefilter('ignore')
            fn(*a)
        UNPATCHED['other'] += 1
    except AttributeError:
        UNPATCHED['AttributeError'] += 1
    except Exception:
        UNPATCHED['other'] += 1


def impl_moment(kind, x, dt, n):
    from eqsig.fns import frequency as fq
    sig = spectral_object(kind, x, dt)
    observe_unpatched(fq.calc_fourier_moment, sig, n)
    with trapz_shim(), warnings.catch_warnings():
        warnings.simplefilter('ignore')
        m = fq.calc_fourier_moment(sig, n)
    return np.array(sig.fa_frequencies, dtype=float), np.array(sig.fa_spectrum), as_complex(m, 'calc_fourier_moment')


def impl_boore(kind, x, dt):
    from eqsig.fns import frequency as fq
    sig = spectral_object(kind, x, dt)
    observe_unpatched(fq.get_bandwidth_boore_2003, sig)
    with trapz_shim(), warnings.catch_warnings():
        warnings.simplefilter('ignore')
        ms = [as_complex(fq.calc_fourier_moment(sig, n), 'calc_fourier_moment') for n in (0, 2, 4)]
        out = as_complex(fq.get_bandwidth_boore_2003(sig), 'get_bandwidth_boore_2003')
    return np.array(sig.fa_frequencies, dtype=float), np.array(sig.fa_spectrum), ms, out


def qpair(z):
    return '(%s, %s)' % (q(z.real), q(z.imag))


def replay_call(rp):
    a = rp.get('args', {})
    f = rp.get('function', '')
    if 'calc_fourier_moment' in f:
        return impl_moment(a['kind'], a['values'] if a['kind'] != 'standin' else (a['fr'], a['re'], a['im']), a.get('dt'), a['n'])[2]
    if 'get_bandwidth_boore_2003' in f:
        return impl_boore(a['kind'], a['values'] if a['kind'] != 'standin' else (a['fr'], a['re'], a['im']), a.get('dt'))[3]
    if 'max_fa_period' in f:
        return impl_max_fa_period(a.get('cls', 'AccSignal'), a['values'], a['dt'], a.get('after_gen_fa_spectrum'))[2]
    if 'fas2signal' in f and 'stype' in a:
        return impl_fas2signal_object(a['re'], a['im'], a['dt'], a['stype'], a.get('read_freqs_first', False))
    if 'fas2' in f and 're' in a:
        return impl_fas2values(a['re'], a['im'], a['dt'])
    if 'values' in a and 'which' in a:
        return impl_spectrum(a.get('cls', 'Signal'), a['which'], a['values'], a['dt'], a.get('n'), a.get('p2_plus'), a.get('n_pad', True),
                             a.get('via_property', False), a.get('stored_dtype'))
    return None


# ------------------------------------------------------------------ model-side N (only to choose domains / tolerances, never to judge)
def expected_n(which, npts, nopt, p2opt, npad):
    def p2len(p):
        return 2 ** ((npts - 1).bit_length() + p)
    if which == 0:
        return nopt if nopt is not None else p2len(p2opt or 0)
    if which == 1:
        if nopt is not None:
            return nopt
        return p2len(p2opt) if p2opt is not None else npts
    return p2len(0) if npad else npts


def options(rng, which, npts, small=True):
    """(nopt, p2opt, npad) for entry point `which`"""
    nopt = p2opt = None
    npad = True
    r = rng.random()
    if which in (0, 1):
        if r < 0.35:
            p2opt = rng.randint(0, 3)
        elif r < 0.75:
            if small:
                nopt = rng.choice([1, 2, 3, 4, 5, 6, 7, 8, 9, 10, 12, 14, 15, 16, 18, 20, 24, 28, 31, 32, npts, npts + 1, max(1, npts - 1), 2 * npts])
            else:
                nopt = rng.choice([npts, npts + 1, npts + 3, max(2, npts - 1), 2 * npts, 2 * npts + 1, 3 * npts // 2 + 1, max(2, npts // 2)])
        elif r < 0.85 and which == 1:
            p2opt, nopt = rng.randint(0, 3), rng.randint(2, 40)   # n wins when both are given
    else:
        npad = rng.random() < 0.5
    return nopt, p2opt, npad


def describe_args(cls, which, x, dt, nopt, p2opt, npad):
    return {'cls': cls, 'which': which, 'values': [float(v) for v in x], 'dt': float(dt), 'n': nopt, 'p2_plus': p2opt, 'n_pad': bool(npad)}


def spec_case(cls, which, x, dt, nopt, p2opt, npad, fa, fr, exact):
    N = expected_n(which, len(x), nopt, p2opt, npad)
    rtol = 0 if (exact and N <= 4) else Fraction(1, 10 ** 12)
    ftol = 0 if (dyadic(dt) and is_pow2(N)) else Fraction(1, 10 ** 15)
    coq = 'CSpec %d %s %s %s %s %s %s %s %s %s %s' % (which, zopt(nopt), zopt(p2opt), cbool(npad), q(dt), qlist(x),
                                                      qlist(fa.real), qlist(fa.imag), qlist(fr), q(rtol), q(ftol))
    site = ('%s.gen_fa_spectrum' % cls) if which == 0 else WHICH[which]
    rp = {'function': site, 'args': describe_args(cls, which, x, dt, nopt, p2opt, npad), 'impl': {'fa': fa, 'freqs': fr}}
    return Case(coq, rp, site, nontrivial=(len(x) >= 2 and any(v != 0 for v in x)),
                klass='%s/%s/N%s' % (site, 'exact' if rtol == 0 else 'tol', 'pow2' if is_pow2(N) else ('odd' if N % 2 else 'even')))


def big_case(rng, cls, which, x, dt, nopt, p2opt, npad, fa, fr, label=None):
    N = expected_n(which, len(x), nopt, p2opt, npad)
    ftol = 0 if (dyadic(dt) and is_pow2(N)) else Fraction(1, 10 ** 15)
    nb = min(len(fa), len(fr))
    ks = {0, 1, 2, N // 4, nb // 2, nb - 1} | {rng.randrange(nb) for _ in range(3)} if nb else set()
    ks = sorted(k for k in ks if 0 <= k < nb)
    smp = '[' + '; '.join('((%d)%%Z, %s, %s, %s)' % (k, q(fa[k].real), q(fa[k].imag), q(fr[k])) for k in ks) + ']'
    coq = 'CBig %d %s %s %s %s %s (%d)%%Z (%d)%%Z %s %s %s' % (which, zopt(nopt), zopt(p2opt), cbool(npad), q(dt), qlist(x), len(fa), len(fr), smp,
                                                           q(Fraction(1, 10 ** 12)), q(ftol))
    site = ('%s.gen_fa_spectrum' % cls) if which == 0 else WHICH[which]
    args = describe_args(cls, which, x, dt, nopt, p2opt, npad)
    if label:
        args['values'] = label
    rp = {'function': site, 'args': args, 'impl': {'nbins': len(fa), 'nfreqs': len(fr), 'sampled': {str(k): [fa[k].real, fa[k].imag, fr[k]] for k in ks}}}
    return Case(coq, rp, site, nontrivial=bool(np.any(np.array(x) != 0)), klass='%s/big/N%s' % (site, 'pow2' if is_pow2(N) else ('odd' if N % 2 else 'even')))


def pick(rng, items, budget_terms, terms_each):
    """sample goals of one case so that it costs at most budget_terms cosine/sine terms"""
    kmax = max(2, budget_terms // max(1, terms_each))
    if len(items) <= kmax:
        return items
    idx = sorted(rng.sample(range(len(items)), kmax))
    return [items[i] for i in idx]


def spectrum_goals(cls, which, x, dt, nopt, p2opt, npad, fa, tag):
    """interval goals: every bin, real and imaginary part, against the R model"""
    fn = ['sig_spectrum_R (%d)%%Z %s' % (p2opt or 0, zopt(nopt)),
          'calc_spectrum_R %s %s' % (zopt(nopt), zopt(p2opt)),
          'gen_spectrum_R %s' % cbool(npad)][which]
    defs = 'Definition x_%s : list R := %s.\nDefinition s_%s := %s %s x_%s.' % (tag, rlist(x), tag, fn, rnum(dt), tag)
    tol = max(Fraction(1, 10 ** 12) * abs(frac(dt)) * sum(abs(frac(v)) for v in x), Fraction(1, 10 ** 300))
    out = []
    for k in range(len(fa)):
        out.append((defs, 'Rabs (nth %d (sp_re s_%s) 0 - %s) <= %s' % (k, tag, rnum(fa[k].real), rfrac(tol))))
        out.append((defs, 'Rabs (nth %d (sp_im s_%s) 0 - %s) <= %s' % (k, tag, rnum(fa[k].imag), rfrac(tol))))
    return out


def inv_goals(re, im, dt, s, tag):
    defs = ('Definition re_%s : list R := %s.\nDefinition im_%s : list R := %s.' % (tag, rlist(re), tag, rlist(im)))
    tol = max(Fraction(1, 10 ** 12) * sum(abs(frac(v)) for v in list(re) + list(im)) / abs(frac(dt)), Fraction(1, 10 ** 300))
    out = []
    for n in range(len(s)):
        out.append((defs, 'Rabs (nth %d (fas2values_re_R re_%s im_%s %s) 0 - %s) <= %s' % (n, tag, tag, rnum(dt), rnum(s[n].real), rfrac(tol))))
        out.append((defs, 'Rabs (nth %d (fas2values_im_R re_%s im_%s %s) 0 - %s) <= %s' % (n, tag, tag, rnum(dt), rnum(s[n].imag), rfrac(tol))))
    return out


# ------------------------------------------------------------------ generators
def exact_record(rng, n):
    a, style = gens.int_record(rng, n, amp=rng.choice([3, 10, 50]))
    if rng.random() < 0.3:
        a = a / 2.0 ** rng.randint(1, 6)
    return a


def tol_record(rng, n):
    a, style = gens.float_record(rng, n)
    return a


def small_npts(rng, hi=32):
    r = rng.random()
    if r < 0.25:
        return rng.choice([2, 3, 4, 5, 7, 8, 9, 15, 16, 17, 31, 32])
    return rng.randint(2, hi)


def regen_c06():
    """re-translate Signal.gen_fa_spectrum (eqsig/single.py) and generate_fa_spectrum / calc_fa_spectrum / fas2values /
    fas2signal (eqsig/fns/frequency.py) into coq/gen/Gen_c06.v (fail closed): the `*_is_source` theorems of Prop_C06 are then
    re-proved against the code that is in the repo now"""
    import os, sys
    try:
        sys.path.insert(0, os.path.join(core.VERIF, 'translator'))
        import py2coq_c06
        py2coq_c06.regenerate(repo=core.REPO)
    except Exception as e:
        return 'py2coq_c06: %s: %s' % (type(e).__name__, e)
    return None


def regen_c06b():
    """re-translate calc_fourier_moment / get_bandwidth_boore_2003 (eqsig/fns/frequency.py) and max_fa_period (eqsig/im.py) into
    coq/gen/Gen_c06b.v (fail closed): the `*_is_source` theorems of Prop_C06_source are then re-proved against the code in the repo"""
    import os, sys
    try:
        sys.path.insert(0, os.path.join(core.VERIF, 'translator'))
        import py2coq_c06b
        py2coq_c06b.regenerate(repo=core.REPO)
    except Exception as e:
        return 'py2coq_c06b: %s: %s' % (type(e).__name__, e)
    return None


def run(rep, rng, tier):
    rep.prove('Prop_C06', gen_failed=regen_c06())
    rep.prove('Prop_C06_source', gen_failed=regen_c06b())
    quick = tier == 'quick'
    cases, goals, goal_owner = [], [], []
    stats = {'fragile_skipped': 0, 'interval_goals': 0, 'interval_cases': 0}

    def bad(site, args, r):
        rep.violation(site, {'function': site, 'args': args, 'impl_error': str(r)})

    def add_goals(gl, case):
        if gl:
            stats['interval_cases'] += 1
        for g in gl:
            goals.append(g)
            goal_owner.append(case)

    # ---- (a)+(b) spectra of short records: Q structure + interval on every bin
    n_small = 60 if quick else 600
    ivl_terms = [5000 if quick else 80000]   # budget of interval goals, counted in cos/sin terms (~10 ms each)
    for k in range(n_small):
        exact = (k % 2 == 0)
        npts = small_npts(rng, 40 if k % 5 else 12)
        x = exact_record(rng, npts) if exact else tol_record(rng, npts)
        dt = gens.dyadic_dt(rng, 0, 7) if exact else rng.choice([0.01, 0.005, 0.02, 0.1, rng.uniform(1e-3, 0.6)])
        which = k % 3
        cls = 'AccSignal' if (k // 3) % 2 else 'Signal'
        nopt, p2opt, npad = options(rng, which, npts)
        if k % 7 == 0:
            nopt = rng.choice([1, 2, 3, 4]) if which != 2 else None     # force the exact N<=4 domain regularly
            p2opt = None if which != 1 else p2opt
        via_prop = rng.random() < 0.5
        r = guarded(impl_spectrum, cls, which, x, dt, nopt, p2opt, npad, via_prop)
        args = describe_args(cls, which, x, dt, nopt, p2opt, npad)
        if isinstance(r, ImplError):
            bad(WHICH[which], args, r)
            continue
        fa, fr = r
        c = spec_case(cls, which, x, dt, nopt, p2opt, npad, fa, fr, exact)
        cases.append(c)
        N = expected_n(which, npts, nopt, p2opt, npad)
        if N <= 32 and len(fa) > 0 and ivl_terms[0] > 0:
            gl = pick(rng, spectrum_goals(cls, which, x, dt, nopt, p2opt, npad, fa, 'c%d' % k), 300 if quick else 1100, N)
            ivl_terms[0] -= len(gl) * N
            add_goals(gl, c)

    # ---- records stored with an integer dtype (raw digitiser counts): Signal/AccSignal.fa_spectrum and gen_fa_spectrum(p2_plus=...)
    # give dt x DFT of the same numbers (the model gets them as rationals)
    for k in range(9 if quick else 60):
        store = ['int16', 'int32', 'int64'][k % 3]
        cls = 'AccSignal' if (k // 3) % 2 else 'Signal'
        npts = small_npts(rng, 40)
        x, _ = gens.int_record(rng, npts, amp=rng.choice([50, 2000, 30000]))
        x = np.clip(np.round(x), -32768, 32767)
        if not np.any(x != 0):
            x[rng.randrange(npts)] = 7.0
        dt = rng.choice([0.01, 0.005, 0.02, 0.1, 0.25, 0.5, 1.0, 2.0])
        via_prop = (k % 2 == 0)
        nopt, p2opt, npad = None, (None if via_prop else rng.randint(0, 3)), True
        r = guarded(impl_spectrum, cls, 0, x, dt, nopt, p2opt, npad, via_prop, store)
        args = describe_args(cls, 0, x, dt, nopt, p2opt, npad)
        args.update(stored_dtype=store, via_property=via_prop)
        site = '%s.%s[%s record]' % (cls, 'fa_spectrum' if via_prop else 'gen_fa_spectrum(p2_plus)', store)
        if isinstance(r, ImplError):
            bad(site, args, r)
            continue
        c = spec_case(cls, 0, x, dt, nopt, p2opt, npad, r[0], r[1], False)
        cases.append(Case(c.coq, {'function': site, 'args': args, 'impl': c.replay['impl']}, site, nontrivial=c.nontrivial, klass='%s/%s' % (site, 'property' if via_prop else 'p2_plus')))

    # ---- objects with a history: the spectrum / grid read later must belong to the current record
    n_hist = 24 if quick else 250
    for k in range(n_hist):
        exact = (k % 2 == 0)
        n0, n1 = small_npts(rng, 40), small_npts(rng, 40)
        mk = exact_record if exact else tol_record
        x0, x1 = mk(rng, n0), mk(rng, n1)
        dt = gens.dyadic_dt(rng, 0, 6) if exact else rng.choice([0.01, 0.02, rng.uniform(1e-3, 0.5)])
        pre = rng.choice([('spec',), ('freqs',), ('p2', rng.randint(1, 3)), ('n', rng.choice([3, 5, 8, 9, 24, 64]))])
        order = rng.random() < 0.7
        cls = rng.choice(['Signal', 'AccSignal'])
        if k % 3 == 2:
            modify = ('add_constant', float(rng.randint(-3, 3)) if exact else rng.uniform(-1, 1)) if rng.random() < 0.5 else ('add_series', mk(rng, n0))
            r = guarded(impl_history, cls, x0, None, dt, pre, order, modify)
        else:
            modify = None
            r = guarded(impl_history, cls, x0, x1, dt, pre, order)
        site = '%s.fa_spectrum/fa_freqs after history' % cls
        args = {'cls': cls, 'first_values': [float(v) for v in x0], 'dt': float(dt), 'then': list(pre),
                'change': 'reset_values' if modify is None else modify[0], 'new_values_or_arg': [float(v) for v in x1] if modify is None else core.jsonable(modify[1]),
                'read_freqs_first': order}
        if isinstance(r, ImplError):
            bad(site, args, r)
            continue
        xcur, fa, fr = r
        c = spec_case(cls, 0, xcur, dt, None, None, True, fa, fr, exact)
        c.site = site
        c.klass = site
        c.replay = {'function': site, 'args': args, 'impl': {'values_now': xcur, 'fa': fa, 'freqs': fr}}
        c.key = core.digest([site, args])
        cases.append(c)

    # ---- objects handed back by the inverse helper: fas2signal(fas, dt, stype) returns a Signal / AccSignal; the spectrum / grid that object
    #      reports (and generate_fa_spectrum of it) is dt x DFT of the object's OWN record padded to the next power of two >= 2 len(fas).
    #      Half spectra with a non-zero first bin (the record they came from had a mean) and lengths that are not a power of two
    #      (e.g. the unpadded calc_fa_spectrum of a 100-sample record) are the ones where `fas` itself is not that spectrum.
    n_f2s = 16 if quick else 240
    f2s_terms = [450 if quick else 12000]
    for k in range(n_f2s):
        exact = (k % 2 == 0)
        src = k % 4
        dt = gens.dyadic_dt(rng, 0, 6) if exact else rng.choice([0.01, 0.02, 0.005, rng.uniform(1e-3, 0.5)])
        origin = None
        if src in (0, 1):      # arbitrary complex half spectrum, any length
            M = rng.choice([1, 2, 3, 3, 4, 5, 6, 7, 8, 9, 10, 12, 13, 16]) if k % 8 < 4 else rng.randint(17, 48 if quick else 200)
            mk = exact_record if exact else tol_record
            re, im = np.array(mk(rng, M), dtype=float), np.array(mk(rng, M), dtype=float)
            if re[0] == 0 and rng.random() < 0.8:
                re[0] = float(rng.randint(1, 9)) if exact else rng.uniform(0.1, 3)
            if rng.random() < 0.5:
                im[0] = 0.0      # first bin of the spectrum of a real record is real
        else:                  # half spectrum of a real record with a clear mean: padded (power-of-two) or unpadded (npts/2 bins, any length)
            npts = rng.choice([4, 6, 7, 10, 12, 20, 24, 50, 100]) if rng.random() < 0.6 else rng.randint(4, 48 if quick else 200)
            x0 = exact_record(rng, npts) if exact else tol_record(rng, npts)
            x0 = x0 + (float(rng.randint(1, 5)) if exact else rng.uniform(0.3, 2.0) * (float(np.max(np.abs(x0))) or 1.0))
            w0 = 2 if src == 2 else 1
            r0 = guarded(impl_spectrum, 'Signal', w0, x0, dt, None, None, True, False)
            origin = {'spectrum_of': [float(v) for v in x0], 'through': WHICH[w0]}
            if isinstance(r0, ImplError):
                bad(WHICH[w0], origin, r0)
                continue
            re, im = np.array(r0[0].real, dtype=float), np.array(r0[0].imag, dtype=float)
            M = len(re)
            if M == 0:
                continue
        stype = rng.choice(['signal', 'acc'])
        order = rng.random() < 0.5
        cls = 'Signal' if stype == 'signal' else 'AccSignal'
        site = 'fas2signal[%s] -> %s.fa_spectrum/fa_freqs' % (stype, cls)
        args = {'re': [float(v) for v in re], 'im': [float(v) for v in im], 'dt': float(dt), 'stype': stype, 'read_freqs_first': order}
        if origin:
            args['fas_origin'] = origin
        r = guarded(impl_fas2signal_object, re, im, dt, stype, order)
        if isinstance(r, ImplError):
            bad(site, args, r)
            continue
        vals, fa, fr, afa, afr = r
        xr = np.array(vals.real, dtype=float)
        xi = np.array(vals.imag, dtype=float) if np.iscomplexobj(vals) else np.zeros(len(xr))
        # the stored record is the complex ifft output; its imaginary part is rounding noise of a Hermitian inverse.  The case ships the real
        # part as the record; if the imaginary part were not negligible against the comparison tolerance the case is not decidable here (the
        # structure of fas2signal's record itself is judged by the CInv / CRound cases)
        if sum(abs(frac(v)) for v in xi) * 10 ** 14 > sum(abs(frac(v)) for v in xr):
            stats['fragile_skipped'] += 1
            continue
        kl = 'fas2signal-object/%s/len%s/bin0%s' % ('exact' if exact else 'tol', 'pow2' if is_pow2(M) else 'other', 'zero' if (re[0] == 0 and im[0] == 0) else 'nonzero')
        impl = {'values_now_real_part': xr, 'values_now_max_abs_imag': float(np.max(np.abs(xi))) if len(xi) else 0.0, 'fa': fa, 'freqs': fr}
        c = spec_case(cls, 0, xr, dt, None, None, True, fa, fr, False)
        c.site = site
        c.klass = kl
        c.nontrivial = bool(M >= 2 and (np.any(re != 0) or np.any(im != 0)))
        c.replay = {'function': site, 'args': args, 'impl': impl}
        c.key = core.digest([site, args])
        cases.append(c)
        a = agree_case('agree:object_vs_array[fas2signal]', args, xr, dt, (fa, fr), (afa, afr))
        a.klass = 'agree:object_vs_array[fas2signal]'
        a.nontrivial = c.nontrivial
        cases.append(a)
        N = expected_n(0, len(xr), None, None, True)
        if 4 < N <= 32 and len(fa) == N // 2 and f2s_terms[0] > 0:
            gl = pick(rng, spectrum_goals(cls, 0, xr, dt, None, None, True, fa, 'f%d' % k), 80 if quick else 600, N)
            f2s_terms[0] -= len(gl) * N
            add_goals(gl, c)

    # ---- exhaustive option sweep on one short exact record per length (all entry points, p2_plus 0..3, n around npts)
    sweep_lens = [2, 3, 5, 8] if quick else list(range(2, 20))
    for npts in sweep_lens:
        x = exact_record(rng, npts)
        dt = gens.dyadic_dt(rng, 0, 5)
        combos = [(0, None, None, True), (2, None, None, True), (2, None, None, False), (1, None, None, True)]
        combos += [(w, None, p, True) for w in (0, 1) for p in range(4)]
        combos += [(w, n, None, True) for w in (0, 1) for n in sorted({1, 2, 3, 4, npts - 1, npts, npts + 1, 2 * npts - 1} - {0})]
        for which, nopt, p2opt, npad in combos:
            for cls in ('Signal', 'AccSignal'):
                r = guarded(impl_spectrum, cls, which, x, dt, nopt, p2opt, npad, False)
                if isinstance(r, ImplError):
                    bad(WHICH[which], describe_args(cls, which, x, dt, nopt, p2opt, npad), r)
                    continue
                cases.append(spec_case(cls, which, x, dt, nopt, p2opt, npad, r[0], r[1], True))

    # ---- (a) medium / long records at Q: bins 0 and N/4 only, grid, lengths (includes the shipped record)
    n_med = 16 if quick else 120
    for k in range(n_med):
        exact = (k % 3 == 0)
        npts = rng.choice([33, 64, 65, 100, 127, 128, 129, 250, 500, 512, 513] + ([] if quick else [1000, 1024, 2049])) if k % 2 else rng.randint(33, 400 if quick else 1500)
        x = exact_record(rng, npts) if exact else tol_record(rng, npts)
        dt = gens.dyadic_dt(rng, 0, 7) if exact else rng.choice([0.01, 0.005, 0.02, rng.uniform(1e-3, 0.3)])
        which = k % 3
        cls = 'AccSignal' if k % 2 else 'Signal'
        nopt, p2opt, npad = options(rng, which, npts, small=False)
        r = guarded(impl_spectrum, cls, which, x, dt, nopt, p2opt, npad, rng.random() < 0.5)
        if isinstance(r, ImplError):
            bad(WHICH[which], describe_args(cls, which, x, dt, nopt, p2opt, npad), r)
            continue
        if len(r[0]) <= 70:
            cases.append(spec_case(cls, which, x, dt, nopt, p2opt, npad, r[0], r[1], exact))
        else:
            cases.append(big_case(rng, cls, which, x, dt, nopt, p2opt, npad, r[0], r[1]))
    m, mdt = gens.shipped_motion()
    for which, cls, sl in ([(0, 'AccSignal', slice(0, 2000))] if quick else
                           [(0, 'AccSignal', slice(0, None)), (1, 'Signal', slice(0, 3000)), (2, 'AccSignal', slice(100, 4196)), (2, 'Signal', slice(0, None))]):
        x = m[sl]
        r = guarded(impl_spectrum, cls, which, x, mdt, None, None, True, True)
        if isinstance(r, ImplError):
            bad(WHICH[which], {'record': 'shipped'}, r)
        else:
            cases.append(big_case(rng, cls, which, x, mdt, None, None, True, r[0], r[1],
                                  label='shipped record tests/unit_test_data/test_motion_dt0p01.txt [%s:%s]' % (sl.start, sl.stop)))

    # ---- (c) grid of long records: N rule / number of bins / frequencies only
    lens = []
    for j in (list(range(1, 21)) if not quick else [1, 2, 3, 5, 8, 11, 13, 16, 18, 20]):
        lens += [2 ** j, 2 ** j + 1, max(2, 2 ** j - 1)]
    lens += [rng.randint(2, 2 ** 20) for _ in range(6 if quick else 60)]
    for i, npts in enumerate(lens):
        which = i % 3
        cls = 'AccSignal' if i % 2 else 'Signal'
        nopt, p2opt, npad = options(rng, which, npts, small=False)
        if npts > 2 ** 18 and p2opt is not None:
            p2opt = min(p2opt, 1)
        x = np.zeros(npts)
        x[rng.randrange(npts)] = 1.0
        dt = gens.dyadic_dt(rng, 0, 8) if i % 2 else rng.choice([0.01, 0.005, 0.02, rng.uniform(1e-3, 0.3)])
        r = guarded(impl_spectrum, cls, which, x, dt, nopt, p2opt, npad, False)
        args = {'cls': cls, 'which': which, 'values': 'unit impulse in %d zeros' % npts, 'npts': npts, 'dt': float(dt), 'n': nopt, 'p2_plus': p2opt, 'n_pad': bool(npad)}
        if isinstance(r, ImplError):
            bad(WHICH[which], args, r)
            continue
        fa, fr = r
        N = expected_n(which, npts, nopt, p2opt, npad)
        ftol = 0 if (dyadic(dt) and is_pow2(N)) else Fraction(1, 10 ** 15)
        ks = sorted({0, 1, 2, len(fr) // 2, len(fr) - 1} & set(range(len(fr))))
        fk = '[' + '; '.join('((%d)%%Z, %s)' % (kk, q(fr[kk])) for kk in ks) + ']'
        coq = 'CGrid %d %s %s %s (%d)%%Z %s (%d)%%Z %s %s' % (which, zopt(nopt), zopt(p2opt), cbool(npad), npts, q(dt), len(fa), fk, q(ftol))
        site = 'grid:' + (('%s.gen_fa_spectrum' % cls) if which == 0 else WHICH[which])
        cases.append(Case(coq, {'function': site, 'args': args, 'impl': {'nbins': len(fa), 'nfreqs': len(fr), 'freqs_at': {str(kk): float(fr[kk]) for kk in ks}}},
                          site, nontrivial=True, klass=site))
        if len(fa) != len(fr):
            rep.violation(site, {'function': site, 'args': args, 'impl': {'nbins': len(fa), 'nfreqs': len(fr)}})

    # ---- (d) relational clauses on implementation outputs
    n_rel = 24 if quick else 200
    for k in range(n_rel):
        exact = (k % 2 == 0)
        npts = small_npts(rng, 40) if k % 4 else rng.randint(41, 120 if quick else 250)
        x = exact_record(rng, npts) if exact else tol_record(rng, npts)
        dt = gens.dyadic_dt(rng, 0, 6) if exact else rng.choice([0.01, 0.02, rng.uniform(1e-3, 0.5)])
        pmax = 3 if npts <= 40 else 1
        # object-level vs array-level with the same N
        mode = k % 4
        if mode == 0:
            p = rng.randint(0, pmax)
            a1 = (0, None, p, True); a2 = (1, None, p, True)
        elif mode == 1:
            n = rng.choice([npts, npts + 1, 2 * npts, max(2, npts - 1), rng.randint(2, 64)])
            a1 = (0, n, None, True); a2 = (1, n, None, True)
        elif mode == 2:
            a1 = (0, None, None, True); a2 = (2, None, None, True)
        else:
            a1 = (1, None, None, True); a2 = (2, None, None, False)
        cls1, cls2 = rng.choice(['Signal', 'AccSignal']), rng.choice(['Signal', 'AccSignal'])
        r1 = guarded(impl_spectrum, cls1, a1[0], x, dt, a1[1], a1[2], a1[3], rng.random() < 0.5)
        r2 = guarded(impl_spectrum, cls2, a2[0], x, dt, a2[1], a2[2], a2[3], False)
        args = {'values': [float(v) for v in x], 'dt': float(dt), 'first': [cls1, WHICH[a1[0]]] + list(a1[1:]), 'second': [cls2, WHICH[a2[0]]] + list(a2[1:])}
        if isinstance(r1, ImplError) or isinstance(r2, ImplError):
            bad('agree:object_vs_array', args, r1 if isinstance(r1, ImplError) else r2)
        else:
            cases.append(agree_case('agree:object_vs_array', args, x, dt, r1, r2))
        # trailing zeros that keep N (padded default)
        N = expected_n(0, npts, None, None, True)
        if N > npts:
            mz = rng.randint(1, N - npts)
            xz = np.concatenate([x, np.zeros(mz)])
            r1 = guarded(impl_spectrum, 'Signal', 0, x, dt, None, None, True, True)
            r2 = guarded(impl_spectrum, 'Signal', rng.choice([0, 2]), xz, dt, None, None, True, False)
            args = {'values': [float(v) for v in x], 'dt': float(dt), 'zeros_appended': mz}
            if isinstance(r1, ImplError) or isinstance(r2, ImplError):
                bad('trailing_zeros', args, r1 if isinstance(r1, ImplError) else r2)
            else:
                cases.append(agree_case('trailing_zeros', args, x, dt, r1, r2))
        # linearity
        y = exact_record(rng, npts) if exact else tol_record(rng, npts)
        if exact:
            a, b = rng.randint(-8, 8) / 4.0, rng.randint(-8, 8) / 2.0
        else:
            a, b = rng.uniform(-3, 3), rng.uniform(-3, 3)
        z = a * x + b * y
        which = k % 3
        nopt, p2opt, npad = options(rng, which, npts, small=(npts <= 40))
        if p2opt is not None:
            p2opt = min(p2opt, pmax)
        rs = [guarded(impl_spectrum, 'Signal', which, v, dt, nopt, p2opt, npad, False) for v in (x, y, z)]
        args = {'x': [float(v) for v in x], 'y': [float(v) for v in y], 'a': a, 'b': b, 'dt': float(dt), 'which': WHICH[which], 'n': nopt, 'p2_plus': p2opt, 'n_pad': npad}
        if any(isinstance(r, ImplError) for r in rs):
            bad('linear', args, [r for r in rs if isinstance(r, ImplError)][0])
        else:
            coq = 'CLinear %s %s %s %s %s %s %s %s %s %s %s %s' % (
                q(a), q(b), q(dt), qlist(x), qlist(y), qlist(rs[0][0].real), qlist(rs[0][0].imag), qlist(rs[1][0].real), qlist(rs[1][0].imag),
                qlist(rs[2][0].real), qlist(rs[2][0].imag), q(Fraction(1, 10 ** 11)))
            cases.append(Case(coq, {'function': 'linear', 'args': args, 'impl': {'fa_x': rs[0][0], 'fa_y': rs[1][0], 'fa_z': rs[2][0]}}, 'linear',
                              nontrivial=bool(np.any(x != 0) and np.any(y != 0)), klass='linear/' + ('exact' if exact else 'tol')))
        # Parseval and inverse round trip: even N
        if k % 2:
            p = rng.randint(0, min(2, pmax))
            N = expected_n(0, npts, None, p, True)
            kw = (None, p, True)
        else:
            N = rng.choice([npts + (npts % 2), 2 * npts, npts + 2 + (npts % 2), max(2, npts - (npts % 2)), 14, 18, 28, 36, 38, 50])
            kw = (N, None, True)
        r = guarded(impl_spectrum, rng.choice(['Signal', 'AccSignal']), rng.choice([0, 1]), x, dt, kw[0], kw[1], kw[2], False)
        args = {'values': [float(v) for v in x], 'dt': float(dt), 'n': kw[0], 'p2_plus': kw[1], 'N': N}
        if isinstance(r, ImplError):
            bad('parseval', args, r)
            continue
        fa = r[0]
        coq = 'CParseval (%d)%%Z %s %s %s %s %s' % (N, q(dt), qlist(x), qlist(fa.real), qlist(fa.imag), q(Fraction(1, 10 ** 10)))
        cases.append(Case(coq, {'function': 'parseval', 'args': args, 'impl': {'fa': fa}}, 'parseval', nontrivial=bool(np.any(x != 0)),
                          klass='parseval/' + ('pow2' if is_pow2(N) else 'even')))
        as_sig = rng.choice([None, None, 'signal', 'acc'])
        s = guarded(impl_fas2values, fa.real, fa.imag, dt, as_sig)
        fname = 'fas2values' if as_sig is None else 'fas2signal[%s]' % as_sig
        args = dict(args, function=fname)
        site = 'fas2values:roundtrip' if is_pow2(N) else 'fas2values:length'
        if isinstance(s, ImplError):
            bad(site, args, s)
            continue
        coq = 'CRound (%d)%%Z %s %s %s %s %s' % (N, q(dt), qlist(x), qlist(s.real), qlist(s.imag), q(Fraction(1, 10 ** 11)))
        cases.append(Case(coq, {'function': fname + ' o fa_spectrum', 'args': args, 'impl': {'len': len(s), 'values': s}}, site,
                          nontrivial=bool(np.any(x != 0)), klass=site))

    # ---- fas2values structure on arbitrary complex half spectra
    n_inv = 30 if quick else 300
    inv_terms = [2000 if quick else 25000]
    for k in range(n_inv):
        exact = (k % 2 == 0)
        M = rng.choice([1, 2, 2, 3, 4, 5, 6, 7, 8, 9, 12, 14, 16]) if k % 5 else rng.randint(17, 100 if quick else 250)
        if exact:
            re = exact_record(rng, M); im = exact_record(rng, M); dt = gens.dyadic_dt(rng, 0, 6)
        else:
            re = tol_record(rng, M); im = tol_record(rng, M); dt = rng.choice([0.01, 0.02, rng.uniform(1e-3, 0.5)])
        if k % 4 == 1:      # very weak spectra (records of amplitude ~1e-11 .. 1e-13): the reconstruction is linear at every amplitude
            sc = 2.0 ** -rng.choice([34, 40, 44])
            re, im = re * sc, im * sc
        as_sig = rng.choice([None, None, 'signal', 'acc'])
        s = guarded(impl_fas2values, re, im, dt, as_sig)
        fname = 'fas2values' if as_sig is None else 'fas2signal[%s]' % as_sig
        args = {'re': [float(v) for v in re], 'im': [float(v) for v in im], 'dt': float(dt), 'function': fname}
        if isinstance(s, ImplError):
            bad('fas2values', args, s)
            continue
        rtol = 0 if (exact and M <= 2) else Fraction(1, 10 ** 12)
        coq = 'CInv %s %s %s %s %s %s' % (qlist(re), qlist(im), q(dt), qlist(s.real), qlist(s.imag), q(rtol))
        site = 'fas2values' if is_pow2(2 * M) else 'fas2values:length'
        c = Case(coq, {'function': fname, 'args': args, 'impl': {'len': len(s), 'values': s}}, site,
                 nontrivial=(M >= 2 and bool(np.any(re[1:] != 0) or np.any(im[1:] != 0))), klass=site + ('/exact' if rtol == 0 else '/tol'))
        cases.append(c)
        if 2 <= 2 * M <= 32 and len(s) <= 2 * M and inv_terms[0] > 0:
            gl = pick(rng, inv_goals(re, im, dt, s, 'i%d' % k), 300 if quick else 1100, 4 * M)
            inv_terms[0] -= len(gl) * 4 * M
            add_goals(gl, c)

    # ---- max_fa_period
    n_mp = 40 if quick else 400
    for k in range(n_mp):
        npts = rng.randint(2, 90 if quick else 150)
        r0 = rng.random()
        dt = rng.choice([0.01, 0.02, 0.1, gens.dyadic_dt(rng, 0, 6)])
        if r0 < 0.3:
            x = exact_record(rng, npts)
        elif r0 < 0.7:   # two cosines with arbitrary phases: the largest bin is decided by amplitude, not by the real part
            t = np.arange(npts) * dt
            N = expected_n(0, npts, None, None, True)
            k1, k2 = rng.randint(1, max(1, N // 2 - 1)), rng.randint(1, max(1, N // 2 - 1))
            x = rng.uniform(0.5, 2) * np.cos(2 * np.pi * k1 / (N * dt) * t + rng.uniform(0, 6.28)) + \
                rng.uniform(0.1, 1.5) * np.cos(2 * np.pi * k2 / (N * dt) * t + rng.uniform(0, 6.28))
            if rng.random() < 0.3:
                x = x + rng.uniform(-0.2, 0.2)
        else:
            x = tol_record(rng, npts)
        cls = 'AccSignal' if k % 4 else 'Signal'
        pre = None
        if k % 3 == 1:
            pre = ['p2_plus', rng.choice([1, 2, 3])]
        elif k % 3 == 2 and npts >= 4:
            pre = ['n', rng.choice([npts, npts + rng.randint(1, 2 * npts), 2 * (npts // 2) + 2])]
        r = guarded(impl_max_fa_period, cls, x, dt, pre)
        args = {'cls': cls, 'values': [float(v) for v in x], 'dt': float(dt), 'after_gen_fa_spectrum': pre}
        if isinstance(r, ImplError):
            if npts >= 2:
                bad('max_fa_period', args, r)
            continue
        fa, fr, per = r
        a2 = [frac(c.real) ** 2 + frac(c.imag) ** 2 for c in fa]
        top = max(a2)
        near = [i for i, v in enumerate(a2) if v != top and top > 0 and (top - v) <= top * Fraction(1, 10 ** 9)]
        tied = [i for i, v in enumerate(a2) if v == top]
        same_pair = all((abs(fa[i].real), abs(fa[i].imag)) == (abs(fa[tied[0]].real), abs(fa[tied[0]].imag)) for i in tied)
        if near or not same_pair:
            stats['fragile_skipped'] += 1
            continue
        out = 'None' if math.isinf(per) else '(Some %s)' % q(per)
        coq = 'CMaxPer %s %s %s %s %s' % (qlist(fa.real), qlist(fa.imag), qlist(fr), out, q(Fraction(1, 10 ** 14)))
        cases.append(Case(coq, {'function': 'eqsig.im.max_fa_period', 'args': args, 'impl': repr(per)}, 'max_fa_period' + ('[after gen_fa_spectrum(%s)]' % pre[0] if pre else ''),
                          nontrivial=bool(np.any(x != 0)), klass='max_fa_period/' + ('inf' if math.isinf(per) else 'finite')))

    # ---- (e) Fourier moments and the Boore bandwidth (complex arithmetic on the object's own spectrum)
    PI = float(np.pi)
    RT9 = Fraction(1, 10 ** 9)

    def moment_input(k):
        """(kind, payload, dt, args for the replay, exact?)"""
        r0 = rng.random()
        if r0 < 0.35:      # stand-in object: arbitrary ascending grid (possibly with repeated nodes / negative start), small dyadic complex spectrum
            nb = rng.choice([1, 2, 2, 3, 4, 5, 8, 13, 24])
            den = 2.0 ** rng.randint(0, 4)
            f0 = rng.randint(-2, 3) / den
            fr = list(np.cumsum([f0] + [rng.randint(0, 6) / den for _ in range(nb - 1)]))
            re = [rng.randint(-9, 9) / rng.choice([1.0, 2.0, 4.0]) for _ in range(nb)]
            im = [rng.randint(-9, 9) / rng.choice([1.0, 2.0, 4.0]) for _ in range(nb)]
            if rng.random() < 0.15:
                im = [0.0] * nb
            return 'standin', (fr, re, im), None, {'kind': 'standin', 'fr': fr, 're': re, 'im': im}, True
        npts = rng.randint(2, 70 if quick else 130)
        x = exact_record(rng, npts) if r0 < 0.6 else tol_record(rng, npts)
        if rng.random() < 0.06:
            x = np.zeros(npts)
        dt = rng.choice([0.01, 0.02, 0.1, gens.dyadic_dt(rng, 0, 6), rng.uniform(1e-3, 0.5)])
        kind = 'AccSignal' if k % 3 else 'Signal'
        return kind, x, dt, {'kind': kind, 'values': [float(v) for v in x], 'dt': float(dt)}, False

    n_mom = 60 if quick else 600
    for k in range(n_mom):
        kind, payload, dt, args, exact = moment_input(k)
        n = rng.choice([0, 2, 4, 0, 2, 4, 1, 3, 6])
        r = guarded(impl_moment, kind, payload, dt, n)
        args = dict(args, n=n)
        if isinstance(r, ImplError):
            bad('calc_fourier_moment', args, r)
            continue
        fr, fa, m = r
        rtol = 0 if (exact and n == 0) else RT9
        coq = 'CMoment %d %s %s %s %s %s %s' % (n, q(PI), qlist(fr), qlist(fa.real), qlist(fa.imag), qpair(m), q(rtol))
        cases.append(Case(coq, {'function': 'eqsig.fns.frequency.calc_fourier_moment', 'args': args,
                                'impl': {'fa_frequencies': fr, 'fa_spectrum': fa, 'moment': [m.real, m.imag]}}, 'calc_fourier_moment',
                          nontrivial=bool(len(fr) >= 2 and np.any(fa != 0)),
                          klass='calc_fourier_moment/%s/n%d/%s' % ('standin' if exact else 'object', n, 'exact' if rtol == 0 else 'tol')))
    n_bw = 40 if quick else 400
    for k in range(n_bw):
        kind, payload, dt, args, exact = moment_input(k)
        r = guarded(impl_boore, kind, payload, dt)
        if isinstance(r, ImplError):
            bad('get_bandwidth_boore_2003', args, r)
            continue
        fr, fa, ms, out = r
        m0, m2, m4 = [(frac(z.real), frac(z.imag)) for z in ms]
        if any(math.isnan(v) or math.isinf(v) for z in ms for v in (z.real, z.imag)):
            stats['fragile_skipped'] += 1
            continue
        den = (m0[0] * m4[0] - m0[1] * m4[1], m0[0] * m4[1] + m0[1] * m4[0])
        size = (abs(m0[0]) + abs(m0[1])) * (abs(m4[0]) + abs(m4[1]))
        if den != (0, 0) and abs(den[0]) + abs(den[1]) <= size * Fraction(1, 10 ** 6):
            stats['fragile_skipped'] += 1         # m0 m4 nearly the complex zero: the quotient is ill-conditioned
            continue
        is_nan = math.isnan(out.real) or math.isnan(out.imag)
        if not is_nan and (math.isinf(out.real) or math.isinf(out.imag)):
            stats['fragile_skipped'] += 1
            continue
        coq = 'CBoore %s %s %s %s %s %s %s %s %s' % (q(PI), qlist(fr), qlist(fa.real), qlist(fa.imag), qpair(ms[0]), qpair(ms[1]), qpair(ms[2]),
                                                     'None' if is_nan else '(Some %s)' % qpair(out), q(RT9))
        cases.append(Case(coq, {'function': 'eqsig.fns.frequency.get_bandwidth_boore_2003', 'args': args,
                                'impl': {'fa_frequencies': fr, 'fa_spectrum': fa, 'm0_m2_m4': [[z.real, z.imag] for z in ms], 'bandwidth': repr(out)}},
                          'get_bandwidth_boore_2003', nontrivial=bool(len(fr) >= 2 and np.any(fa != 0)),
                          klass='get_bandwidth_boore_2003/%s/%s' % ('standin' if exact else 'object', 'nan' if is_nan else 'finite')))

    if UNPATCHED['calls']:
        stats['np_trapz_absent_unpatched_calls'] = UNPATCHED['calls']
        stats['np_trapz_absent_unpatched_calls_raising_AttributeError'] = UNPATCHED['AttributeError']
        stats['np_trapz_absent_unpatched_calls_other_outcome'] = UNPATCHED['other']
    rep.correspond('model.K_C06', 'check_case', cases, describe='model_out (%s)', extra_imports='From EQ Require Import lib.Dft model.M_fourier.\n')

    # ---- interval goals
    stats['interval_goals'] = len(goals)
    failed, errors = ivl.run_goals('C06', 'bins', IVL_PRE, goals, timeout=900 if quick else 2400)
    for e in errors:
        rep.unchecked('interval:C06', e)
    rep.obligations += len(goals)
    if not errors:
        rep.discharged += len(goals) - len(failed)
    by_site = {}
    for i in failed:
        c = goal_owner[i]
        cur = by_site.get(c.site)
        if cur is None or len(c.coq) < len(cur[0].coq):
            by_site[c.site] = (c, goals[i][1])
    for site, (c, goal) in sorted(by_site.items()):
        rep.violation(site, c.replay, coq_term=goal[:3000], tie='interval goal on the R model not provable',
                      n_failing_goals=sum(1 for i in failed if goal_owner[i].site == site))
    rep.extra.update(stats)


def agree_case(site, args, x, dt, r1, r2):
    coq = 'CAgree %s %s %s %s %s %s %s %s %s' % (q(dt), qlist(x), qlist(r1[0].real), qlist(r1[0].imag), qlist(r1[1]),
                                                 qlist(r2[0].real), qlist(r2[0].imag), qlist(r2[1]), q(Fraction(1, 10 ** 13)))
    return Case(coq, {'function': site, 'args': args, 'impl': {'fa_1': r1[0], 'freqs_1': r1[1], 'fa_2': r2[0], 'freqs_2': r2[1]}}, site,
                nontrivial=bool(np.any(np.array(x) != 0)), klass=site)


def finish(rep):
    return rep.finish(rule=RULE, trusted=TRUSTED, assumptions=['exact real arithmetic in the theorems',
                                                               'NumPy FFT agrees with the defining DFT sum within the stated tolerance (measured on every run, not proved)'])
