"""C01 — SDOF response series is the exact solution of the oscillator equation.

Layers: (T) eqsig/sdof.py:compute_a_and_b is re-translated to coq/gen/Gen_sdof_coeffs.v on every run and the theorems
of Prop_C01 are re-proved about that text; (T') the statements around it (load sign, w literal, the two loop assignments,
third series, T=0 row; for C03 the pseudo-spectral lines and the 6 dt cut) are re-extracted to coq/gen/Gen_sdof_loop.v
(translator/py2coq_sdof_loop.py) and proved equal to the pieces of the hand model (P_C01_loop.v, P_C03_loop.v); (I) the generated formulas are point-checked against the floats returned by
the real compute_a_and_b with the `interval` tactic; (H) the recurrence, row layout, w constant, third series, T=0 row
and the three entry points are compared with the Q instance of model/M_sdof.v, the coefficients being the
implementation's own compute_a_and_b values (so only structure is compared there).
"""
import os, sys, math
import numpy as np
from decimal import Decimal, getcontext
from fractions import Fraction
from harness import core, gens, ivl
from harness.core import q, qlist, qmat, Case, guarded, ImplError

C2PI = 6.2831853
EPS = 2.0 ** -52
XIS = [0.0, 0.02, 0.05, 0.3, 0.7, 0.99]
# damping just below critical (0.995 < xi < 1): sqrt(1 - xi^2) is small, the closed forms divide by it
XIS_NEAR = [0.999, 0.9999]
RULE = ('correspondence cases = (entry point, xi, periods (optionally one leading 0), dt, record): hats, steps, sines, random integer/dyadic records, '
        'windows of the shipped motion; lengths 2..400 (quick) / 1500 (thorough); 1..6 periods with 0.2 <= T/dt <= 2e4; xi in {0,.02,.05,.3,.7,.99} and near-critical {.999,.9999}; '
        'entry points sdof.response_series, sdof.nigam_and_jennings_response, AccSignal.response_series (response_times passed or preset, default and explicit xi); '
        'records stored as int32/int64/float32, as int8/int16/int32 counts containing the minimum value of the dtype and as uint8/uint16/uint32 offset counts, and periods stored as a float32 array (values exactly representable; the model is given the same numbers as float64) at all three entry points; '
        'rows compared with the Q-model run on the implementation\'s own compute_a_and_b values, rtol 1e-9 of each row\'s peak (1e-13 with injected dyadic coefficients on integer records); '
        'the third-series relation and the T=0 row are also evaluated directly on the implementation outputs; '
        'interval point checks: generated nj_* formulas at (xi, w, dt) vs the implementation floats (grid xi x T/dt incl. xi = .999, .9999 and random points incl. xi in (.995, .99995)), tolerance 1e-10*scale + 4096*eps*cancellation terms; '
        'rounding-clause sweep (thorough tier / search) over the same xi incl. near-critical and T/dt incl. 6500 (w dt just below 1e-3); '
        'period lists consisting of the leading 0 only ([0], (0,), np.array([0.0])) at all three entry points (one row: u = v = 0, a = -record); '
        'non-trivial = record not identically zero and at least one oscillator row')
TRUSTED = [
    'Coq 8.16.1 kernel + vm_compute; Coquelicot (derivatives), Interval (point enclosures)',
    'translator/py2coq_scalar.py (Python ast -> Coq R expressions, fail-closed) for compute_a_and_b; cross-checked each run by interval point checks against the real function',
    'translator/py2coq_sdof_loop.py (Python ast, fail-closed, structural location of the statements) for the load sign, the w literal, the two loop assignments, the third series and the T=0 row of nigam_and_jennings_response: reads array statements as scalar statements for one oscillator and one sample (accepted forms in the header of coq/gen/Gen_sdof_loop.v); the numpy slicing/broadcasting semantics behind that reading is tied by the correspondence',
    'hand-written model coq/model/M_sdof.v of the recurrence/rows/T=0 branch; tie = correspondence of this run (model/K_C01.v)',
    'exact real arithmetic in the theorems: the rounding clause of the property (1e-6 + 5e-8*duration/T + eps/(w dt)^3) is measured against an independent 50-digit reference (thorough tier / search), not proved',
    'Python harness (generators, rational encoding, result parsing)',
]


# ----------------------------------------------------------------------------- translator
def regen():
    sys.path.insert(0, os.path.join(core.VERIF, 'translator'))
    import py2coq_scalar
    try:
        py2coq_scalar.generate(core.REPO, os.path.join(core.COQ, 'gen', 'Gen_sdof_coeffs.v'))
        return None
    except Exception as e:  # noqa
        return 'translator/py2coq_scalar.py failed on eqsig/sdof.py:compute_a_and_b: %s: %s' % (type(e).__name__, e)


def regen_loop():
    """re-extract the statements around compute_a_and_b (load sign, w constant, loop body, third series, pseudo-spectral
    lines, the 6 dt cut) from $EQSIG_REPO/eqsig/sdof.py into coq/gen/Gen_sdof_loop.v; None or an error message (used by C01 and C03)"""
    sys.path.insert(0, os.path.join(core.VERIF, 'translator'))
    import py2coq_sdof_loop
    try:
        py2coq_sdof_loop.generate(core.REPO, os.path.join(core.COQ, 'gen', 'Gen_sdof_loop.v'))
        return None
    except Exception as e:  # noqa
        return 'translator/py2coq_sdof_loop.py failed on eqsig/sdof.py: %s: %s' % (type(e).__name__, e)


# ----------------------------------------------------------------------------- independent high-precision reference
def _dsin_cos(x):
    """sin, cos of a Decimal by Taylor series after halving the argument (50+ digits)"""
    k = 0
    while abs(x) > Decimal('0.5'):
        x = x / 2
        k += 1
    s, c, t, n = Decimal(0), Decimal(0), Decimal(1), 0
    # t = x^n/n!
    while abs(t) > Decimal(10) ** -70 or n < 4:
        if n % 4 == 0:
            c += t
        elif n % 4 == 1:
            s += t
        elif n % 4 == 2:
            c -= t
        else:
            s -= t
        n += 1
        t = t * x / n
    for _ in range(k):
        s, c = 2 * s * c, c * c - s * s
    return s, c


def reference_series(rec, dt, T, xi, two_pi=None):
    """exact zero-initial-condition solution of u'' + 2 xi w u' + w^2 u = a(t) (a = linear interpolation of rec) at the
    sample instants, from the closed form of the homogeneous solution, in 60-digit decimal arithmetic.
    Independent of eqsig: written from the ODE, not from the code. Returns (u, v) lists of floats."""
    getcontext().prec = 60
    if two_pi is None:
        two_pi = Decimal('6.283185307179586476925286766559005768394338798750211641949889')
    D = lambda x: Decimal(x) if not isinstance(x, float) else Decimal(Fraction(*x.as_integer_ratio()).numerator) / Decimal(Fraction(*x.as_integer_ratio()).denominator)
    dt_, T_, xi_ = D(dt), D(T), D(xi)
    w = two_pi / T_
    qd = (1 - xi_ * xi_).sqrt()
    e = (-xi_ * w * dt_).exp()
    s, c = _dsin_cos(w * qd * dt_)
    h1, h2 = e * (c + xi_ / qd * s), e * s / (w * qd)
    dh1, dh2 = -w / qd * e * s, e * (c - xi_ / qd * s)
    u, v = Decimal(0), Decimal(0)
    us, vs = [0.0], [0.0]
    g = [D(float(x)) for x in rec]
    for i in range(len(g) - 1):
        sl = (g[i + 1] - g[i]) / dt_
        up0 = g[i] / w ** 2 - 2 * xi_ * sl / w ** 3
        upd = up0 + sl * dt_ / w ** 2
        cu, cv = u - up0, v - sl / w ** 2
        u, v = upd + cu * h1 + cv * h2, sl / w ** 2 + cu * dh1 + cv * dh2
        us.append(float(u))
        vs.append(float(v))
    return us, vs


def rounding_bound(n, dt, T):
    w = C2PI / T
    return 1e-6 + 5e-8 * (n - 1) * dt / T + EPS / (w * dt) ** 3


def exactness_failure(rec, dt, T, xi):
    """property predicate on the implementation: None if within the property's bound of the exact solution, else a dict"""
    from eqsig import sdof
    r = guarded(sdof.response_series, np.array(rec, dtype=float), dt, np.array([T]), xi)
    if isinstance(r, ImplError):
        return {'impl_error': str(r)}
    u, v = np.array(r[0][0]), np.array(r[1][0])
    ru, rv = reference_series(rec, dt, T, xi)
    ru, rv = np.array(ru), np.array(rv)
    b = rounding_bound(len(rec), dt, T)
    w = 2 * math.pi / T
    # "series peak": the peak of the state norm in the units of each series (max|u| + max|v|/w for u, w*max|u| + max|v| for v),
    # so that a velocity series that is identically zero at the sample instants (T/dt = 0.2, 0.5, 1 with xi = 0) does not
    # make every rounding error infinitely large relative to its own peak
    pu, pv = float(np.max(np.abs(ru))), float(np.max(np.abs(rv)))
    stat = float(np.max(np.abs(rec))) / w ** 2      # static displacement of the largest load: floor for the scale when the exact
    for nm, x, y, pk in (('u', u, ru, max(pu + pv / w, stat)), ('v', v, rv, max(w * pu + pv, w * stat))):   # state is zero at every sample instant
        pk = max(pk, 1e-300)
        err = float(np.max(np.abs(x - y)) / pk)
        if not (err <= b):
            return {'series': nm, 'relative_error': err, 'bound': b, 'index': int(np.argmax(np.abs(x - y)))}
    return None


# ----------------------------------------------------------------------------- generators
def gen_record(rng, n, exact=False):
    kind = rng.choice(['hat', 'step', 'sine', 'int', 'motion', 'dyadic'] if not exact else ['hat', 'step', 'int'])
    if kind == 'hat':
        v = np.zeros(n)
        v[rng.randrange(n)] = rng.choice([1.0, -2.0, 3.0, 0.5])
    elif kind == 'step':
        k = rng.randrange(n)
        v = np.array([0.0] * k + [float(rng.choice([1, -1, 2]))] * (n - k))
    elif kind == 'sine':
        w = rng.uniform(0.05, 2.0)
        v = np.array([math.sin(w * i) * rng.uniform(0.5, 2) for i in range(n)])
    elif kind == 'int':
        v, _ = gens.int_record(rng, n, amp=8)
    elif kind == 'motion':
        v, _ = gens.float_record(rng, n, style='motion')
    else:
        v = np.array([rng.randint(-64, 64) / 16.0 for _ in range(n)])
    return v, kind


def gen_narrow_record(rng, n, dtype):
    """integer counts inside the range of `dtype`, as a float64 array (what the model is given): signed dtypes = a strong
    motion clipped at both rails with at least one sample at the minimum value; unsigned dtypes = offset-binary counts of a weak
    or strong motion (mid-scale offset), occasionally touching 0 and the maximum"""
    info = np.iinfo(dtype)
    lo, hi = float(info.min), float(info.max)
    kind = rng.choice(['sine', 'walk', 'noise'])
    if kind == 'sine':
        w, ph, dec = rng.uniform(0.05, 2.0), rng.uniform(0, 6.28), rng.choice([0.0, 0.01, 0.05])
        x = np.array([math.sin(w * i + ph) * math.exp(-dec * i) for i in range(n)])
    elif kind == 'walk':
        x, cur = [], 0.0
        for _ in range(n):
            cur = max(-1.0, min(1.0, cur + rng.uniform(-0.4, 0.4)))
            x.append(cur)
        x = np.array(x)
    else:
        x = np.array([rng.uniform(-1, 1) for _ in range(n)])
    if info.min < 0:
        v = np.clip(np.round(x * rng.uniform(0.8, 1.6) * hi), lo, hi)
        v[rng.randrange(n)] = lo                      # at least one sample on the negative rail
        if rng.random() < 0.3:
            v[rng.randrange(n)] = lo
    else:
        mid = float((info.max + 1) // 2)
        v = np.clip(np.round(mid + x * rng.choice([0.01, 0.2, 1.0, 1.3]) * mid), lo, hi)
        if rng.random() < 0.3:
            v[rng.randrange(n)] = rng.choice([lo, hi])
    return v.astype(float), '%s/%s' % (np.dtype(dtype).name, kind)


def gen_periods(rng, dt, lead0):
    k = rng.randint(1, 6)
    ps = []
    for _ in range(k):
        r = 10 ** rng.uniform(math.log10(0.2), math.log10(2e4))
        P = r * dt if rng.random() < 0.7 else float(2.0 ** round(math.log2(r * dt)))
        ps.append(P if 0.2 * dt <= P <= 2e4 * dt else r * dt)
    if rng.random() < 0.5:
        ps.sort()
    if lead0:
        ps = [0.0] + ps
    return ps


def coeff_lists(xi, periods, dt):
    """the implementation's own compute_a_and_b on the oscillator periods, as one 8-list per oscillator"""
    from eqsig import sdof
    p = np.array(periods, dtype=float)
    s = 1 if p[0] == 0 else 0
    if len(p[s:]) == 0:
        return []
    w = C2PI / p[s:]
    a, b = sdof.compute_a_and_b(float(xi), w, float(dt))
    out = []
    for k in range(len(w)):
        out.append([a[0][0][k], a[0][1][k], a[1][0][k], a[1][1][k], b[0][0][k], b[0][1][k], b[1][0][k], b[1][1][k]])
    return out


def call_entry(entry, rec, dt, periods, xi):
    import eqsig
    from eqsig import sdof
    rec = np.array(rec, dtype=float)
    if entry == 'sdof.response_series':
        return sdof.response_series(rec, dt, np.array(periods), xi)
    if entry == 'sdof.response_series[list]':
        return sdof.response_series(list(rec), dt, list(periods), xi)
    if entry == 'sdof.nigam_and_jennings_response':
        return sdof.nigam_and_jennings_response(rec, dt, np.array(periods), xi)
    if entry == 'AccSignal.response_series[arg]':
        s = eqsig.AccSignal(rec, dt)
        return s.response_series(response_times=np.array(periods), xi=xi)
    if entry == 'AccSignal.response_series[preset,default xi]':
        s = eqsig.AccSignal(rec, dt, response_times=np.array(periods))
        return s.response_series()
    if entry == 'sdof.response_series[int32 record]':
        return sdof.response_series(rec.astype(np.int32), dt, np.array(periods), xi)
    if entry == 'sdof.response_series[float32 record]':
        return sdof.response_series(rec.astype(np.float32), dt, np.array(periods), xi)
    if entry == 'AccSignal.response_series[int record]':
        s = eqsig.AccSignal(rec.astype(np.int64), dt)
        return s.response_series(response_times=np.array(periods), xi=xi)
    if entry in NARROW_DTYPE_ENTRIES:
        # raw digitiser counts in a narrow / unsigned integer dtype (the caller passes integer values inside the dtype's range:
        # the cast is exact); the library converts to float itself, so the answer is that of the same numbers as float64
        fn, dtype = NARROW_DTYPE_ENTRIES[entry]
        stored = rec.astype(dtype)
        assert np.array_equal(stored.astype(float), rec)
        if fn == 'sdof.response_series':
            return sdof.response_series(stored, dt, np.array(periods), xi)
        if fn == 'sdof.nigam_and_jennings_response':
            return sdof.nigam_and_jennings_response(stored, dt, np.array(periods), xi)
        s = eqsig.AccSignal(stored, dt)
        return s.response_series(response_times=np.array(periods), xi=xi)
    if entry == HISTORY_ENTRY:
        # the same object has already answered for ANOTHER period list with the same damping; the periods are then changed
        # through the public setter and the series asked for again: they are those of the periods the object holds now
        other = [0.0 if P == 0 else 1.5 * P for P in periods]
        s = eqsig.AccSignal(rec, dt, response_times=np.array(other))
        s.response_series(xi=xi)
        s.response_times = np.array(periods)
        return s.response_series(xi=xi)
    if entry in ZERO_ONLY_ENTRIES:
        # the period list consists of the leading 0 only (no oscillator row at all), in the container forms callers write
        fn, form = ZERO_ONLY_ENTRIES[entry]
        assert [float(P) for P in periods] == [0.0]
        zp = {'list': [0], 'tuple': (0,), 'array': np.array([0.0])}[form]
        if fn == 'sdof.response_series':
            return sdof.response_series(rec, dt, zp, xi)
        if fn == 'sdof.nigam_and_jennings_response':
            return sdof.nigam_and_jennings_response(rec, dt, zp, xi)
        if fn == 'AccSignal.response_series[preset]':
            return eqsig.AccSignal(rec, dt, response_times=zp).response_series(xi=xi)
        return eqsig.AccSignal(rec, dt).response_series(response_times=zp, xi=xi)
    if entry in PERIOD_DTYPE_ENTRIES:
        p32 = np.array(periods, dtype=np.float32)      # the caller passes as_float32_values(...): no rounding here
        if entry == 'sdof.response_series[float32 periods]':
            return sdof.response_series(rec, dt, p32, xi)
        if entry == 'sdof.nigam_and_jennings_response[float32 periods]':
            return sdof.nigam_and_jennings_response(rec, dt, p32, xi)
        s = eqsig.AccSignal(rec, dt)
        return s.response_series(response_times=p32, xi=xi)
    raise KeyError(entry)


ENTRIES = ['sdof.response_series', 'sdof.response_series[list]', 'sdof.nigam_and_jennings_response',
           'AccSignal.response_series[arg]', 'AccSignal.response_series[preset,default xi]']
# records stored with another dtype (digitiser counts, single precision): the response is that of the same numbers as float64
DTYPE_ENTRIES = ['sdof.response_series[int32 record]', 'sdof.response_series[float32 record]', 'AccSignal.response_series[int record]']
# records stored in a narrow signed dtype that contain its minimum value (a 16-bit digitiser clipped at the negative rail:
# -32768 has no positive counterpart in int16) or in an unsigned dtype (offset-binary counts): negating such an array in its own
# dtype wraps, so the sign flip of the load must happen after the conversion to float. entry -> (function, numpy dtype)
NARROW_DTYPE_ENTRIES = {
    'sdof.response_series[int16 record containing -32768]': ('sdof.response_series', np.int16),
    'sdof.nigam_and_jennings_response[uint16 record]': ('sdof.nigam_and_jennings_response', np.uint16),
    'AccSignal.response_series[int16 record containing -32768]': ('AccSignal.response_series', np.int16),
    'sdof.response_series[uint16 record]': ('sdof.response_series', np.uint16),
    'sdof.nigam_and_jennings_response[int16 record containing -32768]': ('sdof.nigam_and_jennings_response', np.int16),
    'AccSignal.response_series[uint16 record]': ('AccSignal.response_series', np.uint16),
    'sdof.response_series[int8 record containing -128]': ('sdof.response_series', np.int8),
    'AccSignal.response_series[uint8 record]': ('AccSignal.response_series', np.uint8),
    'sdof.nigam_and_jennings_response[uint32 record]': ('sdof.nigam_and_jennings_response', np.uint32),
    'sdof.response_series[int32 record containing -2147483648]': ('sdof.response_series', np.int32),
}
# periods stored in a single-precision array (every value exactly representable): the requested oscillators are those same
# numbers, so the response is that of the float64 array with equal values
HISTORY_ENTRY = 'AccSignal.response_series[second call, response_times changed in between]'
PERIOD_DTYPE_ENTRIES = ['sdof.response_series[float32 periods]', 'sdof.nigam_and_jennings_response[float32 periods]',
                        'AccSignal.response_series[arg, float32 periods]']


# period lists that consist of the leading 0 ONLY: displacement and velocity zero, third series = sign-flipped record, one row.
# entry -> (function, container form of the period list)
ZERO_ONLY_ENTRIES = {
    'sdof.response_series[periods=[0]]': ('sdof.response_series', 'list'),
    'sdof.nigam_and_jennings_response[periods=np.array([0.0])]': ('sdof.nigam_and_jennings_response', 'array'),
    'AccSignal.response_series[response_times=[0]]': ('AccSignal.response_series', 'list'),
    'sdof.response_series[periods=(0,)]': ('sdof.response_series', 'tuple'),
    'sdof.nigam_and_jennings_response[periods=[0]]': ('sdof.nigam_and_jennings_response', 'list'),
    'AccSignal.response_series[response_times=np.array([0.0])]': ('AccSignal.response_series', 'array'),
    'sdof.response_series[periods=np.array([0.0])]': ('sdof.response_series', 'array'),
    'sdof.nigam_and_jennings_response[periods=(0,)]': ('sdof.nigam_and_jennings_response', 'tuple'),
    'AccSignal.response_series[preset response_times=(0,)]': ('AccSignal.response_series[preset]', 'tuple'),
}


def as_float32_values(periods):
    """the nearest float32-representable values, as Python floats (what the model is given)"""
    return [float(np.float32(P)) for P in periods]


def mk_case(entry, rec, dt, periods, xi, cfs, out, rtol, klass, glob=False):
    u, v, a = [np.atleast_2d(np.array(x, dtype=float)) for x in out]
    coq = ('{| c_c2pi := %s; c_xi := %s; c_periods := %s; c_rec := %s; c_cfs := %s; c_u := %s; c_v := %s; c_a := %s; c_rtol := %s; c_global := %s |}'
           % (q(C2PI), q(xi), qlist(periods), qlist(rec), qmat(cfs), qmat(u), qmat(v), qmat(a), q(rtol), 'true' if glob else 'false'))
    rp = {'function': entry, 'args': {'dt': dt, 'xi': xi, 'periods': list(map(float, periods)), 'values': list(map(float, rec))}}
    nz = bool(np.any(np.array(rec) != 0)) and len(cfs) > 0
    return Case(coq, rp, entry, nontrivial=nz, klass=klass)


def point_goals(rng, tier):
    """interval goals: generated formulas vs the implementation's compute_a_and_b"""
    from eqsig import sdof
    pts = []
    ratios = [0.2, 0.5, 1.0, 3.0, 10.0, 50.0, 300.0, 2e3, 2e4]
    for xi in XIS:
        for r in ratios:
            dt = rng.choice([0.01, 0.005, 0.02, 0.25])
            pts.append((xi, C2PI / (r * dt), dt))
    for xi in XIS_NEAR:      # near-critical damping
        for r in ([0.5, 10.0, 2e3] if tier == 'quick' else ratios):
            dt = rng.choice([0.01, 0.005, 0.02, 0.25])
            pts.append((xi, C2PI / (r * dt), dt))
    n_rand = 20 if tier == 'quick' else 200
    for k in range(n_rand):
        dt = rng.choice([0.01, 0.005, 0.0025, 0.02, rng.uniform(1e-3, 0.5)])
        r = 10 ** rng.uniform(math.log10(0.2), math.log10(2e4))
        xi = rng.choice(XIS + [rng.uniform(0, 0.99)])
        if k % 5 == 4:
            xi = rng.uniform(0.995, 0.99995)
        pts.append((xi, C2PI / (r * dt), dt))
    goals, meta = [], []
    names = ['a11', 'a12', 'a21', 'a22', 'b11', 'b12', 'b21', 'b22']
    for xi, w, dt in pts:
        r = guarded(sdof.compute_a_and_b, float(xi), np.array([w]), float(dt))
        if isinstance(r, ImplError):
            meta.append(('error', xi, w, dt, str(r)))
            continue
        a, b = r
        vals = [a[0][0][0], a[0][1][0], a[1][0][0], a[1][1][0], b[0][0][0], b[0][1][0], b[1][0][0], b[1][1][0]]
        sq = math.sqrt(1 - xi * xi)
        tols = [1e-12, 1e-12 / (w * sq), 1e-12 * w / sq, 1e-12 / sq]
        t1 = 1e-10 * dt * dt + 4096 * EPS * (1 / (w ** 3 * dt * sq) + 1 / w ** 2)
        t2 = 1e-10 * dt + 4096 * EPS * (1 / (w ** 2 * dt * sq) + 1 / w)
        tols += [t1, t1, t2, t2]
        for nm, val, tol in zip(names, vals, tols):
            if not math.isfinite(val):
                meta.append(('nonfinite', xi, w, dt, nm))
                continue
            prop = 'Rabs (nj_%s %s %s %s - %s) <= %s' % (nm, ivl.rq(xi), ivl.rq(w), ivl.rq(dt), ivl.rq(val), ivl.rq(tol))
            goals.append((prop, 'cbv delta [nj_%s] beta zeta; interval with (i_prec 140)' % nm))
            meta.append((nm, xi, w, dt, val, tol))
    return goals, meta


# ----------------------------------------------------------------------------- run
def run(rep, rng, tier):
    from eqsig import sdof
    gen_err = regen()
    loop_err = regen_loop()
    proved = rep.prove('Prop_C01', gen_failed=gen_err or loop_err)

    # (I) point checks of the translated formulas
    point_fail = []
    if gen_err is None:
        ok, log = core.make(['gen/Gen_sdof_coeffs.vo'])
        if not ok:
            rep.unchecked('translator-output', log[-1500:])
        else:
            goals, meta = point_goals(rng, tier)
            gm = [m for m in meta if m[0] not in ('error', 'nonfinite')]
            for m in meta:
                if m[0] in ('error', 'nonfinite'):
                    rep.violation('compute_a_and_b', {'function': 'eqsig.sdof.compute_a_and_b', 'args': {'xi': m[1], 'w': m[2], 'dt': m[3]}, 'impl_error': str(m[4])})
            failed, errors = ivl.run_goals('C01', 'coef', 'From EQ Require Import gen.Gen_sdof_coeffs.\n', goals, timeout=900)
            rep.extra['interval_point_checks'] = len(goals)
            rep.extra['interval_point_checks_failed'] = len(failed)
            rep.obligations += len(goals)
            rep.discharged += len(goals) - len(failed)
            for e in errors:
                rep.unchecked('interval:coef', e)
            point_fail = [gm[i] for i in failed]
            if point_fail:
                rep.unchecked('interval:nj_coeffs-vs-compute_a_and_b', 'entries differing from the generated closed form: %r' % (point_fail[:6],))

    # (H) structure: loop, rows, w constant, third series, T=0 row, entry points
    cases = []
    n_tol, n_inj = (60, 25) if tier == 'quick' else (500, 200)
    n_narrow = 6 if tier == 'quick' else 40
    maxlen = 400 if tier == 'quick' else 1500

    def tol_case(entry, rec, dt, periods, xi, klass):
        cfs = guarded(coeff_lists, xi, periods, dt)
        out = guarded(call_entry, entry, rec, dt, periods, xi)
        for r in (cfs, out):
            if isinstance(r, ImplError):
                rep.violation(entry, {'function': entry, 'args': {'dt': dt, 'xi': xi, 'periods': periods, 'values': list(rec)}, 'impl_error': str(r)})
        if isinstance(cfs, ImplError) or isinstance(out, ImplError):
            return
        if not all(np.all(np.isfinite(np.array(x))) for x in out):
            rep.violation(entry, {'function': entry, 'args': {'dt': dt, 'xi': xi, 'periods': periods, 'values': list(rec)}, 'impl_error': 'non-finite output'})
            return
        cases.append(mk_case(entry, rec, dt, periods, xi, cfs, out, 1e-12, klass))

    for k in range(n_tol):
        n = gens.small_len(rng, 2, maxlen)
        rec, kind = gen_record(rng, n)
        dt = rng.choice([0.01, 0.005, 0.02, 0.25, rng.uniform(1e-3, 0.3)])
        lead0 = rng.random() < 0.35
        periods = gen_periods(rng, dt, lead0)
        xi = rng.choice(XIS + XIS_NEAR)
        entry = ENTRIES[k % len(ENTRIES)]
        if entry.endswith('default xi]'):
            xi = 0.05
        if k % 7 == 6:
            entry = DTYPE_ENTRIES[(k // 7) % len(DTYPE_ENTRIES)]
            rec = np.round(rec * 8) if 'int' in entry else np.array(rec, dtype=np.float32).astype(float)
        if k % 7 == 5:
            entry = HISTORY_ENTRY
        if k % 7 == 3:
            entry = PERIOD_DTYPE_ENTRIES[(k // 7) % len(PERIOD_DTYPE_ENTRIES)]
            periods = as_float32_values(periods)
            if rng.random() < 0.4:     # small powers of two and halves, as in hand-written period lists
                periods = ([0.0] if lead0 else []) + sorted(rng.sample([0.25, 0.5, 1.0, 1.5, 2.0, 4.0, 8.0], rng.randint(1, 4)))
        tol_case(entry, rec, dt, periods, xi, '%s/%s/%s' % (entry, kind, 'lead0' if lead0 else 'nolead'))
    # records stored as raw counts in a narrow signed dtype (containing its minimum value) or an unsigned dtype
    names = list(NARROW_DTYPE_ENTRIES)
    off = rng.randrange(len(names))
    for k in range(n_narrow):
        entry = names[(off + k) % len(names)]
        n = gens.small_len(rng, 2, 120)
        rec, kind = gen_narrow_record(rng, n, NARROW_DTYPE_ENTRIES[entry][1])
        dt = rng.choice([0.01, 0.005, 0.02, 0.25])
        lead0 = rng.random() < 0.6
        periods = gen_periods(rng, dt, lead0)[:4]
        xi = rng.choice(XIS)
        tol_case(entry, rec, dt, periods, xi, '%s/%s/%s' % (entry, kind, 'lead0' if lead0 else 'nolead'))
    # period lists consisting of the leading 0 only (no oscillator): every entry point x container form
    for k, entry in enumerate(ZERO_ONLY_ENTRIES if tier == 'quick' else list(ZERO_ONLY_ENTRIES) * 4):
        n = gens.small_len(rng, 2, 120)
        rec, kind = gen_record(rng, n)
        if not np.any(rec != 0):
            rec[rng.randrange(n)] = 1.0
        dt = rng.choice([0.01, 0.005, 0.02, 0.25])
        tol_case(entry, rec, dt, [0.0], rng.choice(XIS), '%s/%s/zero-only' % (entry, kind))
    # injected dyadic coefficients: the implementation's loop runs on exactly representable numbers -> exact comparison
    real = sdof.compute_a_and_b
    try:
        for k in range(n_inj):
            n = gens.small_len(rng, 2, 40)
            rec, kind = gen_record(rng, n, exact=True)
            lead0 = rng.random() < 0.4
            nper = rng.randint(1, 4)
            periods = ([0.0] if lead0 else []) + [float(2 ** rng.randint(-3, 3)) for _ in range(nper)]
            xi = rng.choice([0.0, 0.25, 0.5])
            tab = np.array([[rng.randint(-4, 4) / 4.0 for _ in range(nper)] for _ in range(8)])

            def fake(xi_, w_, dt_, tab=tab):
                return (np.array([[tab[0], tab[1]], [tab[2], tab[3]]]), np.array([[tab[4], tab[5]], [tab[6], tab[7]]]))
            sdof.compute_a_and_b = fake
            entry = 'sdof.nigam_and_jennings_response'
            out = guarded(sdof.nigam_and_jennings_response, rec, 0.25, np.array(periods), xi)
            sdof.compute_a_and_b = real
            if isinstance(out, ImplError):
                rep.violation(entry, {'function': entry + '[injected coefficients]', 'args': {'xi': xi, 'periods': periods, 'values': list(rec), 'coeffs': tab.tolist()}, 'impl_error': str(out)})
                continue
            cfs = [[tab[j][i] for j in range(8)] for i in range(nper)]
            c = mk_case(entry, rec, 0.25, periods, xi, cfs, out, 1e-13, 'injected/%s/%s' % (kind, 'lead0' if lead0 else 'nolead'), glob=True)
            c.replay['injected_coefficients'] = tab.tolist()
            cases.append(c)
    finally:
        sdof.compute_a_and_b = real
    rep.correspond('model.K_C01', 'check_case', cases, max_cases=60, max_bytes=3_000_000, timeout=900)

    # rounding clause (test, not proof): implementation vs the independent 50-digit exact solution within the property's bound;
    # always run as the search when the translator / proof / point checks broke, and in the thorough tier.
    broken = bool(gen_err) or (not proved) or bool(point_fail)
    if broken or tier == 'thorough':
        sweep = []
        pts = [(m[1], m[2], m[3]) for m in point_fail] if point_fail else []
        for xi in XIS + XIS_NEAR:
            for r in ([0.2, 1.0, 10.0, 300.0, 6500.0, 2e4] if tier == 'quick' else [0.2, 0.5, 1.0, 3.0, 10.0, 50.0, 300.0, 2e3, 6500.0, 2e4]):
                pts.append((xi, C2PI / (r * 0.01), 0.01))
        n_ok = 0
        for xi, w, dt in pts:
            T = C2PI / w
            for rec in (np.array([0.0, 1.0] + [0.0] * 30), np.array([1.0] * 24), np.array([math.sin(0.4 * i) for i in range(40)])):
                f = exactness_failure(rec, dt, T, xi)
                n_ok += 1
                if f is not None:
                    rep.violation('response_series[exactness]', {'function': 'eqsig.sdof.response_series', 'args': {'dt': dt, 'xi': xi, 'periods': [T], 'values': list(map(float, rec))},
                                                               'property_predicate': 'max|impl - exact| <= (1e-6 + 5e-8*duration/T + eps/(w dt)^3) * peak', 'failure': f})
                    break
        rep.extra['rounding_clause_reference_checks'] = n_ok


STRICT_SITE = 'response_series[exactness, 2-sample record, w*dt < 1e-3, displacement relative to its own peak]'


def strict_peak_witness(rep):
    """the rounding clause read literally ("relative to the series peak") on the one family where it is known to fail on the
    unchanged code: the response to a 2-sample record for w*dt just below 1e-3 and high damping, where the closed forms of
    the load coefficients cancel (listed in known_findings.json; printed as KNOWN-FINDING while it persists)"""
    from eqsig import sdof
    for rec, dt, T, xi in (([0.0, 1.0], 0.01, 69.174, 0.99),):
        r = guarded(sdof.response_series, np.array(rec), dt, np.array([T]), xi)
        if isinstance(r, ImplError):
            continue
        u = np.array(r[0][0])
        ru = np.array(reference_series(rec, dt, T, xi)[0])
        err = float(np.max(np.abs(u - ru)) / np.max(np.abs(ru)))
        b = rounding_bound(len(rec), dt, T)
        rep.extra['strict_peak_witness'] = {'relative_error': err, 'bound': b}
        if err > b:
            rep.violation(STRICT_SITE, {'function': 'eqsig.sdof.response_series', 'args': {'values': rec, 'dt': dt, 'periods': [T], 'xi': xi},
                                        'displacement_error_relative_to_max_abs_u': err, 'bound': b})


def finish(rep):
    strict_peak_witness(rep)
    return rep.finish(rule=RULE, trusted=TRUSTED, assumptions=['exact real arithmetic in the theorems; 0 < w, 0 < dt, 0 <= xi < 1'],
                      checker_cmd='translator/py2coq_scalar.py /repo -> coq/gen/Gen_sdof_coeffs.v; translator/py2coq_sdof_loop.py /repo -> coq/gen/Gen_sdof_loop.v; cd /verif/coq && make props/Prop_C01.vo; Print Assumptions per theorem; coqc coq/run/C01_ivl_*.v (interval goals); coqc coq/run/C01_check_case_*.v (vm_compute correspondence)')
