"""C12 — zero crossings and per-half-cycle (switched) peaks are exact."""
import numpy as np
from harness import core, gens
from harness.core import q, qlist, natlist, zlist, cbool, Case, guarded, ImplError

RULE = ('exhaustive: every series over {-2..2} up to length 6 (quick) / 7 (thorough) and {-3..3} up to 4 / 5, for zero crossings (keep_adj_zeros in {T,F}; tol in {1/2, 1, 2} up to length 4 / 6) '
        'and switched peaks (tol in {0, 1/2, 1, 2}; all-zero series excluded); random excursion series (>=3 levels per excursion, zero runs) up to length 300 / 3000, scaled copies (2^-30, 2^20) and real-valued series; '
        'calls that omit keep_adj_zeros (default False) on every series over {-1,0,1} up to length 5 with adjacent zeros and on random series with zero runs; tolerances placed exactly on sample magnitudes; the subsequence clause (tol>0 result inside tol=0 result) is evaluated on the implementation outputs themselves; indices compared exactly; '
        'non-trivial = series contains a strict sign change or an exact zero')
TRUSTED = [
    'Coq 8.16.1 kernel + vm_compute',
    'model coq/model/M_peaks.v: zero_crossings = filter by a local test + the pruning loop as coded; switched_peaks = the loop of the code over the C11 peak list; tie = exhaustive + random correspondence (model/K_peaks.v)',
    'literal statement-by-statement transcription coq/model/M_peaks_pipeline.v of get_zero_crossings_array_indices (numpy pipeline and the tol > 0 loop with its rem_i list / np.delete) and of get_switched_peak_array_indices (the Python loop with its lists and _argmax_abs_w_sign), PROVED equal to zero_crossings keep tol (every non-empty series, every tol) and to switched_peaks tol (every non-constant series, every tol) over R and over Q (props/Prop_C11_pipeline.v); the same cases are also compared with it (chk_zc_pipeline, chk_sp_pipeline), and the transcription is tied to the Python SOURCE TEXT by translator/py2coq_c11.py (fail-closed ast translator, re-run on every check -> coq/gen/Gen_c11.v; the two for loops become folds of generated step functions) + props/Prop_C11_source.v (generated = transcription for every input and number type, axiom-free; loops by induction); what remains trusted there: the Gallina definitions of the numpy primitives, the readings fixed in the translator, the two dead stores after the switched-peak loop (dropped) and the translator itself',
    'float products that underflow are outside every generator',
    'Python harness',
]


def nontrivial(xs):
    xs = np.asarray(xs, dtype=float)
    return bool(np.any(xs[1:] * xs[:-1] < 0) or np.any(xs == 0))


def run(rep, rng, tier):
    from eqsig.fns.peaks_and_crossings import get_zero_crossings_array_indices as zc, get_switched_peak_array_indices as sp
    rep.prove('Prop_C12')
    rep.prove('Prop_C11_pipeline')
    from harness.props.c11 import regen_c11
    rep.prove('Prop_C11_source', gen_failed=regen_c11())
    zcs, sps, subs = [], [], []

    def add_zc(xs, keep, tol, store=float, omit=False):
        # store: the numpy dtype the caller keeps the record in (raw digitiser counts are int16/int32): same numbers, same crossings
        # omit: the call leaves keep_adj_zeros out (documented default False: only the first zero of each run)
        site = 'get_zero_crossings_array_indices[keep_adj_zeros=%s,tol%s0]' % ('omitted (default False)' if omit else keep, '>' if tol > 0 else '=')
        args = {'values': list(map(float, xs)), 'keep_adj_zeros': keep, 'tol': tol}
        if omit:
            assert keep is False
            args['keep_adj_zeros'] = 'not passed'
        if store is not float:
            site += '[%s record]' % np.dtype(store).name
            args['stored_as'] = np.dtype(store).name
        kw = {'tol': tol} if tol > 0 or not omit else {}
        if not omit:
            kw['keep_adj_zeros'] = keep
        r = core.guarded_pure(zc, np.array(xs, dtype=store), **kw)
        if isinstance(r, ImplError):
            rep.violation(site, {'function': site, 'args': args, 'impl_error': str(r)})
            return None
        out = [int(i) for i in r]
        zcs.append(Case('(%s, %s, %s, %s)' % (cbool(keep), q(tol), qlist(xs), natlist(out)), {'function': site, 'args': args, 'impl': out}, site,
                        nontrivial=nontrivial(xs), klass=site))
        return out

    def add_sp(xs, tol, store=float):
        if len(set(xs)) == 1:
            return None
        site = 'get_switched_peak_array_indices[tol%s0]' % ('>' if tol > 0 else '=')
        args = {'values': list(map(float, xs)), 'tol': tol}
        if store is not float:
            site += '[%s record]' % np.dtype(store).name
            args['stored_as'] = np.dtype(store).name
        r = core.guarded_pure(sp, np.array(xs, dtype=store), tol=tol)
        if isinstance(r, ImplError):
            rep.violation(site, {'function': site, 'args': args, 'impl_error': str(r)})
            return None
        out = [int(i) for i in r]
        sps.append(Case('(%s, %s, %s)' % (q(tol), qlist(xs), natlist(out)), {'function': site, 'args': args, 'impl': out}, site,
                        nontrivial=nontrivial(xs), klass=site))
        return out

    def add_sub(kind, xs, tol, o_tol, o_0):
        if o_tol is None or o_0 is None:
            return
        site = kind + '[subsequence]'
        subs.append(Case('(%s, %s)' % (natlist(o_tol), natlist(o_0)), {'function': site, 'args': {'values': list(map(float, xs)), 'tol': tol},
                         'impl': {'tol': o_tol, 'tol0': o_0}}, site, nontrivial=nontrivial(xs), klass=site))

    L2, L3 = (6, 4) if tier == 'quick' else (7, 5)     # (8, 6) = 3.1M cases took 66 min; (7, 5) keeps the thorough tier near 15 min

    def all_both():
        seen = set()
        for lv, L in ((range(-2, 3), L2), (range(-3, 4), L3)):
            for xs in gens.all_series(lv, 1, L, nonconstant=False):
                if xs in seen:
                    continue
                seen.add(xs)
                yield xs

    for xs in all_both():
        o0 = {}
        for keep in (False, True):
            if keep and len(xs) > L2 - 1:
                continue
            o0[keep] = add_zc(xs, keep, 0.0)
        s0 = add_sp(xs, 0.0)
        if len(xs) <= L2 - 2:
            for tol in (0.5, 1.0, 2.0):
                ot = add_zc(xs, False, tol)
                add_sub('zero_crossings', xs, tol, ot, o0[False])
                st = add_sp(xs, tol)
                add_sub('switched_peaks', xs, tol, st, s0)
    nrand = 500 if tier == 'quick' else 5000
    maxlen = 300 if tier == 'quick' else 3000
    for k in range(nrand):
        n = gens.small_len(rng, 2, maxlen)
        xs = gens.excursion_series(rng, n)
        sc = rng.choice([1.0, 1.0, 0.125, 2.0 ** -30, 2.0 ** 20])
        xs = [v * sc for v in xs]
        mags = sorted(set(abs(v) for v in xs))
        tol = rng.choice([0.0, mags[len(mags) // 2], mags[0] if mags[0] > 0 else mags[-1], 1.5 * sc, mags[-1]])
        keep = rng.random() < 0.5
        o0 = add_zc(xs, keep, 0.0)
        s0 = add_sp(xs, 0.0)
        if tol > 0:
            add_sub('zero_crossings', xs, tol, add_zc(xs, keep, tol), o0)
            add_sub('switched_peaks', xs, tol, add_sp(xs, tol), s0)
    for k in range(nrand // 5):
        n = gens.small_len(rng, 2, maxlen)
        xs, _ = gens.float_record(rng, n)
        add_zc(list(xs), rng.random() < 0.5, 0.0)
        add_sp(list(xs), 0.0)
    # records kept in a narrow integer dtype with values near the dtype's range (products of neighbouring counts do not fit the
    # storage type), and in float32
    for k in range(60 if tier == 'quick' else 600):
        store = [np.int16, np.int32, np.int64, np.float32][k % 4]
        top = {np.int16: 30000, np.int32: 2000000000, np.int64: 3000000000, np.float32: 2 ** 20}[store]
        n = gens.small_len(rng, 3, 40)
        base = gens.excursion_series(rng, n)
        m = max(1, max(abs(v) for v in base))
        xs = [int(round(v * 4)) * (top // int(4 * m + 1)) for v in base]
        add_zc(xs, k % 2 == 0, 0.0, store=store)
        add_sp(xs, 0.0, store=store)
    # calls that do not pass keep_adj_zeros at all (the documented default is False): every short series over {-1, 0, 1} that
    # holds a run of adjacent exact zeros, and random excursion series with zero runs (zero-padded start, rests, zero tail)
    n_omit = 0
    for xs in gens.all_series(range(-1, 2), 2, 5, nonconstant=False):
        if any(a == 0 and b == 0 for a, b in zip(xs, xs[1:])) and any(xs):
            add_zc(xs, False, 0.0, omit=True)
            n_omit += 1
    for k in range(40):
        xs = gens.excursion_series(rng, gens.small_len(rng, 4, 120))
        i = rng.randrange(len(xs))
        xs = [0] * rng.randint(0, 3) + xs[:i] + [0] * rng.randint(2, 4) + xs[i:] + [0] * rng.randint(0, 3)
        sc = rng.choice([1.0, 0.125, 2.0 ** -30])
        xs = [v * sc for v in xs]
        mags = sorted(set(abs(v) for v in xs if v != 0))
        add_zc(xs, False, 0.0 if k % 3 else mags[len(mags) // 2], store=(np.int16 if sc == 1.0 and k % 2 else float), omit=True)
        n_omit += 1
    rep.extra['keep_adj_zeros_omitted_cases'] = n_omit
    # all-zero series: 'for every series the switched-peak indices are strictly ascending' (constant non-zero series are fine:
    # the proved value there is [0]); listed in known_findings.json while it persists
    for n in (1, 2, 3, 7):
        r = guarded(sp, np.zeros(n), tol=0.0)
        if isinstance(r, ImplError):
            rep.violation('get_switched_peak_array_indices[all-zero series]', {'function': 'get_switched_peak_array_indices', 'args': {'values': [0.0] * n, 'tol': 0.0}, 'impl_error': str(r)})
            continue
        out = [int(i) for i in r]
        if any(b <= a for a, b in zip(out, out[1:])):
            rep.violation('get_switched_peak_array_indices[all-zero series, not strictly ascending]',
                          {'function': 'get_switched_peak_array_indices', 'args': {'values': [0.0] * n, 'tol': 0.0}, 'impl': out})
    rep.extra['exhaustive'] = True
    rep.extra['exhaustive_space'] = 'all series over {-2..2} up to length %d and {-3..3} up to %d' % (L2, L3)
    rep.correspond('model.K_peaks', 'chk_zc', zcs, max_cases=4000)
    rep.correspond('model.K_peaks', 'chk_sp', sps, max_cases=4000)
    rep.correspond('model.K_peaks', 'chk_subseq', subs, max_cases=4000)
    # the same cases against the literal transcription of the code (model/M_peaks_pipeline.v: the numpy pipeline of the zero
    # crossings with its tolerance loop, the Python loop of the switched peaks), proved equal to the model in Prop_C11_pipeline
    def as_pipeline(cases):
        return [Case(c.coq, c.replay, c.site, nontrivial=c.nontrivial, klass=c.klass + '/pipeline') for c in cases]
    # (the two checkers provably agree - C12_zc_pipeline_checkers_agree, C12_sp_pipeline_checkers_agree - so this is a cross-check of
    # the transcription against the code; the thorough tier takes every second case to stay within its time budget)
    step = 1 if tier == 'quick' else 2
    rep.correspond('model.K_peaks', 'chk_zc_pipeline', as_pipeline(zcs[::step]), max_cases=4000)
    rep.correspond('model.K_peaks', 'chk_sp_pipeline', as_pipeline(sps[::step]), max_cases=4000)


def finish(rep):
    return rep.finish(rule=RULE, trusted=TRUSTED, assumptions=['order and sign reasoning in exact arithmetic'])
