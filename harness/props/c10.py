"""C10 — significant and bracketed durations locate threshold crossings exactly."""
import numpy as np
from fractions import Fraction
from harness import core, gens
from harness.core import q, qlist, cbool, Case, guarded, ImplError, frac

RULE = ('cases = (function, record, dt, fractions or threshold, se in {T,F}); records: integer series scaled by 2^-s (s up to 30, incl. weak motion), '
        'plateau/sparse/zero-prefixed; fractions dyadic (k/16) and the default 0.05/0.95; thresholds placed exactly ON sample magnitudes (incl. the peak), between them, 0 and above the peak; '
        'custom cumulative measures: calc_cav, calc_isv and a step function; a case is skipped as fragile (counted) when a float threshold product decides a comparison differently from exact arithmetic; '
        'non-trivial = some sample qualifies, or the empty-result branch is exercised on a non-zero record')
TRUSTED = [
    'Coq 8.16.1 kernel + vm_compute',
    'hand-written model coq/model/M_im.v (sig_dur_idx, brac_idx, ...); tie = correspondence of this run (model/K_C10.v) and, for calc_sig_dur_vals, '
    'calc_sig_dur, calc_brac_dur and the alias calc_significant_duration, translator/py2coq_durations.py (re-run on every check) + the C10_*_is_source '
    'theorems: trusted there is only the translator\'s reading of each whitelisted NumPy call (cumsum, **2, abs, >, <, &, where, arange, fancy indexing, '
    '[0]/[-1] with IndexError) as the lib/NpList.v / lib/PyVal.v primitive, and AccSignal.npts == len(values)',
    'for calc_sig_dur the cumulative series handed to the model is the output of the public measure function (calc_arias_intensity or the custom callable) on the same signal; its own definition is C09',
    'exact arithmetic; index-valued outputs compared only where float and exact comparisons agree (fragile cases counted)',
    'Python harness',
]


def step_measure(asig):
    v = np.abs(asig.values)
    return np.cumsum(np.where(v > 0.5 * v.max(), 1.0, 0.0))


def fragile_sig(cum, lo, hi):
    tot = cum[-1]
    flo, fhi, ftot = frac(lo), frac(hi), frac(tot)
    for x in cum:
        if (x > lo * tot) != (frac(x) > flo * ftot) or (x < hi * tot) != (frac(x) < fhi * ftot):
            return True
    return False


def regen_durations():
    """re-translate the duration functions of eqsig/im.py into coq/gen/Gen_durations.v, and (for the inlined Arias series)
    eqsig/im.py into coq/gen/Gen_quadrature.v (fail closed): the `*_is_source` theorems of Prop_C10 are then re-proved
    against the code that is in the repo now"""
    import os, sys
    try:
        sys.path.insert(0, os.path.join(core.VERIF, 'translator'))
        import py2coq_numpy, py2coq_durations
        py2coq_numpy.regenerate(repo=core.REPO)
        py2coq_durations.regenerate(repo=core.REPO)
    except Exception as e:
        return 'py2coq_durations: %s: %s' % (type(e).__name__, e)
    return None


def run(rep, rng, tier):
    import eqsig
    rep.prove('Prop_C10', gen_failed=regen_durations())
    cases, fragile = [], 0
    N = 60 if tier == 'quick' else 600
    measures = [('arias', None, eqsig.im.calc_arias_intensity), ('cav', eqsig.im.calc_cav, eqsig.im.calc_cav),
                ('isv', eqsig.im.calc_isv, eqsig.im.calc_isv), ('step', step_measure, step_measure)]

    def emit(kind, site, dt, lo, hi, thr, x, res_se, res_dur, tol, args, nontriv):
        has = not (isinstance(res_se, ImplError) or res_se is None or res_se[0] is None)
        if isinstance(res_se, ImplError) and 'IndexError' not in str(res_se):
            rep.violation(site, {'function': site, 'args': args, 'impl_error': str(res_se)})
            return
        if isinstance(res_dur, ImplError) and 'IndexError' not in str(res_dur):
            rep.violation(site, {'function': site, 'args': args, 'impl_error': str(res_dur)})
            return
        s, e = (res_se if has else (0.0, 0.0))
        dur = 0.0 if isinstance(res_dur, ImplError) else res_dur
        if isinstance(res_dur, ImplError) != isinstance(res_se, ImplError):
            rep.violation(site, {'function': site, 'args': args, 'impl': 'se=True and se=False disagree on raising', 'se': str(res_se), 'dur': str(res_dur)})
            return
        coq = ('{| c_kind := %d; c_dt := %s; c_lo := %s; c_hi := %s; c_thr := %s; c_x := %s; c_has := %s; c_s := %s; c_e := %s; c_dur := %s; c_tol := %s |}'
               % (kind, q(dt), q(lo), q(hi), q(thr), qlist(x), cbool(has), q(s), q(e), q(dur), q(tol)))
        cases.append(Case(coq, {'function': site, 'args': args, 'impl': {'se': None if not has else [s, e], 'dur': dur}}, site,
                          nontrivial=nontriv, klass='%s/%s' % (site, 'has' if has else 'empty')))

    for k in range(N):
        n = gens.small_len(rng, 2, 150)
        a, style = gens.int_record(rng, n, amp=rng.choice([3, 10, 30]))
        if rng.random() < 0.3:
            a = np.concatenate([np.zeros(rng.randint(1, 6)), a])
        scale = 2.0 ** (-rng.choice([0, 0, 1, 3, 8, 14, 20, 30]))
        a = a * scale
        dyadic = rng.random() < 0.7
        dt = gens.dyadic_dt(rng, 1, 8) if dyadic else rng.choice([0.01, 0.005, 0.02])
        tol = 0 if dyadic else 1e-12 * len(a) * dt
        if rng.random() < 0.6:
            lo_k = rng.randint(1, 14)
            lo, hi = lo_k / 16.0, rng.randint(lo_k + 1, 15) / 16.0
        else:
            lo, hi = 0.05, 0.95
        # --- array variant
        cum = np.cumsum(a ** 2)
        if not fragile_sig(cum, lo, hi):
            r_se = core.guarded_pure(eqsig.im.calc_sig_dur_vals, a.copy(), dt, start=lo, end=hi, se=True)
            r_d = core.guarded_pure(eqsig.im.calc_sig_dur_vals, a.copy(), dt, start=lo, end=hi, se=False)
            emit(2, 'calc_sig_dur_vals', dt, lo, hi, 0, a, r_se, r_d, tol,
                 {'motion': list(a), 'dt': dt, 'start': lo, 'end': hi}, bool(np.any(a != 0)))
        else:
            fragile += 1
        # --- object variant with default / custom measure
        name, arg, fn = measures[k % len(measures)]
        hist = ''
        if k % 3 == 0:
            # the object first holds ANOTHER record and is queried, then the record is replaced through the public API
            other = np.concatenate([a[len(a) // 2:], a[:len(a) // 2]]) * 2.0 + 1.0
            asig = eqsig.AccSignal(other, dt)
            _ = guarded(eqsig.im.calc_sig_dur, asig, start=lo, end=hi, im=arg, se=True)
            _ = guarded(eqsig.im.calc_brac_dur, asig, 0.0, se=True)
            if k % 2 == 0:
                asig.reset_values(a.copy())
                hist = '[query; reset_values; query]'
            else:
                asig.add_series(a - other)
                hist = '[query; add_series; query]'
            a = np.array(asig.values, dtype=float)
        else:
            asig = eqsig.AccSignal(a.copy(), dt)
        cumv = np.array(fn(asig), dtype=float)
        if not fragile_sig(cumv, lo, hi):
            r_se = core.guarded_pure(eqsig.im.calc_sig_dur, asig, start=lo, end=hi, im=arg, se=True)
            r_d = core.guarded_pure(eqsig.im.calc_sig_dur, asig, start=lo, end=hi, im=arg, se=False)
            emit(0, 'calc_sig_dur[%s]%s' % (name, hist), dt, lo, hi, 0, cumv, r_se, r_d, tol,
                 {'values': list(a), 'dt': dt, 'start': lo, 'end': hi, 'im': name}, bool(np.any(a != 0)))
        else:
            fragile += 1
        # --- bracketed duration: thresholds on, between, below and above the sample magnitudes
        mags = sorted(set(np.abs(a)))
        choices = [0.0, mags[-1], mags[-1] * 1.5, mags[len(mags) // 2], (mags[0] + mags[-1]) / 2, rng.choice(mags)]
        thr = rng.choice(choices)
        r_se = core.guarded_pure(eqsig.im.calc_brac_dur, asig, thr, se=True)
        r_d = core.guarded_pure(eqsig.im.calc_brac_dur, asig, thr, se=False)
        emit(1, 'calc_brac_dur' + hist, dt, 0, 0, thr, a, r_se, r_d, tol, {'values': list(a), 'dt': dt, 'threshold': thr},
             bool(np.any(a != 0)))
    rep.extra['fragile_skipped'] = fragile
    rep.correspond('model.K_C10', 'check_case', cases, describe='model_out %s')


def finish(rep):
    return rep.finish(rule=RULE, trusted=TRUSTED, assumptions=['exact real arithmetic in the theorems'])
