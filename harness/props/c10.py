"""C10 — significant and bracketed durations locate threshold crossings exactly."""
import math
import numpy as np
from fractions import Fraction
from harness import core, gens
from harness.core import q, qlist, cbool, Case, guarded, ImplError, frac

RULE = ('cases = (function, record, dt, fractions or threshold, se in {T,F}); records: integer series scaled by 2^-s (s up to 30, incl. weak motion), '
        'plateau/sparse/zero-prefixed; fractions dyadic (k/16) and the default 0.05/0.95; thresholds placed exactly ON sample magnitudes (incl. the peak), between them, 0 and above the peak; '
        'custom cumulative measures: calc_cav, calc_isv and a step function, and a signed measure that is NOT monotone (net impulse cumsum(values)*dt of records whose impulse rises, dips below the lower fraction and rises again / '
        'overshoots the final value / oscillates through the band / ends at or below zero: start and end are the first and last in-band samples whatever the shape); a case is skipped as fragile (counted) when a float threshold product decides a comparison differently from exact arithmetic; '
        'calc_sig_dur also called with im and se POSITIONALLY in the documented order (asig, start, end, im, se), result kind checked (pair of numbers / one number); '
        'calc_sig_dur_vals also on ordinary float records (8..160 samples, not dyadic, with and without a zero tail) with the upper fraction exactly 1.0, the model summing the squares exactly; compared where the binary64 running sum and the exact one decide every comparison alike (else fragile); '
        'calc_brac_dur also on an AccSignal that was queried (calc_brac_dur / .time) while holding the first m samples and then re-loaded by reset_values() with the full, LONGER record whose first / last exceedance lies beyond index m; '
        'non-trivial = some sample qualifies, or the empty-result branch is exercised on a non-zero record')
TRUSTED = [
    'Coq 8.16.1 kernel + vm_compute',
    'hand-written model coq/model/M_im.v (sig_dur_idx, brac_idx, ...); tie = correspondence of this run (model/K_C10.v) and, for calc_sig_dur_vals, '
    'calc_sig_dur, calc_brac_dur and the alias calc_significant_duration, translator/py2coq_durations.py (re-run on every check) + the C10_*_is_source '
    'theorems: trusted there is only the translator\'s reading of each whitelisted NumPy call (cumsum, **2, abs, >, <, &, where, arange, fancy indexing, '
    '[0]/[-1] with IndexError) as the lib/NpList.v / lib/PyVal.v primitive, and AccSignal.npts == len(values)',
    'for calc_sig_dur the cumulative series handed to the model is the output of the public measure function (calc_arias_intensity or the custom callable) on the same signal; its own definition is C09',
    'exact arithmetic; index-valued outputs compared only where float and exact comparisons agree (fragile cases counted)',
    'Python harness',
]


def step_measure(asig):
    v = np.abs(asig.values)
    return np.cumsum(np.where(v > 0.5 * v.max(), 1.0, 0.0))


def net_impulse(asig):
    """signed cumulative measure (net impulse of the record): not monotone"""
    return np.cumsum(asig.values) * asig.dt


def impulse_table(rng, lo, hi):
    """integer table the net impulse is to follow (table[0] is the first sample); shapes a bisection on a sorted series gets wrong"""
    shape = rng.choice(['dip', 'dip', 'overshoot', 'oscillate', 'walk', 'walk', 'nonpositive'])
    F = rng.randint(8, 40) * 4                      # final value (the fractions of it are the band)
    lo_v, hi_v = lo * F, hi * F

    def ramp(a, b, k):
        """k values strictly after a, ending at b (monotone, integer)"""
        return [int(round(a + (b - a) * (i + 1) / k)) for i in range(k)]

    if shape == 'dip':            # rise into the band, fall below the lower fraction (possibly below zero), rise to the final value
        peak = rng.randint(int(lo_v) + 1, F)
        low = rng.randint(-F // 4, max(0, int(math.ceil(lo_v)) - 1))
        t = ramp(0, peak, rng.randint(1, 6)) + ramp(peak, low, rng.randint(1, 5)) + [low] * rng.randint(0, 3) + ramp(low, F, rng.randint(2, 8))
    elif shape == 'overshoot':    # rise above the final value, come back below the upper fraction, end on the final value
        top = F + rng.randint(1, F)
        back = rng.randint(int(lo_v) + 1, max(int(lo_v) + 1, int(math.ceil(hi_v)) - 1))
        t = ramp(0, top, rng.randint(2, 8)) + ramp(top, back, rng.randint(1, 5)) + [back] * rng.randint(0, 2) + ramp(back, F, rng.randint(1, 3))
    elif shape == 'oscillate':    # several passes through the band
        t, cur = [], 0
        for _ in range(rng.randint(2, 5)):
            up = rng.randint(int(hi_v), F + F // 2)
            dn = rng.randint(-F // 8, max(0, int(lo_v)))
            t += ramp(cur, up, rng.randint(1, 4)) + ramp(up, dn, rng.randint(1, 4))
            cur = dn
        t += ramp(cur, F, rng.randint(1, 5))
    elif shape == 'walk':
        t, cur = [], 0
        for _ in range(rng.randint(4, 60)):
            cur += rng.randint(-7, 9)
            t.append(cur)
        if t[-1] <= 0:
            t.append(rng.randint(3, 30))
    else:                         # final value zero or negative: the band is empty whatever the samples
        t, cur = [], 0
        for _ in range(rng.randint(3, 20)):
            cur += rng.randint(-6, 6)
            t.append(cur)
        t.append(rng.choice([0, 0, -rng.randint(1, 20)]))
    if rng.random() < 0.3:
        t = [0] * rng.randint(1, 4) + t
    if rng.random() < 0.3:
        t = t + [t[-1]] * rng.randint(1, 4)
    return np.array(t, dtype=float), shape


def fragile_sig(cum, lo, hi):
    tot = cum[-1]
    flo, fhi, ftot = frac(lo), frac(hi), frac(tot)
    for x in cum:
        if (x > lo * tot) != (frac(x) > flo * ftot) or (x < hi * tot) != (frac(x) < fhi * ftot):
            return True
    return False


def regen_durations():
    """re-translate the duration functions of eqsig/im.py into coq/gen/Gen_durations.v, and (for the inlined Arias series)
    eqsig/im.py into coq/gen/Gen_quadrature.v (fail closed): the `*_is_source` theorems of Prop_C10 are then re-proved
    against the code that is in the repo now"""
    import os, sys
    try:
        sys.path.insert(0, os.path.join(core.VERIF, 'translator'))
        import py2coq_numpy, py2coq_durations
        py2coq_numpy.regenerate(repo=core.REPO)
        py2coq_durations.regenerate(repo=core.REPO)
    except Exception as e:
        return 'py2coq_durations: %s: %s' % (type(e).__name__, e)
    return None


def run(rep, rng, tier):
    import eqsig
    rep.prove('Prop_C10', gen_failed=regen_durations())
    cases, fragile = [], 0
    N = 60 if tier == 'quick' else 600
    measures = [('arias', None, eqsig.im.calc_arias_intensity), ('cav', eqsig.im.calc_cav, eqsig.im.calc_cav),
                ('isv', eqsig.im.calc_isv, eqsig.im.calc_isv), ('step', step_measure, step_measure)]

    def emit(kind, site, dt, lo, hi, thr, x, res_se, res_dur, tol, args, nontriv):
        has = not (isinstance(res_se, ImplError) or res_se is None or res_se[0] is None)
        if isinstance(res_se, ImplError) and 'IndexError' not in str(res_se):
            rep.violation(site, {'function': site, 'args': args, 'impl_error': str(res_se)})
            return
        if isinstance(res_dur, ImplError) and 'IndexError' not in str(res_dur):
            rep.violation(site, {'function': site, 'args': args, 'impl_error': str(res_dur)})
            return
        # kind of the result: se=True gives a (start, end) pair of numbers, se=False one number
        if has and not (isinstance(res_se, tuple) and len(res_se) == 2 and all(isinstance(v, (int, float, np.number)) for v in res_se)):
            rep.violation(site, {'function': site, 'args': args, 'impl': 'se=True did not return a (start, end) pair of numbers', 'observed': repr(res_se)})
            return
        if not isinstance(res_dur, (ImplError, int, float, np.number)):
            rep.violation(site, {'function': site, 'args': args, 'impl': 'se=False did not return one number (the duration)', 'observed': repr(res_dur)})
            return
        s, e = (res_se if has else (0.0, 0.0))
        dur = 0.0 if isinstance(res_dur, ImplError) else res_dur
        if isinstance(res_dur, ImplError) != isinstance(res_se, ImplError):
            rep.violation(site, {'function': site, 'args': args, 'impl': 'se=True and se=False disagree on raising', 'se': str(res_se), 'dur': str(res_dur)})
            return
        coq = ('{| c_kind := %d; c_dt := %s; c_lo := %s; c_hi := %s; c_thr := %s; c_x := %s; c_has := %s; c_s := %s; c_e := %s; c_dur := %s; c_tol := %s |}'
               % (kind, q(dt), q(lo), q(hi), q(thr), qlist(x), cbool(has), q(s), q(e), q(dur), q(tol)))
        cases.append(Case(coq, {'function': site, 'args': args, 'impl': {'se': None if not has else [s, e], 'dur': dur}}, site,
                          nontrivial=nontriv, klass='%s/%s' % (site, 'has' if has else 'empty')))

    for k in range(N):
        n = gens.small_len(rng, 2, 150)
        a, style = gens.int_record(rng, n, amp=rng.choice([3, 10, 30]))
        if rng.random() < 0.3:
            a = np.concatenate([np.zeros(rng.randint(1, 6)), a])
        scale = 2.0 ** (-rng.choice([0, 0, 1, 3, 8, 14, 20, 30]))
        a = a * scale
        dyadic = rng.random() < 0.7
        dt = gens.dyadic_dt(rng, 1, 8) if dyadic else rng.choice([0.01, 0.005, 0.02])
        tol = 0 if dyadic else 1e-12 * len(a) * dt
        if rng.random() < 0.6:
            # 0 and 16: the explicit fractions 0.0 and 1.0 (first sample above zero, last below the total), one case in six each
            lo_k = 0 if rng.random() < 1 / 6 else rng.randint(1, 14)
            lo, hi = lo_k / 16.0, (16 if rng.random() < 1 / 6 else rng.randint(lo_k + 1, 15)) / 16.0
        else:
            lo, hi = 0.05, 0.95
        # --- array variant
        cum = np.cumsum(a ** 2)
        if not fragile_sig(cum, lo, hi):
            r_se = core.guarded_pure(eqsig.im.calc_sig_dur_vals, a.copy(), dt, start=lo, end=hi, se=True)
            r_d = core.guarded_pure(eqsig.im.calc_sig_dur_vals, a.copy(), dt, start=lo, end=hi, se=False)
            emit(2, 'calc_sig_dur_vals', dt, lo, hi, 0, a, r_se, r_d, tol,
                 {'motion': list(a), 'dt': dt, 'start': lo, 'end': hi}, bool(np.any(a != 0)))
        else:
            fragile += 1
        # --- object variant with default / custom measure
        name, arg, fn = measures[k % len(measures)]
        hist = ''
        if k % 3 == 0:
            # the object first holds ANOTHER record and is queried, then the record is replaced through the public API
            other = np.concatenate([a[len(a) // 2:], a[:len(a) // 2]]) * 2.0 + 1.0
            asig = eqsig.AccSignal(other, dt)
            _ = guarded(eqsig.im.calc_sig_dur, asig, start=lo, end=hi, im=arg, se=True)
            _ = guarded(eqsig.im.calc_brac_dur, asig, 0.0, se=True)
            if k % 2 == 0:
                asig.reset_values(a.copy())
                hist = '[query; reset_values; query]'
            else:
                asig.add_series(a - other)
                hist = '[query; add_series; query]'
            a = np.array(asig.values, dtype=float)
        else:
            asig = eqsig.AccSignal(a.copy(), dt)
        cumv = np.array(fn(asig), dtype=float)
        if not fragile_sig(cumv, lo, hi):
            r_se = core.guarded_pure(eqsig.im.calc_sig_dur, asig, start=lo, end=hi, im=arg, se=True)
            r_d = core.guarded_pure(eqsig.im.calc_sig_dur, asig, start=lo, end=hi, im=arg, se=False)
            emit(0, 'calc_sig_dur[%s]%s' % (name, hist), dt, lo, hi, 0, cumv, r_se, r_d, tol,
                 {'values': list(a), 'dt': dt, 'start': lo, 'end': hi, 'im': name}, bool(np.any(a != 0)))
            if k % 3 == 1:
                # the same query with the measure and se handed over POSITIONALLY in the documented order (asig, start, end, im, se)
                r_se = core.guarded_pure(eqsig.im.calc_sig_dur, asig, lo, hi, arg, True)
                r_d = core.guarded_pure(eqsig.im.calc_sig_dur, asig, lo, hi, arg) if k % 2 else core.guarded_pure(eqsig.im.calc_sig_dur, asig, lo, hi, arg, False)
                emit(0, 'calc_sig_dur[%s][im, se positional]' % name, dt, lo, hi, 0, cumv, r_se, r_d, tol,
                     {'values': list(a), 'dt': dt, 'start': lo, 'end': hi, 'im': name,
                      'call': 'calc_sig_dur(asig, start, end, im, True) and calc_sig_dur(asig, start, end, im%s)' % ('' if k % 2 else ', False')},
                     bool(np.any(a != 0)))
        else:
            fragile += 1
        # --- bracketed duration: thresholds on, between, below and above the sample magnitudes
        mags = sorted(set(np.abs(a)))
        choices = [0.0, mags[-1], mags[-1] * 1.5, mags[len(mags) // 2], (mags[0] + mags[-1]) / 2, rng.choice(mags)]
        thr = rng.choice(choices)
        r_se = core.guarded_pure(eqsig.im.calc_brac_dur, asig, thr, se=True)
        r_d = core.guarded_pure(eqsig.im.calc_brac_dur, asig, thr, se=False)
        emit(1, 'calc_brac_dur' + hist, dt, 0, 0, thr, a, r_se, r_d, tol, {'values': list(a), 'dt': dt, 'threshold': thr},
             bool(np.any(a != 0)))
    # --- significant duration on a user-supplied measure that is NOT monotone (net impulse): first / last in-band samples
    NI = 24 if tier == 'quick' else 240
    shapes_seen = {}
    for k in range(NI):
        if rng.random() < 0.6:
            lo_k = rng.randint(1, 12)
            lo, hi = lo_k / 16.0, rng.randint(lo_k + 2, 15) / 16.0
        else:
            lo, hi = 0.05, 0.95
        table, shape = impulse_table(rng, lo, hi)
        dyadic = rng.random() < 0.7
        dt = gens.dyadic_dt(rng, 1, 8) if dyadic else rng.choice([0.01, 0.005, 0.02])
        scale = 2.0 ** (-rng.choice([0, 0, 1, 3, 8, 14]))
        a = np.diff(table * scale, prepend=0.0) / dt          # exact for dyadic dt: the net impulse is table * scale
        tol = 0 if dyadic else 1e-12 * len(a) * dt
        asig = eqsig.AccSignal(a.copy(), dt)
        cumv = np.array(net_impulse(asig), dtype=float)
        if fragile_sig(cumv, lo, hi):
            fragile += 1
            continue
        use_default = (lo, hi) == (0.05, 0.95) and k % 2 == 0
        kw = {} if use_default else {'start': lo, 'end': hi}
        r_se = core.guarded_pure(eqsig.im.calc_sig_dur, asig, im=net_impulse, se=True, **kw)
        r_d = core.guarded_pure(eqsig.im.calc_sig_dur, asig, im=net_impulse, se=False, **kw)
        inband = bool(np.any((cumv > lo * cumv[-1]) & (cumv < hi * cumv[-1])))
        shapes_seen[shape] = shapes_seen.get(shape, 0) + 1
        emit(0, 'calc_sig_dur[net-impulse, not monotone]', dt, lo, hi, 0, cumv, r_se, r_d, tol,
             {'values': list(a), 'dt': dt, 'start': lo, 'end': hi, 'im': 'net_impulse = cumsum(values)*dt', 'shape': shape,
              'measure_values': list(cumv)}, bool(np.any(a != 0)) and (inband or shape == 'nonpositive'))
    rep.extra['net_impulse_shapes'] = shapes_seen
    # --- array variant on ordinary float records (>= 8 samples, not dyadic) with the upper fraction exactly 1.0: the end is the last
    # sample whose running sum of squares is strictly below the FINAL VALUE OF THAT RUNNING SUM (with a quiet tail: the sample
    # before the last non-zero one).  Compared where the binary64 running sum np.cumsum(motion**2) and the exact one take every
    # comparison the same way (else fragile); half of the records are those whose pairwise total np.sum(motion**2) differs from
    # the last element of the running sum (the two are different roundings of the same real number).
    NF = 16 if tier == 'quick' else 160
    n_float, n_sumdiff = 0, 0
    for k in range(NF):
        for attempt in range(40):
            n = rng.randint(8, 120)
            a, style = gens.float_record(rng, n)
            a = a * 10.0 ** rng.choice([0, 0, -2, 2])
            if k % 2 == 0:
                a = np.concatenate([a, np.zeros(rng.randint(1, 40))])         # quiet tail
            if k % 4 == 1:
                a = np.concatenate([np.zeros(rng.randint(1, 5)), a])
            if k % 2 == 1 or float(np.sum(a ** 2)) != float(np.cumsum(a ** 2)[-1]):
                break
        lo = rng.choice([0.0, 0.05, 0.25])
        hi = 1.0
        dt = rng.choice([0.01, 0.005, 0.02, 0.125])
        cumf = np.cumsum(a ** 2)
        cumx, acc = [], Fraction(0)
        for v in a:
            acc += frac(v) ** 2
            cumx.append(acc)
        flo, fhi = frac(lo), frac(hi)
        if any((xf > lo * cumf[-1]) != (xx > flo * cumx[-1]) or (xf < hi * cumf[-1]) != (xx < fhi * cumx[-1]) for xf, xx in zip(cumf, cumx)):
            fragile += 1
            continue
        r_se = core.guarded_pure(eqsig.im.calc_sig_dur_vals, a.copy(), dt, start=lo, end=hi, se=True)
        r_d = core.guarded_pure(eqsig.im.calc_sig_dur_vals, a.copy(), dt, start=lo, end=hi, se=False)
        n_float += 1
        n_sumdiff += int(float(np.sum(a ** 2)) != float(cumf[-1]))
        emit(2, 'calc_sig_dur_vals[float record, end=1.0]', dt, lo, hi, 0, a, r_se, r_d, 1e-12 * len(a) * dt,
             {'motion': list(map(float, a)), 'dt': dt, 'start': lo, 'end': hi}, True)
    # --- bracketed duration on an object that is RE-LOADED WITH A LONGER RECORD: the object first holds the first m samples and is
    # queried (calc_brac_dur, or its time axis is read), reset_values() then installs the full record, whose first / last sample
    # above the threshold lies at an index beyond the old length
    NL = 12 if tier == 'quick' else 120
    for k in range(NL):
        n = gens.small_len(rng, 6, 150)
        a, style = gens.int_record(rng, n, amp=rng.choice([3, 10, 30]))
        a = np.array(a, dtype=float)
        m = rng.randint(2, max(2, n // 2))
        if k % 3 == 0:
            a[:m + rng.randint(0, (n - m) // 2)] = 0.0           # the first exceedance lies beyond the old length too
        if not np.any(a[m:] != 0):
            a[rng.randint(m, n - 1)] = float(rng.randint(1, 9))
        a = a * 2.0 ** (-rng.choice([0, 0, 1, 3, 8, 20]))
        dyadic = rng.random() < 0.7
        dt = gens.dyadic_dt(rng, 1, 8) if dyadic else rng.choice([0.01, 0.005, 0.02])
        tol = 0 if dyadic else 1e-12 * len(a) * dt
        tail_mags = sorted(set(np.abs(a[m:])))
        thr = rng.choice([0.0, tail_mags[-1] / 2, tail_mags[max(0, len(tail_mags) - 2)] if len(tail_mags) > 1 else 0.0, tail_mags[(len(tail_mags) - 1) // 2] / 2 + tail_mags[0] / 2])
        asig = eqsig.AccSignal(a[:m] + 1.0, dt)
        if k % 2 == 0:
            _ = guarded(eqsig.im.calc_brac_dur, asig, 0.0, se=True)
            first = 'calc_brac_dur'
        else:
            _ = np.array(asig.time)
            first = '.time'
        asig.reset_values(a.copy())
        a = np.array(asig.values, dtype=float)
        r_se = core.guarded_pure(eqsig.im.calc_brac_dur, asig, thr, se=True)
        r_d = core.guarded_pure(eqsig.im.calc_brac_dur, asig, thr, se=False)
        emit(1, 'calc_brac_dur[%s; reset_values(longer record); query]' % first, dt, 0, 0, thr, a, r_se, r_d, tol,
             {'values': list(a), 'dt': dt, 'threshold': thr, 'history': 'AccSignal(values[:%d] + 1.0, dt); %s; reset_values(values); calc_brac_dur(asig, threshold)' % (m, first)},
             bool(np.any(np.abs(a[m:]) > thr)))
    rep.extra['float_end1_cases'] = n_float
    rep.extra['float_end1_cases_pairwise_total_differs'] = n_sumdiff
    rep.extra['fragile_skipped'] = fragile
    rep.correspond('model.K_C10', 'check_case', cases, describe='model_out %s')


def finish(rep):
    return rep.finish(rule=RULE, trusted=TRUSTED, assumptions=['exact real arithmetic in the theorems'])
