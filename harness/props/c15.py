"""C15 — Stockwell transform: definition, Fourier marginal and exact inverse."""
import math, time
import numpy as np
from fractions import Fraction
from harness import core, gens
from harness import ivl_c06 as ivl
from harness.core import q, qlist, qmat, Case, guarded, ImplError, frac

RULE = ('the option `interp` that both transform functions accept is passed as True / False / not at all in (a), (b), (c), (e), (g): the array is the same whatever its value; cases: (a) every sampled cell (real and imaginary part) of transform(x) and transform_w_scipy_fft(x) for records of 2..13 samples (odd and even, '
        'integer and float valued, arrays and lists) is an `interval` goal |cell_R - observed| <= 1e-12*sum|x| on the R model (exp/cos/sin evaluated by proved enclosures); '
        '(b) shape n/2 x 2(n/2) for n up to 1025, both implementations, compared inside Coq; '
        '(c) marginal on implementation outputs: exact row sums (summed in Coq) against conj X[k]: Q model where the twiddles are 0/+-1, interval goals on the defining DFT sum otherwise (n <= 40); '
        '(d) itransform on arbitrary complex matrices (any width): samples with twiddles 0/+-1 at Q, sampled samples by interval goals on ist_R for <= 8 rows, result length for every number of rows 1..512; '
        '(e) itransform(transform(x)) = x - mean - Nyquist component, n up to 1024, pure rational arithmetic in Coq, both implementations; '
        '(f) linearity and (g) agreement of the two implementations cell by cell on implementation outputs; '
        '(h) get_max_stockwell_freq (Signal / AccSignal, the cached swtf = transform(values)) and get_max_tifq_vals_freq against argmax of re^2+im^2 of the same matrix and the axis k/(N dt) '
        '(columns with near-ties skipped as fragile); (h\') the same on ONE object with a history: first answer obtained (swtf assigned or built by the call), the returned trace '
        'overwritten in place by the caller, reset_values(new record, possibly another length) + swtf = transform(values) (or del swtf: rebuilt = transform(values now) bit for bit), '
        'second and third answers against argmax / axis of the swtf the object holds now; (i) TEST (not a theorem): trace of on-grid sinusoids over the middle half of the record (every third one on an object that already answered for another sinusoid), amplitude 0.1..20 and, through get_max_stockwell_freq and get_max_tifq_vals_freq(transform(values)), very small amplitudes 1e-9 / 2e-8 (the trace does not depend on the record\'s units); '
        'non-trivial = record / matrix not identically zero')
TRUSTED = [
    'Coq 8.16.1 kernel + vm_compute; Coq Interval tactic (proofs checked by the kernel at Qed)',
    'hand-written model coq/lib/Dft.v + coq/model/M_stockwell.v; tie = interval goals on the R model (harness/ivl_c06.py) + correspondence of this run (model/K_C15.v)',
    'translator/py2coq_c15.py (re-run on every check) + the C15_*_is_source theorems for the statements of generate_gaussian, transform, transform_w_scipy_fft, '
    'itransform, get_max_tifq_vals_freq and get_max_stockwell_freq around the FFT / exp / abs kernels; trusted there: the readings of the NumPy / SciPy array '
    'statements in coq/lib/NpMat.v and coq/lib/NpArr.v (toeplitz, transpose, outer, slices, set_slice, sum_axis1, argmax_axis0) and the translator itself',
    'exact arithmetic (rounding not modelled): NumPy / SciPy FFTs are measured against the defining sums within 1e-12*sum|x|, not proved',
    'cells of records longer than 13 samples are tied only through the relational checks (marginal, inverse, linearity, agreement) on implementation outputs',
    'the dominant-frequency clause for on-grid sinusoids is evaluated as a test on the implementation, not proved',
    'Python harness (generators, rational encoding, goal emission, parsing)',
]
IMPLS = ['transform', 'transform_w_scipy_fft']
IVL_PRE = ('From EQ Require Import lib.Num lib.NpList lib.Dft model.M_fourier model.M_stockwell.\n'
           'Ltac ivl_prove := lazy -[Rplus Rmult Rminus Ropp Rdiv Rinv cos sin exp PI IZR Rabs Rle]; interval with (i_prec 70).\n')
CELL_TOL = Fraction(1, 10 ** 12)
FLOOR = Fraction(1, 10 ** 300)


# ------------------------------------------------------------------ encoding helpers
def rnum(x):
    fr = frac(x)
    if fr.denominator == 1:
        return '(%d)' % fr.numerator
    return '(%d/%d)' % (fr.numerator, fr.denominator)


def rlist(xs):
    return '[' + '; '.join(rnum(v) for v in xs) + ']'


def rmat(rows):
    return '[' + '; '.join(rlist(r) for r in rows) + ']'


def rfrac(fr):
    return '(%d/%d)' % (fr.numerator, fr.denominator)


def sumabs(xs):
    return sum((abs(frac(v)) for v in xs), Fraction(0))


def is_pow2(n):
    return n >= 1 and (n & (n - 1)) == 0


def dyadic(x):
    fr = frac(x)
    return fr.numerator == 1 and (fr.denominator & (fr.denominator - 1)) == 0


# ------------------------------------------------------------------ implementation calls
def interp_kw(interp):
    """the `interp` option of both transform functions (None: not passed); the (n/2) x n array does not depend on it"""
    return {} if interp is None else {'interp': interp}


def impl_transform(which, x, as_list=False, as_int=False, interp=None):
    from eqsig import stockwell as sw
    if as_int:      # integer-valued record passed as an integer array (same real record)
        arg = np.array([int(v) for v in x], dtype=np.int64)
    else:
        arg = [float(v) for v in x] if as_list else np.array(x, dtype=float)
    s = getattr(sw, IMPLS[which])(arg, **interp_kw(interp))
    s = np.asarray(s)
    if s.ndim != 2:
        raise ImplError('result is not a 2-d array: shape %r' % (s.shape,))
    return s


def impl_itransform(re, im):
    from eqsig import stockwell as sw
    m = np.array(re, dtype=float) + 1j * np.array(im, dtype=float)
    out = np.asarray(sw.itransform(m))
    if np.iscomplexobj(out):
        raise ImplError('itransform returned a complex array')
    return out


def impl_roundtrip(which, x, interp=None):
    from eqsig import stockwell as sw
    s = getattr(sw, IMPLS[which])(np.array(x, dtype=float), **interp_kw(interp))
    out = np.asarray(sw.itransform(s))
    if np.iscomplexobj(out):
        raise ImplError('itransform returned a complex array')
    return out


def impl_max_freq(cls, x, dt):
    import eqsig
    from eqsig import stockwell as sw
    sig = getattr(eqsig, cls)(np.array(x, dtype=float), dt)
    mf = np.asarray(sw.get_max_stockwell_freq(sig))
    return np.asarray(sig.swtf), mf, np.array(sig.values, dtype=float)


def impl_max_freq_history(cls, x1, x2, dt, preassign, refresh, scribble):
    """get_max_stockwell_freq asked twice on ONE object whose record (and stored transform) is replaced in between:
      sig = cls(x1, dt); [sig.swtf = transform(sig.values)]; f1 = get_max_stockwell_freq(sig); [f1[:] = -1: the caller owns what it got]
      sig.reset_values(x2); sig.swtf = transform(sig.values)  (refresh = 'assign')  |  del sig.swtf  (refresh = 'del': the next call rebuilds it)
      f2 = get_max_stockwell_freq(sig); [f2[:] = -2]; f3 = get_max_stockwell_freq(sig)
    every answer is the trace of the transform the object holds at that moment.
    Returns (first trace as returned, swtf now, second trace, third trace, values now)"""
    import eqsig
    from eqsig import stockwell as sw
    sig = getattr(eqsig, cls)(np.array(x1, dtype=float), dt)
    if preassign:
        sig.swtf = sw.transform(sig.values)
    f1 = sw.get_max_stockwell_freq(sig)
    first = np.array(f1, dtype=float)
    if scribble and isinstance(f1, np.ndarray) and f1.size:
        f1[...] = -1.0
    sig.reset_values(np.array(x2, dtype=float))
    if refresh == 'assign':
        sig.swtf = sw.transform(sig.values)
    else:
        del sig.swtf
    f2 = sw.get_max_stockwell_freq(sig)
    second = np.array(f2, dtype=float)
    if scribble and isinstance(f2, np.ndarray) and f2.size:
        f2[...] = -2.0
    third = np.array(sw.get_max_stockwell_freq(sig), dtype=float)
    return first, np.array(sig.swtf), second, third, np.array(sig.values, dtype=float)


def impl_max_tifq(re, im, dt):
    from eqsig import stockwell as sw
    m = np.array(re, dtype=float) + 1j * np.array(im, dtype=float)
    return np.asarray(sw.get_max_tifq_vals_freq(m, dt))


def replay_call(rp):
    a = rp.get('args', {})
    f = rp.get('function', '')
    if 'get_max_stockwell_freq' in f and 'second_values' in a:
        return impl_max_freq_history(a.get('cls', 'Signal'), a['first_values'], a['second_values'], a['dt'], a['swtf_assigned_before_first_call'],
                                     a['swtf_after_reset_values'], a['returned_traces_overwritten'])[2]
    if 'get_max_stockwell_freq' in f:
        return impl_max_freq(a.get('cls', 'Signal'), a['values'], a['dt'])[1]
    if 'get_max_tifq' in f and 'values' in a:      # the trace of transform(values)
        t = impl_transform(0, a['values'])
        return impl_max_tifq(t.real, t.imag, a['dt'])
    if 'get_max_tifq' in f:
        return impl_max_tifq(a['re'], a['im'], a['dt'])
    if 'itransform o' in f:
        return impl_roundtrip(a.get('which', 0), a['values'], a.get('interp'))
    if 'itransform' in f:
        return impl_itransform(a['re'], a['im'])
    if 'values' in a:
        return impl_transform(a.get('which', 0), a['values'], a.get('as_list', False), a.get('as_int_array', False), a.get('interp'))
    return None


# ------------------------------------------------------------------ generators
def exact_record(rng, n):
    a, style = gens.int_record(rng, n, amp=rng.choice([3, 10, 50]))
    if rng.random() < 0.3:
        a = a / 2.0 ** rng.randint(1, 6)
    return a


def tol_record(rng, n):
    a, style = gens.float_record(rng, n)
    return a


def record(rng, n, exact):
    x = exact_record(rng, n) if exact else tol_record(rng, n)
    if not np.any(x != 0):
        x[rng.randrange(n)] = 1.0
    return x


def cmatrix(rng, rows, width, exact):
    if exact:
        re = np.array([[rng.randint(-9, 9) for _ in range(width)] for _ in range(rows)], dtype=float)
        im = np.array([[rng.randint(-9, 9) for _ in range(width)] for _ in range(rows)], dtype=float)
    else:
        re = np.array([[rng.gauss(0, 1) for _ in range(width)] for _ in range(rows)])
        im = np.array([[rng.gauss(0, 1) for _ in range(width)] for _ in range(rows)])
    return re, im


def cell_cost(N):
    """estimated seconds of one interval goal on a cell of an N-point transform (2 N^2 + 3 N kernel evaluations)"""
    return 0.03 * N * N + 0.3


def fragile_columns(re, im):
    """columns where the largest |cell|^2 is not separated from the others (NumPy compares rounded hypot values)"""
    rows, width = len(re), len(re[0]) if len(re) else 0
    bad = 0
    for t in range(width):
        a2 = [frac(re[r][t]) ** 2 + frac(im[r][t]) ** 2 for r in range(rows)]
        top = max(a2)
        if top == 0:
            if rows > 1:
                pass   # all zero: exact tie of identical values, first index on both sides
            continue
        tied = [r for r in range(rows) if a2[r] == top]
        near = [r for r in range(rows) if a2[r] != top and (top - a2[r]) <= top * Fraction(1, 10 ** 9)]
        same = all((abs(re[r][t]), abs(im[r][t])) == (abs(re[tied[0]][t]), abs(im[tied[0]][t])) for r in tied)
        if near or not same:
            bad += 1
    return bad


def regen_c15():
    """re-translate generate_gaussian / transform / transform_w_scipy_fft / itransform / get_max_tifq_vals_freq /
    get_max_stockwell_freq (eqsig/stockwell.py) into coq/gen/Gen_c15.v (fail closed): the `C15_*_is_source` theorems of
    Prop_C15 are then re-proved against the code that is in the repo now"""
    import os, sys
    try:
        sys.path.insert(0, os.path.join(core.VERIF, 'translator'))
        import py2coq_c15
        py2coq_c15.regenerate(repo=core.REPO)
    except Exception as e:
        return 'py2coq_c15: %s: %s' % (type(e).__name__, e)
    return None


def run(rep, rng, tier):
    t0 = time.time()
    rep.prove('Prop_C15', gen_failed=regen_c15())
    t1 = time.time()
    quick = tier == 'quick'
    cases, goals, goal_owner = [], [], []
    stats = {'fragile_skipped': 0, 'interval_goals': 0, 'interval_cell_goals': 0, 'interval_cases': 0, 'dominant_tests': 0}

    def bad(site, args, r):
        rep.violation(site, {'function': site, 'args': args, 'impl_error': str(r)})

    def add_goals(gl, case):
        if gl:
            stats['interval_cases'] += 1
        for g in gl:
            goals.append(g)
            goal_owner.append(case)

    # ---- (a) cells of short records: interval goals on the R model, both implementations
    n_lens = list(range(2, 14))
    reps = 4 if quick else 20
    per_case = 6.5 if quick else 12.0            # seconds of interval work per case
    k = 0
    for rnd in range(reps):
        for n in n_lens:
            k += 1
            exact = (k + rnd) % 2 == 0
            which = (k + rnd // 2) % 2
            x = record(rng, n, exact)
            as_list = rng.random() < 0.2
            as_int = (not as_list) and rng.random() < 0.25 and all(float(v).is_integer() for v in x)
            interp = [None, None, True, None, False, None, True][k % 7]     # the option both functions accept: same array whatever its value
            s = guarded(impl_transform, which, x, as_list, as_int, interp)
            args = {'which': which, 'values': [float(v) for v in x], 'as_list': as_list, 'as_int_array': as_int, 'interp': interp}
            site = IMPLS[which] + ('[interp=%s]' % interp if interp is not None else '')
            if isinstance(s, ImplError):
                bad(site, args, s)
                continue
            n2 = n // 2
            N = 2 * n2
            rowlens = [len(r) for r in s]
            c = Case('CShape (%d)%%Z (%d)%%Z %s' % (n, len(s), core.zlist(rowlens)),
                     {'function': site, 'args': args, 'impl': {'shape': list(s.shape), 'stock': s}}, site,
                     nontrivial=True, klass='%s/cells/n%s' % (site, 'odd' if n % 2 else 'even'))
            cases.append(c)
            if s.shape != (n2, N):
                continue
            tag = 'c%d' % k
            defs = 'Definition x_%s : list R := %s.' % (tag, rlist(x))
            tol = max(CELL_TOL * sumabs(x), FLOOR)
            cells = [(r, t) for r in range(n2) for t in range(N)]
            ncell = max(1, int(per_case / cell_cost(N) / 2))
            if ncell >= len(cells):
                pick = cells
            else:
                pick = set()
                if ncell >= 2:   # always the Nyquist row and the first-harmonic row
                    pick.add((0, rng.randrange(N)))
                    pick.add((n2 - 1, rng.randrange(N)))
                while len(pick) < ncell:
                    pick.add((rng.randrange(n2), rng.randrange(N)))
                pick = sorted(pick)
            gl = []
            for (r, t) in pick:
                gl.append((defs, 'Rabs (nth %d (nth %d (st_re_R x_%s) []) 0 - %s) <= %s' % (t, r, tag, rnum(s[r][t].real), rfrac(tol))))
                gl.append((defs, 'Rabs (nth %d (nth %d (st_im_R x_%s) []) 0 - %s) <= %s' % (t, r, tag, rnum(s[r][t].imag), rfrac(tol))))
            stats['interval_cell_goals'] += len(gl)
            add_goals(gl, c)

    # ---- (b) shape for longer records, both implementations
    lens = [4, 5, 14, 15, 16, 17, 31, 32, 33, 63, 64, 65, 100, 127, 128, 129, 255, 256, 257] if not quick else [4, 5, 15, 16, 17, 32, 33, 64, 127, 256, 257]
    lens += [511, 512, 513, 1023, 1024, 1025] if not quick else [512, 1023, 1024]
    lens += [rng.randint(14, 1024) for _ in range(6 if quick else 60)]
    big = {}
    for i, n in enumerate(lens):
        which = i % 2
        exact = i % 3 == 0
        x = record(rng, n, exact)
        interp = [None, True, True, None, False][i % 5]
        s = guarded(impl_transform, which, x, False, False, interp)
        site = 'shape:' + IMPLS[which] + ('[interp=%s]' % interp if interp is not None else '')
        args = {'which': which, 'values': [float(v) for v in x], 'interp': interp}
        if isinstance(s, ImplError):
            bad(site, args, s)
            continue
        cases.append(Case('CShape (%d)%%Z (%d)%%Z %s' % (n, len(s), core.zlist([len(r) for r in s])),
                          {'function': IMPLS[which], 'args': args, 'impl': {'shape': list(s.shape)}}, site, nontrivial=True, klass=site))
        big[i] = (n, which, x, s, interp)

    # ---- (g) agreement of the two implementations (all cells for n <= 32, sampled rows above)
    shape_mismatch = {}
    for i, (n, which, x, s, interp) in sorted(big.items()):
        s2 = guarded(impl_transform, 1 - which, x, False, False, interp)
        args = {'values': [float(v) for v in x], 'first': IMPLS[which], 'second': IMPLS[1 - which], 'interp': interp}
        asite = 'agree' + ('[interp=%s]' % interp if interp is not None else '')
        if isinstance(s2, ImplError):
            bad(asite, args, s2)
            continue
        if s.shape != s2.shape:      # one violation per site: the shortest record found
            if asite not in shape_mismatch or n < len(shape_mismatch[asite]['args']['values']):
                shape_mismatch[asite] = {'function': 'agree', 'args': args, 'impl': {'shape_1': list(s.shape), 'shape_2': list(s2.shape)}}
            continue
        if n <= 17:
            rows, cols = list(range(len(s))), list(range(s.shape[1]))
        else:   # a sample of cells: rows incl. Nyquist and first harmonic, columns incl. first and last
            rows = sorted({0, len(s) - 1} | {rng.randrange(len(s)) for _ in range(4)})
            cols = sorted({0, s.shape[1] - 1} | {rng.randrange(s.shape[1]) for _ in range(10)})
        tol = max(CELL_TOL * sumabs(x), FLOOR)
        sub = lambda m: [[m[r][t] for t in cols] for r in rows]
        coq = 'CAgree %s %s %s %s %s' % (qmat(sub(s.real)), qmat(sub(s.imag)), qmat(sub(s2.real)), qmat(sub(s2.imag)), q(tol))
        cases.append(Case(coq, {'function': 'agree', 'args': args, 'impl': {'rows_compared': rows, 'columns_compared': cols}}, asite, nontrivial=True,
                          klass=asite + '/' + ('all' if n <= 17 else 'sampled')))

    for asite, rp in sorted(shape_mismatch.items()):
        rep.violation(asite, rp)

    # ---- (c) marginal on implementation outputs
    n_marg = 10 if quick else 120
    for k in range(n_marg):
        exact = k % 2 == 0
        n = rng.choice([4, 5, 8, 9, 16, 17]) if k % 3 == 0 else rng.randint(2, 24 if quick else 40)
        which = k % 2
        x = record(rng, n, exact)
        interp = [None, None, True, False, True][k % 5]
        s = guarded(impl_transform, which, x, False, False, interp)
        site = 'marginal:' + IMPLS[which] + ('[interp=%s]' % interp if interp is not None else '')
        args = {'which': which, 'values': [float(v) for v in x], 'interp': interp}
        if isinstance(s, ImplError):
            bad(site, args, s)
            continue
        n2 = n // 2
        N = 2 * n2
        rtol = Fraction(1, 10 ** 11)
        coq = 'CMarg %s %s %s %s' % (qlist(x), qmat(s.real), qmat(s.imag), q(rtol))
        c = Case(coq, {'function': IMPLS[which], 'args': args, 'impl': {'stock': s}}, site, nontrivial=True,
                 klass=site + ('/exact' if exact else '/tol'))
        cases.append(c)
        if s.shape != (n2, N) or N > 40:
            continue
        tag = 'm%d' % k
        defs = 'Definition x_%s : list R := %s.' % (tag, rlist(x))
        tol = max(rtol * sumabs(x), FLOOR)
        rows = [r for r in range(n2) if (4 * (n2 - r)) % N != 0]
        rng.shuffle(rows)
        gl = []
        for r in rows[:3 if quick else 6]:
            kk = n2 - r
            gl.append((defs, 'Rabs (dft_re_R (%d)%%Z x_%s (%d)%%Z - lsum %s) <= %s' % (N, tag, kk, rlist(s[r].real), rfrac(tol))))
            gl.append((defs, 'Rabs (- dft_im_R (%d)%%Z x_%s (%d)%%Z - lsum %s) <= %s' % (N, tag, kk, rlist(s[r].imag), rfrac(tol))))
        add_goals(gl, c)

    # ---- (d) itransform on arbitrary complex matrices
    n_inv = 16 if quick else 160
    for k in range(n_inv):
        exact = k % 2 == 0
        M = rng.choice([1, 2, 2, 3, 4, 5, 6, 7, 8]) if k % 4 else rng.randint(9, 40)
        W = (2 * M if k % 3 else rng.randint(1, 12)) if M <= 8 else rng.randint(1, 4)
        re, im = cmatrix(rng, M, W, exact)
        out = guarded(impl_itransform, re, im)
        args = {'re': re, 'im': im}
        if isinstance(out, ImplError):
            bad('itransform', args, out)
            continue
        rtol = Fraction(1, 10 ** 13)
        coq = 'CInv %s %s %s %s' % (qmat(re), qmat(im), qlist(out), q(rtol))
        c = Case(coq, {'function': 'itransform', 'args': args, 'impl': {'len': len(out), 'values': out}}, 'itransform',
                 nontrivial=bool(np.any(re != 0) or np.any(im != 0)), klass='itransform/' + ('square' if W == 2 * M else 'anywidth'))
        cases.append(c)
        if M <= 8 and len(out) == 2 * M:
            tag = 'i%d' % k
            defs = 'Definition re_%s : list (list R) := %s.\nDefinition im_%s : list (list R) := %s.' % (tag, rmat(re), tag, rmat(im))
            tol = max(rtol * (sumabs(re.flatten()) + sumabs(im.flatten())), FLOOR)
            idx = list(range(2 * M))
            rng.shuffle(idx)
            gl = [(defs, 'Rabs (nth %d (ist_R re_%s im_%s) 0 - %s) <= %s' % (n, tag, tag, rnum(out[n]), rfrac(tol))) for n in idx[:3 if quick else 8]]
            add_goals(gl, c)

    # ---- (d') length of the inverse for every number of rows 1..512 (n = 2..1024): the result has 2*rows samples
    for M in range(1, 513):
        W = 1 if M > 8 else 2 * M
        re = np.zeros((M, W)); im = np.zeros((M, W))
        re[rng.randrange(M)][0] = 1.0
        out = guarded(impl_itransform, re, im)
        args = {'re': 'unit entry in a %dx%d zero matrix' % (M, W), 'rows': M, 'width': W}
        if isinstance(out, ImplError):
            bad('itransform:length', args, out)
            continue
        cases.append(Case('CInvLen (%d)%%Z (%d)%%Z' % (M, len(out)), {'function': 'itransform', 'args': args, 'impl': {'len': len(out)}},
                          'itransform:length', nontrivial=True, klass='itransform:length'))

    # ---- (e) inverse clause: itransform(transform(x)) = x - mean - Nyquist component
    n_rt = 24 if quick else 300
    for k in range(n_rt):
        exact = k % 2 == 0
        if k % 5 == 0:
            n = rng.choice([2, 3, 4, 5, 6, 7, 8, 9, 15, 16, 17, 64, 65, 128, 255, 256] + ([512, 1000, 1023, 1024] if not quick else []))
            if quick and k == 10:
                n = rng.choice([1023, 1024])
        else:
            n = gens.small_len(rng, 2, 120 if quick else 700)
        which = k % 2
        x = record(rng, n, exact)
        interp = [None, True, None, None, False, True, None][k % 7]
        out = guarded(impl_roundtrip, which, x, interp)
        site = 'roundtrip:' + IMPLS[which] + ('[interp=%s]' % interp if interp is not None else '')
        args = {'which': which, 'values': [float(v) for v in x], 'interp': interp}
        if isinstance(out, ImplError):
            bad(site, args, out)
            continue
        coq = 'CRound %s %s %s' % (qlist(x), qlist(out), q(Fraction(1, 10 ** 11)))
        cases.append(Case(coq, {'function': 'itransform o ' + IMPLS[which], 'args': args, 'impl': {'len': len(out), 'values': out}}, site,
                          nontrivial=True, klass=site + ('/odd' if n % 2 else '/even')))

    # ---- (f) linearity on implementation outputs
    n_lin = 8 if quick else 100
    for k in range(n_lin):
        exact = k % 2 == 0
        n = rng.randint(2, 13 if quick else 24)
        which = k % 2
        x, y = record(rng, n, exact), record(rng, n, exact)
        if exact:
            a, b = rng.randint(-8, 8) / 4.0, rng.randint(-8, 8) / 2.0
        else:
            a, b = rng.uniform(-3, 3), rng.uniform(-3, 3)
        z = a * x + b * y
        rs = [guarded(impl_transform, which, v) for v in (x, y, z)]
        site = 'linear:' + IMPLS[which]
        args = {'which': which, 'x': [float(v) for v in x], 'y': [float(v) for v in y], 'a': a, 'b': b}
        if any(isinstance(r, ImplError) for r in rs):
            bad(site, args, [r for r in rs if isinstance(r, ImplError)][0])
            continue
        # z is the rounded float combination; its own rounding error is within the tolerance
        tol = max(Fraction(1, 10 ** 11) * (abs(frac(a)) * sumabs(x) + abs(frac(b)) * sumabs(y)), FLOOR)
        coq = 'CLinear %s %s %s %s %s %s %s %s %s' % (q(a), q(b), qmat(rs[0].real), qmat(rs[0].imag), qmat(rs[1].real), qmat(rs[1].imag),
                                                     qmat(rs[2].real), qmat(rs[2].imag), q(tol))
        cases.append(Case(coq, {'function': site, 'args': args, 'impl': {'st_x': rs[0], 'st_y': rs[1], 'st_z': rs[2]}}, site,
                          nontrivial=True, klass=site))

    # ---- (h) dominant-frequency trace: axis and argmax on the implementation's own matrix
    n_mf = 12 if quick else 160
    for k in range(n_mf):
        exact = k % 2 == 0
        n = rng.randint(2, 16 if quick else 40)
        x = record(rng, n, exact)
        dt = gens.dyadic_dt(rng, 0, 7) if exact else rng.choice([0.01, 0.005, 0.02, 0.1, rng.uniform(1e-3, 0.6)])
        cls = 'AccSignal' if k % 2 else 'Signal'
        r = guarded(impl_max_freq, cls, x, dt)
        site = 'get_max_stockwell_freq'
        args = {'cls': cls, 'values': [float(v) for v in x], 'dt': float(dt)}
        if isinstance(r, ImplError):
            bad(site, args, r)
            continue
        sw, mf, vals = r
        s0 = guarded(impl_transform, 0, vals)
        if isinstance(s0, ImplError):
            bad(site, args, s0)
            continue
        if sw.shape != s0.shape:
            rep.violation(site, {'function': site, 'args': args, 'impl': {'swtf_shape': list(sw.shape), 'transform_shape': list(s0.shape)}})
            continue
        if k % 3 == 0 or not quick:   # the matrix the trace is read from is transform(values), bit for bit
            cases.append(Case('CAgree %s %s %s %s 0' % (qmat(sw.real), qmat(sw.imag), qmat(s0.real), qmat(s0.imag)),
                              {'function': site + ' (cached swtf = transform(values))', 'args': args, 'impl': {'swtf': sw}}, site,
                              nontrivial=True, klass=site + '/swtf'))
        if fragile_columns(sw.real, sw.imag):
            stats['fragile_skipped'] += 1
            continue
        P = len(sw)
        ftol = 0 if (dyadic(dt) and is_pow2(P)) else Fraction(1, 10 ** 15)
        coq = 'CMaxF %s %s %s %s %s' % (qmat(sw.real), qmat(sw.imag), q(dt), qlist(mf), q(ftol))
        cases.append(Case(coq, {'function': site, 'args': args, 'impl': {'max_f': mf}}, site, nontrivial=True,
                          klass=site + ('/exact' if ftol == 0 else '/tol')))
    for k in range(n_mf):
        exact = k % 2 == 0
        P, W = rng.randint(1, 12), rng.randint(1, 16)
        re, im = cmatrix(rng, P, W, exact)
        if not exact and fragile_columns(re, im):
            stats['fragile_skipped'] += 1
            continue
        if exact:   # integer cells: exact ties of different component pairs are frequent; keep only unambiguous matrices
            if fragile_columns(re, im):
                stats['fragile_skipped'] += 1
                continue
        dt = gens.dyadic_dt(rng, 0, 7) if exact else rng.choice([0.01, 0.02, rng.uniform(1e-3, 0.6)])
        mf = guarded(impl_max_tifq, re, im, dt)
        site = 'get_max_tifq_vals_freq'
        args = {'re': re, 'im': im, 'dt': float(dt)}
        if isinstance(mf, ImplError):
            bad(site, args, mf)
            continue
        ftol = 0 if (dyadic(dt) and is_pow2(P)) else Fraction(1, 10 ** 15)
        coq = 'CMaxF %s %s %s %s %s' % (qmat(re), qmat(im), q(dt), qlist(mf), q(ftol))
        cases.append(Case(coq, {'function': site, 'args': args, 'impl': {'max_f': mf}}, site,
                          nontrivial=bool(np.any(re != 0) or np.any(im != 0)), klass=site + ('/exact' if ftol == 0 else '/tol')))

    # ---- (h') the same object asked again after its record and stored transform were replaced (reset_values + swtf refreshed / deleted), the
    #      traces handed out earlier having been overwritten by the caller: every answer is the trace of the transform the object holds NOW
    n_hist = 12 if quick else 150
    for k in range(n_hist):
        exact = k % 2 == 0
        n1 = rng.randint(2, 16 if quick else 40)
        n2_ = n1 if k % 3 == 0 else rng.randint(2, 16 if quick else 40)      # the new record may have another length
        x1, x2 = record(rng, n1, exact), record(rng, n2_, exact)
        dt = gens.dyadic_dt(rng, 0, 7) if exact else rng.choice([0.01, 0.005, 0.02, 0.1, rng.uniform(1e-3, 0.6)])
        cls = 'AccSignal' if k % 2 else 'Signal'
        preassign = rng.random() < 0.6
        refresh = 'assign' if k % 4 != 3 else 'del'
        scribble = k % 2 == 0 or rng.random() < 0.3
        site = 'get_max_stockwell_freq after history'
        args = {'cls': cls, 'first_values': [float(v) for v in x1], 'second_values': [float(v) for v in x2], 'dt': float(dt),
                'swtf_assigned_before_first_call': preassign, 'swtf_after_reset_values': refresh, 'returned_traces_overwritten': scribble}
        r = guarded(impl_max_freq_history, cls, x1, x2, dt, preassign, refresh, scribble)
        if isinstance(r, ImplError):
            bad(site, args, r)
            continue
        first, sw, second, third, vals = r
        if sw.ndim != 2 or len(sw) == 0:
            rep.violation(site, {'function': site, 'args': args, 'impl': {'swtf_shape': list(sw.shape)}})
            continue
        if refresh == 'del':      # the transform the call rebuilt is the one of the record the object holds now, bit for bit
            s0 = guarded(impl_transform, 0, vals)
            if isinstance(s0, ImplError):
                bad(site, args, s0)
                continue
            if sw.shape != s0.shape:
                rep.violation(site, {'function': site, 'args': args, 'impl': {'swtf_shape': list(sw.shape), 'transform_shape': list(s0.shape)}})
                continue
            cases.append(Case('CAgree %s %s %s %s 0' % (qmat(sw.real), qmat(sw.imag), qmat(s0.real), qmat(s0.imag)),
                              {'function': site + ' (rebuilt swtf = transform(values now))', 'args': args, 'impl': {'swtf': sw}}, site,
                              nontrivial=True, klass=site + '/swtf'))
        if fragile_columns(sw.real, sw.imag):
            stats['fragile_skipped'] += 1
            continue
        P = len(sw)
        ftol = 0 if (dyadic(dt) and is_pow2(P)) else Fraction(1, 10 ** 15)
        for which_call, mf in (('second', second), ('third', third)):
            coq = 'CMaxF %s %s %s %s %s' % (qmat(sw.real), qmat(sw.imag), q(dt), qlist(mf), q(ftol))
            cases.append(Case(coq, {'function': site, 'args': dict(args, answer=which_call + ' call'),
                                    'impl': {'first_trace': first, 'max_f': mf, 'swtf_now': sw}}, site, nontrivial=True,
                              klass=site + '/' + which_call + ('/exact' if ftol == 0 else '/tol')))

    # ---- (i) TEST of the clause that is not proved: on-grid sinusoid, middle half of the record
    #      (every third one on an object that already answered for another sinusoid: record and stored transform replaced in between)
    n_dom = 24 if quick else 300
    for k in range(n_dom):
        if k % 4 == 0:
            n = rng.choice([8, 9, 16, 33, 64, 100, 128, 255, 256] + ([512, 1000, 1023, 1024] if not quick else []))
            if quick and k == 8:
                n = rng.choice([1000, 1023, 1024])
        else:
            n = rng.randint(6, 150 if quick else 600)
        n2 = n // 2
        N = 2 * n2
        khi = int(0.75 * n2)
        if khi < 2:
            continue
        k0 = rng.choice([2, khi, rng.randint(2, khi), rng.randint(2, khi)])
        dt = rng.choice([0.01, 0.005, 0.02, gens.dyadic_dt(rng, 0, 7)])
        ph = rng.choice([0.0, math.pi / 2, rng.uniform(0, 6.28)])
        amp = rng.choice([1.0, rng.uniform(0.1, 20)])
        x = amp * np.cos(2 * np.pi * k0 * np.arange(n) / N + ph)
        cls = 'AccSignal' if k % 2 else 'Signal'
        if k % 3 == 2 and khi > 2:    # the object first held (and answered for) another on-grid sinusoid
            k1 = rng.choice([j for j in range(2, khi + 1) if j != k0])
            x1 = rng.uniform(0.1, 20) * np.cos(2 * np.pi * k1 * np.arange(n) / N + rng.uniform(0, 6.28))
            pre, refresh, scr = rng.random() < 0.5, rng.choice(['assign', 'assign', 'del']), rng.random() < 0.5
            site = 'dominant:test after history'
            args = {'cls': cls, 'first_values': [float(v) for v in x1], 'second_values': [float(v) for v in x], 'dt': float(dt), 'k_first': k1, 'k0': k0, 'N': N,
                    'swtf_assigned_before_first_call': pre, 'swtf_after_reset_values': refresh, 'returned_traces_overwritten': scr}
            r = guarded(impl_max_freq_history, cls, x1, x, dt, pre, refresh, scr)
            if isinstance(r, ImplError):
                bad(site, args, r)
                continue
            mf = r[3] if scr else r[2]
            stats['dominant_tests'] += 1
            coq = 'CDom (%d)%%Z (%d)%%Z %s (%d)%%Z %s %s' % (N, k0, q(dt), len(mf), qlist(mf[N // 4:(3 * N) // 4]), q(Fraction(1, 10 ** 12)))
            cases.append(Case(coq, {'function': 'get_max_stockwell_freq', 'args': args, 'impl': {'max_f': mf}}, site, nontrivial=True, klass=site))
            continue
        r = guarded(impl_max_freq, cls, x, dt)
        site = 'dominant:test'
        args = {'cls': cls, 'values': [float(v) for v in x], 'dt': float(dt), 'k0': k0, 'N': N}
        if isinstance(r, ImplError):
            bad(site, args, r)
            continue
        mf = r[1]
        stats['dominant_tests'] += 1
        coq = 'CDom (%d)%%Z (%d)%%Z %s (%d)%%Z %s %s' % (N, k0, q(dt), len(mf), qlist(mf[N // 4:(3 * N) // 4]), q(Fraction(1, 10 ** 12)))
        cases.append(Case(coq, {'function': 'get_max_stockwell_freq', 'args': args, 'impl': {'max_f': mf}}, site, nontrivial=True, klass=site))

    # ---- (i') the same clause on records of very small amplitude (1e-9 .. 2e-8: ambient vibration in SI units, accelerations in g of a
    #      quiet site): the trace does not depend on the units the record is stored in.  Both readers of the time-frequency matrix.
    weak = [(1e-9, 0), (2e-8, 1), (1e-9, 1), (2e-8, 0)] if quick else [(a, w) for a in (1e-9, 2e-8, 5e-9, 1e-8, 3e-10, 1e-12) for w in (0, 1)] * 3
    for k, (amp, which) in enumerate(weak):
        n = rng.choice([16, 33, 64, 100]) if k % 2 == 0 else rng.randint(8, 150)
        n2 = n // 2
        N = 2 * n2
        khi = int(0.75 * n2)
        k0 = rng.choice([2, khi, rng.randint(2, khi)])
        dt = rng.choice([0.01, 0.005, 0.02, gens.dyadic_dt(rng, 0, 7)])
        ph = rng.choice([0.0, math.pi / 2, rng.uniform(0, 6.28)])
        x = amp * np.cos(2 * np.pi * k0 * np.arange(n) / N + ph)
        cls = 'AccSignal' if k % 4 < 2 else 'Signal'
        args = {'values': [float(v) for v in x], 'dt': float(dt), 'k0': k0, 'N': N, 'amplitude': amp}
        if which == 0:
            fname, site = 'get_max_stockwell_freq', 'dominant:test[amplitude %g]' % amp
            args['cls'] = cls
            r = guarded(impl_max_freq, cls, x, dt)
            mf = None if isinstance(r, ImplError) else r[1]
        else:
            fname, site = 'get_max_tifq_vals_freq(transform(values), dt)', 'dominant:test[get_max_tifq_vals_freq, amplitude %g]' % amp
            r = guarded(impl_transform, 0, x)
            if not isinstance(r, ImplError):
                r = guarded(impl_max_tifq, r.real, r.imag, dt)
            mf = None if isinstance(r, ImplError) else r
        if isinstance(r, ImplError):
            bad(site, args, r)
            continue
        stats['dominant_tests'] += 1
        coq = 'CDom (%d)%%Z (%d)%%Z %s (%d)%%Z %s %s' % (N, k0, q(dt), len(mf), qlist(mf[N // 4:(3 * N) // 4]), q(Fraction(1, 10 ** 12)))
        cases.append(Case(coq, {'function': fname, 'args': args, 'impl': {'max_f': mf}}, site, nontrivial=True, klass=site))

    t2 = time.time()
    rep.correspond('model.K_C15', 'check_case', cases, describe='model_out (%s)',
                   extra_imports='From EQ Require Import lib.Dft model.M_fourier model.M_stockwell.\n')

    # ---- interval goals
    t3 = time.time()
    stats['interval_goals'] = len(goals)
    failed, errors = ivl.run_goals('C15', 'cells', IVL_PRE, goals, timeout=1200 if quick else 3000, goal_timeout=120)
    for e in errors:
        rep.unchecked('interval:C15', e)
    rep.obligations += len(goals)
    if not errors:
        rep.discharged += len(goals) - len(failed)
    by_site = {}
    for i in failed:
        c = goal_owner[i]
        cur = by_site.get(c.site)
        if cur is None or len(c.coq) < len(cur[0].coq):
            by_site[c.site] = (c, goals[i][1])
    for site, (c, goal) in sorted(by_site.items()):
        rep.violation(site, c.replay, coq_term=goal[:3000], tie='interval goal on the R model not provable',
                      n_failing_goals=sum(1 for i in failed if goal_owner[i].site == site))
    stats['phase_seconds'] = {'prove': round(t1 - t0, 1), 'generate+implementation': round(t2 - t1, 1), 'correspond': round(t3 - t2, 1),
                              'interval': round(time.time() - t3, 1)}
    rep.extra.update(stats)


def finish(rep):
    return rep.finish(rule=RULE, trusted=TRUSTED,
                      assumptions=['exact real arithmetic in the theorems',
                                   'NumPy / SciPy FFTs agree with the defining DFT sums within the stated tolerance (measured on every run, not proved)',
                                   'dominant-frequency clause for on-grid sinusoids: tested, not proved'])
