"""C14 — resampling keeps the record: bounded step, retained samples, band-limited exact."""
import math, os, struct
import numpy as np
from fractions import Fraction
from harness import core, gens
from harness.core import q, qlist, cbool, Case, guarded, ImplError, frac

RULE = ('cases = (entry point, record, dt, target_dt, even); entry points interp_array_to_approx_dt, interp_to_approx_dt (AccSignal), resample_to_approx_dt; '
        'pairs (dt, target): equal, refinement k in 2..40, decimation m in 2..60, commensurate decimal pairs (0.01/0.005, 0.01/0.03, 0.02/0.005, ...), '
        'and pairs built to put dt/target or target/dt within 0..3 ulps of an integer on either side; even in {True, False}; '
        'records: integer series scaled by 2^-s with power-of-two factors (exact domain, tolerance 0: every float operation of the code is exact) and arbitrary float records / factors (rtol 1e-10 of max|v|); '
        'lengths from 2*max(1, target/dt) up to 300 (quick) / 2000 (thorough) for value-carrying cases, up to 5000 for scalar cases (plus refinements of 2100..6000 samples whose output exceeds 2^20 samples, scalar cases); returned step and output length compared bit-for-bit with the binary64 kernel on every case; '
        'non-trivial = factor != 1 and the record is not constant; Fourier variant: on-grid sinusoid sums below both Nyquist frequencies, outputs enclosed by interval-arithmetic proofs (1e-9); '
        'refinements of even-length records additionally with the alternation a*cos(pi t/dt) (harmonic npts/2 = the old Nyquist frequency, below the new one)')
TRUSTED = [
    'Coq 8.16.1 kernel + vm_compute; Flocq 4.1.0 binary64 (Bits.b64_div / b64_mult, binary_normalize) as the executable float kernel',
    'hand-written model coq/model/M_timestep.v; tie = correspondence of this run (model/K_C14.v): returned step and length bit-exact against the binary64 chain, values against the Q-model of np.interp',
    'np.interp modelled as clamped linear interpolation on the integer grid (slope*(x-x0)+y0); np.arange(x) has ceil(x) entries',
    'scipy.signal.resample is an oracle: band-limited exactness is not a theorem; it is decided on implementation outputs by interval-arithmetic enclosures (Coq Interval) on every run, strict whenever factor*npts is an integer (also for even-trimmed outputs)',
    'theorems are in exact real arithmetic; the binary64 step bound is checked with slack 2^-50 on implementation outputs (the strict bound fails by 1-2 ulp in binary64, e.g. dt=1, target=49)',
    'source-text tie: translator/py2coq_c14.py (Python ast -> coq/gen/Gen_c14.v, fail closed, re-run on every check) + the C14_*_is_source theorems: the three functions of eqsig/fns/time_step.py, '
    'read with exact operations, ARE interp_approx / resample_approx, and read with the binary64 operations of lib/B64.v give factor_b64 / newdt_b64 / npts_b64 / rs_count_b64 / npts_rs_b64; trusted there is the '
    'translator\'s reading of Python / NumPy arithmetic (header of Gen_c14.v: int vs float operands, np.arange(x) = ceil(x) entries, v[:k] = firstn, .npts = len) and np.interp on the unit grid (oracle; scipy resample is an arbitrary oracle)',
    'Python harness',
]

RTOL = 1e-10


def bits(x):
    return struct.unpack('<Q', struct.pack('<d', float(x)))[0]


def nudge(x, j):
    for _ in range(abs(j)):
        x = math.nextafter(x, math.inf if j > 0 else 0.0)
    return x


def pick_len(rng, lo, hi):
    """lengths biased to short records (relative to the minimum the property's guard allows) but covering lo..hi"""
    hi = max(hi, lo)
    r = rng.random()
    if r < 0.5:
        return rng.randint(lo, min(hi, lo + 12))
    if r < 0.85:
        return rng.randint(lo, min(hi, lo + 80))
    return rng.randint(lo, hi)


def is_pow2(k):
    return k >= 1 and (k & (k - 1)) == 0


NICE_DT = [0.01, 0.005, 0.02, 0.004, 0.0025, 0.001, 0.05, 0.1, 0.025, 1.0, 0.5, 2.0 ** -7, 2.0 ** -5, 0.0078125, 0.015, 0.008]
DECIMAL_PAIRS = [(0.01, 0.005), (0.01, 0.0025), (0.01, 0.03), (0.01, 0.02), (0.02, 0.005), (0.005, 0.02), (0.005, 0.01), (0.01, 0.1),
                 (0.01, 0.04), (0.01, 0.07), (0.01, 0.49), (1.0, 49.0), (0.02, 0.06), (0.001, 0.003), (0.004, 0.001), (0.025, 0.01),
                 (0.01, 0.025), (0.01, 0.015), (0.015, 0.01), (0.005, 0.0125), (0.01, 0.003), (0.01, 0.007), (0.03, 0.01), (0.07, 0.01),
                 (0.1, 0.3), (0.3, 0.1), (0.01, 0.06), (0.01, 0.12), (0.2, 0.6), (0.01, 0.01), (0.005, 0.005), (0.02, 0.02)]


def gen_pair(rng, kind):
    """(dt, target, exact_domain?) ; exact_domain: the factor is a power of two (or 1), so positions are exact floats"""
    dt = rng.choice(NICE_DT) if rng.random() < 0.7 else rng.uniform(0.001, 0.2)
    if kind == 'same':
        return dt, dt
    if kind == 'decimal':
        return rng.choice(DECIMAL_PAIRS)
    if kind == 'ref2':      # refinement by a power of two
        k = rng.choice([2, 2, 4, 4, 8, 16])
        th = rng.choice([0.0, rng.uniform(0.02, 0.95)]) if k > 2 else rng.choice([0.0, rng.uniform(0.02, 0.9)])
        return dt, dt / (k - th)
    if kind == 'dec2':      # decimation by a power of two
        m = rng.choice([1, 2, 2, 4, 4, 8, 16])
        th = rng.choice([0.0, rng.uniform(0.02, 0.95)]) if m > 1 else rng.uniform(0.05, 0.95)
        return dt, dt * (m + th)
    if kind == 'ref':
        k = rng.randint(2, 40) if rng.random() < 0.3 else rng.randint(2, 9)
        return dt, dt / (k - rng.choice([0.0, rng.uniform(0.02, 0.95)]))
    if kind == 'dec':
        m = rng.randint(1, 60) if rng.random() < 0.3 else rng.randint(1, 9)
        return dt, dt * (m + rng.uniform(0.02, 0.95) * rng.choice([0, 1, 1]) + (0.3 if m == 1 else 0))
    if kind == 'near':      # quotient within a few ulps of an integer, on either side
        tg = rng.choice([rng.choice(NICE_DT), rng.uniform(0.001, 1.0), math.ldexp(rng.uniform(1.0, 2.0), rng.randint(-12, 2)),
                         round(rng.uniform(0.001, 0.5), rng.randint(2, 4)) or 0.01])
        k = rng.randint(1, 64) if rng.random() < 0.7 else rng.randint(1, 1000)
        j = rng.randint(-3, 3)
        # a few ulps, or a small relative offset (the scale at which a "float-noise guard" would round)
        eps = 0.0 if rng.random() < 0.6 else rng.choice([-1, 1]) * 10.0 ** (-rng.choice([3.5, 4, 5, 6, 8, 10, 12, 14]))
        if rng.random() < 0.5:
            return nudge(tg * k * (1 + eps), j), tg
        return nudge(tg / k * (1 + eps), j), tg
    raise ValueError(kind)


def regen_c14():
    """re-translate interp_array_to_approx_dt / interp_to_approx_dt / resample_to_approx_dt (eqsig/fns/time_step.py) into
    coq/gen/Gen_c14.v (fail closed): the `C14_*_is_source*` theorems of Prop_C14 are then re-proved against the code that
    is in the repo now"""
    import sys
    try:
        sys.path.insert(0, os.path.join(core.VERIF, 'translator'))
        import py2coq_c14
        py2coq_c14.regenerate(repo=core.REPO)
    except Exception as e:
        return 'py2coq_c14: %s: %s' % (type(e).__name__, e)
    return None


def run(rep, rng, tier):
    import eqsig
    from eqsig.fns.time_step import interp_array_to_approx_dt, interp_to_approx_dt, resample_to_approx_dt
    rep.prove('Prop_C14', gen_failed=regen_c14())
    cases, light, kcases = [], [], []
    stats = {'float_exceeds_target_by_ulps': 0, 'impl_errors': 0}

    def emit(fn, v, dt, tg, even, rtol, full=True):
        v = np.asarray(v, dtype=float)
        n = len(v)
        site = ['interp_array_to_approx_dt', 'interp_to_approx_dt', 'resample_to_approx_dt'][fn] + '[even=%s]' % even
        args = {'values': list(v), 'dt': dt, 'target_dt': tg, 'even': even}
        if fn == 0:
            r = guarded(interp_array_to_approx_dt, v.copy(), dt, target_dt=tg, even=even)
        else:
            f_obj = interp_to_approx_dt if fn == 1 else resample_to_approx_dt

            def obj_call():
                if n % 3 == 0 and n >= 2:
                    # the object first holds ANOTHER record of the same length and is resampled with the same arguments; the
                    # record is then replaced through the public API: the second answer is that of the record it holds now
                    s0 = eqsig.AccSignal(v[::-1] * 0.5 + 1.0, dt)
                    f_obj(s0, target_dt=tg, even=even)
                    s0.reset_values(v.copy())
                    args['history'] = 'AccSignal(other record); same call; reset_values(values); call'
                else:
                    s0 = eqsig.AccSignal(v.copy(), dt)
                s1 = f_obj(s0, target_dt=tg, even=even)
                return s1.values, s1.dt
            r = guarded(obj_call)
        if isinstance(r, ImplError):
            stats['impl_errors'] += 1
            rep.violation(site, {'function': site, 'args': args, 'impl_error': str(r)})
            return None
        out, nd = np.asarray(r[0], dtype=float), float(r[1])
        if not np.all(np.isfinite(out)) or not math.isfinite(nd):
            rep.violation(site, {'function': site, 'args': args, 'impl': 'non-finite output', 'new_dt': repr(nd)})
            return None
        if nd > tg:
            stats['float_exceeds_target_by_ulps'] += 1
        f = dt / tg
        kc = ('{| k_fn := %d; k_even := %s; k_dt := %d; k_tg := %d; k_n := %d; k_len := %d; k_newdt := %d |}'
              % (fn, cbool(even), bits(dt), bits(tg), n, len(out), bits(nd)))
        nontriv = bool(f != 1 and len(set(v)) > 1)
        klass = '%s/%s' % (site, 'same' if f == 1 else ('refine' if f > 1 else 'decimate'))
        kargs = {'npts': n, 'dt': dt, 'target_dt': tg, 'even': even}
        kcases.append(Case(kc, {'function': site, 'args': kargs, 'impl': {'new_dt': nd, 'len': len(out)}}, site, nontrivial=False, klass='kernel:' + klass))
        if full:
            coq = '{| c_k := %s; c_v := %s; c_out := %s; c_rtol := %s |}' % (kc, qlist(v), qlist(out) if fn != 2 else '[]', q(rtol))
            cases.append(Case(coq, {'function': site, 'args': args, 'impl': {'new_dt': nd, 'len': len(out), 'values': list(out) if fn != 2 else '(not shipped)'}},
                              site, nontrivial=nontriv, klass=klass))
        else:
            light.append(Case(kc, {'function': site, 'args': args, 'impl': {'new_dt': nd, 'len': len(out)}}, site, nontrivial=f != 1, klass='scalar:' + klass))
        return out, nd

    def min_len(dt, tg):
        return max(2, int(math.ceil(2 * max(dt, tg) / dt)))

    N = 70 if tier == 'quick' else 700
    maxlen = 300 if tier == 'quick' else 2000
    outmax = 800 if tier == 'quick' else 4000     # cap on the output length of refinement cases
    # ---- exact domain: power-of-two factors, integer samples scaled by 2^-s
    for it in range(N):
        kind = rng.choice(['same', 'ref2', 'ref2', 'dec2', 'dec2'])
        dt, tg = gen_pair(rng, kind)
        lo = min_len(dt, tg)
        n = pick_len(rng, lo, max(lo + 5, maxlen))
        if dt > tg:
            n = min(n, max(lo, int(outmax * tg / dt)))
        v, _ = gens.int_record(rng, n, amp=rng.choice([3, 20, 1000]))
        v = v * 2.0 ** (-rng.choice([0, 0, 1, 5, 12, 30]))
        for even in (True, False):
            emit(it % 2, v, dt, tg, even, 0)
    # ---- tolerance domain: arbitrary factors, float records
    for it in range(N):
        kind = rng.choice(['ref', 'dec', 'decimal', 'decimal', 'same'])
        dt, tg = gen_pair(rng, kind)
        lo = min_len(dt, tg)
        n = pick_len(rng, lo, max(lo + 5, maxlen // 2))
        if dt > tg:
            n = min(n, max(lo, int(outmax * tg / dt / 2)))
        if rng.random() < 0.5:
            v, _ = gens.float_record(rng, n)
        else:
            v, _ = gens.int_record(rng, n, amp=20)
        even = rng.random() < 0.5
        emit(it % 2, v, dt, tg, even, 0 if dt == tg else RTOL)
        emit(2, v, dt, tg, not even, RTOL)
    # ---- the region the property names: floating-point quotient next to an integer. Scalar cases (the record is only a length);
    #      one in eight also ships the values
    zeros = {}
    for it in range(40 * N):
        dt, tg = gen_pair(rng, 'near')
        if not (1e-6 < dt < 1e3 and 1e-6 < tg < 1e3) or dt / tg > 1100 or tg / dt > 1100:
            continue
        lo = min_len(dt, tg)
        n = lo + rng.randint(0, 6) if rng.random() < 0.5 else int(round(max(dt, tg) / dt)) * rng.randint(2, 6)
        n = max(n, lo)
        if n > 5000:
            continue
        full = it % 8 == 0 and n <= maxlen and n * max(1.0, dt / tg) <= outmax
        if full:
            v, _ = gens.int_record(rng, n, amp=9)
        else:
            v = zeros.setdefault(n, np.zeros(n))
        emit(rng.choice([0, 0, 1, 2]), v, dt, tg, rng.random() < 0.5, RTOL, full=full)
    # ---- decimation by every m up to 130 (quick) / 520 (thorough): target = m*dt exactly (the chain may settle on m or m-1) and
    #      target = (m+1/2)*dt (the chain settles on m); records of j*m samples (count must be j: fl(n/m) against fl(1/m)*n and
    #      against a recomputed divisor) and, for the Fourier variant, (m-1)*j samples (int(n/m) = j-1)
    for m in range(1, 131 if tier == 'quick' else 521):
        dt = rng.choice([1.0, 0.01, 0.005, 0.02, 0.25])
        for tg, j, even, fn in ((dt * m, 2, True, rng.choice([0, 1, 2])), (dt * m, rng.randint(3, 12), rng.random() < 0.5, rng.choice([0, 1, 2])),
                                (dt * (m + 0.5), 3, False, rng.choice([0, 1])), (dt * (m + 0.5), rng.randint(4, 9), rng.random() < 0.5, rng.choice([0, 1, 2])),
                                (dt * (m + 0.5), -rng.randint(4, 9), rng.random() < 0.5, 2)):
            n = m * j if j > 0 else max(m - 1, 1) * (-j)
            if n > 5000 or n < min_len(dt, tg):
                continue
            emit(fn, zeros.setdefault(n, np.zeros(n)), dt, tg, even, RTOL, full=False)
    # ---- refinements whose OUTPUT has more than 2^20 samples (long record, very small target): scalar cases, only the returned
    #      step and the output length go to Coq
    big = [(0, 6000, 1.0, 0.004, True), (1, 4500, 0.5, 0.002, False)]
    if tier != 'quick':
        big += [(0, 3000, 1.0, 0.0009, False), (1, 6000, 0.02, 0.0001, True), (0, 5000, 1.0, 1.0 / 512, True), (1, 2100, 1.0, 1.0 / 512, False)]
    for fn, n, dt, tg, even in big:
        assert n * math.ceil(dt / tg) > 2 ** 20
        emit(fn, zeros.setdefault(n, np.zeros(n)), dt, tg, even, RTOL, full=False)
    rep.extra['float_new_dt_exceeds_target_by_rounding'] = stats['float_exceeds_target_by_ulps']
    rep.correspond('model.K_C14', 'check_case', cases, describe='model_out %s')
    rep.correspond('model.K_C14', 'check_kernel', light, describe='model_kout %s', max_cases=2000)
    # ---- how often does exact arithmetic (the theorems' model) agree with the float chain on branch / integer / length?
    measure_exact_agreement(rep, kcases)
    # ---- Fourier variant: band-limited periodic signals are reproduced (oracle contract of scipy.signal.resample, measured)
    bandlimited_check(rep, rng, tier)


def measure_exact_agreement(rep, cases):
    """(a) strict: for the factor the float chain chose, the output length must be what exact arithmetic gives for that factor
    (site float-length-artefact; the repaired code divides by the stored integer m, so fl(n/m) decides like n/m);
    (b) measured only: how often the float chain picks another integer than exact arithmetic on the same two floats (the
    near-integer region the property names)."""
    failing, errors = core.run_cases(rep.pid + 'x', 'model.K_C14', 'exact_len_agrees', cases, max_cases=3000)
    for e in errors:
        rep.unchecked('correspondence:model.K_C14.exact_len_agrees', e)
    rep.extra['float_vs_exact_length_differs_same_factor'] = len(failing)
    for i in failing[:1]:
        rep.violation('float-length-artefact', dict(cases[i].replay, expected='output length = exact-arithmetic length for the factor used',
                                                    n_failing=len(failing)))
    failing, errors = core.run_cases(rep.pid + 'x', 'model.K_C14', 'exact_agrees', cases, max_cases=3000)
    for e in errors:
        rep.unchecked('correspondence:model.K_C14.exact_agrees', e)
    rep.extra['float_vs_exact_factor_differs_near_integer(measured)'] = len(failing)


def rq(x):
    """exact value of a float / Fraction as a Coq real expression"""
    fr = frac(x)
    return '(%d / %d)' % (fr.numerator, fr.denominator) if fr.denominator != 1 else '(%d)' % fr.numerator


def trig_expr(c0, terms, num, den):
    """c0 + sum a*cos(2 pi j num/den) + b*sin(2 pi j num/den) as a flat Coq real expression (num, den integers)"""
    e = rq(c0)
    for j, a, b in terms:
        ang = '(2 * PI * %d / %d)' % (j * num, den)
        e += ' + %s * cos %s + %s * sin %s' % (rq(a), ang, rq(b), ang)
    return e


def bandlimited_check(rep, rng, tier):
    """resample_to_approx_dt on x[i] = g(i*dt), g a trigonometric polynomial with period npts*dt and all frequencies strictly below
    both Nyquist frequencies: every returned sample must equal g(i'*new_dt). Each comparison is a real-number enclosure proved by the
    interval tactic inside Coq (|g(i' new_dt) - returned| <= 1e-9, g evaluated on exact rationals; also |g(i dt) - x[i]| <= 1e-12 for
    the shipped input). Strict whenever factor*npts is an integer (incl. even-trimmed outputs: the code resamples to factor*npts
    and cuts afterwards); the returned length must then be factor*npts (2*int(./2) when even). When m does not divide npts no
    periodic resampling onto the grid exists: those cases are measured and recorded only.
    Extra refinement cases (even npts) add the harmonic npts/2, a*cos(pi i): energy exactly at the old Nyquist frequency, which is below
    the new one; scipy reproduces g(t) = a cos(pi t/dt) (the unpaired bin is split over +-npts/2), so the same 1e-9 enclosures apply."""
    import eqsig
    from eqsig.fns.time_step import resample_to_approx_dt
    ncases = 16 if tier == 'quick' else 120
    goals = []   # (id, coq_prop, case_index, kind, detail)
    metas = []
    nnyq = 6 if tier == 'quick' else 30      # refinements of even-length records that carry energy exactly at the OLD Nyquist frequency
    for it in range(ncases + ncases // 2 + nnyq):
        warped_wanted = ncases <= it < ncases + ncases // 2
        nyq_wanted = it >= ncases + ncases // 2
        kind = rng.choice(['same', 'ref', 'ref', 'dec', 'dec']) if not nyq_wanted else 'ref'
        dt = rng.choice([0.01, 0.005, 0.02, 0.004, 0.25, 1.0, 0.0078125])
        even = rng.random() < 0.5
        if kind == 'same':
            k, m, tg = 1, 1, dt
            n = rng.randint(8, 48)
        elif kind == 'ref':
            k, m = rng.randint(2, 5), 1
            tg = dt / (k - rng.choice([0.0, 0.3, 0.7]))
            n = rng.randint(8, 40) if not nyq_wanted else 2 * rng.randint(2, 20)
        else:
            k, m = 1, rng.randint(2, 4)
            tg = dt * (m + rng.choice([0.0, 0.3, 0.7]))
            n = m * rng.randint(6, 16) + (rng.randint(1, m - 1) if warped_wanted else 0)
        if warped_wanted and kind != 'dec':
            even = True
            if (n * k) % 2 == 0:
                n += 1
        D = Fraction(n * k, m)            # factor * npts
        nyq = min(n, int(math.floor(D))) // 2
        js = sorted(rng.sample(range(1, max(2, nyq - (1 if warped_wanted else 0))), min(rng.randint(1, 3), max(1, nyq - 2))))
        terms = [(j, rng.randint(-16, 16) / 8.0, rng.randint(-16, 16) / 8.0) for j in js]
        c0 = rng.randint(-8, 8) / 8.0
        if nyq_wanted:
            # harmonic n/2: the alternation +a, -a, ... = samples of g(t) = a cos(pi t/dt); below the NEW Nyquist frequency for k >= 2,
            # so it belongs to the admissible band (its sine partner vanishes on the old grid: b = 0). The other harmonics are kept
            # (possibly none: the pure alternation) so that the record is a generic band-limited one
            if it % 3 == 0:
                terms = []
            terms = terms + [(n // 2, rng.choice([-1, 1]) * rng.randint(1, 16) / 8.0, 0.0)]
        x = np.array([c0 + sum(a * math.cos(2 * math.pi * j * i / n) + b * math.sin(2 * math.pi * j * i / n) for j, a, b in terms) for i in range(n)])
        site = 'resample_to_approx_dt[band-limited]'
        args = {'npts': n, 'dt': dt, 'target_dt': tg, 'even': even, 'signal': {'c0': c0, 'terms(j,a,b)': terms}, 'values': list(x)}
        if nyq_wanted:
            site = 'resample_to_approx_dt[band-limited, energy at the old Nyquist frequency]'
        r = guarded(lambda: (lambda s_: (np.asarray(s_.values, dtype=float), float(s_.dt)))(resample_to_approx_dt(eqsig.AccSignal(x.copy(), dt), target_dt=tg, even=even)))
        if isinstance(r, ImplError):
            rep.violation(site, {'function': site, 'args': args, 'impl_error': str(r)})
            continue
        y, nd = r
        if not np.all(np.isfinite(y)):
            rep.violation(site, {'function': site, 'args': args, 'impl': 'non-finite output'})
            continue
        ratio = dt / nd
        kk, mm = (int(round(ratio)), 1) if ratio >= 1 else (1, int(round(1 / ratio)))
        Dimpl = Fraction(n * kk, mm)      # factor * npts for the factor the implementation used
        incomm = Dimpl.denominator != 1
        if not incomm:
            want = 2 * (int(Dimpl) // 2) if even else int(Dimpl)
            if len(y) != want:
                rep.violation(site, {'function': site, 'args': args, 'impl': {'new_dt': nd, 'len': len(y)}, 'expected': 'length %d = factor*npts%s' % (want, ' cut to even' if even else '')})
                continue
        warped = incomm
        ci = len(metas)
        metas.append({'site': site, 'args': args, 'impl': {'new_dt': nd, 'len': len(y), 'values': list(y)}, 'warped': warped, 'bad': []})
        idx_out = sorted(set([0, len(y) - 1] + [rng.randrange(len(y)) for _ in range(5)])) if len(y) else []
        for i in idx_out:
            # g(i * new_dt): phase 2 pi j i / (factor * npts)
            prop = 'Rabs (%s - %s) <= 1 / 1000000000' % (trig_expr(c0, terms, i * Dimpl.denominator, Dimpl.numerator), rq(y[i]))
            goals.append((len(goals), prop, ci, 'out', i))
        for i in sorted(set(rng.randrange(n) for _ in range(3))):
            prop = 'Rabs (%s - %s) <= 1 / 1000000000000' % (trig_expr(c0, terms, i, n), rq(x[i]))
            goals.append((len(goals), prop, ci, 'in', i))
    # ---- run the enclosures
    os.makedirs(core.RUN, exist_ok=True)
    nsh = max(1, min(core.NPROC, len(goals) // 20 or 1))
    shards = [goals[k::nsh] for k in range(nsh)]

    def one(k):
        path = os.path.join(core.RUN, 'C14bl_%d.v' % k)
        with open(path, 'w') as f:
            f.write('From Coq Require Import Reals.\nFrom Interval Require Import Tactic.\nLocal Open Scope R_scope.\n')
            for gid, prop, _, _, _ in shards[k]:
                f.write('Goal True. tryif (assert (%s) by (interval with (i_prec 80))) then idtac "@@OK %d" else idtac "@@BAD %d". exact I. Qed.\n' % (prop, gid, gid))
        return core.sh('timeout 600 coqc -Q %s EQ %s' % (core.COQ, path), 630, cwd=core.RUN)

    from concurrent.futures import ThreadPoolExecutor
    with ThreadPoolExecutor(max_workers=core.NPROC) as ex:
        outs = list(ex.map(one, range(nsh)))
    ok, bad = set(), set()
    for rc, out, err, _ in outs:
        if rc != 0:
            rep.unchecked('correspondence:band-limited enclosures', (err or out)[-1500:])
        ok.update(int(t) for t in __import__('re').findall(r'@@OK (\d+)', out))
        bad.update(int(t) for t in __import__('re').findall(r'@@BAD (\d+)', out))
    if not os.environ.get('VERIF_KEEP_RUN'):
        for fn in os.listdir(core.RUN):
            if fn.startswith('C14bl_') or fn.startswith('.C14bl_'):
                try:
                    os.remove(os.path.join(core.RUN, fn))
                except OSError:
                    pass
    if len(ok) + len(bad) != len(goals) and all(rc == 0 for rc, _, _, _ in outs):
        rep.unchecked('correspondence:band-limited enclosures', 'only %d of %d enclosure goals reported' % (len(ok) + len(bad), len(goals)))
    for gid, prop, ci, kind, i in goals:
        if gid in bad:
            metas[ci]['bad'].append((kind, i))
    n_ok_cases = n_warp = n_warp_bad = 0
    for mt in metas:
        rep.cases.append(Case('(* %d enclosure goals *)' % sum(1 for g in goals if metas[g[2]] is mt), {'function': mt['site'], 'args': mt['args'], 'impl': mt['impl']}, mt['site'],
                              nontrivial=True, klass=mt['site'] + ('/incommensurate(measured)' if mt['warped'] else '/factor*npts integer')))
        if mt['warped']:
            n_warp += 1
            if mt['bad']:
                n_warp_bad += 1
                rep.extra.setdefault('incommensurate_resample_examples', [])
                if len(rep.extra['incommensurate_resample_examples']) < 3:
                    a = mt['args']
                    rep.extra['incommensurate_resample_examples'].append({'npts': a['npts'], 'dt': a['dt'], 'target_dt': a['target_dt'], 'even': a['even'], 'signal': a['signal'],
                                                                  'impl_len': mt['impl']['len'], 'impl_new_dt': mt['impl']['new_dt'], 'failing_samples': mt['bad'][:4]})
        elif mt['bad']:
            rep.violation(mt['site'], {'function': mt['site'], 'args': mt['args'], 'impl': mt['impl'], 'failing_enclosures(kind,index)': mt['bad'],
                                       'expected': 'returned[i] = g(i*new_dt) within 1e-9, g = c0 + sum a cos(2 pi j t/(npts dt)) + b sin(...)'})
        else:
            n_ok_cases += 1
    rep.extra['bandlimited'] = {'cases_factor_npts_integer': len(metas) - n_warp, 'of_which_all_enclosures_proved': n_ok_cases, 'enclosure_goals': len(goals),
                                'enclosures_proved': len(ok), 'incommensurate_cases(measured)': n_warp, 'incommensurate_not_reproducing': n_warp_bad}
    rep.obligations += len(goals)
    rep.discharged += len(ok) + sum(1 for g in goals if g[0] in bad and metas[g[2]]['warped'])


def finish(rep):
    return rep.finish(rule=RULE, trusted=TRUSTED, assumptions=['exact real arithmetic in the theorems; dt > 0, target > 0, non-empty record'])
