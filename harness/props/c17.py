"""C17 — Butterworth filtering is zero-phase with the analytic gain; detrending is exact; adds; running average."""
import math, os, inspect
import numpy as np
from harness import core, gens
from harness.core import q, qlist, cbool, Case, guarded, guarded_pure, ImplError

RULE = ('butter_pass: (order 1-4, band/low/high, cut_off as list/tuple/array (a quarter of the cases: band-pass with a float64 ndarray), remove_gibbs None/start/end/mid, gibbs_extra 0-2, gibbs_range, record, dt) through '
        'Signal/AccSignal.butter_pass with harness-side wrappers around scipy.signal.butter/filtfilt recording the arguments eqsig passes and what filtfilt returns: '
        'order, btype and chain exactly, Wn and padded record to 1e-12 relative, trimmed output = slice of the recorded filtfilt output exactly, dt and length unchanged; '
        'every call is made twice with the same cut_off object on fresh copies of the record: record and cut_off array bit-identical afterwards, both results identical; '
        'malformed cut_off (not a sequence / length != 2) must raise ValueError. Linearity (one cut_off object shared by the three calls) of butter_pass, idempotence and polynomial absorption of remove_poly are evaluated '
        'on implementation outputs (1e-6 / 1e-9 relative). Gain: sinusoids of 2048-4096 samples, frequencies across pass/transition/stop bands, interior samples, '
        '|y_i - |H|^2 x_i| <= 1e-7 amp with tan(pi f dt) values supplied by the harness. remove_poly (Signal method and fns.generic), degrees 0-4, exact rational least squares, 1e-9 relative, '
        'residual orthogonality on the implementation output. add_constant/add_series/add_signal: integer records tolerance 0, float records 1e-12, mismatched length / dt / non-Signal must raise '
        'SignalProcessingError; add_constant also on records STORED with an integer dtype (int64/int32/int16 array or a list of python ints; every other add round) with a constant that is not a whole number (multiples of 1/8, tolerance 0). running_average widths 1-25 on float- and integer-dtype records of length 1-80, 1e-12 relative; non-trivial = record not constant')
TRUSTED = [
    'Coq 8.16.1 kernel + vm_compute',
    'hand-written model coq/model/M_signalops.v; tie = correspondence of this run (model/K_C17.v) and, for butter_pass / add_* / running_average, the source-text tie: translator/py2coq_c17.py (Python ast -> Gallina by symbolic execution, fail closed) with its fixed readings of Python/NumPy (slice index normalisation, slice assignment, broadcasting of +, np.mean, np.ones, kwargs.get, int(np.ceil(np.log2(n))) as Z.log2_up n, int / int as an exact rational)',
    'scipy.signal.butter + filtfilt are an oracle (Section hypothesis in the theorems): their linearity and the zero-phase |H|^2 response are validated numerically on every run (a test, not a proof)',
    'np.polyfit is an oracle; the Q-run solves the normal equations exactly and checks inside Coq that its coefficients satisfy them; theorems hold for any solution of the normal equations',
    'tan(pi f dt) kernel values for the gain formula are computed by the harness (math.tan)',
    'harness-side wrappers around scipy.signal.butter/filtfilt (monkeypatch in the harness process only)',
    'exact arithmetic (rounding not modelled); Python harness',
]

BT = {'band': 0, 'bandpass': 0, 'pass': 0, 'bp': 0, 'low': 1, 'lowpass': 1, 'lp': 1, 'l': 1, 'high': 2, 'highpass': 2, 'hp': 2, 'h': 2}
GIBBS = [None, 'start', 'end', 'mid']


# ------------------------------------------------------------------ scipy recorder
class Recorder:
    """wraps scipy.signal.butter / filtfilt while active; records every call"""

    def __enter__(self):
        import scipy.signal as ss
        self.ss = ss
        self.real_butter, self.real_filtfilt = ss.butter, ss.filtfilt
        self.butter_calls, self.ff_calls = [], []
        rb, rf = self.real_butter, self.real_filtfilt
        sig_b, sig_f = inspect.signature(rb), inspect.signature(rf)

        def butter_w(*a, **kw):
            out = rb(*a, **kw)
            ba = sig_b.bind(*a, **kw)
            ba.apply_defaults()
            self.butter_calls.append((dict(ba.arguments), out))
            return out

        def filtfilt_w(*a, **kw):
            ba = sig_f.bind(*a, **kw)
            x_in = np.array(ba.arguments['x'], dtype=float, copy=True)
            out = rf(*a, **kw)
            explicit = set(ba.arguments) - {'b', 'a', 'x'}
            self.ff_calls.append((ba.arguments['b'], ba.arguments['a'], x_in, np.array(out, dtype=float, copy=True), not explicit))
            return out

        ss.butter, ss.filtfilt = butter_w, filtfilt_w
        return self

    def __exit__(self, *exc):
        self.ss.butter, self.ss.filtfilt = self.real_butter, self.real_filtfilt
        return False

    def summary(self):
        """(order, btype code, normalised Wn list, chain_ok, x, y)"""
        if len(self.butter_calls) != 1 or len(self.ff_calls) != 1:
            return 0, 9, [], False, [], []
        args, out = self.butter_calls[0]
        b, a, x, y, default = self.ff_calls[0]
        chain = default and (not args.get('analog')) and args.get('output') == 'ba' and len(out) == 2
        chain = chain and np.array_equal(np.asarray(b), np.asarray(out[0])) and np.array_equal(np.asarray(a), np.asarray(out[1]))
        wn = np.atleast_1d(np.array(args['Wn'], dtype=float))
        if args.get('fs') is not None:
            wn = 2.0 * wn / float(args['fs'])
        bt = BT.get(str(args.get('btype')).lower(), 9)
        try:
            order = int(args['N'])
        except Exception:
            order, chain = 0, False
        if x.ndim != 1 or y.ndim != 1:
            return order, bt, list(wn), False, [], []
        return order, bt, list(wn), bool(chain), list(x), list(y)


def mk_signal(rng, values, dt):
    import eqsig
    return (eqsig.AccSignal if rng.random() < 0.3 else eqsig.Signal)(values, dt)


def qopt(v):
    return 'None' if v is None else '(Some %s)' % q(v)


def container(kind, lo, hi):
    if kind == 0:
        return [lo, hi]
    if kind == 1:
        return (lo, hi)
    if lo is None or hi is None:
        return np.array([lo, hi], dtype=object)
    return np.array([lo, hi])


# ------------------------------------------------------------------ butter_pass glue
def bp_call(s, cut, kw):
    with Recorder() as r:
        s.butter_pass(cut, **kw)
    return r.summary()


def bp_run(cls, x, dt, cut, kw):
    """butter_pass on a fresh signal built from a copy of x: pure in (x, cut) - used through core.guarded_pure, which checks
    that neither the record nor an ndarray cut_off was modified and that a second call with the SAME cut_off object on a
    fresh copy of the record gives the identical result"""
    s = cls(np.array(x), dt)
    summary = bp_call(s, cut, kw)
    return summary, np.array(s.values, dtype=float), s.dt


def bp_plain(cls, x, dt, cut, kw):
    s = cls(np.array(x), dt)
    s.butter_pass(cut, **kw)
    return np.array(s.values, dtype=float)


_PURITY_SEEN = set()


def purity_violation(rep, site, payload):
    """an argument modified by the call / a second call on the same objects that differs: one violation per site is enough"""
    if str(payload.get('impl_error', '')).startswith(('InputMutated', 'NotRepeatable')):
        if site in _PURITY_SEEN:
            rep.extra['suppressed_duplicate_purity_violations'] = rep.extra.get('suppressed_duplicate_purity_violations', 0) + 1
            return
        _PURITY_SEEN.add(site)
    rep.violation(site, payload)


def sig_cls(rng):
    import eqsig
    return eqsig.AccSignal if rng.random() < 0.3 else eqsig.Signal


def bp_settings(rng, exact):
    order = rng.randint(1, 4)
    dt = gens.dyadic_dt(rng, 3, 8) if exact else rng.choice([0.01, 0.005, 0.02, 0.025, 0.008, 0.03, 1.0 / 75, rng.uniform(0.002, 0.05)])
    nyq = 0.5 / dt
    bt = rng.randrange(3)
    if exact:
        lo = rng.choice([1, 2, 3, 5]) / 64.0 * nyq
        hi = rng.choice([16, 24, 40, 48, 56]) / 64.0 * nyq
    else:
        lo = rng.uniform(0.01, 0.2) * nyq
        hi = rng.uniform(0.3, 0.95) * nyq
    if bt == 1:
        lo = None
    elif bt == 2:
        hi = None if rng.random() < 0.7 else hi
        if hi is not None:
            bt = 0
    g = rng.randrange(4)
    extra = rng.choice([1, 1, 0, 2])
    return order, dt, lo, hi, g, extra


def bp_kwargs(rng, order, g, extra, grange):
    kw = {}
    if order != 4 or rng.random() < 0.5:
        kw['filter_order'] = order
    if g != 0 or rng.random() < 0.3:
        kw['remove_gibbs'] = GIBBS[g]
    if extra != 1 or rng.random() < 0.5:
        kw['gibbs_extra'] = extra
    if grange != 50 or rng.random() < 0.5:
        kw['gibbs_range'] = grange
    return kw


def bp_case(rep, rng, cases, exact, maxn=300, array_band=False):
    order, dt, lo, hi, g, extra = bp_settings(rng, exact)
    while array_band and (lo is None or hi is None):   # a fixed share of band-pass requests with a float64 ndarray of cut-offs
        order, dt, lo, hi, g, extra = bp_settings(rng, exact)
    n = gens.small_len(rng, 30, maxn)
    if n > 64 and extra == 2:
        extra = rng.choice([0, 1])
    grange = rng.choice([50, 50, 1, 2, 8, 64, 7, n, n + 5, 1000])
    x = gens.int_record(rng, n, amp=20)[0] if exact else gens.float_record(rng, n)[0]
    cont = 2 if array_band else rng.randrange(3)
    cut = container(cont, lo, hi)
    kw = bp_kwargs(rng, order, g, extra, grange)
    site = 'butter_pass[%s]' % ('pad' if g else 'nopad')
    args = {'values': list(map(float, x)), 'dt': dt, 'cut_off': [lo, hi], 'container': ['list', 'tuple', 'array'][cont], 'kwargs': kw}
    # purity in the arguments: record and cut_off (ndarray) unchanged; the same cut_off object on a fresh copy of the record again
    r = guarded_pure(bp_run, sig_cls(rng), np.array(x, dtype=float), dt, cut, kw)
    if isinstance(r, ImplError):
        purity_violation(rep, site, {'function': 'Signal.butter_pass', 'args': args, 'impl_error': str(r),
                             'call_sequence': 's1 = Signal(values.copy(), dt); s1.butter_pass(cut_off, **kwargs); s2 = Signal(values.copy(), dt); s2.butter_pass(cut_off, **kwargs)  # same cut_off object'})
        return
    (ro, rbt, rwn, chain, rx, ry), out, s_dt = r
    coq = ('{| b_order := %d; b_cont := %d; b_cut := [%s; %s]; b_dt := %s; b_g := %d; b_extra := %d; b_range := %d; b_x := %s; b_err := 0; '
           'r_order := %d; r_bt := %d; r_wn := %s; r_chain := %s; r_x := %s; r_y := %s; b_out := %s; b_dt_out := %s; b_rtol := %s |}'
           % (order, cont, qopt(lo), qopt(hi), q(dt), g, extra, grange, qlist(x), ro, rbt, qlist(rwn), cbool(chain), qlist(rx), qlist(ry),
              qlist(out), q(s_dt), q(1e-12)))
    cases.append(Case(coq, {'function': 'Signal.butter_pass', 'args': args,
                            'impl': {'butter': [ro, rbt, rwn], 'len_filtfilt_in': len(rx), 'out': out, 'dt': s_dt}},
                      site, nontrivial=len(set(x)) > 1, klass='%s/%s/%s' % (site, ['band', 'low', 'high'][0 if (lo is not None and hi is not None) else 1 if lo is None else 2], GIBBS[g])))


def bp_malformed(rep, rng, cases):
    import eqsig
    x = gens.int_record(rng, 40)[0]
    bad = [(3, 5.0, []), (3, 'ab', []), (3, None, []), (3, {0.1: 1, 15: 2}, []),
           (0, [], []), (0, [1.0], [1.0]), (1, (0.1, 5.0, 10.0), [0.1, 5.0, 10.0]), (2, np.array([1.0, 2.0, 3.0]), [1.0, 2.0, 3.0]),
           (1, (None,), [None]), (0, [None, 2.0, None], [None, 2.0, None])]
    for cont, cut, content in bad:
        s = eqsig.Signal(np.array(x), 0.01)
        site = 'butter_pass[malformed]'
        args = {'values': list(map(float, x)), 'dt': 0.01, 'cut_off': repr(cut)}
        err = 0
        try:
            with Recorder():
                s.butter_pass(cut)
        except ValueError as e:
            err = 1 if 'list, tuple' in str(e) else 2 if 'length 2' in str(e) else 3
        except Exception as e:  # noqa
            rep.violation(site, {'function': 'Signal.butter_pass', 'args': args, 'impl_error': '%s: %s' % (type(e).__name__, e)})
            continue
        coq = ('{| b_order := 4; b_cont := %d; b_cut := [%s]; b_dt := %s; b_g := 0; b_extra := 1; b_range := 50; b_x := %s; b_err := %d; '
               'r_order := 0; r_bt := 9; r_wn := []; r_chain := false; r_x := []; r_y := []; b_out := []; b_dt_out := %s; b_rtol := 0 |}'
               % (cont, '; '.join(qopt(v) for v in content), q(0.01), qlist(x), err, q(0.01)))
        cases.append(Case(coq, {'function': 'Signal.butter_pass', 'args': args, 'impl': {'error_kind': err}}, site, nontrivial=True, klass=site))


def bp_linear(rep, rng, cases, maxn=300):
    order, dt, lo, hi, g, extra = bp_settings(rng, False)
    n = gens.small_len(rng, 30, maxn)
    x, y = gens.float_record(rng, n)[0], gens.float_record(rng, n)[0]
    a, b = rng.uniform(-3, 3), rng.uniform(-3, 3)
    kw = {'filter_order': order, 'remove_gibbs': GIBBS[g], 'gibbs_extra': extra}
    # the three records are filtered with the SAME cut_off object (a float64 ndarray for every other band request)
    as_array = lo is not None and hi is not None and rng.random() < 0.5
    cut = np.array([lo, hi]) if as_array else (lo, hi)
    outs = []
    site = 'butter_pass[linear]'
    args = {'x': list(x), 'y': list(y), 'a': a, 'b': b, 'dt': dt, 'cut_off': [lo, hi], 'container': 'array (one object shared by the three calls)' if as_array else 'tuple', 'kwargs': kw}
    for v in (x, y, a * x + b * y):
        s = mk_signal(rng, np.array(v), dt)
        r = guarded(s.butter_pass, cut, **kw)
        if isinstance(r, ImplError):
            rep.violation(site, {'function': 'Signal.butter_pass', 'args': args, 'impl_error': str(r)})
            return
        outs.append(np.array(s.values, dtype=float))
    coq = '(%s, %s, %s, %s, %s, %s)' % (q(a), q(b), qlist(outs[0]), qlist(outs[1]), qlist(outs[2]), q(1e-6))
    cases.append(Case(coq, {'function': 'Signal.butter_pass', 'args': args, 'impl': {'out_x': outs[0], 'out_y': outs[1], 'out_axby': outs[2]}}, site,
                      nontrivial=True, klass=site))


def bp_gain(rep, rng, cases, order, bt, g, npairs=40):
    n = rng.choice([2048, 3000, 4096])
    dt = rng.choice([0.01, 0.005, 0.02, 0.008, 0.03, 1.0 / 75, 1.0 / 128])   # even, odd and non-integer sampling rates
    nyq = 0.5 / dt
    T = n * dt
    lo = rng.uniform(45.0 / T, 0.12 * nyq)           # longest cut-off period <= T/45
    hi = rng.uniform(0.25, 0.7) * nyq
    if bt == 1:
        lo = None
    elif bt == 2:
        hi = None
    # frequency in the pass band, around either cut-off (transition) or in a stop band
    edges = [c for c in (lo, hi) if c is not None]
    where = rng.choice(['pass', 'transition', 'transition', 'stop'])
    if where == 'transition':
        f = rng.choice(edges) * rng.uniform(0.7, 1.4)
    elif where == 'pass':
        f = rng.uniform(lo or 0.02 * nyq, hi or 0.9 * nyq)
    else:
        f = rng.choice([e * rng.uniform(1.5, 3.0) if e == hi else e * rng.uniform(0.3, 0.7) for e in edges])
    f = min(max(f, 0.01 * nyq), 0.97 * nyq)
    amp, ph = rng.uniform(0.5, 5.0), rng.uniform(0, 6.28)
    t = np.arange(n) * dt
    x = amp * np.sin(2 * np.pi * f * t + ph)
    kw = {'filter_order': order, 'remove_gibbs': GIBBS[g]}
    site = 'butter_pass[gain]'
    cont = rng.randrange(3)
    args = {'n': n, 'dt': dt, 'f': f, 'amp': amp, 'phase': ph, 'cut_off': [lo, hi], 'container': ['list', 'tuple', 'array'][cont], 'kwargs': kw}
    r = guarded_pure(bp_plain, sig_cls(rng), x, dt, container(cont, lo, hi), kw)
    if isinstance(r, ImplError):
        purity_violation(rep, site, {'function': 'Signal.butter_pass', 'args': args, 'impl_error': str(r)})
        return
    y = r
    if len(y) != n:
        rep.violation(site, {'function': 'Signal.butter_pass', 'args': args, 'impl': 'output length %d != %d' % (len(y), n)})
        return
    idx = sorted(set([n // 4, n // 2, 3 * n // 4 - 1] + [rng.randrange(n // 4, 3 * n // 4) for _ in range(npairs)]))
    tf = math.tan(math.pi * f * dt)
    tcs = [math.tan(math.pi * c * dt) for c in edges]
    pairs = '[' + '; '.join('(%s, %s)' % (q(x[i]), q(y[i])) for i in idx) + ']'
    coq = '(%d%%nat, %d%%nat, %s, %s, %s, %s, %s)' % (bt, order, q(tf), qlist(tcs), q(amp), pairs, q(1e-7))
    cases.append(Case(coq, {'function': 'Signal.butter_pass', 'args': args, 'impl': {'interior_indices': idx, 'y': [float(y[i]) for i in idx]}}, site,
                      nontrivial=True, klass='%s/%s/%s' % (site, ['band', 'low', 'high'][bt], where)))


# ------------------------------------------------------------------ detrending
def poly_record(rng, n):
    kind = rng.choice(['gauss', 'offset', 'int', 'trend', 'motion'])
    if kind == 'int':
        return gens.int_record(rng, n)[0]
    if kind == 'offset':
        return np.array([1000.0 + rng.gauss(0, 1) for _ in range(n)])
    if kind == 'trend':
        c = [rng.uniform(-50, 50) for _ in range(5)]
        return np.array([rng.gauss(0, 1) + sum(cj * (i / n) ** j for j, cj in enumerate(c)) for i in range(n)])
    return gens.float_record(rng, n, style='motion' if kind == 'motion' else 'gauss')[0]


def poly_impl(entry, y, dt, k, store=None):
    import eqsig
    from eqsig.fns.generic import remove_poly
    if store is not None:          # array-level entry, record kept as integers (counts), a Python list of ints, or float32
        arg = [int(v) for v in y] if store == 'list' else np.array(y).astype(store)
        return np.array(remove_poly(arg, k), dtype=float), dt
    if entry == 0:
        s = eqsig.Signal(np.array(y), dt)
        s.remove_poly(k)
        return np.array(s.values, dtype=float), s.dt
    if entry == 1:
        s = eqsig.AccSignal(np.array(y), dt)
        s.remove_poly(poly_fit=k)
        return np.array(s.values, dtype=float), s.dt
    return np.array(remove_poly(np.array(y), k), dtype=float), dt


def poly_case(rep, rng, cases, sames, maxn):
    k = rng.randint(0, 4)
    n = gens.small_len(rng, k + 1, maxn)
    y = poly_record(rng, n)
    dt = rng.choice([0.01, 0.02, 0.125])
    entry = rng.randrange(3)
    name = ['Signal.remove_poly', 'AccSignal.remove_poly', 'eqsig.fns.generic.remove_poly'][entry]
    store = None
    if entry == 2 and rng.random() < 0.5:
        # the same numbers stored otherwise: the residual is that of the same least-squares problem (and a float array)
        store = rng.choice([np.int64, np.int32, 'list', np.float32])
        if store is np.float32:
            y = np.array(y, dtype=np.float32).astype(float)
        else:
            y = np.round(np.array(y, dtype=float) * rng.choice([3, 10, 100]))
        if len(set(y)) <= 1:
            store = None
        else:
            name += '[%s record]' % (store if store == 'list' else np.dtype(store).name)
    args = {'values': list(map(float, y)), 'dt': dt, 'poly_fit': k}
    if store is not None:
        args['stored_as'] = store if store == 'list' else np.dtype(store).name
    r = guarded(poly_impl, entry, y, dt, k, store)
    if isinstance(r, ImplError):
        rep.violation(name, {'function': name, 'args': args, 'impl_error': str(r)})
        return
    out, dto = r
    coq = '{| p_k := %d; p_y := %s; p_out := %s; p_dt := %s; p_dt_out := %s; p_rtol := %s |}' % (k, qlist(y), qlist(out), q(dt), q(dto), q(1e-9))
    cases.append(Case(coq, {'function': name, 'args': args, 'impl': out}, name, nontrivial=len(set(y)) > 1, klass='%s/deg%d' % (name, k)))
    scale = float(np.max(np.abs(y)))
    # idempotence on the implementation
    r2 = guarded(poly_impl, entry, out, dt, k)
    if isinstance(r2, ImplError):
        rep.violation(name + '[idempotent]', {'function': name, 'args': {'values': list(out), 'dt': dt, 'poly_fit': k}, 'impl_error': str(r2)})
    else:
        sames.append(Case('(%s, %s, %s, %s)' % (qlist(out), qlist(r2[0]), q(1e-9), q(scale)),
                          {'function': name + ' twice', 'args': args, 'impl': {'once': out, 'twice': r2[0]}}, name + '[idempotent]',
                          nontrivial=len(set(y)) > 1, klass=name + '[idempotent]'))
    # adding a polynomial of degree <= k first changes nothing
    c = [rng.uniform(-20, 20) for _ in range(k + 1)]
    xs = np.linspace(0, 1.0, n)
    p = sum(cj * xs ** j for j, cj in enumerate(c))
    r3 = guarded(poly_impl, entry, y + p, dt, k)
    if isinstance(r3, ImplError):
        rep.violation(name + '[absorbs]', {'function': name, 'args': {'values': list(y + p), 'dt': dt, 'poly_fit': k}, 'impl_error': str(r3)})
    else:
        sames.append(Case('(%s, %s, %s, %s)' % (qlist(out), qlist(r3[0]), q(1e-9), q(scale + float(np.max(np.abs(p))))),
                          {'function': name + ' after adding a polynomial', 'args': dict(args, added_poly_coefficients_low_first=c),
                           'impl': {'plain': out, 'shifted': r3[0]}}, name + '[absorbs]', nontrivial=True, klass=name + '[absorbs]'))


RULE += ('; remove_poly on LONG records (Signal / AccSignal method and fns.generic; 65536..131072 samples, quick: two records of degree 0 and 1, thorough: degrees 0-3): the record is an integer pattern of even period '
         'repeated, shipped in compact form; Coq solves the normal equations written with the integer power sums of the whole record, checks its solution against them, and compares the output with '
         'record - polynomial at ~40 positions (first, last, middle, random), 1e-9 relative; output length and dt compared')


def poly_long_case(rep, rng, longs, k, n, entry):
    """a record of tens of thousands of samples: y[i] = pattern[i % p] (small integers, even period p, not constant, the samples at even
    positions do not have the mean of the whole pattern).  Compact in the case text; the output is compared at a sparse set of positions."""
    name = ['Signal.remove_poly', 'AccSignal.remove_poly', 'eqsig.fns.generic.remove_poly'][entry] + '[long record]'
    while True:
        pat = [rng.randint(-9, 9) for _ in range(rng.choice([4, 6, 8, 10]))]
        if len(set(pat)) > 1 and sum(pat[::2]) * 2 != sum(pat):
            break
    y = np.tile(np.array(pat, dtype=float), n // len(pat) + 1)[:n]
    dt = rng.choice([0.005, 0.01, 0.02])
    args = {'values': 'values[i] = values_pattern[i % len(values_pattern)] for i < npts', 'values_pattern': pat, 'npts': n, 'dt': dt, 'poly_fit': k}
    r = guarded(poly_impl, entry, y, dt, k)
    if isinstance(r, ImplError):
        rep.violation(name, {'function': name, 'args': args, 'impl_error': str(r)})
        return
    out, dto = r
    if out.ndim != 1:
        rep.violation(name, {'function': name, 'args': args, 'impl': 'output of shape %r' % (out.shape,)})
        return
    m = len(out)
    idx = sorted(i for i in set([0, 1, 2, n // 2, n - 2, n - 1] + [rng.randrange(n) for _ in range(34)]) if i < m)
    coq = ('{| l_k := %d; l_n := %d; l_pat := [%s]; l_samples := [%s]; l_len_out := %d; l_dt := %s; l_dt_out := %s; l_rtol := %s |}'
           % (k, n, '; '.join('(%d)%%Z' % v for v in pat), '; '.join('((%d)%%Z, %s)' % (i, q(out[i])) for i in idx), m, q(dt), q(dto), q(1e-9)))
    longs.append(Case(coq, {'function': name, 'args': args, 'impl': {'len': m, 'dt': dto, 'sampled_indices': idx, 'out_at_sampled_indices': [float(out[i]) for i in idx]}},
                      name, nontrivial=True, klass='%s/deg%d' % (name, k)))


# ------------------------------------------------------------------ adds
def add_cases(rep, rng, cases, N):
    import eqsig
    from eqsig import exceptions

    def emit(kind, x, dt, const, other, odt, is_sig, call, site, args, rtol):
        s = mk_signal(rng, np.array(x), dt)
        err = False
        try:
            call(s)
        except exceptions.SignalProcessingError:
            err = True
        except Exception as e:  # noqa
            rep.violation(site, {'function': site, 'args': args, 'impl_error': '%s: %s' % (type(e).__name__, e)})
            return
        out = [] if err else np.array(s.values, dtype=float)
        coq = ('{| a_kind := %d; a_x := %s; a_dt := %s; a_const := %s; a_other := %s; a_other_dt := %s; a_is_sig := %s; a_err := %s; a_out := %s; a_dt_out := %s; a_rtol := %s |}'
               % (kind, qlist(x), q(dt), q(const), qlist(other), q(odt), cbool(is_sig), cbool(err), qlist(out), q(s.dt), q(rtol)))
        cases.append(Case(coq, {'function': site, 'args': args, 'impl': {'raised': err, 'out': out}}, site, nontrivial=True,
                          klass='%s/%s' % (site, 'rejects' if err else 'ok')))

    for k in range(N):
        exact = rng.random() < 0.6
        n = gens.small_len(rng, 1, 120)
        rec = (lambda m: gens.int_record(rng, m)[0]) if exact else (lambda m: gens.float_record(rng, m)[0])
        rtol = 0 if exact else 1e-12
        x = rec(n)
        dt = gens.dyadic_dt(rng, 2, 8) if exact else rng.choice([0.01, 0.005, 0.02])
        # add_constant
        c = float(rng.randint(-50, 50)) if exact else rng.uniform(-10, 10)
        emit(0, x, dt, c, [], dt, False, lambda s: s.add_constant(c), 'Signal.add_constant', {'values': list(x), 'dt': dt, 'constant': c}, rtol)
        if k % 2 == 0:
            # raw counts: the record is STORED with an integer dtype (int64 / int32 / int16 array, or built from a list of python ints)
            # and the constant is not a whole number (multiples of 1/8: exact, tolerance 0); 1 in 4 with a whole constant
            store = rng.choice(['int64', 'int32', 'int16', 'list'])
            xi_f = gens.int_record(rng, n, amp=rng.choice([20, 300, 5000]))[0]
            xi = [int(v) for v in xi_f] if store == 'list' else np.array(xi_f).astype(store)
            assert store == 'list' or xi.dtype.kind == 'i'
            ci = float(rng.randint(-50, 50)) if rng.random() < 0.25 else rng.choice([-1, 1]) * (rng.randint(0, 40) + rng.choice([0.5, 0.25, 0.75, 0.125, 0.875]))
            emit(0, xi, dt, ci, [], dt, False, lambda s: s.add_constant(ci), 'Signal.add_constant[int-dtype record]',
                 {'values': [int(v) for v in xi], 'stored_as': store, 'dt': dt, 'constant': ci}, 0)
        # add_series: equal length, or off by a few / broadcastable length 1 / empty
        m = n if rng.random() < 0.55 else rng.choice([n + 1, max(0, n - 1), 1, 0, 2 * n, n + rng.randint(2, 9)])
        o = rec(m) if m > 0 else np.array([])
        ser = o if rng.random() < 0.5 else list(o)
        emit(1, x, dt, 0, o, dt, False, lambda s: s.add_series(ser), 'Signal.add_series', {'values': list(x), 'dt': dt, 'series': list(o)}, rtol)
        # add_signal: same / different dt, same / different length, not a Signal
        m = n if rng.random() < 0.6 else rng.choice([n + 1, max(1, n - 1), 1, 2 * n])
        o = rec(m)
        r = rng.random()
        odt = dt if r < 0.6 else rng.choice([dt * 2, dt / 2, dt * (1 + 2.0 ** -40), 0.013])
        if r > 0.88:
            other = rng.choice([np.array(o), list(o), None, 3.0, {'values': list(o), 'dt': dt}])
            emit(2, x, dt, 0, o, odt, False, lambda s: s.add_signal(other), 'Signal.add_signal',
                 {'values': list(x), 'dt': dt, 'other': 'non-Signal object of type %s' % type(other).__name__}, rtol)
        else:
            other = (eqsig.AccSignal if rng.random() < 0.4 else eqsig.Signal)(np.array(o), odt)
            emit(2, x, dt, 0, o, odt, True, lambda s: s.add_signal(other), 'Signal.add_signal',
                 {'values': list(x), 'dt': dt, 'other_values': list(o), 'other_dt': odt}, rtol)


# ------------------------------------------------------------------ running average
def ravg_impl(cls, x, dt, w, kw):
    s = cls(x, dt)
    if kw:
        s.running_average(width=w)
    else:
        s.running_average(w)
    return np.array(s.values, dtype=float)


def ravg_case(rep, rng, cases, w, n, int_dtype=False):
    import eqsig
    exact = rng.random() < 0.6
    x = gens.int_record(rng, n)[0] if (exact or int_dtype) else gens.float_record(rng, n)[0]
    xin = (np.array(x, dtype=int) if rng.random() < 0.5 else [int(v) for v in x]) if int_dtype else np.array(x, dtype=float)
    site = 'Signal.running_average' + ('[int-dtype]' if int_dtype else '')
    args = {'values': list(xin), 'dt': 0.01, 'width': w, 'dtype': 'int' if int_dtype else 'float'}
    r = guarded(ravg_impl, eqsig.AccSignal if rng.random() < 0.3 else eqsig.Signal, xin, 0.01, w, rng.random() < 0.5)
    if isinstance(r, ImplError):
        rep.violation(site, {'function': site, 'args': args, 'impl_error': str(r)})
        return
    coq = '(%d%%nat, %s, %s, %s)' % (w, qlist(x), qlist(r), q(1e-12))
    cases.append(Case(coq, {'function': site, 'args': args, 'impl': r}, site, nontrivial=len(set(x)) > 1, klass='%s/w%s' % (site, 'odd' if w % 2 else 'even')))


# ------------------------------------------------------------------ driver
def regen_c17():
    """re-translate Signal.butter_pass / add_constant / add_series / add_signal / running_average of eqsig/single.py into
    coq/gen/Gen_c17.v (fail closed): the `*_is_source` theorems of Prop_C17 are then re-proved against the code that is in
    the repo now"""
    import sys
    try:
        sys.path.insert(0, os.path.join(core.VERIF, 'translator'))
        import py2coq_c17
        py2coq_c17.regenerate(repo=core.REPO)
    except Exception as e:
        return 'py2coq_c17: %s: %s' % (type(e).__name__, e)
    try:  # remove_poly (function and Signal method) around the np.polyfit oracle -> coq/gen/Gen_rmpoly.v
        import py2coq_rmpoly
        py2coq_rmpoly.regenerate(repo=core.REPO)
    except Exception as e:
        return 'py2coq_rmpoly: %s: %s' % (type(e).__name__, e)
    return None


def run(rep, rng, tier):
    rep.prove('Prop_C17', gen_failed=regen_c17())
    _PURITY_SEEN.clear()
    quick = tier == 'quick'
    bps, lins, gains, polys, sames, adds, ravgs = [], [], [], [], [], [], []
    for k in range(48 if quick else 600):
        bp_case(rep, rng, bps, exact=(k % 2 == 0), maxn=160 if quick else 400, array_band=(k % 8 < 2))
    bp_malformed(rep, rng, bps)
    for k in range(12 if quick else 120):
        bp_linear(rep, rng, lins, maxn=160 if quick else 400)
    reps = 1 if quick else 6
    for order in range(1, 5):
        for bt in range(3):
            for g in range(4):
                for _ in range(reps):
                    bp_gain(rep, rng, gains, order, bt, g, npairs=16 if quick else 40)
    for k in range(60 if quick else 600):
        poly_case(rep, rng, polys, sames, 100 if quick else 400)
    longs = []
    if quick:
        long_cfgs = [(0, rng.choice([65536, 65537, 66000]), rng.randrange(2)), (1, rng.choice([65536, 70000, 72000]), rng.randrange(2))]
    else:
        long_cfgs = [(k, n, (k + j) % 3) for j, n in enumerate((65536, 65537, 72000, 100001, 131072)) for k in ((0, 1, 2) if n < 100000 else (1, 3))]
    for k, n, entry in long_cfgs:
        poly_long_case(rep, rng, longs, k, n, entry)
    add_cases(rep, rng, adds, 60 if quick else 600)
    for w in range(1, 26):
        for n in sorted(set([1, 2, 3, w - 1, w, w + 1, 2 * w, 2 * w + 1] + [rng.randint(1, 80) for _ in range(2 if quick else 20)])):
            if n >= 1:
                ravg_case(rep, rng, ravgs, w, n)
    for w in ((2, 3, 5, 8) if quick else range(1, 26)):   # integer-dtype records (list of ints / int64 array)
        for n in (4, 12, rng.randint(1, 60)):
            ravg_case(rep, rng, ravgs, w, n, int_dtype=True)
    allc = []
    for ctor, lst in (('CPolyL', longs), ('CBp', bps), ('CLin', lins), ('CGain', gains), ('CPoly', polys), ('CSame', sames), ('CAdd', adds), ('CRavg', ravgs)):
        for c in lst:
            c.coq = '(%s %s)' % (ctor, c.coq)
            allc.append(c)
    rep.extra['case_kinds'] = {'butter_pass args/layout/trim': len(bps), 'butter_pass linearity': len(lins), 'butter_pass gain': len(gains),
                               'remove_poly': len(polys), 'remove_poly long records': len(longs), 'remove_poly idempotent/absorbs': len(sames), 'adds': len(adds), 'running_average': len(ravgs)}
    rep.correspond('model.K_C17', 'check_case', allc, describe='model_out %s', max_cases=300)


def finish(rep):
    return rep.finish(rule=RULE, trusted=TRUSTED,
                      assumptions=['exact real arithmetic in the theorems',
                                   'oracle contract for scipy butter+filtfilt (linear, length-preserving, zero-phase |H|^2 response on long sinusoids): hypothesis of the *_partial theorems, validated numerically per run',
                                   'np.polyfit returns a solution of the normal equations (hypothesis of the detrending theorems)'])


def replay_call(rp):
    """re-run the recorded call on the implementation (used by harness/replay.py)"""
    import eqsig
    from eqsig.fns.generic import remove_poly
    a, fn = rp.get('args', {}), rp.get('function', '')
    if 'butter_pass' in fn:
        if 'values' in a and isinstance(a.get('cut_off'), list):
            if str(a.get('container', '')).startswith('array') and None not in a['cut_off']:
                # the recorded sequence: the same float64 cut_off array for two fresh copies of the record
                cut = np.array(a['cut_off'], dtype=float)
                outs = []
                for _ in range(2):
                    s = eqsig.Signal(np.array(a['values'], dtype=float), a['dt'])
                    s.butter_pass(cut, **a.get('kwargs', {}))
                    outs.append(s.values)
                return {'first_call': outs[0], 'second_call_same_cut_off_object': outs[1], 'cut_off_after': cut}
            s = eqsig.Signal(np.array(a['values'], dtype=float), a['dt'])
            s.butter_pass(tuple(a['cut_off']), **a.get('kwargs', {}))
            return s.values
        if 'n' in a:
            t = np.arange(a['n']) * a['dt']
            s = eqsig.Signal(a['amp'] * np.sin(2 * np.pi * a['f'] * t + a['phase']), a['dt'])
            s.butter_pass(tuple(a['cut_off']), **a.get('kwargs', {}))
            return s.values
        return 'not replayable from the file: %r' % (a.get('cut_off'),)
    if 'remove_poly' in fn:
        if 'values_pattern' in a:     # long record in compact form
            pat = a['values_pattern']
            a = dict(a, values=list(np.tile(np.array(pat, dtype=float), a['npts'] // len(pat) + 1)[:a['npts']]))
            fn = fn.replace('[long record]', '')
        if fn.startswith('eqsig.fns'):
            st = a.get('stored_as')
            arg = [int(v) for v in a['values']] if st == 'list' else np.array(a['values'], dtype=float).astype(st or float)
            return remove_poly(arg, a['poly_fit'])
        s = (eqsig.AccSignal if fn.startswith('Acc') else eqsig.Signal)(np.array(a['values'], dtype=float), a['dt'])
        s.remove_poly(a['poly_fit'])
        return s.values
    if 'running_average' in fn:
        v = np.array(a['values'], dtype=int) if a.get('dtype') == 'int' else np.array(a['values'], dtype=float)
        s = eqsig.Signal(v, a['dt'])
        s.running_average(a['width'])
        return s.values
    s = eqsig.Signal(np.array(a['values'], dtype=float), a['dt'])
    if a.get('stored_as'):
        s = eqsig.Signal([int(v) for v in a['values']] if a['stored_as'] == 'list' else np.array(a['values'], dtype=a['stored_as']), a['dt'])
    try:
        if 'add_constant' in fn:
            s.add_constant(a['constant'])
        elif fn.endswith('add_series'):
            s.add_series(np.array(a['series'], dtype=float))
        elif 'other_values' in a:
            s.add_signal(eqsig.Signal(np.array(a['other_values'], dtype=float), a['other_dt']))
        else:
            return 'not replayable from the file'
    except Exception as e:  # noqa
        return 'raised %s: %s' % (type(e).__name__, e)
    return s.values
