"""C20 — interpolation, averaging, step-fit and design-spectrum helpers match definitions."""
import os, sys, re, math
import numpy as np
from fractions import Fraction
from concurrent.futures import ThreadPoolExecutor
from harness import core, gens
from harness.core import q, qlist, qmat, Case, guarded, ImplError, frac

RULE = ('helpers through eqsig.fns.*: interp2d (1..12 strictly increasing nodes: integer, dyadic, arbitrary float, also repeated nodes and gaps below 1e-10; '
        'queries on nodes, midway, inside, beyond both ends; 1..4 columns, signed data; rtol 1e-12 of max|f|, 1e-10 for arbitrary-float or sub-1e-10 node spacing), interp_left (sorted nodes with repeats, scalar and list queries, '
        'y given / None, queries below the first node must raise AssertionError; exact), calc_roll_av_vals (len 1..40, steps 1..len and a few above, forward/backward/centre/center, '
        'constant series; rtol 1e-11 of max|v| (running-sum cancellation); length kept and constants preserved evaluated on the implementation output), calc_step_fn_vals_error (len 1..30, pow 1,2,3, positive, negative and mixed data, '
        'dir None/down/up; rtol 1e-11 of npts*max|v|^p; also compared with the definition itself), calc_step_fn_steps_vals (given split and argmin split; '
        'cases whose argmin or dir comparison is decided by less than 1e-9 are counted fragile and skipped; a split with an empty side must give NaN for that side and the mean of the other: '
        'ind = 0 and ind = npts-1 passed explicitly as Python int and as np.int64 on records whose best-fit split is elsewhere, the argmin split when it is the first or last sample, and '
        'ind = argmin of a dir=down / dir=up error curve (first-sample spike followed by a step the other way, so the constrained split is 0; the model takes the split from its own constrained curve)); '
        'design spectra: c_h_factor (scalar and list), sd_nzs, t_eff point-checked by `interval` against the regenerated Coq definitions on a period grid straddling every segment boundary '
        '(b-ulp, b, b+ulp), T=0, negative T and unknown site class (must raise ValueError), tol 1e-12; relational clauses S_d = C_h T^2 Z N R, boundary jumps and t_eff(lam d_c) = 3 lam '
        'evaluated on implementation outputs; non-trivial = helper input with >= 3 samples/nodes that is not constant, or a design-spectrum call with T > 0')
TRUSTED = [
    'Coq 8.16.1 kernel + vm_compute; Coq Interval tactic for the point-checks and for C20_ch_jumps (emulated floats over primitive 63-bit integers: the stdlib Uint63/PrimInt63 specification axioms appear under Print Assumptions of that one theorem)',
    'hand-written model coq/model/M_helpers.v; tie = correspondence of this run (model/K_C20.v) AND, for every helper (interp2d included), the source-text tie (generated definitions proved equal to the model)',
    'translator/py2coq_design.py (Python ast -> coq/gen/Gen_design_spectra.v, fail-closed, float literals read as their decimal text); tie = regenerated on this run + interval point-checks',
    'c_h_factor: only the scalar kernel is translated; the element loop wrapper is matched syntactically and exercised by list calls',
    'translator/py2coq_helpers.py (Python ast -> coq/gen/Gen_helpers.v, fail-closed) and the numpy readings of coq/lib/NpHelpers.v / NpList.v: calc_roll_av_vals, calc_step_fn_vals_error, calc_step_fn_steps_vals, interp_left are PROVED equal to the hand model (C20_*_is_source); shapes of element-wise operands are not checked by the reading',
    'translator/py2coq_interp2d.py (same grammar, -> coq/gen/Gen_interp2d.v) and the numpy readings of coq/lib/NpInterp.v (column broadcast, argmin(axis=1), np.where / np.clip on index arrays, row selection): interp2d is PROVED equal to the hand model with eps = the decimal literal 1e-10 (C20_interp2d_is_source); the float 1e-10 differs from 1/10^10 by rounding',
    'np.searchsorted(side=right) modelled as the count of leading nodes <= query (equal on sorted nodes)',
    'exact arithmetic (rounding not modelled; measured against the stated tolerances); x ** 0.75 = Rpower x (3/4)',
    'Python harness (generators, rational encoding, fragile-case classification on the inputs, result parsing)',
]
# The Interval tactic (used by Prop_C20.C20_ch_jumps only, with emulated floats: `i_prec 60`) computes with Coq's primitive
# 63-bit integers (Bignums); their specifications are axioms declared by the standard library (Coq.Numbers.Cyclic.Int63).
# They are allowed for this property only, are listed in the evidence, and no other theorem of Prop_C20 depends on them.
PRIMINT_AXIOMS = set('''PrimInt63.add PrimInt63.addc PrimInt63.addcarryc PrimInt63.addmuldiv PrimInt63.compare PrimInt63.div PrimInt63.diveucl
PrimInt63.diveucl_21 PrimInt63.eqb PrimInt63.head0 PrimInt63.int PrimInt63.land PrimInt63.leb PrimInt63.lor PrimInt63.lsl PrimInt63.lsr
PrimInt63.ltb PrimInt63.lxor PrimInt63.mod PrimInt63.mul PrimInt63.mulc PrimInt63.sub PrimInt63.subc PrimInt63.subcarryc PrimInt63.tail0
Uint63.add_spec Uint63.addc_def_spec Uint63.addcarryc_def_spec Uint63.addmuldiv_def_spec Uint63.compare_def_spec Uint63.div_spec
Uint63.diveucl_21_spec Uint63.diveucl_def_spec Uint63.eqb_correct Uint63.eqb_refl Uint63.head0_spec Uint63.land_spec Uint63.leb_spec
Uint63.lor_spec Uint63.lsl_spec Uint63.lsr_spec Uint63.ltb_spec Uint63.lxor_spec Uint63.mod_spec Uint63.mul_spec Uint63.mulc_spec
Uint63.of_to_Z Uint63.sub_spec Uint63.subc_def_spec Uint63.subcarryc_def_spec Uint63.tail0_spec'''.split())
INT_DTYPE = True   # always on: integer-dtype input truncates the error array (known finding, see known_findings.json; a pinned test asserts the truncated value, so it is recorded, not repaired)

EPS = 1e-10
MODES = {'forward': 'Forward', 'backward': 'Backward', 'centre': 'Centre', 'center': 'Centre'}
DIRS = {None: 'DNone', 'down': 'DDown', 'up': 'DUp'}
BOUNDS = {'C': [0.1, 0.3, 1.5, 3.0], 'D': [0.1, 0.56, 1.5, 3.0], 'E': [0.1, 1.0, 1.5, 3.0]}
# proved bound of the jump at each boundary (Prop_C20.C20_ch_jumps): 1/200 everywhere except D at 0.56 (1/80)
JUMP_TOL = {('D', 0.56): 1.0 / 80}


def fl(xs):
    return [float(v) for v in xs]


# ------------------------------------------------------------------ generators
def gen_values(rng, n, kind=None):
    """series with positive, negative and mixed data; integer, dyadic or arbitrary float"""
    kind = kind or rng.choice(['int', 'int', 'neg', 'pos', 'dyadic', 'float', 'offset', 'const', 'step'])
    if kind == 'int':
        v = [rng.randint(-9, 9) for _ in range(n)]
    elif kind == 'neg':
        v = [-rng.randint(1, 12) for _ in range(n)]
    elif kind == 'pos':
        v = [rng.randint(1, 12) for _ in range(n)]
    elif kind == 'dyadic':
        v = [rng.randint(-64, 64) / 8.0 for _ in range(n)]
    elif kind == 'float':
        v = [rng.gauss(0, 2) for _ in range(n)]
    elif kind == 'offset':
        c = rng.choice([-50.0, 20.0, -3.5])
        v = [c + rng.gauss(0, 1) for _ in range(n)]
    elif kind == 'const':
        c = float(rng.choice([-4, 3, 0.1, -2.5, 7]))
        v = [c] * n
    else:  # step: two levels (possibly both negative) + small noise
        k = rng.randint(0, n)
        a, b = rng.choice([(-1.5, 5.5), (4, 1), (-6, -2), (2, -3)])
        v = [(a if i < k else b) + rng.choice([0, 0, 0.5, -0.5, 1]) for i in range(n)]
    return fl(v), kind


def gen_nodes(rng, n):
    kind = rng.choice(['int', 'int', 'dyadic', 'float', 'dup', 'tight'])
    if kind == 'int':
        x0 = rng.randint(-5, 5)
        xs = [x0]
        for _ in range(n - 1):
            xs.append(xs[-1] + rng.randint(1, 4))
    elif kind == 'dyadic':
        x0 = rng.randint(-40, 40) / 8.0
        xs = [x0]
        for _ in range(n - 1):
            xs.append(xs[-1] + rng.choice([0.125, 0.25, 0.5, 1.0, 2.0]))
    elif kind == 'float':
        xs = sorted(set(rng.uniform(-3, 7) for _ in range(n)))
    elif kind == 'dup':
        xs = sorted(rng.randint(-3, 6) for _ in range(n))
    else:  # some gaps below the 1e-10 clip
        xs = [float(rng.randint(-3, 3))]
        for _ in range(n - 1):
            xs.append(xs[-1] + rng.choice([2.0 ** -40, 2.0 ** -36, 1.0, 0.5]))
    return fl(xs), kind


def gen_queries(rng, xs, k):
    out = []
    lo, hi = xs[0], xs[-1]
    for _ in range(k):
        r = rng.random()
        if r < 0.25:
            out.append(rng.choice(xs))
        elif r < 0.45 and len(xs) > 1:
            i = rng.randrange(len(xs) - 1)
            out.append((xs[i] + xs[i + 1]) / 2)
        elif r < 0.75:
            out.append(rng.uniform(lo, hi) if hi > lo else lo)
        elif r < 0.87:
            out.append(lo - rng.choice([0.25, 1.0, 3.7, 1e-9]))
        else:
            out.append(hi + rng.choice([0.25, 1.0, 3.7, 1e-9]))
    return fl(out)


# ------------------------------------------------------------------ helper cases
def helper_cases(rep, rng, tier):
    import eqsig
    from eqsig import fns
    cases = []
    stats = {'fragile_skipped': 0, 'degenerate_nan_side': 0}
    N = 1 if tier == 'quick' else 10

    def bad(site, args, r):
        rep.violation(site, {'function': site, 'args': args, 'impl_error': str(r)})

    # ---- interp2d
    for k in range(120 * N):
        n = rng.choice([1, 2, 2, 3, 4, 5, 6, 8, 12])
        xf, kind = gen_nodes(rng, n)
        n = len(xf)
        m = rng.randint(1, 4)
        fk = rng.choice(['int', 'float', 'neg'])
        f = [[float(rng.randint(-9, 9)) if fk == 'int' else (rng.gauss(0, 3) if fk == 'float' else -float(rng.randint(1, 20))) for _ in range(m)] for _ in range(n)]
        x = gen_queries(rng, xf, rng.randint(1, 8))
        site = 'interp2d'
        args = {'x': x, 'xf': xf, 'f': f}
        r = guarded(fns.interp2d, np.array(x), np.array(xf), np.array(f))
        if isinstance(r, ImplError):
            bad(site, args, r)
            continue
        out = [fl(row) for row in np.asarray(r, dtype=float)]
        # arbitrary float nodes can be close: the rounding of x - a0 is amplified by 1/denom, hence the wider band there
        coq = 'KInterp2d %s %s %s %s %s %s' % (q(EPS), qlist(x), qlist(xf), qmat(f), qmat(out), q(1e-10 if kind in ('float', 'tight') else 1e-12))
        cases.append(Case(coq, {'function': 'eqsig.fns.interp2d', 'args': args, 'impl': out}, site,
                          nontrivial=(n >= 3 and len(set(map(tuple, f))) > 1), klass='interp2d/' + kind))

    # ---- interp_left
    for k in range(120 * N):
        n = rng.choice([1, 2, 3, 4, 6, 9])
        xs, kind = gen_nodes(rng, n)
        n = len(xs)
        below = rng.random() < 0.15
        qs = [v for v in gen_queries(rng, xs, rng.randint(1, 6)) if below or v >= xs[0]] or [xs[0]]
        scalar = rng.random() < 0.3
        if scalar:
            qs = qs[:1]
        y = None if rng.random() < 0.4 else [float(rng.randint(-20, 20)) / rng.choice([1, 4]) for _ in range(n)]
        site = 'interp_left'
        args = {'x0': qs[0] if scalar else qs, 'x': xs, 'y': y}
        r = guarded(fns.interp_left, qs[0] if scalar else np.array(qs), np.array(xs), y)
        if isinstance(r, ImplError):
            if not str(r).startswith('AssertionError'):
                bad(site, args, r)
                continue
            out = None
        else:
            out = fl(np.atleast_1d(r))
        coq = 'KInterpLeft %s %s %s %s' % (qlist(qs), qlist(xs), 'None' if y is None else '(Some %s)' % qlist(y),
                                            'None' if out is None else '(Some %s)' % qlist(out))
        cases.append(Case(coq, {'function': 'eqsig.fns.interp_left', 'args': args, 'impl': out if out is not None else 'AssertionError'}, site,
                          nontrivial=(n >= 3), klass='interp_left/%s/%s' % (kind, 'raises' if out is None else ('scalar' if scalar else 'list'))))

    # ---- calc_roll_av_vals
    for k in range(150 * N):
        n = gens.small_len(rng, 1, 40)
        v, kind = gen_values(rng, n)
        steps = rng.randint(1, n) if rng.random() < 0.9 else n + rng.randint(1, 3)
        mode = rng.choice(['forward', 'backward', 'centre', 'center'])
        site = 'calc_roll_av_vals[%s]' % mode
        args = {'values': v, 'steps': steps, 'mode': mode}
        r = guarded(fns.calc_roll_av_vals, list(v), steps, mode=mode)
        if isinstance(r, ImplError):
            bad(site, args, r)
            continue
        out = fl(r)
        coq = 'KRollAv %d %s %s %s %s' % (steps, MODES[mode], qlist(v), qlist(out), q(1e-11))
        cases.append(Case(coq, {'function': 'eqsig.fns.calc_roll_av_vals', 'args': args, 'impl': out}, site,
                          nontrivial=(n >= 3 and len(set(v)) > 1), klass='roll_av/%s/%s' % (mode, kind)))

    # ---- calc_step_fn_vals_error
    def dir_fragile(v):
        fv = [frac(a) for a in v]
        n = len(fv)
        sc = max(1, max(abs(a) for a in fv))
        for i in range(n):
            pre = sum(fv[:i + 1]) / (i + 1)
            post = sum(fv[i:]) / (n - i)
            if pre != post and abs(pre - post) < Fraction(1, 10 ** 9) * sc:
                return True
            if pre == post and kind_is_float(v):
                return True
        return False

    def kind_is_float(v):
        return any(frac(a).denominator > 64 for a in v)

    for k in range(150 * N):
        n = gens.small_len(rng, 1, 30)
        v, kind = gen_values(rng, n)
        p = rng.choice([1, 1, 2, 2, 3])
        d = rng.choice([None, None, 'down', 'up'])
        if d is not None and dir_fragile(v):
            stats['fragile_skipped'] += 1
            d = None
        site = 'calc_step_fn_vals_error[pow=%d,dir=%s]' % (p, d)
        args = {'values': v, 'pow': p, 'dir': d}
        inp = np.array(v, dtype=float)
        r = guarded(fns.calc_step_fn_vals_error, inp, pow=p, dir=d)
        if isinstance(r, ImplError):
            bad(site, args, r)
            continue
        out = fl(r)
        coq = 'KStepErr %d %s %s %s %s' % (p, DIRS[d], qlist(v), qlist(out), q(1e-11))
        cases.append(Case(coq, {'function': 'eqsig.fns.calc_step_fn_vals_error', 'args': args, 'impl': out}, site,
                          nontrivial=(n >= 3 and len(set(v)) > 1), klass='step_err/p%d/%s/%s' % (p, d, kind)))
    if INT_DTYPE:
        for v in ([1, 2, 1, 2, 5, 6, 5, 7], [4, 5, 4, 4, 1, 1, 2, 2], [-1, -2, -1, -2, 5, 6, 5, 7]):
            site = 'calc_step_fn_vals_error[int-dtype input]'
            args = {'values': v, 'pow': 1, 'dir': None, 'dtype': 'int'}
            r = guarded(fns.calc_step_fn_vals_error, list(v), pow=1)
            if isinstance(r, ImplError):
                bad(site, args, r)
                continue
            out = fl(r)
            cases.append(Case('KStepErr 1 DNone %s %s %s' % (qlist(v), qlist(out), q(1e-11)),
                              {'function': 'eqsig.fns.calc_step_fn_vals_error', 'args': args, 'impl': out}, site, klass='step_err/int-dtype'))

    # ---- calc_step_fn_steps_vals
    def optq(x):
        return 'None' if x != x else '(Some %s)' % q(x)

    def levels_n(site, v, ind_arg, indtxt, args, klass, nontriv):
        """one call whose split may leave a side empty; a NaN level is shipped as None (KStepLevelsN)"""
        import warnings
        inp = np.array(v, dtype=float)

        def call():
            with warnings.catch_warnings():
                warnings.simplefilter('ignore')     # numpy: "Mean of empty slice"
                return fns.calc_step_fn_steps_vals(inp) if ind_arg is None else fns.calc_step_fn_steps_vals(inp, ind_arg)

        r = guarded(call)
        if isinstance(r, ImplError):
            bad(site, args, r)
            return
        pre, post = float(r[0]), float(r[1])
        if any(x in (float('inf'), float('-inf')) for x in (pre, post)):
            bad(site, args, 'non-finite level %r' % ((pre, post),))
            return
        coq = 'KStepLevelsN %s %s %s %s %s' % (qlist(v), indtxt, optq(pre), optq(post), q(1e-13))
        cases.append(Case(coq, {'function': 'eqsig.fns.calc_step_fn_steps_vals', 'args': args, 'impl': [repr(pre), repr(post)]}, site,
                          nontrivial=nontriv, klass=klass))

    def clear_argmin(e, v):
        """index of the minimum of an implementation error curve, or None when it is decided by less than 1e-9 of the scale"""
        es = sorted(fl(e))
        sc = max(1.0, max(abs(a) for a in v)) * len(v)
        if len(es) > 1 and es[1] - es[0] <= 1e-9 * sc:
            return None
        return int(np.argmin(e))

    # split at the very first / very last sample, passed explicitly (Python int and numpy integer) on records whose best-fit split is elsewhere
    for k in range(40 * N):
        n = gens.small_len(rng, 3, 30)
        v, kind = gen_values(rng, n, kind=rng.choice(['step', 'step', 'int', 'neg', 'float', 'offset', 'dyadic']))
        e = guarded(fns.calc_step_fn_vals_error, np.array(v, dtype=float))
        if isinstance(e, ImplError):
            bad('calc_step_fn_vals_error[pow=1,dir=None]', {'values': v}, e)
            continue
        best = clear_argmin(e, v)
        ind = [0, 0, 0, n - 1][k % 4]
        as_np = (k // 4) % 2 == 1
        ind_arg = np.int64(ind) if as_np else ind
        levels_n('calc_step_fn_steps_vals[ind]', v, ind_arg, '(Some %d%%nat)' % ind,
                 {'values': v, 'ind': ind, 'ind_type': 'np.int64' if as_np else 'int'},
                 'step_levels/ind=%s/%s/%s' % ('0' if ind == 0 else 'last', 'np.int64' if as_np else 'int', kind),
                 best is not None and best != ind and len(set(v)) > 1)

    # split chosen by the caller from a direction-constrained error curve: steps_vals(values, argmin(vals_error(values, dir=d)));
    # spike / trough at the first sample followed by a step the other way: the only admissible split is 0, the unconstrained best fit is not.
    # The model takes the split from ITS OWN constrained curve (argmin (step_err 1 d v)), so the whole chain is compared.
    for k in range(30 * N):
        d = ['down', 'down', 'up'][k % 3]
        sgn = 1.0 if d == 'down' else -1.0
        n1, n2 = rng.randint(2, 8), rng.randint(2, 8)
        lo_l, st_h = rng.randint(-3, 3), rng.randint(2, 6)
        sc = rng.choice([1.0, 0.5, 0.125])
        jit = (lambda: rng.choice([0, 0, 0, 1, -1]) * 0.25) if k % 2 else (lambda: 0)
        v = [lo_l + st_h + rng.randint(2, 5) + st_h] + [lo_l + jit() for _ in range(n1)] + [lo_l + st_h + jit() for _ in range(n2)]
        if k % 5 == 4:                      # ordinary records too: the constrained split is wherever it is
            v, _ = gen_values(rng, len(v), kind=rng.choice(['step', 'int', 'dyadic']))
        v = fl([sgn * sc * x for x in v])
        if dir_fragile(v):
            stats['fragile_skipped'] += 1
            continue
        e_d = guarded(fns.calc_step_fn_vals_error, np.array(v, dtype=float), dir=d)
        e_0 = guarded(fns.calc_step_fn_vals_error, np.array(v, dtype=float))
        if isinstance(e_d, ImplError) or isinstance(e_0, ImplError):
            bad('calc_step_fn_vals_error[pow=1,dir=%s]' % d, {'values': v, 'dir': d}, e_d if isinstance(e_d, ImplError) else e_0)
            continue
        ind, best = clear_argmin(e_d, v), clear_argmin(e_0, v)
        if ind is None:
            stats['fragile_skipped'] += 1
            continue
        cases.append(Case('KStepErr 1 %s %s %s %s' % (DIRS[d], qlist(v), qlist(fl(e_d)), q(1e-11)),
                          {'function': 'eqsig.fns.calc_step_fn_vals_error', 'args': {'values': v, 'pow': 1, 'dir': d}, 'impl': fl(e_d)},
                          'calc_step_fn_vals_error[pow=1,dir=%s]' % d, nontrivial=len(set(v)) > 1, klass='step_err/p1/%s/first-sample-spike' % d))
        ind_arg = np.argmin(e_d) if k % 2 else ind          # the numpy integer np.argmin returns, or a Python int
        levels_n('calc_step_fn_steps_vals[ind=argmin of the dir=%s curve]' % d, v, ind_arg,
                 '(Some (argmin (step_err 1%%nat %s %s)))' % (DIRS[d], qlist(v)),
                 {'values': v, 'ind': ind, 'ind_from': "argmin(calc_step_fn_vals_error(values, dir='%s'))" % d, 'ind_type': 'np.int64' if k % 2 else 'int'},
                 'step_levels/ind-from-dir=%s/split=%s' % (d, '0' if ind == 0 else ('last' if ind == len(v) - 1 else 'inside')),
                 best is not None and best != ind)

    for k in range(120 * N):
        n = gens.small_len(rng, 3, 30)
        v, kind = gen_values(rng, n, kind=rng.choice(['step', 'step', 'int', 'neg', 'float', 'offset', 'dyadic']))
        auto = rng.random() < 0.5
        inp = np.array(v, dtype=float)
        if auto:
            e = guarded(fns.calc_step_fn_vals_error, inp)
            if isinstance(e, ImplError):
                bad('calc_step_fn_vals_error[pow=1,dir=None]', {'values': v}, e)
                continue
            es = sorted(fl(e))
            sc = max(1.0, max(abs(a) for a in v)) * n
            if len(es) > 1 and es[1] - es[0] <= 1e-9 * sc:
                stats['fragile_skipped'] += 1
                continue
            ind = int(np.argmin(e))
            if ind == 0 or ind == n - 1:
                # an empty side: the level of that side must be NaN (the mean of no samples), the other side its mean
                stats['degenerate_nan_side'] += 1
                levels_n('calc_step_fn_steps_vals[argmin]', v, None, 'None', {'values': v, 'ind': None}, 'step_levels/argmin-empty-side/' + kind, True)
                continue
            r = guarded(fns.calc_step_fn_steps_vals, inp)
            indtxt = 'None'
        else:
            ind = rng.randint(1, n - 2)
            r = guarded(fns.calc_step_fn_steps_vals, inp, ind)
            indtxt = '(Some %d%%nat)' % ind
        site = 'calc_step_fn_steps_vals[%s]' % ('argmin' if auto else 'ind')
        args = {'values': v, 'ind': None if auto else ind}
        if isinstance(r, ImplError):
            bad(site, args, r)
            continue
        pre, post = float(r[0]), float(r[1])
        coq = 'KStepLevels %s %s %s %s %s' % (qlist(v), indtxt, q(pre), q(post), q(1e-13))
        cases.append(Case(coq, {'function': 'eqsig.fns.calc_step_fn_steps_vals', 'args': args, 'impl': [pre, post]}, site,
                          nontrivial=(len(set(v)) > 1), klass='step_levels/%s/%s' % ('argmin' if auto else 'ind', kind)))
    return cases, stats


# ------------------------------------------------------------------ design spectra
def rq(x):
    """exact rational of a float as an R-scope term"""
    f = frac(x)
    if f.denominator == 1:
        return '(%d)' % f.numerator
    return '(%d / %d)' % (f.numerator, f.denominator)


def period_grid(rng, c, tier):
    ps = [0.0, 5e-324, 1e-9, 0.05, 0.2, 0.7, 1.2, 2.0, 2.5, 4.0, 10.0, 250.0]
    for b in BOUNDS[c]:
        ps += [float(np.nextafter(b, 0)), b, float(np.nextafter(b, 10)), b - 1e-6, b + 1e-6]
    ps += [rng.uniform(0, 0.1), rng.uniform(0.1, 1.5), rng.uniform(0.1, 1.5), rng.uniform(1.5, 3), rng.uniform(3, 8)]
    if tier != 'quick':
        ps += [rng.uniform(0, 4) for _ in range(60)] + [rng.uniform(0, 0.12) for _ in range(10)]
    return ps


def call_design(fn, *a):
    """(value | None if ValueError was raised | ImplError for anything else)"""
    r = guarded(fn, *a)
    if isinstance(r, ImplError):
        return None if str(r).startswith('ValueError') else r
    return r


def design_points(rep, rng, tier):
    """returns (point-check goals, relational cases)"""
    import eqsig.design_spectra as ds
    import io, contextlib
    pts, rel = [], []

    def quiet(fn, *a):
        with contextlib.redirect_stdout(io.StringIO()):
            return call_design(fn, *a)

    def add_pt(site, term, obs, tol_scale, replay):
        if isinstance(obs, ImplError):
            rep.violation(site, dict(replay, impl_error=str(obs)))
            return
        if obs is None:
            o, tol = 'None', 1e-12
        else:
            o, tol = '(Some %s)' % rq(obs), 1e-12 * max(1.0, abs(tol_scale))
        pts.append({'site': site, 'nontrivial': obs is not None, 'goal': 'opt_close (%s) %s %s' % (term, o, rq(tol)),
                    'replay': dict(replay, impl=('ValueError' if obs is None else float(obs)))})

    for c in ['C', 'D', 'E']:
        grid = period_grid(rng, c, tier)
        z, r_, n_ = rng.choice([0.13, 0.3, 0.4]), rng.choice([0.5, 1.0, 1.3, 1.8]), rng.choice([1.0, 1.12])
        for t in grid:
            ch = quiet(ds.c_h_factor, float(t), c)
            add_pt('c_h_factor', 'c_h_factor %s "%s"' % (rq(t), c), ch, ch if isinstance(ch, float) else 1,
                   {'function': 'eqsig.design_spectra.c_h_factor', 'args': {'period': t, 'site_class': c}})
            sd = quiet(ds.sd_nzs, float(t), c, z, r_, n_)
            add_pt('sd_nzs', 'sd_nzs %s "%s" %s %s %s' % (rq(t), c, rq(z), rq(r_), rq(n_)), sd, sd if isinstance(sd, float) else 1,
                   {'function': 'eqsig.design_spectra.sd_nzs', 'args': {'period': t, 'site_class': c, 'z': z, 'r': r_, 'n': n_}})
            if isinstance(ch, float) and isinstance(sd, float):
                rel.append(Case('KSdCh %s %s %s %s %s %s %s' % (q(t), q(z), q(r_), q(n_), q(sd), q(ch), q(1e-12)),
                                {'function': 'sd_nzs = c_h_factor*T^2*Z*N*R', 'args': {'period': t, 'site_class': c, 'z': z, 'r': r_, 'n': n_},
                                 'impl': {'sd_nzs': sd, 'c_h_factor': ch}}, 'sd_nzs=c_h*T^2*Z*N*R', nontrivial=t > 0, klass='design/sd_eq_ch/' + c))
        # list call = element-wise kernel
        lst = [float(t) for t in grid[:14]]
        arr = quiet(ds.c_h_factor, lst, c)
        if isinstance(arr, ImplError) or arr is None:
            rep.violation('c_h_factor[list]', {'function': 'eqsig.design_spectra.c_h_factor', 'args': {'period': lst, 'site_class': c}, 'impl_error': str(arr)})
        else:
            if len(arr) != len(lst):
                rep.violation('c_h_factor[list]', {'function': 'eqsig.design_spectra.c_h_factor', 'args': {'period': lst, 'site_class': c}, 'impl': 'length %d' % len(arr)})
            for t, v in zip(lst, arr):
                add_pt('c_h_factor[list]', 'c_h_factor %s "%s"' % (rq(t), c), float(v), float(v),
                       {'function': 'eqsig.design_spectra.c_h_factor', 'args': {'period': lst, 'site_class': c, 'element': t}})
        # rejected arguments
        for t in (-1e-9, -0.5):
            add_pt('c_h_factor', 'c_h_factor %s "%s"' % (rq(t), c), quiet(ds.c_h_factor, t, c), 1,
                   {'function': 'eqsig.design_spectra.c_h_factor', 'args': {'period': t, 'site_class': c}})
            add_pt('sd_nzs', 'sd_nzs %s "%s" %s %s %s' % (rq(t), c, rq(z), rq(r_), rq(n_)), quiet(ds.sd_nzs, t, c, z, r_, n_), 1,
                   {'function': 'eqsig.design_spectra.sd_nzs', 'args': {'period': t, 'site_class': c, 'z': z, 'r': r_, 'n': n_}})
        # boundary jumps on implementation outputs
        for b in [0.0] + BOUNDS[c]:
            lft = quiet(ds.c_h_factor, float(np.nextafter(b, -1)) if b > 0 else 0.0, c)
            rgt = quiet(ds.c_h_factor, float(b) if b > 0 else 5e-324, c)
            if isinstance(lft, float) and isinstance(rgt, float):
                tol = JUMP_TOL.get((c, b), 1.0 / 200)
                rel.append(Case('KJump %s %s %s' % (q(lft), q(rgt), q(tol)),
                                {'function': 'c_h_factor across boundary', 'args': {'boundary': b, 'site_class': c}, 'impl': {'left': lft, 'right': rgt}},
                                'c_h_factor[boundary jump]', klass='design/jump/' + c))
        # t_eff
        sd3 = quiet(ds.sd_nzs, 3.0, c, z, r_, n_)
        if isinstance(sd3, float):
            dc = sd3 / (2 * np.pi) ** 2 * 9.81
            lams = [0.0, 0.001, 0.25, 0.5, 1 - 1e-9, rng.uniform(0, 1), rng.uniform(0, 1)] + ([rng.uniform(0, 1) for _ in range(20)] if tier != 'quick' else [])
            for lam in lams:
                d = lam * dc
                te = quiet(ds.t_eff, d, c, z, r_, n_)
                add_pt('t_eff', 't_eff %s "%s" %s %s %s' % (rq(d), c, rq(z), rq(r_), rq(n_)), te, te if isinstance(te, float) else 1,
                       {'function': 'eqsig.design_spectra.t_eff', 'args': {'displacement': d, 'site_class': c, 'z': z, 'r': r_, 'n': n_}})
                if isinstance(te, float):
                    rel.append(Case('KTeff %s %s %s' % (q(lam), q(te), q(1e-12)),
                                    {'function': 't_eff(lam*d_c) = 3 lam', 'args': {'lam': lam, 'displacement': d, 'site_class': c, 'z': z, 'r': r_, 'n': n_}, 'impl': te},
                                    't_eff[inverse at corner]', nontrivial=lam > 0, klass='design/t_eff/' + c))
            for fac in (1.001, 2.0):
                d = fac * dc
                add_pt('t_eff', 't_eff %s "%s" %s %s %s' % (rq(d), c, rq(z), rq(r_), rq(n_)), quiet(ds.t_eff, d, c, z, r_, n_), 1,
                       {'function': 'eqsig.design_spectra.t_eff', 'args': {'displacement': d, 'site_class': c, 'z': z, 'r': r_, 'n': n_}})
    for c in ('A', 'c', 'CD'):
        add_pt('c_h_factor', 'c_h_factor %s "%s"' % (rq(0.5), c), quiet(ds.c_h_factor, 0.5, c), 1,
               {'function': 'eqsig.design_spectra.c_h_factor', 'args': {'period': 0.5, 'site_class': c}})
        add_pt('sd_nzs', 'sd_nzs %s "%s" 1 1 1' % (rq(0.5), c), quiet(ds.sd_nzs, 0.5, c, 1.0, 1.0, 1.0), 1,
               {'function': 'eqsig.design_spectra.sd_nzs', 'args': {'period': 0.5, 'site_class': c}})
        add_pt('t_eff', 't_eff %s "%s" 1 1 1' % (rq(0.01), c), quiet(ds.t_eff, 0.01, c, 1.0, 1.0, 1.0), 1,
               {'function': 'eqsig.design_spectra.t_eff', 'args': {'displacement': 0.01, 'site_class': c}})
    return pts, rel


PT_HEADER = """From Coq Require Import Reals String Lra.
From Interval Require Import Tactic.
From EQ Require Import lib.Num gen.Gen_design_spectra model.K_C20_design.
Local Open Scope R_scope.
"""


def run_point_checks(rep, pts, timeout=600):
    """one goal per call, decided inside Coq by `pt_check`; a goal that does not check is a failing input"""
    if not pts:
        return
    os.makedirs(core.RUN, exist_ok=True)
    nsh = max(1, min(core.NPROC, (len(pts) + 19) // 20))   # one shard per worker: loading Interval costs ~1.3 s per file
    shards = [list(range(k, len(pts), nsh)) for k in range(nsh)]

    def one(k):
        path = os.path.join(core.RUN, 'C20_pt_%d.v' % k)
        with open(path, 'w') as f:
            f.write(PT_HEADER)
            for i in shards[k]:
                f.write('Goal True. tryif (assert (%s) by pt_check) then idtac "@@PT %d OK" else idtac "@@PT %d FAIL". exact I. Qed.\n'
                        % (pts[i]['goal'], i, i))
        rc, out, err, _ = core.sh('timeout %d coqc -Q %s EQ %s' % (timeout, core.COQ, path), timeout + 30, cwd=core.RUN)
        return k, rc, out, err

    res = {}
    with ThreadPoolExecutor(max_workers=core.NPROC) as ex:
        for k, rc, out, err in ex.map(one, range(nsh)):
            if rc != 0:
                rep.unchecked('pointcheck:shard%d' % k, (err or out)[-1500:])
            for m in re.finditer(r'@@PT (\d+) (OK|FAIL)', out):
                res[int(m.group(1))] = m.group(2)
    if not os.environ.get('VERIF_KEEP_RUN'):
        for fn in os.listdir(core.RUN):
            if fn.startswith('C20_pt_') or fn.startswith('.C20_pt_'):
                try:
                    os.remove(os.path.join(core.RUN, fn))
                except OSError:
                    pass
    nfail, seen = 0, set()
    for i, p in enumerate(pts):
        st = res.get(i)
        rep.cases.append(Case(p['goal'], p['replay'], p['site'], nontrivial=p['nontrivial'], klass='design/point/' + p['site']))
        if st == 'OK':
            continue
        nfail += 1
        if st is None:
            rep.unchecked('pointcheck:%s' % p['site'], 'no verdict for goal %d: %s' % (i, p['goal'][:300]))
        elif p['site'] not in seen:
            seen.add(p['site'])
            rep.violation(p['site'], p['replay'], coq_goal=p['goal'], note='generated Coq definition and implementation disagree (interval point-check failed)')
    rep.extra['point_checks'] = len(pts)
    rep.extra['point_checks_failed'] = nfail
    rep.obligations += len(pts)
    rep.discharged += len(pts) - nfail


# ------------------------------------------------------------------ entry points
def run(rep, rng, tier):
    core.ALLOWED_AXIOMS.update(PRIMINT_AXIOMS)   # this process only (see the comment at PRIMINT_AXIOMS)
    gen_failed = None
    try:
        sys.path.insert(0, os.path.join(core.VERIF, 'translator'))
        import py2coq_design
        py2coq_design.regenerate(repo=core.REPO)
    except Exception as e:  # fail closed
        gen_failed = 'py2coq_design: %s: %s' % (type(e).__name__, e)
    helpers_failed = None
    try:  # source-text tie of the helpers: gen/Gen_helpers.v is re-translated, the C20_*_is_source theorems re-checked
        import py2coq_helpers
        py2coq_helpers.regenerate(repo=core.REPO)
    except Exception as e:  # fail closed
        helpers_failed = 'py2coq_helpers: %s: %s' % (type(e).__name__, e)
    interp2d_failed = None
    try:  # source-text tie of interp2d: gen/Gen_interp2d.v is re-translated, the C20_interp2d_is_source theorems re-checked
        import py2coq_interp2d
        py2coq_interp2d.regenerate(repo=core.REPO)
    except Exception as e:  # fail closed
        interp2d_failed = 'py2coq_interp2d: %s: %s' % (type(e).__name__, e)
    rep.prove('Prop_C20', targets=['props/Prop_C20.vo', 'model/K_C20.vo', 'model/K_C20_design.vo'],
              gen_failed='; '.join(m for m in (gen_failed, helpers_failed, interp2d_failed) if m) or None)
    cases, stats = helper_cases(rep, rng, tier)
    rep.extra.update(stats)
    pts, rel = design_points(rep, rng, tier)
    rep.correspond('model.K_C20', 'check_case', cases + rel, describe='model_out (%s)')
    if gen_failed is None and os.path.exists(os.path.join(core.COQ, 'model', 'K_C20_design.vo')):
        run_point_checks(rep, pts)


def replay_call(replay):
    import eqsig
    from eqsig import fns
    import eqsig.design_spectra as ds
    name = replay['function'].split('.')[-1]
    a = replay['args']
    if name == 'interp2d':
        return fns.interp2d(np.array(a['x']), np.array(a['xf']), np.array(a['f']))
    if name == 'interp_left':
        return fns.interp_left(a['x0'] if not isinstance(a['x0'], list) else np.array(a['x0']), np.array(a['x']), a['y'])
    if name == 'calc_roll_av_vals':
        return fns.calc_roll_av_vals(a['values'], a['steps'], mode=a['mode'])
    if name == 'calc_step_fn_vals_error':
        v = a['values'] if a.get('dtype') == 'int' else np.array(a['values'], dtype=float)
        return fns.calc_step_fn_vals_error(v, pow=a.get('pow', 1), dir=a.get('dir'))
    if name == 'calc_step_fn_steps_vals':
        ind = np.int64(a['ind']) if a.get('ind_type') == 'np.int64' else a['ind']
        return fns.calc_step_fn_steps_vals(np.array(a['values'], dtype=float), ind)
    if name == 'c_h_factor':
        return ds.c_h_factor(a['period'], a['site_class'])
    if name == 'sd_nzs':
        return ds.sd_nzs(a['period'], a['site_class'], a.get('z', 1.0), a.get('r', 1.0), a.get('n', 1.0))
    if name == 't_eff':
        return ds.t_eff(a['displacement'], a['site_class'], a.get('z', 1.0), a.get('r', 1.0), a.get('n', 1.0))
    return 'no replay for %s' % name


def finish(rep):
    return rep.finish(rule=RULE, trusted=TRUSTED, assumptions=['exact real arithmetic in the theorems', 'strictly increasing nodes at least 1e-10 apart for the interp2d theorem; non-decreasing nodes for interp_left'])
