"""C02 — response operator is linear, causal, shift- and refinement-invariant.

Theorems (Prop_C02) are about model/M_sdof.v (+ the generated coefficient formulas for the refinement clause). The tie of
that model to the code is the same as C01's (translator + interval point checks + K_C01 correspondence); a reduced
set of those runs here. In addition every relation of the property is evaluated inside Coq (model/K_C02.v) on the
implementation's own outputs of two related executions: that is the predicate which exhibits a failing input.
"""
import math
import numpy as np
from harness import core, gens
from harness.core import q, qlist, qmat, natlist, Case, guarded, ImplError
from harness.props import c01

RULE = ('relations on implementation outputs of related executions of sdof.response_series / pseudo_response_spectra / true_response_spectra: '
        'linearity (pairs of records, scalars incl. 0 and negative; 1e-11 of |al|max|ra|+|be|max|rb|), causality (records sharing a prefix; first k samples identical, tolerance 0), '
        'shift (k zeros before a record starting at 0; identical, tolerance 0), period ordering/batching (permutations, sub-lists, singletons, leading 0 kept first; tolerance 0), '
        'refinement by m in 2..8 with 5 <= T/dt and T/(dt/m) <= 100 (1e-8 of the row peak; spectra never decrease), '
        'refinement with a long period and a fine step, 2*pi*(dt/m)/T in (7e-4, 1e-3) (and m = 2 with both records below 1e-3), xi in {.02,.05,.3,.7,.99}: velocity rows only, 1e-6 of the row peak, '
        'rows whose peak is below dt*sum|a|/4 skipped as fragile (the displacement entries of the closed forms cancel to ~1e-6 there on the unchanged tree, so displacement rows are not compared in that regime), '
        '|alpha| scaling of spectra (1e-12); '
        'plus a reduced C01 structural tie (K_C01) and the coefficient point checks; non-trivial = record not identically zero')
TRUSTED = [
    'Coq 8.16.1 kernel + vm_compute; Coquelicot, Interval',
    'translator/py2coq_scalar.py for compute_a_and_b (refinement theorem is about the translated formulas); hand model M_sdof.v tied as in C01',
    'relations are evaluated on implementation outputs inside Coq (model/K_C02.v); exact real arithmetic in the theorems (rounding measured: tolerances above)',
    'Python harness',
]


def mats(out):
    return [np.atleast_2d(np.array(x, dtype=float)) for x in out]


def rs(rec, dt, periods, xi):
    from eqsig import sdof
    return sdof.response_series(np.array(rec, dtype=float), dt, np.array(periods, dtype=float), xi)


def refine_record(rec, m):
    rec = np.array(rec, dtype=float)
    out = []
    for i in range(len(rec) - 1):
        for k in range(m):
            out.append(rec[i] + (rec[i + 1] - rec[i]) * k / m)
    out.append(rec[-1])
    return np.array(out)


def run(rep, rng, tier):
    from eqsig import sdof
    gen_err = c01.regen()
    rep.prove('Prop_C02', gen_failed=gen_err)
    N = 1 if tier == 'quick' else 8
    cases = []

    def viol(site, args, r):
        rep.violation(site, {'function': site, 'args': args, 'impl_error': str(r)})

    def add(coq, site, args, nz=True, extra=None):
        rp = {'function': site, 'args': args}
        if extra:
            rp.update(extra)
        cases.append(Case(coq, rp, site, nontrivial=nz, klass=site))

    def setup(maxlen=120, exact=False):
        n = gens.small_len(rng, 2, maxlen)
        rec, kind = c01.gen_record(rng, n, exact=exact)
        dt = rng.choice([0.01, 0.005, 0.02, 0.25])
        lead0 = rng.random() < 0.3
        periods = c01.gen_periods(rng, dt, lead0)[:4 + (1 if lead0 else 0)]
        xi = rng.choice(c01.XIS)
        return rec, dt, periods, xi

    names = ['u', 'v', 'a']
    # ---- linearity
    for k in range(20 * N):
        a, dt, periods, xi = setup()
        b, _ = c01.gen_record(rng, len(a))
        al, be = rng.choice([(2.0, -3.0), (1.0, 1.0), (0.5, 0.0), (-1.0, 0.25), (rng.uniform(-3, 3), rng.uniform(-3, 3))])
        args = {'dt': dt, 'xi': xi, 'periods': periods, 'a': list(map(float, a)), 'b': list(map(float, b)), 'alpha': al, 'beta': be}
        dtype = rng.choice([None, None, None, np.int32, np.float32])
        if dtype is not None:    # records stored as integers / single precision, combination exactly representable in that dtype
            a, b = np.round(a * 4), np.round(b * 4)
            al, be = rng.choice([(2.0, -3.0), (1.0, 1.0), (-1.0, 2.0)])
            args.update({'a': list(map(float, a)), 'b': list(map(float, b)), 'alpha': al, 'beta': be, 'dtype': np.dtype(dtype).name})
        cast = (lambda x: x) if dtype is None else (lambda x: np.array(x).astype(dtype))
        ra, rb, rab = (guarded(sdof.response_series, cast(x), dt, np.array(periods, dtype=float), xi) for x in (a, b, al * a + be * b))
        if any(isinstance(x, ImplError) for x in (ra, rb, rab)):
            viol('response_series[linearity]', args, [x for x in (ra, rb, rab) if isinstance(x, ImplError)][0])
            continue
        # tolerance per row: 1e-11 of the peak of the STATE norm in the units of the series (so that a velocity row that is
        # ~0 at every sample instant, e.g. xi = 0 with T/dt = 1, is not compared relative to its own rounding noise)
        ws = [0.0 if P == 0 else c01.C2PI / P for P in periods]

        def state_scale(r, j):
            u, v, acc = (np.abs(x).max(axis=1) for x in mats(r))
            w = np.array(ws)
            return [u + np.where(w > 0, v / np.where(w > 0, w, 1), 0), w * u + v, w * w * u + 2 * xi * w * v + acc][j]
        for j, nm in enumerate(names):
            tols = 1e-11 * (abs(al) * state_scale(ra, j) + abs(be) * state_scale(rb, j))
            add('KLinT %s %s %s %s %s %s' % (q(al), q(be), qlist(tols), qmat(mats(ra)[j]), qmat(mats(rb)[j]), qmat(mats(rab)[j])),
                'response_series[linearity:%s]' % nm, args, nz=bool(np.any(a != 0) or np.any(b != 0)))
    # ---- causality
    for k in range(20 * N):
        a, dt, periods, xi = setup()
        kk = rng.randint(1, len(a))
        a2 = a.copy()
        a2[kk:] = [rng.uniform(-5, 5) for _ in range(len(a) - kk)]
        if rng.random() < 0.3:
            a2 = np.concatenate([a2, [1.0, -2.0, 3.0]])
        args = {'dt': dt, 'xi': xi, 'periods': periods, 'a': list(map(float, a)), 'a2': list(map(float, a2)), 'k': kk}
        r1, r2 = guarded(rs, a, dt, periods, xi), guarded(rs, a2, dt, periods, xi)
        if isinstance(r1, ImplError) or isinstance(r2, ImplError):
            viol('response_series[causality]', args, r1 if isinstance(r1, ImplError) else r2)
            continue
        for j, nm in enumerate(names):
            add('KPrefix %d %s %s %s' % (kk, q(0.0), qmat(mats(r1)[j]), qmat(mats(r2)[j])), 'response_series[causality:%s]' % nm, args, nz=bool(np.any(a[:kk] != 0)))
    # ---- shift
    for k in range(20 * N):
        a, dt, periods, xi = setup()
        a = a.copy()
        a[0] = 0.0
        kk = rng.randint(1, 12)
        al = np.concatenate([np.zeros(kk), a])
        args = {'dt': dt, 'xi': xi, 'periods': periods, 'a': list(map(float, a)), 'k': kk}
        r1, r2 = guarded(rs, a, dt, periods, xi), guarded(rs, al, dt, periods, xi)
        if isinstance(r1, ImplError) or isinstance(r2, ImplError):
            viol('response_series[shift]', args, r1 if isinstance(r1, ImplError) else r2)
            continue
        for j, nm in enumerate(names):
            add('KShift %d %s %s %s' % (kk, q(0.0), qmat(mats(r1)[j]), qmat(mats(r2)[j])), 'response_series[shift:%s]' % nm, args, nz=bool(np.any(a != 0)))
    # ---- rows independent: permutations / sub-batches (a leading zero stays first)
    for k in range(20 * N):
        a, dt, periods, xi = setup()
        lead0 = periods[0] == 0
        body = list(range(1 if lead0 else 0, len(periods)))
        mode = rng.choice(['perm', 'sub', 'single'])
        if mode == 'perm':
            idx = body[:]
            rng.shuffle(idx)
        elif mode == 'sub':
            idx = [i for i in body if rng.random() < 0.6] or body[:1]
        else:
            idx = [rng.choice(body)]
        if lead0 and rng.random() < 0.7:
            idx = [0] + idx
        sub = [periods[i] for i in idx]
        args = {'dt': dt, 'xi': xi, 'periods': periods, 'sub_periods': sub, 'a': list(map(float, a))}
        r1, r2 = guarded(rs, a, dt, periods, xi), guarded(rs, a, dt, sub, xi)
        if isinstance(r1, ImplError) or isinstance(r2, ImplError):
            viol('response_series[rows]', args, r1 if isinstance(r1, ImplError) else r2)
            continue
        for j, nm in enumerate(names):
            add('KRows %s %s %s %s' % (natlist(idx), q(0.0), qmat(mats(r1)[j]), qmat(mats(r2)[j])), 'response_series[rows:%s]' % nm, args, nz=bool(np.any(a != 0)))
        # spectra too: pseudo / true on the sub list
        for fn, nm in ((sdof.pseudo_response_spectra, 'pseudo'), (sdof.true_response_spectra, 'true')):
            s1, s2 = guarded(fn, a, dt, np.array(periods), xi), guarded(fn, a, dt, np.array(sub), xi)
            if isinstance(s1, ImplError) or isinstance(s2, ImplError):
                viol('%s_response_spectra[rows]' % nm, args, s1 if isinstance(s1, ImplError) else s2)
                continue
            add('KRows %s %s %s %s' % (natlist(idx), q(0.0), qmat(np.array(s1, dtype=float).T), qmat(np.array(s2, dtype=float).T)),
                '%s_response_spectra[rows]' % nm, args, nz=bool(np.any(a != 0)))
    # ---- large batches: long record x many periods (more than 2^22 state entries) vs single-period calls
    for k in range(1 * N):
        n = rng.randint(4200, 5200)
        tt = np.arange(n) * 0.01        # amplitude grows to the end of the record, so the peak responses occur late
        a = (tt / tt[-1]) ** 2 * (np.sin(2 * np.pi * rng.uniform(0.5, 3.0) * tt) + 0.5 * np.sin(2 * np.pi * rng.uniform(3.0, 9.0) * tt + 1.0))
        dt = 0.01
        nper = rng.randint(1050, 1250)
        if k % 2 == 0:      # more than 2^23 state entries (periods x samples) in the batch, far fewer in the single-period calls
            nper = (2 ** 23) // n + rng.randint(20, 200)
        periods = list(np.linspace(0.05, 4.0, nper))
        idx = sorted(rng.sample(range(nper), 4))
        xi = 0.05
        args = {'dt': dt, 'xi': xi, 'n_periods': nper, 'period_grid': 'linspace(0.05, 4, n_periods)', 'sub_indices': idx, 'values': list(map(float, a))}
        for fn, nm in ((sdof.pseudo_response_spectra, 'pseudo'), (sdof.true_response_spectra, 'true')):
            s1 = guarded(fn, a, dt, np.array(periods), xi)
            s2 = guarded(fn, a, dt, np.array([periods[i] for i in idx]), xi)
            if isinstance(s1, ImplError) or isinstance(s2, ImplError):
                viol('%s_response_spectra[large batch]' % nm, args, s1 if isinstance(s1, ImplError) else s2)
                continue
            sub = np.array(s1, dtype=float).T[idx]
            add('KRows %s %s %s %s' % (natlist(range(len(idx))), q(0.0), qmat(sub), qmat(np.array(s2, dtype=float).T)),
                '%s_response_spectra[rows, large batch]' % nm, args)
    # ---- two batches in a row that share xi, dt, the number of periods and the first and last period but differ inside:
    # every row of the second batch must be what a call with that period alone gives (no state kept between calls)
    for k in range(6 * N):
        a, dt, periods, xi = setup()
        body = [p for p in periods if p != 0]
        if len(body) < 3:
            body = sorted(body + [dt * rng.uniform(8, 60) for _ in range(3 - len(body))])
        first = sorted(body)
        second = [first[0]] + sorted(rng.uniform(first[0], first[-1]) for _ in first[1:-1]) + [first[-1]]
        if k % 2:
            second = [first[0]] + list(reversed(first[1:-1])) + [first[-1]]     # a permutation that keeps the end points
            if second == first:
                continue
        args = {'dt': dt, 'xi': xi, 'first_batch': first, 'periods': second, 'a': list(map(float, a))}
        r0, r1 = guarded(rs, a, dt, first, xi), guarded(rs, a, dt, second, xi)
        if isinstance(r0, ImplError) or isinstance(r1, ImplError):
            viol('response_series[rows, second batch]', args, r0 if isinstance(r0, ImplError) else r1)
            continue
        for jj in range(1, len(second) - 1):
            r2 = guarded(rs, a, dt, [second[jj]], xi)
            if isinstance(r2, ImplError):
                viol('response_series[rows, second batch]', args, r2)
                continue
            for j, nm in enumerate(names[:2]):
                add('KRows %s %s %s %s' % (natlist([jj]), q(0.0), qmat(mats(r1)[j]), qmat(mats(r2)[j])),
                    'response_series[rows, second batch with the same end periods:%s]' % nm, dict(args, sub_periods=[second[jj]]), nz=bool(np.any(a != 0)))
        for fn, nm in ((sdof.pseudo_response_spectra, 'pseudo'), (sdof.true_response_spectra, 'true')):
            s0, s1 = guarded(fn, a, dt, np.array(first), xi), guarded(fn, a, dt, np.array(second), xi)
            s2 = guarded(fn, a, dt, np.array(second[1:-1]), xi)
            if isinstance(s0, ImplError) or isinstance(s1, ImplError) or isinstance(s2, ImplError):
                continue
            add('KRows %s %s %s %s' % (natlist(range(1, len(second) - 1)), q(0.0), qmat(np.array(s1, dtype=float).T), qmat(np.array(s2, dtype=float).T)),
                '%s_response_spectra[rows, second batch with the same end periods]' % nm, dict(args, sub_periods=second[1:-1]), nz=bool(np.any(a != 0)))
    # ---- period lists given as integers (Python ints / an integer array) with a leading zero: the rows of the non-zero
    # periods are those of the same periods requested as floats without the zero
    for k in range(4 * N):
        a, _, _, xi = setup()
        dt = rng.choice([0.25, 0.125, 0.05])
        ints = sorted(rng.sample([1, 2, 3, 4, 5, 8, 10], 3))
        plist = [0] + ints if k % 2 else np.array([0] + ints)
        args = {'dt': dt, 'xi': xi, 'periods': [0] + ints, 'periods_given_as': 'list of ints' if k % 2 else 'integer array', 'sub_periods': [float(p) for p in ints], 'a': list(map(float, a))}
        for fn, nm in ((sdof.pseudo_response_spectra, 'pseudo'), (sdof.true_response_spectra, 'true')):
            s1, s2 = guarded(fn, a, dt, plist, xi), guarded(fn, a, dt, np.array(ints, dtype=float), xi)
            if isinstance(s1, ImplError) or isinstance(s2, ImplError):
                viol('%s_response_spectra[rows, integer periods]' % nm, args, s1 if isinstance(s1, ImplError) else s2)
                continue
            add('KRows %s %s %s %s' % (natlist([1, 2, 3]), q(0.0), qmat(np.array(s1, dtype=float).T), qmat(np.array(s2, dtype=float).T)),
                '%s_response_spectra[rows, integer periods with a leading zero]' % nm, args, nz=bool(np.any(a != 0)))
    # ---- shift invariance of the spectra on a record longer than 2^15 samples whose strong motion comes late
    for k in range(1 * N):
        n = rng.randint(33500, 36000)
        tt = np.arange(n) * 0.01
        a = np.exp(-((tt - 0.97 * tt[-1]) / 4.0) ** 2) * (np.sin(2 * np.pi * rng.uniform(0.8, 2.5) * tt) + 0.4 * np.sin(2 * np.pi * rng.uniform(3.0, 7.0) * tt + 0.5))
        a[0] = 0.0
        dt, xi = 0.01, rng.choice([0.02, 0.05, 0.2])
        periods = sorted(rng.uniform(0.1, 2.0) for _ in range(3))
        kk = rng.choice([1, 7, 100])
        al = np.concatenate([np.zeros(kk), a])
        args = {'dt': dt, 'xi': xi, 'periods': periods, 'k': kk, 'record': 'exp(-((t - 0.97 t_end)/4)^2) * two sines, n = %d' % n, 'values': list(map(float, a))}
        for fn, nm in ((sdof.pseudo_response_spectra, 'pseudo'), (sdof.true_response_spectra, 'true')):
            s1, s2 = guarded(fn, a, dt, np.array(periods), xi), guarded(fn, al, dt, np.array(periods), xi)
            if isinstance(s1, ImplError) or isinstance(s2, ImplError):
                viol('%s_response_spectra[shift, long record]' % nm, args, s1 if isinstance(s1, ImplError) else s2)
                continue
            add('KRows %s %s %s %s' % (natlist(range(len(periods))), q(0.0), qmat(np.array(s1, dtype=float).T), qmat(np.array(s2, dtype=float).T)),
                '%s_response_spectra[shift, record longer than 2^15 samples]' % nm, args)
    # ---- refinement
    for k in range(20 * N):
        n = gens.small_len(rng, 2, 60)
        a, kind = c01.gen_record(rng, n)
        dt = rng.choice([0.01, 0.02, 0.25])
        m = rng.randint(2, 8)
        xi = rng.choice(c01.XIS)
        periods = sorted(dt * 10 ** rng.uniform(math.log10(5.0), math.log10(100.0 / m)) for _ in range(rng.randint(1, 3)))
        fine = refine_record(a, m)
        if rng.random() < 0.3:   # trailing clamped samples, as np.interp produces in gen_response_spectrum
            fine = np.concatenate([fine, [a[-1]] * (m - 1)])
        args = {'dt': dt, 'xi': xi, 'periods': periods, 'a': list(map(float, a)), 'm': m, 'fine': list(map(float, fine))}
        r1, r2 = guarded(rs, a, dt, periods, xi), guarded(rs, fine, dt / m, periods, xi)
        if isinstance(r1, ImplError) or isinstance(r2, ImplError):
            viol('response_series[refinement]', args, r1 if isinstance(r1, ImplError) else r2)
            continue
        for j, nm in enumerate(names[:2]):
            add('KRefine %d %s %s %s' % (m, q(1e-8), qmat(mats(r1)[j]), qmat(mats(r2)[j])), 'response_series[refinement:%s]' % nm, args, nz=bool(np.any(a != 0)))
        s1, s2 = guarded(sdof.true_response_spectra, a, dt, np.array(periods), xi), guarded(sdof.true_response_spectra, fine, dt / m, np.array(periods), xi)
        if isinstance(s1, ImplError) or isinstance(s2, ImplError):
            viol('true_response_spectra[refinement]', args, s1 if isinstance(s1, ImplError) else s2)
            continue
        add('KGe %s %s %s' % (q(1e-9), qlist(list(s1[0]) + list(s1[1])), qlist(list(s2[0]) + list(s2[1]))), 'true_response_spectra[refinement never decreases S_d, S_v]', args, nz=bool(np.any(a != 0)))
    # ---- refinement, long period with a fine step: w*dt/m just below 1e-3 for the refined record (T/(dt/m) between 6300 and 9000),
    #      the coarse record either well above that (m >= 2) or, for m = 2 and 'both', just below it too.
    #      There the closed forms of the displacement entries b11, b12 cancel (measured on the unchanged tree against an
    #      80-digit evaluation: relative error up to 4e-6 at xi = 0.99, i.e. 17 eps/(w dt)^3), so only the VELOCITY row is
    #      compared: its entries b21, b22 are good to 2.3e-9 there, rows agree to 1.5e-9 of their peak (13000 rows measured),
    #      tolerance 1e-6. A row whose peak is a small remainder of cancelling load terms (peak < dt*sum|a|/4) is fragile: skipped.
    n_long, n_frag = 0, 0
    for k in range(10 * N):
        n = gens.small_len(rng, 2, 60)
        a, kind = c01.gen_record(rng, n)
        dt = rng.choice([0.01, 0.02, 0.25, 0.005, 0.002])
        xi = rng.choice([0.02, 0.05, 0.3, 0.7, 0.99])
        if k % 5 == 4:      # coarse and refined record both below 1e-3
            m = 2
            xs = [rng.uniform(4.6e-4, 4.97e-4) for _ in range(rng.randint(1, 2))]
        else:
            m = rng.randint(2, 8)
            xs = [rng.uniform(7e-4, 9.95e-4) for _ in range(rng.randint(1, 3))]
        periods = sorted(c01.C2PI * (dt / m) / x for x in xs)
        fine = refine_record(a, m)
        if rng.random() < 0.3:
            fine = np.concatenate([fine, [a[-1]] * (m - 1)])
        args = {'dt': dt, 'xi': xi, 'periods': periods, 'a': list(map(float, a)), 'm': m, 'fine': list(map(float, fine))}
        r1, r2 = guarded(rs, a, dt, periods, xi), guarded(rs, fine, dt / m, periods, xi)
        if isinstance(r1, ImplError) or isinstance(r2, ImplError):
            viol('response_series[refinement, w*dt < 1e-3]', args, r1 if isinstance(r1, ImplError) else r2)
            continue
        v1, v2 = mats(r1)[1], mats(r2)[1]
        keep = [i for i in range(len(periods)) if np.abs(v1[i]).max() >= 0.25 * dt * np.abs(a).sum() and np.abs(v1[i]).max() > 0]
        n_frag += len(periods) - len(keep)
        if not keep:
            continue
        n_long += len(keep)
        args['rows_compared'] = keep
        add('KRefine %d %s %s %s' % (m, q(1e-6), qmat(v1[keep]), qmat(v2[keep])), 'response_series[refinement, w*dt < 1e-3:v]', args)
    rep.extra['long_period_refinement_rows'] = n_long
    rep.extra['long_period_refinement_rows_fragile_skipped'] = n_frag
    # ---- the object API refines the record before integrating (gen_response_spectrum): S_d never below the raw-sample value,
    #      also when dt/target_dt is not an integer
    import eqsig
    for k in range(12 * N):
        n = gens.small_len(rng, 8, 80)
        a, kind = c01.gen_record(rng, n)
        dt = rng.choice([0.01, 0.02, 0.25])
        tmin = dt * rng.choice([6.0, 8.0, 9.0, 12.0, 13.0, 15.0, 20.0, 40.0])
        periods = sorted([tmin] + [tmin * rng.uniform(1, 20) for _ in range(rng.randint(0, 2))])
        ratio = rng.choice([1, 2, 4, 8])
        args = {'dt': dt, 'periods': periods, 'min_dt_ratio': ratio, 'values': list(map(float, a))}

        def obj_sd():
            s = eqsig.AccSignal(a, dt)
            s.gen_response_spectrum(response_times=np.array(periods), min_dt_ratio=ratio)
            return np.array(s.s_d, dtype=float)
        so = guarded(obj_sd)
        sr = guarded(sdof.pseudo_response_spectra, a, dt, np.array(periods), 0.05)
        if isinstance(so, ImplError) or isinstance(sr, ImplError):
            viol('AccSignal.gen_response_spectrum[refinement]', args, so if isinstance(so, ImplError) else sr)
            continue
        add('KGe %s %s %s' % (q(1e-9), qlist(sr[0]), qlist(so)), 'AccSignal.s_d[refined record: never below the raw-sample S_d]', args, nz=bool(np.any(a != 0)))
    # ---- |alpha| scaling of spectra
    for k in range(15 * N):
        a, dt, periods, xi = setup()
        al = rng.choice([-1.0, 2.0, -0.5, rng.uniform(-4, 4)])
        args = {'dt': dt, 'xi': xi, 'periods': periods, 'a': list(map(float, a)), 'alpha': al}
        for fn, nm in ((sdof.pseudo_response_spectra, 'pseudo'), (sdof.true_response_spectra, 'true')):
            s1, s2 = guarded(fn, a, dt, np.array(periods), xi), guarded(fn, al * a, dt, np.array(periods), xi)
            if isinstance(s1, ImplError) or isinstance(s2, ImplError):
                viol('%s_response_spectra[scaling]' % nm, args, s1 if isinstance(s1, ImplError) else s2)
                continue
            for j in range(3):
                add('KScale %s %s %s %s' % (q(al), q(1e-12), qlist(s1[j]), qlist(s2[j])), '%s_response_spectra[scaling]' % nm, args, nz=bool(np.any(a != 0)))
    rep.correspond('model.K_C02', 'check_case', cases, max_cases=60, max_bytes=2_000_000, timeout=900)

    # ---- reduced structural tie shared with C01
    tie = []
    for k in range(20 * N):
        n = gens.small_len(rng, 2, 200)
        rec, kind = c01.gen_record(rng, n)
        dt = rng.choice([0.01, 0.005, 0.02, 0.25])
        lead0 = rng.random() < 0.35
        periods = c01.gen_periods(rng, dt, lead0)
        xi = rng.choice(c01.XIS)
        entry = c01.ENTRIES[k % 3]
        cfs = guarded(c01.coeff_lists, xi, periods, dt)
        out = guarded(c01.call_entry, entry, rec, dt, periods, xi)
        if isinstance(cfs, ImplError) or isinstance(out, ImplError):
            viol(entry, {'dt': dt, 'xi': xi, 'periods': periods, 'values': list(rec)}, cfs if isinstance(cfs, ImplError) else out)
            continue
        tie.append(c01.mk_case(entry, rec, dt, periods, xi, cfs, out, 1e-12, 'tie/%s' % entry))
    rep.correspond('model.K_C01', 'check_case', tie, max_cases=60, max_bytes=3_000_000, timeout=900)


def finish(rep):
    return rep.finish(rule=RULE, trusted=TRUSTED, assumptions=['exact real arithmetic in the theorems; 0 < w, 0 < dt, 0 <= xi < 1 for the refinement clause'])
