"""C18 — two-component rotation and cluster alignment do what they say."""
import os, re, math
import numpy as np
from fractions import Fraction
from concurrent.futures import ThreadPoolExecutor
from harness import core, gens
from harness.core import q, qlist, qmat, cbool, Case, guarded, ImplError, frac

RULE = ('rotation: combine_at_angle on 1-16-sample integer and float component pairs (a fixed share of the integer pairs stored as int64 / int32 arrays or lists of ints: same numbers for the model); angles = multiples of 90 (incl. negative, >= 360) with the exact kernel (1,0),(0,1),(-1,0),(0,-1), '
        'and arbitrary angles whose kernel values cos/sin(radians) are proved within 1e-15 of the real kernel by the interval tactic, plus per-sample interval goals '
        '|ns_k cos(theta pi/180) + we_k sin(theta pi/180) - out_k| <= 1e-12 scale on the implementation output itself; theta+180 negation evaluated on implementation outputs; '
        'compute_rotated: points 1..37 (100 in thorough), offsets 0, +-integers, > 180, >= 360, dyadic and arbitrary floats; parameter in {pga, pgv, arias_intensity}, '
        'callables scalar- and array-valued; returned degrees vs model (exact when offset and 180/(points-1) are dyadic, else 1e-9 on the circle), values vs Q-model, and '
        'values == measure(combine_at_angle(ns, we, degree_i)) through separate public calls (tolerance 0). '
        'time_match: exact domain, clusters of 2-4 signals (Signal and AccSignal), every master index, steps 0..12 and steps >= npts, slaves = master shifted by a planted lag in (-steps, steps) '
        '(random / edge padding), shifted + noise, independent, constant/plateau (ties), identical; 2-signal clusters of unequal lengths; values, ndarray tags and returned lag compared exactly; '
        'records of more than 5000 samples whose first 5000+ samples are constant (quiet lead-in at zero or on a static level) with a short burst near the end and a planted lag in either direction, default steps=10 and windows 2..8; '
        'the lag-removal predicate (overlap coincides, lengths unchanged, master untouched) evaluated on implementation outputs whenever the theorem hypotheses hold. '
        'same_start: 2-4 signals of equal or unequal length, every master index, windows by time (start/end multiples and non-multiples of dt, end=-1, defaults), dyadic dt exact (tolerance 0 when the section length is a power of two, '
        'else 1e-12), dt in {0.01, 0.005, 0.02} with 1e-10; nearly aligned clusters (common record + per-signal offset): small-unit records (amplitude ~1e-7, offsets of a few 1e-9; exact: (64k+o)2^-30) and records on a static level (~1000 with a mismatch of a few 1e-3; exact: 1024+(k+o)/256), tolerances relative to the record scale stay >= 1e4 times below the offsets; alignment predicate (section averages equal, master unchanged, lengths unchanged) evaluated on implementation outputs; '
        'records stored as int64 / int32 arrays or lists of ints (raw counts up to 2000, section averages differing by a non-integer) with every signal in turn as master (same exact comparison: the result is float64), '
        'and float32 arrays (numbers exactly representable in float32; compared at float32 precision 1e-5 scale because np.mean, the difference and the shifted record of a float32 record are float32; tolerance 0 for power-of-two sections of dyadic data). '
        'non-trivial = components/signals not identically zero and, for alignment, at least one non-master signal changed or a non-zero lag planted')
TRUSTED = [
    'Coq 8.16.1 kernel + vm_compute; Interval tactic for the trigonometric point goals',
    'hand-written model coq/model/M_multiple.v; tie = correspondence of this run (model/K_C18.v) and the interval goals of this run',
    'rotation Q-runs take the kernel values (cos, sin of the angle) as inputs; those inputs are proved within 1e-15 of the real kernel by interval (sampled for scans), so only structure is compared at Q',
    'measures used for compute_rotated are models of C08/C09 (calc_peak, trapezoid velocity, Arias, CAV) or trivial callables (sum, first value)',
    'exact arithmetic; rounding measured against the stated tolerances; index-valued outputs (lags) only in the exact domain',
    'time_indices uses int(end/dt): compared only where the float quotient is not within 1e-9 of an integer unless exact (fragile cases counted)',
    'source tie: the readings of Python / NumPy primitives in translator/py2coq_c18.py + coq/lib/PySeq.v (slices, items, range, np.radians, np.linspace, np.mod, int(), np.mean, sum), signal = (values, dt) with npts = len(values); the outer signal loop is read by the model (mapi), its header / return are shape-checked',
    'Python harness',
]
ARIAS_C = np.pi / (2 * 9.81)


_REPORTED = set()


def viol_once(rep, site, payload, **more):
    """implementation exceptions / malformed results: one violation per site is enough"""
    if site in _REPORTED:
        rep.extra['suppressed_duplicate_violations'] = rep.extra.get('suppressed_duplicate_violations', 0) + 1
        return
    _REPORTED.add(site)
    rep.violation(site, payload, **more)


# ------------------------------------------------------------------ interval goals
def rlit(x):
    f = frac(x)
    return '(%d / %d)' % (f.numerator, f.denominator) if f.denominator != 1 else '(%d)' % f.numerator


def run_interval(rep, goals, timeout=900):
    """goals: list of (coq_prop_text, kind, payload). Returns list of indices that failed to be proved."""
    if not goals:
        return [], []
    os.makedirs(core.RUN, exist_ok=True)
    nsh = max(1, min(core.NPROC, len(goals) // 20 + 1))
    shards = [list(range(k, len(goals), nsh)) for k in range(nsh)]

    def one(k):
        path = os.path.join(core.RUN, 'C18_ivl_%d.v' % k)
        with open(path, 'w') as f:
            f.write('From Coq Require Import Reals.\nFrom Interval Require Import Tactic.\nLocal Open Scope R_scope.\n')
            for i in shards[k]:
                tac = 'split; interval with (i_prec 100)' if goals[i][1] == 'kernel' else 'interval with (i_prec 100)'
                f.write('Goal True. tryif (assert (%s) by (%s)) then idtac "@@OK %d" else idtac "@@BAD %d". exact I. Qed.\n'
                        % (goals[i][0], tac, i, i))
        rc, out, err, _ = core.sh('timeout %d coqc -Q %s EQ %s' % (timeout, core.COQ, path), timeout + 30, cwd=core.RUN)
        base = os.path.splitext(os.path.basename(path))[0]
        if not os.environ.get('VERIF_KEEP_RUN'):
            for fn in os.listdir(core.RUN):
                if fn.startswith(base + '.') or fn.startswith('.' + base + '.'):
                    try:
                        os.remove(os.path.join(core.RUN, fn))
                    except OSError:
                        pass
        if rc != 0:
            return None, (err or out)[-1500:]
        ok = set(int(t) for t in re.findall(r'@@OK (\d+)', out))
        bad = set(int(t) for t in re.findall(r'@@BAD (\d+)', out))
        miss = set(shards[k]) - ok - bad
        return sorted(bad | miss), None

    bad, errs = [], []
    with ThreadPoolExecutor(max_workers=core.NPROC) as ex:
        for b, e in ex.map(one, range(nsh)):
            if e is not None:
                errs.append(e)
            else:
                bad.extend(b)
    return sorted(bad), errs


# ------------------------------------------------------------------ rotation
def kern(angle):
    r = np.radians(angle)
    return float(np.cos(r)), float(np.sin(r))


EXACT_KERN = {0: (1, 0), 1: (0, 1), 2: (-1, 0), 3: (0, -1)}


def comp_pair(rng, n, exact):
    if exact:
        a, _ = gens.int_record(rng, n, amp=rng.choice([3, 20]))
        b, _ = gens.int_record(rng, n, amp=rng.choice([3, 20]))
        sc = 2.0 ** (-rng.choice([0, 0, 1, 4]))
        a, b = a * sc, b * sc
    else:
        a, _ = gens.float_record(rng, n)
        b, _ = gens.float_record(rng, n)
    if not np.any(a):
        a[0] = 1.0
    if not np.any(b):
        b[-1] = -2.0
    return a, b


def int_pair(rng, n):
    """integer-valued component pair (digitiser counts) for the integer-dtype storage cases"""
    a, _ = gens.int_record(rng, n, amp=rng.choice([3, 20]))
    b, _ = gens.int_record(rng, n, amp=rng.choice([3, 20]))
    if not np.any(a):
        a[0] = 1.0
    if not np.any(b):
        b[-1] = -2.0
    return a, b


STORAGE = ['float64', 'int64', 'int32', 'list of ints', 'float32', 'ns float32 / we float64']


def stored(v, kind):
    """the same numbers in another storage type (kinds 1-3 require integer values, kind 4 float32-representable ones); always a fresh object"""
    if kind == 4:
        return np.array(v, dtype=np.float32)
    if kind == 0:
        return np.array(v, dtype=float)
    if kind == 1:
        return np.array(v, dtype=np.int64)
    if kind == 2:
        return np.array(v, dtype=np.int32)
    return [int(x) for x in v]


def stored_pair(a, b, st):
    """both components in storage kind st (kind 5: north-south float32, west-east float64)"""
    return (stored(a, 4), stored(b, 0)) if st == 5 else (stored(a, st), stored(b, st))


def acc_pair(a, b, dt, st):
    import eqsig
    sa, sb = stored_pair(a, b, st)
    return eqsig.AccSignal(sa, dt), eqsig.AccSignal(sb, dt)


def f32_pair(rng, n):
    """float component pair whose numbers are exactly representable in float32 (a record read from a single-precision file)"""
    a, b = comp_pair(rng, n, False)
    return np.array(a, dtype=np.float32).astype(float), np.array(b, dtype=np.float32).astype(float)


def func_sum(s):
    return float(np.sum(s.values))


def func_first(s):
    return s.values[0]


def measure_specs():
    import eqsig
    # kind -> (kwargs of compute_rotated, direct measure on a signal, label)
    return {
        0: (dict(parameter='pga'), lambda s: s.pga, 'parameter=pga'),
        1: (dict(parameter='arias_intensity'), lambda s: eqsig.im.calc_arias_intensity(s)[-1], 'parameter=arias_intensity'),
        2: (dict(func=eqsig.im.calc_cav), lambda s: eqsig.im.calc_cav(s)[-1], 'func=calc_cav'),
        3: (dict(func=func_sum), func_sum, 'func=sum'),
        4: (dict(parameter='pgv'), lambda s: s.pgv, 'parameter=pgv'),
        5: (dict(func=func_first), func_first, 'func=first'),
    }


def measure_scale(kind, a, b, dt):
    m = np.abs(a) + np.abs(b)
    n = len(a)
    if kind == 0 or kind == 5:
        return float(m.max())
    if kind == 1:
        return float(ARIAS_C * dt * np.sum(m ** 2)) + 1e-300
    if kind == 2:
        return float(dt * np.sum(m))
    if kind == 3:
        return float(np.sum(m))
    return float(dt * np.sum(m))


def rotation_cases(rep, rng, tier, cases, goals):
    import eqsig
    n_ax, n_gen, n_scan = (40, 60, 60) if tier == 'quick' else (300, 500, 600)

    def combo(a, b, dt, ang, site, args, st=0):
        r = guarded(lambda: eqsig.combine_at_angle(*acc_pair(a, b, dt, st), ang))
        if isinstance(r, ImplError):
            viol_once(rep, site, {'function': 'eqsig.combine_at_angle', 'args': args, 'impl_error': str(r)})
            return None
        if not isinstance(r, eqsig.AccSignal) or r.dt != dt:
            viol_once(rep, site, {'function': 'eqsig.combine_at_angle', 'args': args, 'impl': 'result is not an AccSignal with the components\' dt'})
            return None
        return np.array(r.values, dtype=float)

    # --- angles with an exactly known kernel
    for k in range(n_ax):
        n = rng.randint(1, 16)
        exact = rng.random() < 0.7
        st = (1 + (k // 5) % 3) if k % 5 == 4 else 0      # every 5th pair: integer counts stored as int64 / int32 / list of ints
        a, b = int_pair(rng, n) if st else comp_pair(rng, n, exact)
        dt = gens.dyadic_dt(rng, 1, 7)
        quad = rng.randint(0, 3) if k >= 4 else k
        turns = rng.choice([0, 0, 0, 1, -1, 2])
        ang = rng.choice([float, int])(90 * quad + 360 * turns)
        site = 'combine_at_angle[angle=%d mod 360]' % (90 * quad)
        args = {'ns': list(a), 'we': list(b), 'dt': dt, 'angle': ang, 'storage': STORAGE[st]}
        out = combo(a, b, dt, ang, site, args, st)
        if out is None:
            continue
        c, s = EXACT_KERN[quad]
        scale = float(np.max(np.abs(a)) + np.max(np.abs(b)))
        tol = 0 if (quad == 0 and turns == 0) else 1e-12 * scale
        cases.append(Case('CComb %s %s %s %s %s %s' % (qlist(a), qlist(b), q(c), q(s), qlist(out), q(tol)),
                          {'function': 'eqsig.combine_at_angle', 'args': args, 'impl': out}, site, klass='combine/axis' + ('/int-dtype' if st else '')))
    # --- arbitrary angles: Q structure with kernel inputs + interval goals on kernel and on the output itself
    for k in range(n_gen):
        n = rng.randint(1, 16)
        exact = rng.random() < 0.5
        st = (1 + (k // 4) % 3) if k % 4 == 1 else 0      # every 4th pair: integer counts stored as int64 / int32 / list of ints
        if k % 4 == 3:      # every 4th pair: single-precision records (both float32, or float32 with float64): the combination of the same numbers
            st = 4 if (k // 4) % 3 else 5
        if 0 < st < 4:
            exact = True
        a, b = (f32_pair(rng, n) if st >= 4 else int_pair(rng, n)) if st else comp_pair(rng, n, exact)
        if st >= 4:
            exact = False
        dt = gens.dyadic_dt(rng, 1, 7) if exact else rng.choice([0.01, 0.005, 0.02])
        ang = rng.choice([30.0, 45.0, 60.0, 37.5, 123.456, -15.0, 200.0, 333.25, 1.0, 89.0, 91.0, 179.5,
                          rng.uniform(-180, 540), rng.uniform(0, 360), float(rng.randint(1, 359))])
        site = 'combine_at_angle[general angle]'
        args = {'ns': list(a), 'we': list(b), 'dt': dt, 'angle': ang, 'storage': STORAGE[st]}
        out = combo(a, b, dt, ang, site, args, st)
        if out is None:
            continue
        c, s = kern(ang)
        scale = float(np.max(np.abs(a)) + np.max(np.abs(b)))
        tol = 1e-12 * scale
        rp = {'function': 'eqsig.combine_at_angle', 'args': args, 'impl': out}
        cases.append(Case('CComb %s %s %s %s %s %s' % (qlist(a), qlist(b), q(c), q(s), qlist(out), q(tol)), rp, site, klass='combine/general' + ('/float32' if st >= 4 else '/int-dtype' if st else '')))
        goals.append(('Rabs (cos (%s * PI / 180) - %s) <= 1/1000000000000000 /\\ Rabs (sin (%s * PI / 180) - %s) <= 1/1000000000000000'
                      % (rlit(ang), rlit(c), rlit(ang), rlit(s)), 'kernel', {'angle': ang, 'cos': c, 'sin': s}))
        idx = list(range(n)) if n <= 6 else rng.sample(range(n), 4)
        for j in idx:
            goals.append(('Rabs (%s * cos (%s * PI / 180) + %s * sin (%s * PI / 180) - %s) <= %s'
                          % (rlit(a[j]), rlit(ang), rlit(b[j]), rlit(ang), rlit(out[j]), rlit(tol)), 'direct', (site, rp, j)))
        # theta + 180 negates (implementation outputs only)
        out2 = combo(a, b, dt, ang + 180.0, site, dict(args, angle=ang + 180.0), st)
        if out2 is not None:
            cases.append(Case('CNeg %s %s %s' % (qlist(out), qlist(out2), q(tol)),
                              {'function': 'eqsig.combine_at_angle', 'args': dict(args, angles=[ang, ang + 180.0]), 'impl': [out, out2]},
                              'combine_at_angle[theta+180 negates]', klass='combine/neg'))
    # --- compute_rotated
    specs = measure_specs()
    pts_choices = [1, 2, 3, 4, 5, 7, 8, 9, 10, 12, 13, 15, 17, 19, 37] + ([100, 61] if tier != 'quick' else [])
    for k in range(n_scan):
        kind = k % 6
        kw, direct_fn, label = specs[kind]
        n = rng.randint(2, 24)
        exact = rng.random() < 0.5
        st = (1 + (k // 7) % 3) if k % 7 == 3 else 0      # every 7th scan (all six measures in turn): integer-dtype components
        if k % 7 == 5:      # every 7th scan (all six measures in turn): float32 components (every third of them float32 with float64)
            st = 4 if (k // 7) % 3 else 5
        if 0 < st < 4:
            exact = True
        a, b = (f32_pair(rng, n) if st >= 4 else int_pair(rng, n)) if st else comp_pair(rng, n, exact)
        if st >= 4:
            exact = False
        dt = gens.dyadic_dt(rng, 1, 7) if exact else rng.choice([0.01, 0.005, 0.02])
        points = rng.choice(pts_choices)
        if k == 0 and tier != 'quick':
            points = 100
        off = rng.choice([0.0, 0.0, 30.0, -20.0, 200.0, 360.0, 400.5, 90.0, 180.0, -180.0, 12.25, 33.3, -0.1, rng.uniform(-400, 400), rng.uniform(-400, 400), float(rng.randint(-360, 720))])
        site = 'compute_rotated[%s]' % label
        args = {'ns': list(a), 'we': list(b), 'dt': dt, 'angle_off_ns': off, 'points': points, 'measure': label, 'storage': STORAGE[st]}
        use_default_pts = (points == 100 and rng.random() < 0.5)
        use_default_off = (off == 0.0 and rng.random() < 0.5)
        kws = dict(kw)
        if not use_default_pts:
            kws['points'] = points
        if not use_default_off:
            kws['angle_off_ns'] = off
        r = guarded(lambda: eqsig.compute_rotated(*acc_pair(a, b, dt, st), **kws))
        if isinstance(r, ImplError):
            viol_once(rep, site, {'function': 'eqsig.compute_rotated', 'args': args, 'impl_error': str(r)})
            continue
        degs, pv = np.array(r[0], dtype=float), np.array(r[1], dtype=float)
        if len(degs) != len(pv):
            viol_once(rep, site, {'function': 'eqsig.compute_rotated', 'args': args, 'impl': 'degrees and values differ in length', 'lens': [len(degs), len(pv)]})
            continue
        ns_sig, we_sig = acc_pair(a, b, dt, st)
        direct = guarded(lambda: [float(direct_fn(eqsig.combine_at_angle(ns_sig, we_sig, d))) for d in degs])
        if isinstance(direct, ImplError):
            viol_once(rep, site, {'function': 'eqsig.compute_rotated', 'args': args, 'impl_error': str(direct)})
            continue
        ks = [kern(d) for d in degs]
        step = Fraction(180, points - 1) if points > 1 else Fraction(0)
        dy = lambda fr: (fr * 2 ** 20).denominator == 1      # a multiple of 2^-20: every float operation of the scan is exact
        ang_exact = dy(frac(off)) and dy(step) and abs(off) < 2 ** 20
        angtol = 0 if ang_exact else 1e-9
        tol = 1e-11 * measure_scale(kind, a, b, dt)
        coq = ('CScan %s %d %s %s [%s] %d %s %s %s %s %s %s %s'
               % (q(off), points, qlist(degs), q(angtol), '; '.join('(%s, %s)' % (q(c), q(s)) for c, s in ks), kind, q(ARIAS_C), q(dt),
                  qlist(a), qlist(b), qlist(pv), qlist(direct), q(tol)))
        cases.append(Case(coq, {'function': 'eqsig.compute_rotated', 'args': args, 'impl': {'degrees': degs, 'values': pv}}, site,
                          klass='scan/%s/%s%s' % (label, 'exact-angles' if ang_exact else 'tol-angles', '/float32' if st >= 4 else '/int-dtype' if st else '')))
        for j in rng.sample(range(len(degs)), min(3, len(degs))):
            c, s = ks[j]
            goals.append(('Rabs (cos (%s * PI / 180) - %s) <= 1/1000000000000000 /\\ Rabs (sin (%s * PI / 180) - %s) <= 1/1000000000000000'
                          % (rlit(degs[j]), rlit(c), rlit(degs[j]), rlit(s)), 'kernel', {'angle': float(degs[j]), 'cos': c, 'sin': s}))


RULE += ('; single-precision components: every 4th general-angle pair and every 7th scan (all six measures in turn) has both components stored as float32 arrays, or north-south float32 with west-east float64 '
         '(numbers exactly representable in float32; angles not multiples of 90): compared with the double-precision combination of the same numbers at the same 1e-12 / 1e-11 scale '
         '(the unchanged code multiplies by np.float64 kernel values, so the result is float64)')
RULE += ('; angles 1 and 2 ulps on either side of every multiple of 90 in [-360, 720] (exact cardinal kernel, 1e-12 scale, plus an interval goal with the true angle), '
         'scans whose own grid passes 1 ulp below a cardinal direction ((offset, points) = (30, 34), (309.6, 26), (8.4, 76), (-31.2, 76), (0, 79), (30, 40))')


def near_cardinal_cases(rep, rng, tier, cases, goals):
    """angles 1 and 2 ulps on either side of every multiple of 90 in [-360, 720] (np.nextafter): the real kernel is within
    2 ulp(720) * pi/180 < 1e-14 of the cardinal kernel (1,0),(0,1),(-1,0),(0,-1), so the exact-kernel Q-model with the tolerance of
    the axis cases (1e-12 scale) applies; one per-sample interval goal on the implementation output with the true angle;
    compute_rotated with (offset, points) pairs whose linspace passes through such a float (e.g. 89.99999999999999 for 8.4/76)"""
    import eqsig
    for mult in range(-4, 9):
        card = 90.0 * mult
        for ulps in (-2, -1, 1, 2):
            ang = card
            for _ in range(abs(ulps)):
                ang = float(np.nextafter(ang, math.inf if ulps > 0 else -math.inf))
            n = rng.randint(1, 8)
            exact = rng.random() < 0.6
            a, b = comp_pair(rng, n, exact)
            dt = gens.dyadic_dt(rng, 1, 7) if exact else rng.choice([0.01, 0.005, 0.02])
            site = 'combine_at_angle[angle=%d mod 360]' % (90 * (mult % 4))
            args = {'ns': list(a), 'we': list(b), 'dt': dt, 'angle': ang, 'angle_repr': repr(ang), 'ulps_from_multiple_of_90': ulps}
            r = guarded(lambda: eqsig.combine_at_angle(eqsig.AccSignal(a.copy(), dt), eqsig.AccSignal(b.copy(), dt), ang))
            if isinstance(r, ImplError):
                viol_once(rep, site, {'function': 'eqsig.combine_at_angle', 'args': args, 'impl_error': str(r)})
                continue
            if not isinstance(r, eqsig.AccSignal) or r.dt != dt:
                viol_once(rep, site, {'function': 'eqsig.combine_at_angle', 'args': args, 'impl': 'result is not an AccSignal with the components\' dt'})
                continue
            out = np.array(r.values, dtype=float)
            c, s = EXACT_KERN[mult % 4]
            scale = float(np.max(np.abs(a)) + np.max(np.abs(b)))
            tol = 1e-12 * scale
            rp = {'function': 'eqsig.combine_at_angle', 'args': args, 'impl': out}
            cases.append(Case('CComb %s %s %s %s %s %s' % (qlist(a), qlist(b), q(c), q(s), qlist(out), q(tol)), rp, site, klass='combine/near-axis'))
            if mult != 0:      # (the neighbours of 0 are denormals: no interval goal on a 1074-bit literal)
                j = rng.randrange(n)
                goals.append(('Rabs (%s * cos (%s * PI / 180) + %s * sin (%s * PI / 180) - %s) <= %s'
                              % (rlit(a[j]), rlit(ang), rlit(b[j]), rlit(ang), rlit(out[j]), rlit(tol)), 'direct', (site, rp, j)))
    # --- scans whose own grid passes 1 ulp below a cardinal direction
    specs = measure_specs()
    pairs = [(30.0, 34), (309.6, 26), (8.4, 76), (-31.2, 76), (0.0, 79), (30.0, 40)] + ([(25.2, 151), (345.6, 51), (46.8, 76), (-15.6, 76)] if tier != 'quick' else [])
    # (not (30, 67) / (30, 79): their grid holds -3.6e-15, which np.mod(., 360) turns into 360.0 - outside the [0, 360) the checker demands of the returned angles)
    for k, (off, points) in enumerate(pairs):
        kind = [0, 3, 1, 5, 2, 4][k % 6]
        kw, direct_fn, label = specs[kind]
        n = rng.randint(2, 12)
        a, b = comp_pair(rng, n, k % 2 == 0)
        dt = gens.dyadic_dt(rng, 1, 7) if k % 2 == 0 else rng.choice([0.01, 0.005, 0.02])
        site = 'compute_rotated[%s]' % label
        args = {'ns': list(a), 'we': list(b), 'dt': dt, 'angle_off_ns': off, 'points': points, 'measure': label}
        r = guarded(lambda: eqsig.compute_rotated(eqsig.AccSignal(a.copy(), dt), eqsig.AccSignal(b.copy(), dt), angle_off_ns=off, points=points, **kw))
        if isinstance(r, ImplError):
            viol_once(rep, site, {'function': 'eqsig.compute_rotated', 'args': args, 'impl_error': str(r)})
            continue
        degs, pv = np.array(r[0], dtype=float), np.array(r[1], dtype=float)
        if len(degs) != len(pv):
            viol_once(rep, site, {'function': 'eqsig.compute_rotated', 'args': args, 'impl': 'degrees and values differ in length', 'lens': [len(degs), len(pv)]})
            continue
        ns_sig, we_sig = eqsig.AccSignal(a.copy(), dt), eqsig.AccSignal(b.copy(), dt)
        direct = guarded(lambda: [float(direct_fn(eqsig.combine_at_angle(ns_sig, we_sig, d))) for d in degs])
        if isinstance(direct, ImplError):
            viol_once(rep, site, {'function': 'eqsig.compute_rotated', 'args': args, 'impl_error': str(direct)})
            continue
        ks = [kern(d) for d in degs]
        tol = 1e-11 * measure_scale(kind, a, b, dt)
        coq = ('CScan %s %d %s %s [%s] %d %s %s %s %s %s %s %s'
               % (q(off), points, qlist(degs), q(1e-9), '; '.join('(%s, %s)' % (q(c), q(s)) for c, s in ks), kind, q(ARIAS_C), q(dt),
                  qlist(a), qlist(b), qlist(pv), qlist(direct), q(tol)))
        cases.append(Case(coq, {'function': 'eqsig.compute_rotated', 'args': args, 'impl': {'degrees': degs, 'values': pv}}, site,
                          klass='scan/%s/near-axis-grid' % label))
        near = [j for j, d in enumerate(degs) if d != 0 and abs(d / 90.0 - round(d / 90.0)) < 1e-12 and d / 90.0 != round(d / 90.0)]
        for j in near[:2]:
            c, s = ks[j]
            goals.append(('Rabs (cos (%s * PI / 180) - %s) <= 1/1000000000000000 /\\ Rabs (sin (%s * PI / 180) - %s) <= 1/1000000000000000'
                          % (rlit(degs[j]), rlit(c), rlit(degs[j]), rlit(s)), 'kernel', {'angle': float(degs[j]), 'cos': c, 'sin': s}))


# ------------------------------------------------------------------ clusters
def shifted(rng, bm, L, pad):
    """slave = master delayed by L (L > 0: om[k+L] = bm[k]) or advanced by |L| (L < 0: om[k] = bm[k+|L|])"""
    n = len(bm)
    k = abs(L)
    if k == 0:
        return bm.copy()
    if pad == 'edge':
        fill_front, fill_back = [bm[0]] * k, [bm[-1]] * k
    else:
        fill_front = [float(rng.randint(-9, 9)) for _ in range(k)]
        fill_back = [float(rng.randint(-9, 9)) for _ in range(k)]
    if L > 0:
        return np.array(fill_front + list(bm[:n - k]), dtype=float)
    return np.array(list(bm[k:]) + fill_back, dtype=float)


def make_cluster(vals, dt, master, stypes, st=0):
    import eqsig
    return eqsig.Cluster([(stored(v, st) if st else v.copy()) for v in vals], dt, master_index=master, stypes=stypes)


def qrle(v, minrun=24):
    """Coq term of a list Q with long constant runs written as `repeat x n` (same list, short text: a 5000-sample quiet lead-in)"""
    parts, lit, i, n = [], [], 0, len(v)
    while i < n:
        j = i
        while j < n and v[j] == v[i]:
            j += 1
        if j - i >= minrun:
            if lit:
                parts.append(qlist(lit))
                lit = []
            parts.append('repeat %s (Z.to_nat %d)' % (q(v[i]), j - i))
        else:
            lit += list(v[i:j])
        i = j
    if lit:
        parts.append(qlist(lit))
    return '(' + ' ++ '.join(parts) + ')' if parts else '[]'


def qrlemat(rows):
    return '[' + '; '.join(qrle(r) for r in rows) + ']'


def tm_cases(rep, rng, tier, cases):
    N = 150 if tier == 'quick' else 1500
    for k in range(N):
        nsig = rng.choice([2, 2, 3, 3, 4])
        master = rng.randrange(nsig)
        n = rng.randint(4, 14) if rng.random() < 0.5 else rng.randint(6, 48)
        r = rng.random()
        if r < 0.75:
            steps = rng.randint(1, max(1, min(n - 2, 12)))
        elif r < 0.85:
            steps = rng.randint(max(1, n - 2), n + 3)
        elif r < 0.9:
            steps = 0
        else:
            steps = 10 if n > 12 else rng.randint(1, n)
        sc = 2.0 ** (-rng.choice([0, 0, 1, 3, 10]))
        bm, _ = gens.int_record(rng, n, amp=rng.choice([3, 9, 30]), style=rng.choice(['uniform', 'walk', 'plateau', 'sparse', 'startnz', 'hat', 'const', 'ramp']))
        vals, planted = [], []
        for s in range(nsig):
            if s == master:
                vals.append(bm.copy())
                planted.append(0)
                continue
            mode = rng.choice(['shift', 'shift', 'shift', 'shift_noise', 'indep', 'flat', 'same'])
            if mode in ('shift', 'shift_noise'):
                L = rng.randint(-(steps - 1), steps - 1) if steps >= 1 else 0
                if abs(L) >= n:
                    L = 0
                v = shifted(rng, bm, L, rng.choice(['edge', 'rand']))
                if mode == 'shift_noise':
                    j = rng.randrange(n)
                    v[j] += rng.choice([-1, 1])
                    planted.append(steps + 1000)
                else:
                    planted.append(L)
                vals.append(v)
            elif mode == 'indep':
                v, _ = gens.int_record(rng, n, amp=9)
                vals.append(v)
                planted.append(steps + 1000)
            elif mode == 'flat':
                v, _ = gens.int_record(rng, n, amp=3, style=rng.choice(['const', 'plateau']))
                vals.append(v)
                planted.append(steps + 1000)
            else:
                vals.append(bm.copy())
                planted.append(0)
        vals = [v * sc for v in vals]
        unequal = False
        if nsig == 2 and rng.random() < 0.12:
            extra = rng.randint(1, 5)
            j = rng.randrange(2)
            vals[j] = np.concatenate([vals[j], np.array([float(rng.randint(-5, 5)) for _ in range(extra)]) * sc])
            unequal = True
        dt = gens.dyadic_dt(rng, 1, 7)
        stypes = rng.choice(['custom', 'acc'])
        use_default_steps = (steps == 10)
        site = 'Cluster.time_match[%d signals]' % nsig + ('[unequal lengths]' if unequal else '')
        args = {'values': [list(v) for v in vals], 'dt': dt, 'master_index': master, 'steps': steps, 'stypes': stypes}

        def call():
            c = make_cluster(vals, dt, master, stypes)
            ret = c.time_match() if use_default_steps else c.time_match(steps=steps)
            outs = [c.values_by_index(i) for i in range(nsig)]
            tags = [isinstance(o, np.ndarray) for o in outs]
            return ret, [np.array(o, dtype=float) for o in outs], tags, [c.signal_by_index(i).npts for i in range(nsig)]

        res = guarded(call)
        if isinstance(res, ImplError):
            viol_once(rep, site, {'function': 'eqsig.Cluster.time_match', 'args': args, 'impl_error': str(res)})
            continue
        ret, outs, tags, npts = res
        if npts != [len(o) for o in outs]:
            viol_once(rep, site, {'function': 'eqsig.Cluster.time_match', 'args': args, 'impl': 'npts inconsistent with values', 'npts': npts})
            continue
        rp = {'function': 'eqsig.Cluster.time_match', 'args': args, 'impl': {'returned': int(ret), 'values': outs, 'is_ndarray': tags}}
        moved = any(len(o) != len(v) or np.any(o != v) for o, v in zip(outs, vals))
        nontriv = bool(np.any(bm)) and (moved or any(0 < abs(p) < steps for p in planted))
        cases.append(Case('CTm %d %d %s %s [%s] (%d)%%Z' % (steps, master, qmat(vals), qmat(outs), '; '.join(cbool(t) for t in tags), int(ret)),
                          rp, site, nontrivial=nontriv, klass='time_match/%d%s' % (nsig, '/unequal' if unequal else '')))
        if not unequal:
            cases.append(Case('CTmProp %d %d %s %s %s' % (steps, master, qmat(vals), core.zlist(planted), qmat(outs)),
                              dict(rp, planted_lags=planted), site + '[lag removed]', nontrivial=nontriv, klass='time_match/property'))


def tm_long_cases(rep, rng, tier, cases):
    """records longer than 5000 samples whose first 5000+ samples are constant (quiet pre-event lead-in, zero or a static level),
    a short burst of motion near the end, and a planted integer lag smaller than the window in either direction (default steps=10
    and small windows); every residual sum runs over the whole record. Shipped to Coq with the constant runs as `repeat`."""
    NL = 6 if tier == 'quick' else 30
    for k in range(NL):
        steps = 10 if k % 3 == 0 else rng.randint(2, 8)
        level = float(rng.choice([0, 0, 2, -3]))
        n_quiet = 5000 + rng.randint(steps + 1, 40)
        burst = [float(rng.randint(-9, 9)) for _ in range(rng.randint(8, 40))]
        burst[0] = float(rng.choice([-7, 5, 9]))
        tail = [level] * rng.randint(steps + 2, 30) if rng.random() < 0.6 else [float(rng.randint(-2, 2)) for _ in range(rng.randint(steps + 2, 30))]
        sc = 2.0 ** (-rng.choice([0, 0, 1, 3]))
        bm = np.array([level] * n_quiet + burst + tail) * sc
        n = len(bm)
        L = rng.randint(1, steps - 1) * (1 if k % 2 == 0 else -1)
        nsig = 2 if k % 3 else 3
        master = rng.randrange(nsig)
        vals, planted = [], []
        for s in range(nsig):
            if s == master:
                vals.append(bm.copy())
                planted.append(0)
                continue
            Ls = L                                   # first non-master signal: the non-zero planted lag
            if any(p != 0 for p in planted):        # further signals: any lag inside the window (0 included)
                Ls = rng.randint(-(steps - 1), steps - 1)
            vals.append(shifted(rng, bm, Ls, 'edge'))
            planted.append(Ls)
        dt = gens.dyadic_dt(rng, 1, 7)
        stypes = rng.choice(['custom', 'acc'])
        use_default_steps = (steps == 10)
        site = 'Cluster.time_match[%d signals][> 5000 samples, quiet lead-in]' % nsig
        args = {'values': [list(v) for v in vals], 'dt': dt, 'master_index': master, 'steps': steps, 'stypes': stypes}

        def call():
            c = make_cluster(vals, dt, master, stypes)
            ret = c.time_match() if use_default_steps else c.time_match(steps=steps)
            outs = [c.values_by_index(i) for i in range(nsig)]
            tags = [isinstance(o, np.ndarray) for o in outs]
            return ret, [np.array(o, dtype=float) for o in outs], tags, [c.signal_by_index(i).npts for i in range(nsig)]

        res = guarded(call)
        if isinstance(res, ImplError):
            viol_once(rep, site, {'function': 'eqsig.Cluster.time_match', 'args': args, 'impl_error': str(res)})
            continue
        ret, outs, tags, npts = res
        if npts != [len(o) for o in outs]:
            viol_once(rep, site, {'function': 'eqsig.Cluster.time_match', 'args': args, 'impl': 'npts inconsistent with values', 'npts': npts})
            continue
        rp = {'function': 'eqsig.Cluster.time_match', 'args': args, 'impl': {'returned': int(ret), 'values': outs, 'is_ndarray': tags}}
        cases.append(Case('CTm %d %d %s %s [%s] (%d)%%Z' % (steps, master, qrlemat(vals), qrlemat(outs), '; '.join(cbool(t) for t in tags), int(ret)),
                          rp, site, nontrivial=True, klass='time_match/%d/long-quiet-lead-in' % nsig))
        cases.append(Case('CTmProp %d %d %s %s %s' % (steps, master, qrlemat(vals), core.zlist(planted), qrlemat(outs)),
                          dict(rp, planted_lags=planted), site + '[lag removed]', nontrivial=True, klass='time_match/property/long-quiet-lead-in'))


def pow2(n):
    return n > 0 and (n & (n - 1)) == 0


def ss_cases(rep, rng, tier, cases):
    N = 150 if tier == 'quick' else 1500
    NX = 24 if tier == 'quick' else 200      # nearly aligned clusters: small-unit records / records on a large static level
    NS = 20 if tier == 'quick' else 160      # records stored as int64 / int32 / list of ints (raw counts) / float32: every master index in turn
    fragile = 0
    for k in range(N + NX + NS):
        nsig = rng.choice([2, 2, 3, 3, 4])
        master = rng.randrange(nsig)
        exact = rng.random() < 0.75
        special = None
        st = 0
        if k >= N + NX:
            st = (1, 2, 3, 1, 4)[(k - N - NX) % 5]
            if st != 4:
                exact = True
        elif k >= N:
            special = ('small-unit', 'static-level')[(k - N) % 2]
            exact = ((k - N) // 2) % 2 == 0
        dt = gens.dyadic_dt(rng, 1, 6) if exact else rng.choice([0.01, 0.005, 0.02])
        n0 = rng.randint(4, 40)
        lens = [n0] * nsig if rng.random() < 0.7 else [n0 + rng.randint(0, 6) for _ in range(nsig)]
        nmin = min(lens)
        vals = []
        for s in range(nsig):
            if exact:
                v, _ = gens.int_record(rng, lens[s], amp=rng.choice([3, 20, 2000] if st in (1, 2, 3) else [3, 20]))
                v = v * 2.0 ** (-rng.choice([0, 1, 3]) if st not in (1, 2, 3) else 0)
            else:
                v, _ = gens.float_record(rng, lens[s])
            if st == 4:
                v = np.array(v, dtype=np.float32).astype(float)      # the numbers a float32 record holds
            vals.append(v)
        if special:
            # every signal = one common record + its own small offset (+ its own tail beyond the shortest length): the section
            # averages differ by exactly the offset differences, which are far below the amplitude (small-unit: amplitude ~1e-7,
            # offsets of a few 1e-9) or far below the static level (level ~1000, mismatch of a few 1e-3), and far above the tolerance
            nmax = max(lens)
            if exact:
                base, _ = gens.int_record(rng, nmax, amp=3 if special == 'small-unit' else 20, style=rng.choice(['uniform', 'walk', 'startnz']))
                offs = [0] * nsig
                for s in range(nsig):
                    if s != master:
                        offs[s] = rng.choice([-1, 1]) * (rng.randint(1, 5) if special == 'small-unit' else rng.randint(1, 2))
                if special == 'small-unit':     # (64 k + o) 2^-30: amplitude 2e-7, offsets 1e-9 .. 5e-9
                    vals = [(base[:lens[s]] * 64.0 + offs[s]) * 2.0 ** -30 for s in range(nsig)]
                else:                           # 1024 + (k + o)/256: mismatch 3.9e-3 or 7.8e-3
                    vals = [1024.0 + (base[:lens[s]] + offs[s]) / 256.0 for s in range(nsig)]
            else:
                base, _ = gens.float_record(rng, nmax, style=rng.choice(['gauss', 'sine']))
                offs = [0.0] * nsig
                for s in range(nsig):
                    if s != master:
                        offs[s] = rng.choice([-1, 1]) * (rng.uniform(1e-9, 7e-9) if special == 'small-unit' else rng.uniform(1e-3, 7e-3))
                if special == 'small-unit':
                    vals = [base[:lens[s]] * 1.0e-7 + offs[s] for s in range(nsig)]
                else:
                    vals = [base[:lens[s]] + 1000.0 + offs[s] for s in range(nsig)]
            for s in range(nsig):             # samples beyond the shortest record are the signal's own
                for i in range(nmin, lens[s]):
                    vals[s][i] = vals[s][i] * rng.choice([1.0, 0.5, 2.0])
        mode = rng.choice(['default', 'grid', 'grid', 'offgrid', 'end-1', 'pow2', 'pow2'])
        kw = {}
        if mode == 'default':
            if int(1 / dt) + 1 > nmin:
                mode = 'grid'
            else:
                start, end = 0, 1
        if mode == 'grid':
            si = rng.randint(0, nmin - 2)
            ei = rng.randint(si + 1, nmin - 1)       # e_index = ei + 1 <= nmin
            start, end = si * dt, ei * dt
            kw = {'start': start, 'end': end}
        elif mode == 'pow2':
            L = rng.choice([1, 2, 4, 8, 16])
            L = min(L, 1 << (nmin.bit_length() - 1))
            si = rng.randint(0, nmin - L)
            start, end = si * dt, (si + L - 1) * dt
            kw = {'start': start, 'end': end}
        elif mode == 'offgrid':
            si = rng.randint(0, nmin - 2)
            ei = rng.randint(si + 1, nmin - 1)
            start, end = (si + rng.choice([0.25, 0.5, 0.75])) * dt, (ei + rng.choice([0.25, 0.5, 0.75])) * dt
            kw = {'start': start, 'end': end}
        elif mode == 'end-1':
            si = rng.randint(0, nmin - 2)
            start, end = si * dt, -1
            kw = {'start': start, 'end': end}
        if rng.random() < 0.3:
            kw = {kk: (int(v) if float(v).is_integer() else v) for kk, v in kw.items()}
            start, end = kw.get('start', start), kw.get('end', end)
        # fragile: the float quotient decides int() differently from the exact quotient
        frag = False
        for x in ([start] if end == -1 else [start, end]):
            fq = float(x) / dt
            eq_ = frac(x) / frac(dt)
            if int(fq) != int(eq_):
                frag = True
        if frag:
            fragile += 1
            continue
        s_idx = int(float(start) / dt)
        e_idx = -1 if end == -1 else int(float(end) / dt) + 1
        if e_idx > nmin:
            continue
        seclens = [len(v[s_idx:e_idx]) for v in vals]
        if min(seclens) == 0:
            continue
        if st in (1, 2, 3):
            # raw counts: make the section averages differ by a non-integer (whenever the section has two samples or more)
            avs = [sum(frac(x) for x in v[s_idx:e_idx]) / len(v[s_idx:e_idx]) for v in vals]
            if all((a - avs[0]).denominator == 1 for a in avs) and seclens[0] >= 2:
                vals[0][s_idx] += 1.0
        stypes = rng.choice(['custom', 'acc'])
        for master in ([master] if st == 0 else range(nsig)):
            site = ('Cluster.same_start[%d signals]' % nsig + ('[nearly aligned, %s]' % special if special else '')
                    + ('[%s storage]' % STORAGE[st] if st else ''))
            args = {'values': [list(v) for v in vals], 'dt': dt, 'master_index': master, 'kwargs': kw, 'stypes': stypes}
            if st:
                args['storage'] = STORAGE[st]

            def call():
                c = make_cluster(vals, dt, master, stypes, st)
                c.same_start(**kw)
                return [np.array(c.values_by_index(i), dtype=float) for i in range(nsig)]

            outs = guarded(call)
            if isinstance(outs, ImplError):
                viol_once(rep, site, {'function': 'eqsig.Cluster.same_start', 'args': args, 'impl_error': str(outs)})
                continue
            if not all(np.all(np.isfinite(o)) for o in outs):
                viol_once(rep, site, {'function': 'eqsig.Cluster.same_start', 'args': args, 'impl': [[repr(float(x)) for x in o] for o in outs],
                                     'problem': 'non-finite values after same_start on a non-empty window'})
                continue
            scale = max(float(np.max(np.abs(v))) for v in vals) + 1e-300
            if exact and all(pow2(L) for L in seclens):
                tol = 0
            elif st == 4:
                # float32 records: the unchanged code works in float32 throughout (np.mean of a float32 array is a float32, so are the
                # difference and the shifted record): float32 precision, (n + 4) ulp32 of the record scale < 1e-5 for sections <= 46 samples
                tol = 1e-5 * scale
            elif exact:
                tol = 1e-12 * scale
            else:
                tol = 1e-10 * scale
            moved = any(np.any(o != v) for o, v in zip(outs, vals) if len(o) == len(v))
            cases.append(Case('CSs %d %s %s %s %s %s %s' % (master, q(dt), q(start), q(end), qmat(vals), qmat(outs), q(tol)),
                              {'function': 'eqsig.Cluster.same_start', 'args': args, 'impl': outs}, site, nontrivial=moved,
                              klass='same_start/%d/%s/%s%s%s' % (nsig, mode, 'exact' if tol == 0 else 'tol', '/' + special if special else '',
                                                                 '/' + STORAGE[st] if st else '')))
    return fragile


def regen_c18():
    """re-translate combine_at_angle / compute_rotated / Cluster.time_match / Cluster.same_start (eqsig/multiple.py),
    time_indices (eqsig/fns/time_shift.py) and get_section_average (eqsig/fns/average.py) into coq/gen/Gen_c18.v (fail
    closed): the `C18_*_is_source` theorems of Prop_C18 are then re-proved against the code that is in the repo now"""
    import sys
    try:
        sys.path.insert(0, os.path.join(core.VERIF, 'translator'))
        import py2coq_c18
        py2coq_c18.regenerate(repo=core.REPO)
    except Exception as e:
        return 'py2coq_c18: %s: %s' % (type(e).__name__, e)
    return None


def run(rep, rng, tier):
    import time
    _REPORTED.clear()
    t0 = time.time()
    rep.prove('Prop_C18', targets=['props/Prop_C18.vo', 'model/K_C18.vo'], gen_failed=regen_c18())
    t1 = time.time()
    cases, goals = [], []
    rotation_cases(rep, rng, tier, cases, goals)
    near_cardinal_cases(rep, rng, tier, cases, goals)
    tm_cases(rep, rng, tier, cases)
    tm_long_cases(rep, rng, tier, cases)
    fragile = ss_cases(rep, rng, tier, cases)
    rep.extra['fragile_skipped'] = fragile
    t2 = time.time()
    # interval goals: the R-model of the rotation evaluated against kernel inputs and implementation outputs
    bad, errs = run_interval(rep, goals)
    t3 = time.time()
    rep.obligations += len(goals)
    rep.discharged += (len(goals) - len(bad)) if not errs else 0
    rep.extra['interval_goals'] = {'total': len(goals), 'kernel': sum(1 for g in goals if g[1] == 'kernel'),
                                   'direct': sum(1 for g in goals if g[1] == 'direct'), 'failed': len(bad)}
    for e in errs:
        rep.unchecked('interval:C18', e)
    seen = set()
    for i in bad:
        text, kind, payload = goals[i]
        if kind == 'direct':
            site, rp, j = payload
            if site in seen:
                continue
            seen.add(site)
            rep.violation(site, dict(rp, failed_goal=text, sample=j), model_output='R-model enclosure by interval does not contain the implementation output')
        else:
            rep.unchecked('interval-kernel:C18', 'numpy kernel value not within 1e-15 of the real kernel: %r' % (payload,))
    rep.correspond('model.K_C18', 'check_case', cases, describe='model_out (%s)')
    rep.extra['phase_s'] = {'prove+assumptions': round(t1 - t0, 1), 'implementation calls': round(t2 - t1, 1),
                            'interval': round(t3 - t2, 1), 'correspondence': round(time.time() - t3, 1)}


def replay_call(rp):
    import eqsig
    a = rp['args']
    f = rp['function']
    if f == 'eqsig.combine_at_angle':
        angs = a.get('angles', [a.get('angle')])
        st = STORAGE.index(a.get('storage', 'float64'))
        return [eqsig.combine_at_angle(*acc_pair(a['ns'], a['we'], a['dt'], st), x).values for x in angs]
    if f == 'eqsig.compute_rotated':
        kind = [k for k, v in measure_specs().items() if v[2] == a['measure']][0]
        kw = dict(measure_specs()[kind][0], points=a['points'], angle_off_ns=a['angle_off_ns'])
        st = STORAGE.index(a.get('storage', 'float64'))
        return eqsig.compute_rotated(*acc_pair(a['ns'], a['we'], a['dt'], st), **kw)
    c = eqsig.Cluster([stored(v, STORAGE.index(a.get('storage', 'float64'))) for v in a['values']], a['dt'], master_index=a['master_index'], stypes=a['stypes'])
    if f == 'eqsig.Cluster.time_match':
        r = c.time_match(steps=a['steps'])
        return {'returned': r, 'values': [c.values_by_index(i) for i in range(len(a['values']))]}
    c.same_start(**a['kwargs'])
    return [c.values_by_index(i) for i in range(len(a['values']))]


def finish(rep):
    return rep.finish(rule=RULE, trusted=TRUSTED,
                      assumptions=['exact real arithmetic in the theorems', 'time_match theorems: all signals of the cluster have the same length (a 2-d values array)',
                                   'same_start theorems: the section is non-empty for every signal and passes the time_indices bound check'])
