"""C11 — local-peak detection is sound and complete on every series."""
import numpy as np
from harness import core, gens
from harness.core import q, qlist, natlist, zlist, cbool, Case, guarded, ImplError

RULE = ('exhaustive: every non-constant series over {-2..2} up to length 6 (quick) / 8 (thorough) for ptype all, and up to 5 / 7 for max, min and get_n_cyc_array; '
        'plus random plateau-rich integer series (with offsets, non-zero first sample) up to length 200 / 2000, the same at amplitude scales 2^-40..2^40, two-scale series (integer levels + 2^-30 ripples) random real-valued series, and series whose first sample is 2^55..2^60 times the unit of the later oscillation; get_n_cyc_array also on int16 / int64 ndarrays and lists of Python ints; all compared exactly (indices) ; '
        'n_cyc compared to 1e-12; non-trivial = series has at least one interior turning point or a plateau')
TRUSTED = [
    'Coq 8.16.1 kernel + vm_compute',
    'declarative model coq/model/M_peaks.v (peaks = filter of indices by a local test; selection by parity as coded); tie = exhaustive + random correspondence of this run (model/K_peaks.v)',
    'literal statement-by-statement transcription of the ediff1d/where/take pipeline coq/model/M_peaks_pipeline.v, PROVED equal to the declarative model for every non-constant series over R (props/Prop_C11_pipeline.v); the same cases are also compared with it (chk_peaks_pipeline, chk_clean_pipeline), and the transcription is tied to the Python SOURCE TEXT by translator/py2coq_c11.py (fail-closed ast translator, re-run on every check -> coq/gen/Gen_c11.v) + props/Prop_C11_source.v (generated = transcription for every input and number type, axiom-free); what remains trusted there: the Gallina definitions of the numpy primitives, the readings fixed in the translator (list T / list nat, truncated index subtraction, nth-totalised v[0]) and the translator itself',
    'float products that underflow (|d1*d2| < 2^-1074) are outside every generator (DESIGN 2.2)',
    'Python harness',
]
PT = {0: 'all', 1: 'max', 2: 'min'}


def nontrivial(xs):
    d = np.sign(np.diff(xs))
    d = d[d != 0]
    return bool(np.any(d[1:] * d[:-1] < 0) or np.any(np.diff(xs) == 0))


def regen_c11():
    """re-translate eqsig/fns/peaks_and_crossings.py (clean_out_non_changing, determine_indices_of_peaks_for_cleaned_array,
    get_peak_array_indices, get_zero_crossings_array_indices, _argmax_abs_w_sign, get_switched_peak_array_indices, get_n_cyc_array)
    into coq/gen/Gen_c11.v (fail closed): the `C11_*_is_source` / `C12_*_is_source` theorems of Prop_C11_source are then re-proved
    against the code that is in the repo now"""
    import os, sys
    try:
        sys.path.insert(0, os.path.join(core.VERIF, 'translator'))
        import py2coq_c11
        py2coq_c11.regenerate(repo=core.REPO)
    except Exception as e:
        return 'py2coq_c11: %s: %s' % (type(e).__name__, e)
    return None


def as_pipeline(cases):
    """the same cases, labelled for the comparison with the literal pipeline transcription"""
    return [Case(c.coq, c.replay, c.site, nontrivial=c.nontrivial, klass=c.klass + '/pipeline') for c in cases]


def run(rep, rng, tier):
    from eqsig.fns.peaks_and_crossings import get_peak_array_indices, get_n_cyc_array, clean_out_non_changing
    rep.prove('Prop_C11')
    rep.prove('Prop_C11_pipeline')
    rep.prove('Prop_C11_source', gen_failed=regen_c11())
    L = 6 if tier == 'quick' else 8
    pk, pkq, nc, cl = [], [], [], []

    def add_clean(xs):
        # intermediate arrays of the pipeline (cleaned_values, non_zero_indices), including the duplicated index 0
        r = core.guarded_pure(clean_out_non_changing, np.array(xs, dtype=float))
        site = 'clean_out_non_changing'
        args = {'values': list(map(float, xs))}
        if isinstance(r, ImplError):
            rep.violation(site, {'function': site, 'args': args, 'impl_error': str(r)})
            return
        cv, nzi = [float(v) for v in r[0]], [int(i) for i in r[1]]
        cl.append(Case('(%s, %s, %s)' % (qlist(xs), qlist(cv), natlist(nzi)), {'function': site, 'args': args, 'impl': [cv, nzi]}, site,
                       nontrivial=nontrivial(xs), klass=site + '/pipeline'))

    def add_peaks(xs, pt, exact_int=True, store=float, tag=''):
        # store: the numpy dtype the caller keeps the record in (raw digitiser counts are int16/int32): same numbers, same peaks
        r = core.guarded_pure(get_peak_array_indices, np.array(xs, dtype=store), ptype=PT[pt])
        args = {'values': list(map(float, xs)), 'ptype': PT[pt]}
        site = 'get_peak_array_indices[%s]%s' % (PT[pt], tag)
        if store is not float:
            site += '[%s record]' % np.dtype(store).name
            args['stored_as'] = np.dtype(store).name
        if isinstance(r, ImplError):
            rep.violation(site, {'function': site, 'args': args, 'impl_error': str(r)})
            return
        out = [int(i) for i in r]
        if exact_int:
            pk.append(Case('(%d%%nat, %s, %s)' % (pt, zlist(xs), natlist(out)), {'function': site, 'args': args, 'impl': out}, site,
                           nontrivial=nontrivial(xs), klass=site + '/int'))
        else:
            pkq.append(Case('(%d%%nat, %s, %s)' % (pt, qlist(xs), natlist(out)), {'function': site, 'args': args, 'impl': out}, site,
                            nontrivial=nontrivial(xs), klass=site + '/real'))

    def add_ncyc(xs, opt, start, store=float):
        # store: how the caller holds the series (integer ndarray of raw counts, plain list of Python ints): same numbers, same counter
        site = 'get_n_cyc_array[%s,%s]' % (opt, start)
        args = {'values': list(map(float, xs)), 'opt': opt, 'start': start}
        if store is list:
            arg = [int(v) for v in xs]
            site += '[list of Python ints]'
            args['stored_as'] = 'list of int'
        else:
            arg = np.array(xs, dtype=store)
            if store is not float:
                site += '[%s record]' % np.dtype(store).name
                args['stored_as'] = np.dtype(store).name
        r = core.guarded_pure(get_n_cyc_array, arg, opt=opt, start=start)
        if isinstance(r, ImplError):
            rep.violation(site, {'function': site, 'args': args, 'impl_error': str(r)})
            return
        nc.append(Case('(%s, %s, %s, %s, %s)' % (cbool(opt == 'switched'), cbool(start == 'origin'), zlist(xs), qlist(r), q(1e-12)),
                       {'function': site, 'args': args, 'impl': list(map(float, r))}, site, nontrivial=nontrivial(xs), klass=site))

    for xs in gens.all_series(range(-2, 3), 2, L):
        add_peaks(xs, 0)
        if len(xs) <= L - 1:
            add_clean(xs)
            add_peaks(xs, 1)
            add_peaks(xs, 2)
        if len(xs) <= L - 2:
            add_ncyc(xs, 'all', 'origin')
            add_ncyc(xs, 'all', 'peak')
    nrand = 700 if tier == 'quick' else 6000
    maxlen = 200 if tier == 'quick' else 2000
    for k in range(nrand):
        n = gens.small_len(rng, 2, maxlen)
        xs = gens.plateau_series(rng, n, levels=rng.choice([1, 2, 5]), p_flat=rng.choice([0.2, 0.5, 0.8]),
                                 offset=rng.choice([0, 0, 3, -4, 100]))
        add_peaks(xs, k % 3)
        if k % 3 == 0:
            add_clean(xs)
        if k % 4 == 0 and n <= 300:
            add_ncyc(xs, rng.choice(['all', 'switched']), rng.choice(['origin', 'peak']))
    # amplitude scales: tiny (2^-40) to huge (2^40) copies of integer series, and two-scale series
    # (integer levels plus dyadic ripples of relative size 2^-30): peak detection must depend on order only
    for k in range(nrand // 2):
        n = gens.small_len(rng, 2, 60)
        base = gens.plateau_series(rng, n, levels=rng.choice([2, 5]), p_flat=rng.choice([0.3, 0.6]), offset=rng.choice([0, 1, -2]))
        if k % 2 == 0:
            sc = 2.0 ** rng.choice([-40, -30, -27, -10, 20, 40])
            xs = [v * sc for v in base]
        else:
            eps = 2.0 ** rng.choice([-30, -28, -35])
            xs = [v + eps * rng.randint(-2, 2) for v in base]
        if len(set(xs)) == 1:
            continue
        add_peaks(xs, k % 3, exact_int=False)
    for k in range(nrand // 4):
        n = gens.small_len(rng, 2, maxlen)
        xs, _ = gens.float_record(rng, n)
        if len(set(xs)) == 1:
            continue
        add_peaks(list(xs), k % 3, exact_int=False)
    # records kept in a narrow integer dtype with swings near the dtype's range (products/differences of counts do not fit
    # the storage type), and in float32
    for k in range(60 if tier == 'quick' else 600):
        store = [np.int16, np.int32, np.int64, np.float32][k % 4]
        top = {np.int16: 30000, np.int32: 2000000000, np.int64: 3000000000, np.float32: 2 ** 20}[store]
        n = gens.small_len(rng, 3, 40)
        base = gens.plateau_series(rng, n, levels=rng.choice([2, 5]), p_flat=rng.choice([0.2, 0.5]), offset=0)
        m = max(1, max(abs(v) for v in base))
        xs = [int(v) * (top // int(m)) for v in base]
        if len(set(xs)) == 1:
            continue
        add_peaks(xs, k % 3, store=store)
    # the cycle counter of series held as integers (int16 / int64 ndarray, list of Python ints): it still rises by 0.5 between
    # consecutive peaks and by 0.25 up to the first one
    for k in range(36 if tier == 'quick' else 360):
        store = [np.int16, np.int64, list][k % 3]
        n = gens.small_len(rng, 3, 60)
        xs = gens.plateau_series(rng, n, levels=rng.choice([2, 5, 40]), p_flat=rng.choice([0.2, 0.5]), offset=rng.choice([0, 0, 3, -4]))
        add_ncyc(xs, 'all' if k % 4 else 'switched', ['origin', 'peak'][(k // 3) % 2], store=store)
    # first sample 2^55..2^60 times the unit of the later oscillation (a free vibration released from a large initial value and
    # recorded until it has died away; a large constant level stepped away from): the peaks are those of the numbers as given
    for k in range(45 if tier == 'quick' else 450):
        n = gens.small_len(rng, 4, 60)
        tail = gens.plateau_series(rng, n, levels=rng.choice([2, 5, 50]), p_flat=rng.choice([0.1, 0.4]), offset=rng.choice([0, 0, 7, -3]))
        first = rng.choice([-1, 1]) * 2.0 ** rng.choice([55, 57, 60, 60])
        unit = 2.0 ** rng.choice([0, 0, -60, -70, 10])
        xs = [first * unit] * rng.choice([1, 1, 2]) + [v * unit for v in tail]
        add_peaks(xs, k % 3, exact_int=False, tag='[first sample >= 2^55 times the later oscillation]')
    rep.extra['exhaustive'] = True
    rep.extra['exhaustive_space'] = 'non-constant series over {-2..2}, length 2..%d (ptype all); ..%d (max/min); ..%d (n_cyc)' % (L, L - 1, L - 2)
    rep.correspond('model.K_peaks', 'chk_peaks', pk, max_cases=4000)
    rep.correspond('model.K_peaks', 'chk_peaks_q', pkq)
    rep.correspond('model.K_peaks', 'chk_ncyc', nc, max_cases=2000)
    # the same cases against the literal transcription of the numpy pipeline (proved equal to the model in Prop_C11_pipeline)
    rep.correspond('model.K_peaks', 'chk_peaks_pipeline', as_pipeline(pk), max_cases=4000)
    rep.correspond('model.K_peaks', 'chk_peaks_pipeline_q', as_pipeline(pkq))
    rep.correspond('model.K_peaks', 'chk_clean_pipeline', cl, max_cases=4000)


def finish(rep):
    return rep.finish(rule=RULE, trusted=TRUSTED, assumptions=['order-only reasoning: valid for any strict total order on the sample values'])
