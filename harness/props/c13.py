"""C13 — peak-only series conserve total variation; power-law equivalent-cycle measures are inverse."""
import os, re, warnings
import numpy as np
from concurrent.futures import ThreadPoolExecutor
from harness import core, gens
from harness.core import q, qlist, Case, guarded, ImplError, frac

TINY = 1.0e-14
RTOL = 1e-9          # implementation vs Q-model (relative to the largest model value of the series)
RTOL_EXACT = 0.0
KTOL = 1e-13         # enclosure of every shipped power-kernel value against the real power (interval tactic)

RULE = ('peak-only series: every non-constant series over {-2..2} up to length 5 (quick) / 6 plus every 4th of length 7 (thorough), random plateau-rich integer series with offsets, '
        'dyadic-grid real series and scaled copies (2^-30, 2^20), inputs given as float arrays, integer arrays and lists; tolerance 0 (exact domain); the conservation identities '
        '(sum|delta| = TV, |sum delta| = |last-first|, sum pseudo = TV/2 + sgn_final*(last-first)/2) are also evaluated on the implementation outputs, shift invariance by exact comparison of two implementation runs. '
        'power law: b = 1/e (e in 1..16) with the integer power computed in Q (every 7th case and half of the other integer-valued pairs: records stored as int64), and arbitrary b in (0.05,1] (scalar and array) with the implementation kernel values x**(1/b) shipped as tables '
        'whose every entry is enclosed against Rpower by an interval goal (1e-13 relative); outputs compared at 1e-9 relative to the series maximum; cut_off in {0, 0.01, 0.05, 0.1, 1/16 placed exactly on a peak} (cases whose cut-off test compares operands within 1e-12 relative without being equal are counted fragile and skipped); '
        'relational clauses (length, non-decreasing, inverse law, linear scaling, joint scaling, 2^b combination, geometric mean of identical components) evaluated on implementation outputs; '
        'non-trivial = series has an interior turning point (peak-only) / at least two switched peaks (power law)')
TRUSTED = [
    'Coq 8.16.1 kernel + vm_compute; Coq Interval for the kernel enclosures',
    'model coq/model/M_cycles.v (+ peaks / switched_peaks of M_peaks.v): delta / pseudo-cyclic series = scatter of oriented peak differences / alternating rebased peak values; '
    'n_cyc = running sum of the per-peak fractions placed at the switched peaks (equivalent to the interp1d(kind=previous) step function of the code: tied by correspondence); tie = correspondence of this run (model/K_C13.v)',
    'translator/py2coq_c13.py (re-run on every check) + the C13_*_is_source* theorems: for the four power-law functions of eqsig/im.py and the two peak-only series of '
    'eqsig/fns/peaks_and_crossings.py trusted is only the translator\'s reading of each whitelisted NumPy/SciPy call (header of coq/gen/Gen_c13.v), not the agreement of a hand model with the code; '
    'for the peak-only series the theorems assume what clean_out_non_changing / determine_indices_of_peaks_for_cleaned_array return (C11 pipeline statement)',
    'real powers: at R the model uses Rpower (0 at 0); at Q integer powers for b = 1/e, otherwise the harness computes x**(1/b) with numpy and each value is proved to be within 1e-13 of the real power',
    'exact arithmetic (IEEE rounding, overflow and underflow not modelled; generators keep every kernel value finite and non-zero)',
    'Python harness',
]


# ------------------------------------------------------------------ R-level literals for the interval goals
def rlit(x):
    fr = frac(x)
    if fr.denominator == 1:
        return '%d' % fr.numerator if fr.numerator >= 0 else '(%d)' % fr.numerator
    return '(%d / %d)' % (fr.numerator, fr.denominator)


KHEADER = """From Coq Require Import Reals Lra.
From Interval Require Import Tactic.
From EQ Require Import lib.Num model.M_cycles proofs.P_C13.
Local Open Scope R_scope.
Ltac kern_goal := match goal with |- Rabs (rpow ?x ?y - ?v) <= ?t => rewrite (rpow_pos x y) by interval; interval with (i_prec 80) end.
"""


class Kernels:
    """collects power-kernel values computed by the harness (numpy) and the interval goals that enclose them"""

    def __init__(self):
        self.goals = {}   # (xexpr, yexpr) -> value

    def add(self, xexpr, yexpr, v):
        self.goals[(xexpr, yexpr)] = float(v)

    def run(self, rep):
        items = sorted(self.goals.items())
        rep.obligations += len(items)
        rep.extra['kernel_enclosures'] = len(items)
        if not items:
            return
        os.makedirs(core.RUN, exist_ok=True)
        nsh = max(1, min(2 * core.NPROC, len(items) // 20 + 1))
        jobs = []
        for k in range(nsh):
            part = items[k::nsh]
            path = os.path.join(core.RUN, 'c13kern_%d_%d.v' % (os.getpid(), k))
            with open(path, 'w') as f:
                f.write(KHEADER)
                for j, ((xe, ye), v) in enumerate(part):
                    f.write('Goal True. (assert (Rabs (rpow %s %s - %s) <= %s * %s) by kern_goal; idtac "@@OK %d") || idtac "@@FAIL %d". exact I. Qed.\n'
                            % (xe, ye, rlit(v), rlit(KTOL), rlit(v), j, j))
            jobs.append((path, part))

        def one(job):
            path, part = job
            rc, out, err, dt = core.sh('timeout 900 coqc -Q %s EQ %s' % (core.COQ, path), 930, cwd=core.RUN)
            return rc, out, err, part

        nok, bad = 0, []
        with ThreadPoolExecutor(max_workers=core.NPROC) as ex:
            for rc, out, err, part in ex.map(one, jobs):
                if rc != 0:
                    bad.append('coqc failed on kernel goals: ' + (err or out)[-800:])
                    continue
                oks = set(int(t) for t in re.findall(r'@@OK (\d+)', out))
                fails = set(int(t) for t in re.findall(r'@@FAIL (\d+)', out))
                nok += len(oks)
                for j in sorted(fails | (set(range(len(part))) - oks)):
                    (xe, ye), v = part[j]
                    bad.append('rpow %s %s vs %r' % (xe, ye, v))
        for path, _ in jobs:
            base = os.path.splitext(os.path.basename(path))[0]
            for fn in os.listdir(core.RUN):
                if fn.startswith(base + '.') or fn.startswith('.' + base + '.'):
                    try:
                        os.remove(os.path.join(core.RUN, fn))
                    except OSError:
                        pass
        rep.discharged += nok
        if bad:
            rep.unchecked('kernel-enclosure', '%d of %d power-kernel values not enclosed: %s' % (len(bad), len(items), '; '.join(bad[:5])))


def ktab(pairs):
    return 'KTab [' + '; '.join('(%s, %s)' % (q(a), q(b)) for a, b in pairs) + ']'


# ------------------------------------------------------------------ input generators
def grid_series(rng, n):
    """real-valued series on the 2^-20 grid (all differences exact in binary64)"""
    v, _ = gens.float_record(rng, n)
    v = np.round(np.asarray(v, dtype=float) * 2.0 ** 20) / 2.0 ** 20
    if rng.random() < 0.4:   # plateaus
        for i in range(1, n):
            if rng.random() < 0.3:
                v[i] = v[i - 1]
    if len(set(v.tolist())) == 1:
        v[-1] += 1.0
    return [float(t) for t in v]


def nontrivial_peaks(xs):
    d = [b - a for a, b in zip(xs[:-1], xs[1:]) if b != a]
    return any(d[i] * d[i + 1] < 0 for i in range(len(d) - 1))


def as_input(rng, xs):
    """the same values as float array, integer array or list"""
    allint = all(float(v).is_integer() and abs(v) < 2 ** 40 for v in xs)
    r = rng.random()
    if allint and r < 0.25:
        return np.array([int(v) for v in xs], dtype=int), 'int-array'
    if r < 0.4:
        return [float(v) for v in xs], 'list'
    return np.array(xs, dtype=float), 'float-array'


def regen_c13():
    """re-translate eqsig/im.py (power-law functions) and eqsig/fns/peaks_and_crossings.py (peak-only series) into
    coq/gen/Gen_c13.v (fail closed): the `C13_*_is_source*` theorems of Prop_C13 are then re-proved against the code that is
    in the repo now"""
    import sys
    try:
        sys.path.insert(0, os.path.join(core.VERIF, 'translator'))
        import py2coq_c13
        py2coq_c13.regenerate(repo=core.REPO)
    except Exception as e:
        return 'py2coq_c13: %s: %s' % (type(e).__name__, e)
    return None


def run(rep, rng, tier):
    from eqsig.fns import peaks_and_crossings as pc
    from eqsig import im
    rep.prove('Prop_C13', targets=['props/Prop_C13.vo', 'model/K_C13.vo'], gen_failed=regen_c13())
    quick = tier == 'quick'
    deltas, pseudos, shifts = [], [], []
    ncycs, amps, combs, gms, rels, monos = [], [], [], [], [], []
    kern = Kernels()
    stats = {'range_skipped': 0, 'fragile_skipped': 0}

    def call(site, args, fn, *a, **kw):
        with warnings.catch_warnings():
            warnings.simplefilter('ignore')
            with np.errstate(all='ignore'):
                r = guarded(fn, *a, **kw)
        if isinstance(r, ImplError):
            rep.violation(site, {'function': site, 'args': args, 'impl_error': str(r)})
            return None
        r = np.asarray(r, dtype=float)
        if not np.all(np.isfinite(r)):
            rep.violation(site, {'function': site, 'args': args, 'impl_nonfinite': repr(r.tolist())[:2000]})
            return None
        return r

    # ---------------------------------------------------------------- peak-only series
    def add_series(xs, shift=None, klass='random'):
        xs = [float(v) for v in xs]
        nt = nontrivial_peaks(xs)
        inp, kind = as_input(rng, xs)
        outs = {}
        for name, fn, lst in (('determine_peaks_only_delta_series', pc.determine_peaks_only_delta_series, deltas),
                              ('determine_pseudo_cyclic_peak_only_series', pc.determine_pseudo_cyclic_peak_only_series, pseudos)):
            args = {'values': xs, 'input_kind': kind}
            keep = np.array(inp).copy() if not isinstance(inp, list) else list(inp)
            r = call(name, args, fn, inp)
            if r is None:
                continue
            if not np.array_equal(np.asarray(keep, dtype=float), np.asarray(inp, dtype=float)):
                rep.violation(name + '[mutates-input]', {'function': name, 'args': args, 'after': np.asarray(inp, dtype=float).tolist()})
            out = r.tolist()
            outs[name] = out
            rp = {'function': 'eqsig.fns.peaks_and_crossings.' + name, 'args': args, 'impl': out}
            coq = '%s (%s, %s)' % ('SDelta' if 'delta' in name else 'SPseudo', qlist(xs), qlist(out))
            lst.append(Case(coq, rp, name, nontrivial=nt, klass='%s/%s' % (name[:24], klass)))
            if shift is not None:
                ys = [v + shift for v in xs]
                args2 = {'values': xs, 'shift': shift}
                r2 = call(name + '[shift]', args2, fn, np.array(ys, dtype=float))
                if r2 is not None:
                    shifts.append(Case('SSame (%s, %s)' % (qlist(out), qlist(r2.tolist())),
                                       {'function': name, 'args': args2, 'impl': {'unshifted': out, 'shifted': r2.tolist()}},
                                       name + '[shift-invariance]', nontrivial=nt, klass='shift'))
        return outs

    L = 5 if quick else 7
    for k, xs in enumerate(gens.all_series(range(-2, 3), 2, L)):
        if len(xs) == 7 and k % 4 != 0:   # thorough: every series up to length 6, every 4th of length 7
            continue
        add_series(xs, shift=(rng.choice([3.0, -1.5, 0.25, 100.0]) if k % 7 == 0 else None), klass='exhaustive')
    rep.extra['exhaustive'] = True
    rep.extra['exhaustive_space'] = 'all non-constant series over {-2..2} of length 2..%d%s' % (min(L, 6), '' if quick else ' and every 4th series of length 7')
    nrand = 400 if quick else 3000
    maxlen = 150 if quick else 1000
    for k in range(nrand):
        n = gens.small_len(rng, 2, maxlen)
        r = rng.random()
        if r < 0.45:
            xs = gens.plateau_series(rng, n, levels=rng.choice([2, 5, 9]), p_flat=rng.choice([0.2, 0.4, 0.7]), offset=rng.choice([0, 0, 7, -13, 1000]))
        elif r < 0.6:
            xs = gens.excursion_series(rng, n)
        else:
            xs = grid_series(rng, n)
        sc = rng.choice([1.0, 1.0, 1.0, 0.125, 2.0 ** -30, 2.0 ** 20])
        xs = [v * sc for v in xs]
        sh = rng.choice([None, None, 1.0, -2.5, 0.375, 64.0])
        add_series(xs, shift=(sh * sc if sh is not None else None), klass='random')

    # ---------------------------------------------------------------- power law
    def col(a, j):
        a = np.asarray(a, dtype=float)
        return a[:, j].tolist() if a.ndim == 2 else a.tolist()

    def pl_series(maxn):
        n = gens.small_len(rng, 3, maxn)
        r = rng.random()
        if r < 0.4:
            xs = [float(v) for v in gens.excursion_series(rng, n)]
            if rng.random() < 0.3:
                xs = [v / 8.0 for v in xs]
        elif r < 0.55:
            xs = [float(v) for v in gens.plateau_series(rng, n, levels=rng.choice([3, 8]), p_flat=0.3, offset=rng.choice([0, 0, 2]))]
        else:
            v, _ = gens.float_record(rng, n)
            xs = [float(t) for t in v]
        if len(set(xs)) == 1:
            xs[-1] += 1.0
        if max(abs(v) for v in xs) == 0:
            xs[-1] = 1.0
        sc = rng.choice([1.0, 1.0, 1.0, 2.0 ** -7, 2.0 ** -3, 16.0, 64.0])   # records far from unit amplitude (units / scale of the record)
        return [v * sc for v in xs]

    def sp_hint(xs):
        r = guarded(pc.get_switched_peak_array_indices, np.array(xs, dtype=float))
        if isinstance(r, ImplError):
            return []
        return [int(i) for i in r if 0 <= int(i) < len(xs)]

    def inner_tab(xs, b):
        """x |-> x**(1/b) on the magnitudes at the (implementation's) switched peaks; None if out of float range"""
        pairs = []
        for c in sorted(set(abs(xs[p]) for p in sp_hint(xs))):
            if c == 0:
                continue
            with np.errstate(all='ignore'):
                v = float(np.float64(c) ** (1.0 / b))
            if not np.isfinite(v) or v == 0.0 or v < 1e-290 or v > 1e290:
                return None
            pairs.append((c, v))
            kern.add(rlit(c), '(/ %s)' % rlit(b), v)
        return pairs

    def outer_tab(out, b):
        """out |-> out**(1/b) on the distinct implementation outputs"""
        pairs = []
        for o in sorted(set(out)):
            if o == 0:
                continue
            if o < 0:
                return None
            with np.errstate(all='ignore'):
                v = float(np.float64(o) ** (1.0 / b))
            if not np.isfinite(v) or v == 0.0 or v < 1e-290 or v > 1e290:
                return None
            pairs.append((o, v))
            kern.add(rlit(o), '(/ %s)' % rlit(b), v)
        return pairs

    def ncyc_tab(xs, a_ref, b, cut):
        pairs = []
        keys = set(abs(xs[p]) for p in sp_hint(xs))
        if cut > 0:
            keys.add(TINY)
        for c in sorted(keys):
            if c == 0:
                continue
            with np.errstate(all='ignore'):
                v = float((np.float64(a_ref) / np.float64(c)) ** (1.0 / b))
            if not np.isfinite(v) or v == 0.0 or v < 1e-290 or v > 1e290:
                return None
            pairs.append((c, v))
            kern.add('(%s / %s)' % (rlit(a_ref), rlit(c)), '(/ %s)' % rlit(b), v)
        return pairs

    def cut_fragile(xs, cut):
        """the cut-off test |x_p| < cut_off * max|x| compares nearly equal operands (the exact product differs from a sample
        magnitude by less than 1e-12 relative without being equal to it): the float and the exact comparison may differ"""
        if cut <= 0:
            return False
        L = frac(cut) * max(abs(frac(v)) for v in xs)
        return any(0 < abs(abs(frac(v)) - L) <= L / 10 ** 12 for v in xs)

    def power_case(xs, ys, a_ref, ncyc, cut, b, e, klass, int_store=False):
        """b scalar float or list of floats; e = integer with b == 1/e (scalar only) or None;
        int_store: integer-valued records are passed as int64 arrays (otherwise: half of the integer-valued pairs)"""
        nt = len(sp_hint(xs)) >= 2
        bs = b if isinstance(b, list) else [b]
        barg = np.array(b) if isinstance(b, list) else b
        tag = 'array-b' if isinstance(b, list) else ('b=1/e' if e else 'scalar-b')
        n = len(xs)
        X, Y = np.array(xs, dtype=float), np.array(ys, dtype=float)
        base = {'values': xs, 'b': b}
        if all(float(v).is_integer() for v in list(xs) + list(ys)) and (int_store or rng.random() < 0.5):
            # records stored as integers (digitiser counts): the functions must treat them as the same numbers
            X, Y = X.astype(np.int64), Y.astype(np.int64)
            base['dtype'] = 'int64'
            tag += ',int64 record'

        def kin(j, zs):
            if e:
                return 'KPow %d' % e
            t = inner_tab(zs, bs[j])
            return None if t is None else ktab(t)

        def kout(j, out):
            if e:
                return 'KPow %d' % e
            t = outer_tab(out, bs[j])
            return None if t is None else ktab(t)

        # -- n_cyc
        site = 'calc_n_cyc_array_w_power_law[%s]' % tag
        args = dict(base, a_ref=a_ref, cut_off=cut)
        rn = call(site, args, im.calc_n_cyc_array_w_power_law, X.copy(), a_ref, barg, cut_off=cut)
        if rn is not None:
            if rn.shape != (n, len(bs)):
                rep.violation(site + '[shape]', {'function': site, 'args': args, 'impl_shape': list(rn.shape)})
            else:
                for j in range(len(bs)):
                    out = col(rn, j)
                    monos.append(Case('PMono (%d%%nat, %s)' % (n, qlist(out)), {'function': site, 'args': args, 'impl': out}, site + '[length,monotone]', nontrivial=nt, klass='mono'))
                    if cut_fragile(xs, cut):
                        stats['fragile_skipped'] += 1
                        continue
                    if e:
                        k = 'KPow %d' % e
                    else:
                        t = ncyc_tab(xs, a_ref, bs[j], cut)
                        k = None if t is None else ktab(t)
                    if k is None:
                        stats['range_skipped'] += 1
                        continue
                    ncycs.append(Case('PNcyc (%s, %s, %s, %s, %s, %s)' % (k, q(a_ref), q(cut), qlist(xs), qlist(out), q(RTOL)),
                                      {'function': 'eqsig.im.' + site, 'args': dict(args, column=j), 'impl': out}, site, nontrivial=nt, klass='n_cyc/' + klass))
        # -- amplitude
        site = 'calc_cyc_amp_array_w_power_law[%s]' % tag
        args = dict(base, n_cyc=ncyc)
        ra = call(site, args, im.calc_cyc_amp_array_w_power_law, X.copy(), ncyc, barg)
        if ra is not None:
            want = (n, len(bs)) if isinstance(b, list) else (n,)
            if ra.shape != want:
                rep.violation(site + '[shape]', {'function': site, 'args': args, 'impl_shape': list(ra.shape)})
                ra = None
        if ra is not None:
            for j in range(len(bs)):
                out = col(ra, j)
                monos.append(Case('PMono (%d%%nat, %s)' % (n, qlist(out)), {'function': site, 'args': args, 'impl': out}, site + '[length,monotone]', nontrivial=nt, klass='mono'))
                k, ko = kin(j, xs), kout(j, out)
                if k is None or ko is None:
                    stats['range_skipped'] += 1
                    continue
                amps.append(Case('PAmp (%s, %s, %s, %s, %s, %s)' % (k, ko, q(ncyc), qlist(xs), qlist(out), q(RTOL)),
                                 {'function': 'eqsig.im.' + site, 'args': dict(args, column=j), 'impl': out}, site, nontrivial=nt, klass='cyc_amp/' + klass))
            # linear scaling of the amplitude with the record
            kk = rng.choice([2.0, 0.5, 3.7, 1000.0, 0.013])
            site2 = site + '[scales-linearly]'
            rk = call(site2, dict(args, scale=kk), im.calc_cyc_amp_array_w_power_law, X * kk, ncyc, barg)
            if rk is not None and rk.shape == ra.shape:
                rels.append(Case('PRel (%s, %s, %s, %s)' % (q(kk), qlist(ra.ravel().tolist()), qlist(rk.ravel().tolist()), q(RTOL)),
                                 {'function': site2, 'args': dict(args, scale=kk), 'impl': {'amp': ra.ravel().tolist(), 'amp_scaled': rk.ravel().tolist()}}, site2, nontrivial=nt, klass='rel'))
        # -- inverse law (no switched peak below the cut-off: cut_off = 0)
        site = 'inverse-law[%s]' % tag
        args = dict(base, a_ref=a_ref, cut_off=0.0)
        r0 = call(site, args, im.calc_n_cyc_array_w_power_law, X.copy(), a_ref, barg, cut_off=0.0)
        if r0 is not None and r0.ndim == 2 and r0.shape[0] == n and np.all(r0[-1] > 0):
            N = r0[-1] if isinstance(b, list) else float(r0[-1][0])
            ri = call(site, dict(args, n_cyc=np.asarray(N).tolist()), im.calc_cyc_amp_array_w_power_law, X.copy(), N, barg)
            if ri is not None:
                lastrow = np.atleast_1d(ri[-1]).tolist()
                rels.append(Case('PRel (%s, %s, %s, %s)' % (q(1), qlist([a_ref] * len(lastrow)), qlist(lastrow), q(RTOL)),
                                 {'function': 'cyc_amp(values, n_cyc(values, a_ref, b)[-1], b)[-1] == a_ref', 'args': args, 'impl': {'n_cyc_last': np.asarray(N).tolist(), 'amp_last': lastrow}},
                                 site, nontrivial=nt, klass='rel'))
        # -- joint scaling of the cycle count
        if rn is not None and rn.shape == (n, len(bs)):
            kk = rng.choice([2.0, 0.25, 1024.0]) if cut > 0 else rng.choice([2.0, 0.3, 37.5, 1e-3])
            site = 'calc_n_cyc_array_w_power_law[joint-scaling]'
            args = dict(base, a_ref=a_ref, cut_off=cut, scale=kk)
            rs = call(site, args, im.calc_n_cyc_array_w_power_law, X * kk, a_ref * kk, barg, cut_off=cut)
            if rs is not None and rs.shape == rn.shape:
                rels.append(Case('PRel (%s, %s, %s, %s)' % (q(1), qlist(rn.ravel().tolist()), qlist(rs.ravel().tolist()), q(RTOL)),
                                 {'function': site, 'args': args, 'impl': {'n_cyc': rn.ravel().tolist(), 'n_cyc_scaled': rs.ravel().tolist()}}, site, nontrivial=nt, klass='rel'))
        # -- two components (scalar b only for the combined function)
        for name, fn, lst in (('calc_cyc_amp_gm_arrays_w_power_law', im.calc_cyc_amp_gm_arrays_w_power_law, gms),
                              ('calc_cyc_amp_combined_arrays_w_power_law', im.calc_cyc_amp_combined_arrays_w_power_law, combs)):
            if isinstance(b, list) and 'combined' in name:
                continue
            site = '%s[%s]' % (name, tag)
            args = {'values0': xs, 'values1': ys, 'n_cyc': ncyc, 'b': b}
            r2 = call(site, args, fn, X.copy(), Y.copy(), ncyc, barg)
            if r2 is not None and r2.shape[0] == n:
                for j in range(len(bs)):
                    out = col(r2, j)
                    k, k2, ko = kin(j, xs), kin(j, ys), kout(j, out)
                    if k is None or k2 is None or ko is None:
                        stats['range_skipped'] += 1
                        continue
                    if not e:   # one table for both components
                        k = ktab(inner_tab(xs, bs[j]) + inner_tab(ys, bs[j]))
                    lst.append(Case('%s (%s, %s, %s, %s, %s, %s, %s)' % ('PGm' if 'gm' in name else 'PComb', k, ko, q(ncyc), qlist(xs), qlist(ys), qlist(out), q(RTOL)),
                                    {'function': 'eqsig.im.' + site, 'args': dict(args, column=j), 'impl': out}, site, nontrivial=nt, klass=name[9:20] + '/' + klass))
            # identical components
            site = name + '[identical-components]'
            args = {'values0': xs, 'values1': xs, 'n_cyc': ncyc, 'b': b}
            rsame = call(site, args, fn, X.copy(), X.copy(), ncyc, barg)
            if rsame is not None and ra is not None and rsame.shape == ra.shape:
                if 'combined' in name:
                    fac = float(2.0 ** b)
                    kern.add('2', rlit(b), fac)
                else:
                    fac = 1.0
                rels.append(Case('PRel (%s, %s, %s, %s)' % (q(fac), qlist(ra.ravel().tolist()), qlist(rsame.ravel().tolist()), q(RTOL)),
                                 {'function': site, 'args': args, 'impl': {'single': ra.ravel().tolist(), 'two_identical': rsame.ravel().tolist(), 'factor': fac}}, site, nontrivial=nt, klass='rel'))

    def params():
        a_ref = rng.choice([1.0, 2.0, 0.5, 0.3, 7.25, round(rng.uniform(0.05, 10), 3)])
        ncyc = rng.choice([1.0, 2.0, 15.0, 0.5, 3.7, round(rng.uniform(0.1, 30), 3)])
        cut = rng.choice([0.0, 0.0, 0.01, 0.01, 0.05, 0.1])
        return a_ref, ncyc, cut

    n_e = 70 if quick else 500
    for k in range(n_e):
        e = rng.choice([1, 1, 2, 3, 4, 5, 8, 10, 16])
        xs = pl_series((60 if e <= 3 else 24) if quick else (150 if e <= 3 else 40))
        if e >= 8 and not all(float(v * 8).is_integer() for v in xs):   # keep the rationals small for large integer powers
            xs = [float(v) for v in gens.excursion_series(rng, len(xs))]
        ys = pl_series(len(xs))
        ys = (ys * (len(xs) // len(ys) + 1))[:len(xs)]
        if e >= 8:
            ys = [float(round(v * 8)) / 8 for v in ys]
            if len(set(ys)) == 1:
                ys[-1] += 1.0
        a_ref, ncyc, cut = params()
        if e >= 8:
            a_ref = min(a_ref, 2.0)
        if k % 6 == 0:   # cut-off placed exactly on a peak magnitude: 1/16 * 16
            xs = [float(v) for v in gens.excursion_series(rng, len(xs))]
            xs[rng.randrange(len(xs))] = 16.0 * rng.choice([-1, 1])
            cut = 0.0625
        forced_int = k % 7 == 3   # a fixed share of integer-count records stored as int64 (not left to the chance of drawing two integer-valued series)
        if forced_int:
            xs = [float(v) for v in gens.excursion_series(rng, len(xs))]
            ys = [float(v) for v in gens.excursion_series(rng, len(xs))]
        power_case(xs, ys, a_ref, ncyc, cut, 1.0 / e, e, 'b=1/%d' % e, int_store=forced_int)
    n_t = 24 if quick else 150
    for k in range(n_t):
        xs = pl_series(24)
        ys = pl_series(len(xs))
        ys = (ys * (len(xs) // len(ys) + 1))[:len(xs)]
        a_ref, ncyc, cut = params()
        if k % 3 == 2:
            b = sorted(set(rng.choice([0.3, 0.34, 1.0, 0.1, round(rng.uniform(0.08, 1.0), 3)]) for _ in range(rng.randint(2, 3))))
            if min(b) < 0.12:
                cut = 0.0
        else:
            b = rng.choice([0.3, 0.34, 0.5, 1.0, round(rng.uniform(0.051, 1.0), 4), round(rng.uniform(0.051, 1.0), 4)])
            if b < 0.12:
                cut = 0.0
        power_case(xs, ys, a_ref, ncyc, cut, b, None, 'tab')

    rep.extra['range_skipped'] = stats['range_skipped']
    rep.extra['fragile_skipped'] = stats['fragile_skipped']
    import time, sys
    tm = [time.time()]

    def lap(what):
        tm.append(time.time())
        if os.environ.get('C13_TIMING'):
            print('  [%s %.1fs]' % (what, tm[-1] - tm[-2]), file=sys.stderr)
    lap('generation+implementation (since start %.1fs)' % (time.time() - rep.t0))
    rep.correspond('model.K_C13', 'chk_series', deltas + pseudos + shifts, describe='report_series (%s)', max_cases=3000)
    lap('chk_series n=%d' % len(deltas + pseudos + shifts))
    # fixed witness of the known finding (always runs): with cut_off > 0 a peak below the cut-off is replaced by the ABSOLUTE value
    # 1e-14, so joint scaling of record and reference amplitude is not exact for records of tiny amplitude
    Xw = np.array([0, 1e-13, -5e-16, 1e-13, -5e-16, 1e-13])
    site_w = 'calc_n_cyc_array_w_power_law[joint-scaling, record amplitude 1e-13, cut_off>0]'
    args_w = {'values': Xw.tolist(), 'a_ref': 1e-13, 'b': 1.0, 'cut_off': 0.01, 'scale': 1e13}
    rw1 = guarded(im.calc_n_cyc_array_w_power_law, Xw.copy(), 1e-13, 1.0, cut_off=0.01)
    rw2 = guarded(im.calc_n_cyc_array_w_power_law, Xw * 1e13, 1.0, 1.0, cut_off=0.01)
    if isinstance(rw1, ImplError) or isinstance(rw2, ImplError):
        rep.violation(site_w, {'function': site_w, 'args': args_w, 'impl_error': str(rw1 if isinstance(rw1, ImplError) else rw2)})
    else:
        rels.append(Case('PRel (%s, %s, %s, %s)' % (q(1), qlist(np.ravel(rw1).tolist()), qlist(np.ravel(rw2).tolist()), q(RTOL)),
                         {'function': site_w, 'args': args_w, 'impl': {'n_cyc': np.ravel(rw1).tolist(), 'n_cyc_scaled': np.ravel(rw2).tolist()}}, site_w, nontrivial=True, klass='rel'))
    rep.correspond('model.K_C13', 'chk_power', ncycs + amps + combs + gms + rels + monos, describe='report_power (%s)', max_cases=1000)
    lap('chk_power n=%d' % len(ncycs + amps + combs + gms + rels + monos))
    kern.run(rep)
    lap('kernel enclosures n=%d' % len(kern.goals))


def finish(rep):
    return rep.finish(rule=RULE, trusted=TRUSTED,
                      assumptions=['exact real arithmetic; Rpower for x > 0 and 0 at 0; the inverse law is stated for cut-offs that replace no switched peak'])
