"""C09 — cumulative intensity measures: definition, monotonicity and scaling laws."""
import numpy as np
from harness import core, gens
from harness.core import q, qlist, cbool, Case, guarded, ImplError

NAMES = ['calc_arias_intensity', 'calc_cav', 'calc_isv', 'calc_integral_of_abs_velocity',
         'calc_integral_of_abs_acceleration', 'calc_unit_kinetic_energy', 'calc_cav_dp']
RULE = ('cases = (measure, dt, record) through eqsig.im.* on an AccSignal; exact domain (integer/dyadic records, dyadic dt, tolerance 0; '
        '1e-13 for Arias because of the single multiplication by pi/(2*9.81)); tolerance domain 1e-10 of the final value; '
        'cav_dp compared only when numpy arange gives exactly pps points per window (else counted fragile) and the 0.025 g gate is not within 1e-9; '
        'cav_dp also on records that end part-way through a second with the last whole window below the gate and a strong sample only in the trailing part-second (which belongs to no window); '
        'the checker also evaluates length = npts and non-decreasing on the implementation output itself; '
        'non-trivial = record has >= 3 samples and is not identically zero')
TRUSTED = [
    'Coq 8.16.1 kernel + vm_compute',
    'hand-written model coq/model/M_im.v (+ M_displacements.v); tie = correspondence of this run (model/K_C09.v), and '
    'translator/py2coq_numpy.py (re-run on every check) + the C09_*_is_source theorems: trusted there is only the translator\'s reading of '
    'each whitelisted NumPy/SciPy call as a lib/NpList.v primitive',
    'cav_dp: translator/py2coq_cavdp.py (re-run on every check; loop body as a step function over the carried names, every raising statement '
    'a res_bind) + C09_cavdp_is_source (at R, dt*pps = 1, at least one whole second: the translated source returns cav_dp 9.81 0.025 dt pps nwin a '
    'and does not raise; ValueError / IndexError on shorter / empty records proved): trusted there are the readings of np.arange(lo, hi, step), '
    'v[np.where(mask)], scipy trapezoid(y, x), np.interp, builtin max and the append loops in coq/lib/NpLoop.v',
    'exact arithmetic (rounding not modelled); pi/(2*9.81), 9.81 and 0.025 enter the Q-run as the exact rational values of the floats the code uses',
    'cav_dp: numpy arange length per window is observed by the harness, not modelled (property allows one panel per window)',
    'Q-run vs R-theorems: same polymorphic definitions (homomorphism proved for cumsum/cumtrapz/map)',
    'Python harness',
]


def impl(which, a, dt, history=None, dtype=float):
    """measure `which` of an AccSignal holding record `a`; with a history the object first holds ANOTHER record, is
    queried (velocity and the measure itself), and the record is then replaced/changed through the public API.
    The measure is called twice on the same object: the record must not change and the result must be identical."""
    import eqsig
    a = np.array(a, dtype=float)
    f = getattr(eqsig.im, NAMES[which])
    if history is None:
        s = eqsig.AccSignal(a.astype(dtype), dt)      # records stored as integers (digitiser counts) are the same numbers
    else:
        other = a[::-1] * 0.5 + 0.25
        s = eqsig.AccSignal(other, dt)
        _ = (s.velocity, s.displacement, f(s))
        if history == 'reset_values':
            s.reset_values(a)
        elif history == 'add_series':
            s.add_series(a - other)
        elif history == 'inplace_then_reset_values':      # what the set_zero_residual_* methods do
            vals = s.values
            vals *= 0.0
            vals += a
            s.reset_values(vals)
        else:
            raise KeyError(history)
    r = core.guarded_pure(f, s)
    if isinstance(r, ImplError):
        raise RuntimeError(str(r))
    if not np.array_equal(np.array(s.values, dtype=float), a):
        raise RuntimeError('harness: record after history differs from the intended one')
    return np.array(r, dtype=float)


HISTORIES = [None, None, 'reset_values', 'add_series', 'inplace_then_reset_values']


def mk(which, a, dt, out, rtol, pps=0, nwin=0, g=9.81):
    c = np.pi / (2 * 9.81)
    coq = ('{| c_which := %d; c_dt := %s; c_a := %s; c_c := %s; c_g := %s; c_thr := %s; c_pps := %d; c_nwin := %d; c_out := %s; c_rtol := %s |}'
           % (which, q(dt), qlist(a), q(c), q(g), q(0.025), pps, nwin, qlist(out), q(rtol)))
    rp = {'function': 'eqsig.im.' + NAMES[which], 'args': {'dt': dt, 'values': list(map(float, a))}, 'impl': out}
    return Case(coq, rp, NAMES[which], nontrivial=(len(a) >= 3 and any(x != 0 for x in a)),
                klass='%s/%s' % (NAMES[which], 'exact' if rtol <= 1e-12 else 'tol'))


def cavdp_inputs(rng, tier):
    """records of >= 2 s with an integer number of samples per second, amplitudes around the 0.025 g gate"""
    out = []
    n_cases = 30 if tier == 'quick' else 300
    for k in range(n_cases):
        dt = rng.choice([0.25, 0.125, 0.0625, 0.5, 0.05, 0.02, 0.01] if k % 3 else [0.25, 0.125])
        pps = int(1 / dt)
        secs = rng.randint(2, 5)
        n = secs * pps + 1 + rng.randint(0, pps - 1)
        amp = rng.choice([1, 2, 3, 10])
        a, _ = gens.int_record(rng, n, amp=amp, style=rng.choice(['uniform', 'plateau', 'sparse', 'walk', 'hat']))
        a = a / 8.0
        out.append((a, dt))
    # rounding-edge lengths: record lengths n for which a float-step grid np.arange(0, n*dt, dt) does not have n points
    # (the series has the record's length whatever a time base rebuilt from n and dt would have)
    edge = [(n, dt) for dt in (0.01, 0.005, 0.02) for n in range(int(2 / dt) + 1, int(3 / dt) + 1) if len(np.arange(0, n * dt, dt)) != n]
    for n, dt in rng.sample(edge, min(len(edge), 6 if tier == 'quick' else 60)):
        a, _ = gens.int_record(rng, n, amp=rng.choice([2, 3, 10]), style=rng.choice(['uniform', 'walk', 'hat']))
        out.append((a / 8.0, dt))
    return out


def cavdp_fragile(a, dt):
    pps = int(1 / dt)
    t_end = (len(a) - 1) * dt
    nwin = int(np.arange(0, len(a))[-1] * dt)
    start = 0
    for i in range(nwin):
        L = len(np.arange(start * dt, start * dt + 1, dt))
        if L != pps:
            return True, pps, nwin
        w = np.abs(a[start:start + pps + 1]) / 9.81
        if abs(w.max() - 0.025) < 1e-9:
            return True, pps, nwin
        start += pps
    return False, pps, nwin


def regen_cavdp():
    """re-translate eqsig/im.py: calc_cav_dp into coq/gen/Gen_cavdp.v (fail closed): C09_cavdp_is_source and the step /
    raise theorems of Prop_C09 are then re-proved against the loop that is in the repo now"""
    import os, sys
    try:
        sys.path.insert(0, os.path.join(core.VERIF, 'translator'))
        import py2coq_cavdp
        py2coq_cavdp.regenerate(repo=core.REPO)
    except Exception as e:
        return 'py2coq_cavdp: %s: %s' % (type(e).__name__, e)
    return None


def run(rep, rng, tier):
    from harness.props.c08 import regen_quadrature      # re-translate the sources; a failure breaks the tie (fail closed)
    rep.prove('Prop_C09', gen_failed=regen_quadrature() or regen_cavdp())
    cases = []
    fragile = 0
    n_exact, n_tol = (25, 8) if tier == 'quick' else (250, 60)
    for which in range(6):
        for k in range(n_exact):
            n = gens.small_len(rng, 2, 120)
            a, _ = gens.int_record(rng, n, amp=rng.choice([3, 10]))
            dt = gens.dyadic_dt(rng, 1, 6)
            hist = HISTORIES[k % len(HISTORIES)]
            dty = np.int64 if (hist is None and k % 2 == 0 and np.all(a == np.round(a))) else float
            r = guarded(impl, which, a, dt, hist, dty)
            if isinstance(r, ImplError):
                rep.violation(NAMES[which], {'function': NAMES[which], 'args': {'dt': dt, 'values': list(a), 'history': hist}, 'impl_error': str(r)})
                continue
            c = mk(which, a, dt, r, 1e-13 if which == 0 else 0)
            if dty is not float:
                c.site = c.site + '[int64 record]'
            if hist:
                c.replay['history'] = ['construct on reversed*0.5+0.25', 'read velocity, displacement, measure', hist, 'measure']
                c.site = c.site + '[after %s]' % hist
            cases.append(c)
        for k in range(n_tol):
            n = gens.small_len(rng, 2, 250)
            a, _ = gens.float_record(rng, n)
            a = a * 10.0 ** rng.choice([0, 0, 0, -2, -4, -6, 2, 4])     # weak and strong motions: the scaling laws hold at every amplitude
            dt = rng.choice([0.01, 0.005, 0.02, rng.uniform(1e-3, 0.3)])
            r = guarded(impl, which, a, dt)
            if isinstance(r, ImplError):
                rep.violation(NAMES[which], {'function': NAMES[which], 'args': {'dt': dt, 'values': list(a)}, 'impl_error': str(r)})
                continue
            cases.append(mk(which, a, dt, r, 1e-10))
    for a, dt in cavdp_inputs(rng, tier):
        fr, pps, nwin = cavdp_fragile(a, dt)
        if fr:
            fragile += 1
            continue
        r = guarded(impl, 6, a, dt)
        if isinstance(r, ImplError):
            rep.violation(NAMES[6], {'function': NAMES[6], 'args': {'dt': dt, 'values': list(a)}, 'impl_error': str(r)})
            continue
        cases.append(mk(6, a, dt, r, 1e-10, pps, nwin))
    # the 0.025 g gate AT the boundary: windows whose binary64 peak  fl(|a|/9.81)  is exactly 0.025 (reached, so the window
    # counts), one ulp below (does not count) and one ulp above.  In exact arithmetic fl(0.025*9.81)/9.81 is not 0.025, so
    # for these cases the model is given the implementation's own quotient array  values/9.81  (as exact rationals) with
    # g := 1: the sign of the binary64 difference pga - 0.025 is the sign of the exact difference, nothing is fragile.
    nb = 0
    for k in range(12 if tier == 'quick' else 120):
        dt = rng.choice([0.25, 0.125, 0.0625])
        pps = int(1 / dt)
        secs = rng.randint(2, 4)
        n = secs * pps + 1 + rng.randint(0, pps - 1)
        peak = 0.025 * 9.81
        while peak / 9.81 > 0.025:
            peak = np.nextafter(peak, 0.0)
        while peak / 9.81 < 0.025:
            peak = np.nextafter(peak, 1.0)
        if peak / 9.81 != 0.025:
            continue
        a = np.array([rng.choice([-1, 1]) * peak * rng.choice([0.0, 0.25, 0.5, 0.75]) for _ in range(n)])
        for w in range(secs):                       # per window: exactly at the gate / just below / just above / clearly below
            kind = rng.choice(['at', 'at', 'below', 'above', 'low'])
            j = w * pps + rng.randint(1, pps - 1)   # interior sample: belongs to this window only
            v = {'at': peak, 'below': np.nextafter(peak, 0.0), 'above': np.nextafter(peak, 1.0), 'low': 0.5 * peak}[kind]
            while kind == 'below' and v / 9.81 >= 0.025:
                v = np.nextafter(v, 0.0)
            while kind == 'above' and v / 9.81 <= 0.025:
                v = np.nextafter(v, 1.0)
            a[j] = rng.choice([-1, 1]) * v
        fr_len = any(len(np.arange(s0 * dt, s0 * dt + 1, dt)) != pps for s0 in range(0, secs * pps, pps))
        if fr_len:
            fragile += 1
            continue
        r = guarded(impl, 6, a, dt)
        if isinstance(r, ImplError):
            rep.violation(NAMES[6], {'function': NAMES[6], 'args': {'dt': dt, 'values': list(a)}, 'impl_error': str(r)})
            continue
        nwin = int(np.arange(0, len(a))[-1] * dt)
        c = mk(6, a / 9.81, dt, r, 1e-10, pps, nwin, g=1.0)
        c.site = NAMES[6] + '[window peak at the 0.025 g gate]'
        c.replay['args']['values'] = list(map(float, a))
        c.replay['note'] = 'model run on the binary64 quotients values/9.81 with g := 1 (gate decided on the same binary64 numbers as the code)'
        cases.append(c)
        nb += 1
    rep.extra['gate_boundary_cases'] = nb
    # records whose duration is not a whole number of seconds: the samples after the last whole one-second window belong to no
    # window.  Last whole window weak (peak below 0.025 g, non-zero |a| integral), strong sample(s) only in the trailing
    # part-second; earlier windows weak or strong.
    n_tail = 0
    for k in range(10 if tier == 'quick' else 100):
        dt = rng.choice([0.25, 0.125, 0.0625, 0.05, 0.02, 0.01])
        pps = int(1 / dt)
        secs = rng.randint(1, 4)
        tail = rng.randint(1, pps - 1)
        n = secs * pps + 1 + tail
        a, _ = gens.int_record(rng, n, amp=1, style=rng.choice(['uniform', 'plateau', 'walk']))      # |a| <= 1/8 m/s2 = 0.0127 g
        for w in range(secs - 1):                                                                    # earlier windows: some strong
            if rng.random() < 0.4:
                a[w * pps + rng.randint(1, pps - 1)] = rng.choice([-4, 3, 8])
        lastw = slice((secs - 1) * pps, secs * pps + 1)
        if secs > 1 and abs(a[lastw.start]) > 1:
            a[lastw.start] = 1.0
        if not np.any(a[lastw]):
            a[lastw.start + rng.randint(0, pps)] = rng.choice([-1, 1])
        for _ in range(rng.randint(1, 3)):
            a[secs * pps + rng.randint(1, tail)] = rng.choice([-1, 1]) * rng.choice([2, 3, 8, 80])  # >= 0.0255 g, after the last window
        a = a / 8.0
        fr, pps_, nwin = cavdp_fragile(a, dt)
        if fr or nwin != secs:
            fragile += 1
            continue
        r = guarded(impl, 6, a, dt)
        if isinstance(r, ImplError):
            rep.violation(NAMES[6], {'function': NAMES[6], 'args': {'dt': dt, 'values': list(a)}, 'impl_error': str(r)})
            continue
        c = mk(6, a, dt, r, 1e-10, pps_, nwin)
        c.site = NAMES[6] + '[strong sample only in the trailing part-second]'
        cases.append(c)
        n_tail += 1
    rep.extra['strong_tail_cases'] = n_tail
    rep.extra['fragile_skipped'] = fragile
    rep.correspond('model.K_C09', 'check_case', cases, describe='model_out %s')


def finish(rep):
    return rep.finish(rule=RULE, trusted=TRUSTED, assumptions=['exact real arithmetic in the theorems'])
