"""Input generators shared by the property modules. Every random choice comes from the rng passed in."""
import math, os
import numpy as np

# the shipped strong-motion record is copied here so that generators do not depend on /repo's loader
_MOTION = None


def shipped_motion():
    """(values, dt) of tests/unit_test_data/test_motion_dt0p01.txt parsed here (not through eqsig.loader)"""
    global _MOTION
    if _MOTION is None:
        p = os.path.join(os.path.dirname(os.path.abspath(__file__)), 'data', 'test_motion_dt0p01.txt')
        lines = open(p).read().splitlines()
        dt = float(lines[1].split()[1])
        _MOTION = (np.array([float(x) for x in lines[2:] if x.strip()]), dt)
    return _MOTION


def int_record(rng, n, amp=20, style=None):
    """integer-valued record (exact domain). styles give plateaus, zeros, sign runs, ramps"""
    style = style or rng.choice(['uniform', 'plateau', 'walk', 'sparse', 'ramp', 'const', 'hat', 'startnz'])
    if style == 'uniform':
        v = [rng.randint(-amp, amp) for _ in range(n)]
    elif style == 'plateau':
        v, cur = [], rng.randint(-amp, amp)
        for _ in range(n):
            if rng.random() < 0.45:
                cur = rng.randint(-amp, amp)
            v.append(cur)
    elif style == 'walk':
        v, cur = [], 0
        for _ in range(n):
            cur = max(-amp, min(amp, cur + rng.randint(-3, 3)))
            v.append(cur)
    elif style == 'sparse':
        v = [rng.randint(-amp, amp) if rng.random() < 0.3 else 0 for _ in range(n)]
    elif style == 'ramp':
        c = rng.randint(-3, 3) or 1
        v = [c * i for i in range(n)]
    elif style == 'const':
        c = rng.randint(-amp, amp) or 2
        v = [c] * n
    elif style == 'hat':
        k = rng.randrange(n)
        v = [0] * n
        v[k] = rng.randint(1, amp) * rng.choice([-1, 1])
    else:  # startnz: non-zero first sample, ends non-zero
        v = [rng.randint(-amp, amp) for _ in range(n)]
        v[0] = rng.randint(1, amp) * rng.choice([-1, 1])
        v[-1] = rng.randint(1, amp) * rng.choice([-1, 1])
    return np.array(v, dtype=float), style


def float_record(rng, n, style=None):
    """arbitrary float record (tolerance domain)"""
    style = style or rng.choice(['gauss', 'sine', 'motion', 'chirp', 'offset'])
    if style == 'gauss':
        v = np.array([rng.gauss(0, 1) for _ in range(n)])
    elif style == 'sine':
        w = rng.uniform(0.05, 2.5)
        ph = rng.uniform(0, 6.28)
        v = np.array([rng.uniform(0.1, 5) * math.sin(w * i + ph) for i in range(n)])
    elif style == 'motion':
        m, _ = shipped_motion()
        s = rng.randrange(0, max(1, len(m) - n))
        v = m[s:s + n].copy()
        if len(v) < n:
            v = np.resize(v, n)
    elif style == 'chirp':
        v = np.array([math.sin(0.002 * i * i + 0.1 * i) * math.exp(-i / (n + 1.0)) for i in range(n)])
    else:
        c = rng.uniform(-3, 3)
        v = np.array([c + rng.gauss(0, 0.3) for _ in range(n)])
    return v, style


def dyadic_dt(rng, lo=1, hi=8):
    return 2.0 ** (-rng.randint(lo, hi))


def small_len(rng, lo, hi):
    """length distribution biased to short records but covering the range"""
    r = rng.random()
    if r < 0.5:
        return rng.randint(lo, min(hi, lo + 12))
    if r < 0.85:
        return rng.randint(lo, min(hi, 80))
    return rng.randint(lo, hi)


def all_series(levels, minlen, maxlen, nonconstant=True):
    """every sequence over the given levels with minlen <= length <= maxlen"""
    import itertools
    for n in range(minlen, maxlen + 1):
        for t in itertools.product(levels, repeat=n):
            if nonconstant and len(set(t)) == 1:
                continue
            yield t


def plateau_series(rng, n, levels=5, p_flat=0.4, offset=0):
    v, cur = [], rng.randint(-levels, levels)
    for _ in range(n):
        if rng.random() > p_flat:
            cur = rng.randint(-levels, levels)
        v.append(cur + offset)
    if len(set(v)) == 1:
        v[-1] += 1
    return v


def excursion_series(rng, n):
    """series with several levels per excursion (>=3 distinct magnitudes between sign changes), occasional zeros"""
    v, sign = [], rng.choice([-1, 1])
    while len(v) < n:
        m = rng.randint(1, 7)
        for _ in range(m):
            v.append(sign * rng.randint(1, 9))
        r = rng.random()
        if r < 0.25:
            v.extend([0] * rng.randint(1, 3))
        if r < 0.85:
            sign = -sign
    v = v[:n]
    if len(set(v)) == 1:
        v[-1] += 1
    return v
