#!/bin/bash
# usage: sweep_seeds.sh [Cxx ...]  — run every seeded change under /verif/seeded/<Cxx>_* against the quick check of its
# property in a scratch worktree (never /repo itself) and write one line per seed to seeded/RESULTS.tsv
V=${VERIF_DIR:-/verif}   # VERIF_DIR: run the sweep in a private copy of /verif (several copies can sweep different properties in parallel)
cd $V
props="$@"; [ -z "$props" ] && props=$(ls seeded | grep -o '^C[0-9]*' | sort -u)
for pid in $props; do
  [ -f harness/props/$(echo $pid | tr C c).py ] || { echo "$pid: no check yet"; continue; }
  for d in seeded/${pid}_*; do
    [ -f $d/patch.diff ] || continue
    if [ -z "${SWEEP_FORCE:-}" ] && grep -q "^$(basename $d)	.*exit=1" seeded/RESULTS.tsv 2>/dev/null; then continue; fi
    out=$(VERIF_NPROC=${VERIF_NPROC:-8} VERIF_DIR=$V harness/try_seed_wt.sh $d/patch.diff $pid quick 2>&1)
    rc=$(echo "$out" | grep -o 'exit=[0-9]*' | tail -1)
    nv=$(echo "$out" | grep -c '^VIOLATION')
    first=$(echo "$out" | grep '^VIOLATION' | head -1 | sed 's/.*replay=//')
    site=""
    [ -n "$first" ] && [ -f "${first%% *}" ] && site=$(python3 -c "import json,sys;print(json.load(open(sys.argv[1])).get('site') or json.load(open(sys.argv[1])).get('no_longer_checks'))" "${first%% *}" 2>/dev/null)
    printf "%s\t%s\t%s\tviolations=%s\t%s\n" "$(basename $d)" "$pid" "$rc" "$nv" "$site" | tee -a seeded/RESULTS.tsv
  done
done
