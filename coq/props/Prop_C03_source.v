(** C03 — the tie of the remaining spectrum-layer functions to the SOURCE TEXT (statements; proofs in P_gen_c03).
    gen/Gen_c03.v is re-translated from eqsig/sdof.py and eqsig/im.py with Python `ast` on every run
    (translator/py2coq_c03.py, fail closed). Every operand, literal, comparison operator, default value, the order of the call
    arguments (placed by the CALLEE's signature) and the position of the returned array that is used come from the source
    text; temporaries are substituted (r0, r1, r2 = the three returned arrays by position). The theorems below hold for all
    arguments; a changed operand / literal / comparison / default / argument order / tuple component in the source changes
    the generated term and breaks them.
    Readings that stay with the correspondence (model/K_C03.v): the 2-d arrays are read one row (= one period) at a time
    (`axis=1`, np.diff's last axis, broadcasting of `.values` against the rows, `a.max(axis)` = the row maximum);
    `np.array(periods)` is read as the identity on a list of numbers ([as_array]); np.arange is an input function
    ([arange]: its float semantics is not modelled); the called response functions are inputs ([nj] =
    nigam_and_jennings_response, the subject of C01; [prs] = sdof.pseudo_response_spectra, tied by C03_pseudo_relations_are_source
    of Prop_C03); an option argument [None] stands for "omitted" (and, for sdof.py's `xi=None` / `periods=None`, passed as
    None); floating point. calc_vsi is defined twice in eqsig/im.py with identical text: the LAST definition, the one Python
    binds, is the one translated. *)
From Coq Require Import ZArith Reals List Bool Lra.
From EQ Require Import lib.Num lib.NpList lib.Quad model.M_im model.M_spectra gen.Gen_c03 proofs.P_gen_c03.
Import ListNotations.
Local Open Scope R_scope.

(** sdof.absmax (one row) IS the model's [absmax] — for every numeric instance, hence for the Q run and at R *)
Theorem C03_absmax_is_source : forall (T : Type) (ops : NumOps T) (l : list T), gen_absmax l = absmax l.
Proof. exact (@P_gen_c03.gen_absmax_eq). Qed.
Theorem C03_absmax_is_source_R : forall (l : list R),
  gen_absmax l = Rabs (if Rltb (amax l) (- amin l) then amin l else amax l).
Proof. intros l. reflexivity. Qed.

(** sdof.response_series passes (motion, dt, periods, xi), in this order, to nigam_and_jennings_response *)
Theorem C03_response_series_is_source : forall (A B C D E : Type) (nj : A -> B -> C -> D -> E) m dt p xi,
  gen_response_series nj m dt p xi = nj m dt p xi.
Proof. exact (@P_gen_c03.gen_response_series_eq). Qed.

(** sdof.calc_resp_uke_spectrum: one entry per period = [uke_row] of the SECOND array (velocity rows) returned by
    response_series(values, dt, periods, xi); periods defaults to the object's response_times, xi to 0.05.
    At R: uses 1/2 * (x*x) * 1 = 1/2 * (x*x) (`* mass`, mass = 1). *)
Theorem C03_resp_uke_row_is_source : forall (v : list R), gen_resp_uke_row v = uke_row v.
Proof. exact P_gen_c03.gen_resp_uke_row_R. Qed.
Theorem C03_resp_uke_is_source : forall nj (values : list R) dt response_times periods xi,
  gen_calc_resp_uke_spectrum nj values dt response_times periods xi =
  map uke_row (snd (fst (nj values dt (match periods with None => response_times | Some p => p end)
                                      (match xi with None => 5 / 100 | Some x => x end)))).
Proof. exact P_gen_c03.gen_calc_resp_uke_spectrum_R. Qed.

(** sdof.calc_input_energy_spectrum: both branches of `if series:` on the SECOND returned array, same defaults;
    the row definitions equal the model for every numeric instance (no arithmetic law) *)
Theorem C03_input_energy_rows_are_source : forall (T : Type) (ops : NumOps T) (dt : T) (motion v : list T),
  gen_input_energy_row_if_series dt motion v = input_energy_series dt motion v /\
  gen_input_energy_row_ifnot_series dt motion v = input_energy dt motion v.
Proof. intros T ops dt motion v. split; [apply P_gen_c03.gen_input_energy_row_series_eq | apply P_gen_c03.gen_input_energy_row_eq]. Qed.
Theorem C03_input_energy_is_source : forall nj (values : list R) dt response_times periods xi (series : bool),
  gen_calc_input_energy_spectrum nj values dt response_times periods xi series =
  let v := snd (fst (nj values dt (match periods with None => response_times | Some p => p end)
                                  (match xi with None => 5 / 100 | Some x => x end))) in
  if series then inl (map (input_energy_series dt values) v) else inr (map (input_energy dt values) v).
Proof. exact P_gen_c03.gen_calc_input_energy_spectrum_R. Qed.
Theorem C03_input_energy_default_series_is_source : gen_calc_input_energy_spectrum_default_series = false.
Proof. exact P_gen_c03.gen_input_energy_default_series. Qed.

(** the spectrum-intensity model (at least two periods; `max` of an empty array raises in the code):
    the partial trapezoid integrals of |ps| never decrease, so the maximum is the last one *)
Theorem C03_intensity_spec : forall c g (ps : list R), 0 <= c -> (2 <= length ps)%nat ->
  spectrum_intensity_raw c ps = c * last (cumtrapz 1 (vabs ps)) 0 /\
  spectrum_intensity_raw c ps = c * trapz 1 (vabs ps) /\
  spectrum_intensity c g ps = c * trapz 1 (vabs ps) / g.
Proof.
  intros c g ps Hc Hlen. split; [now apply P_gen_c03.intensity_raw_is_last|].
  split; [now apply P_gen_c03.intensity_raw_is_trapz | now apply P_gen_c03.intensity_is_trapz].
Qed.
Theorem C03_intensity_nonneg : forall c g (ps : list R), 0 <= c -> 0 < g ->
  0 <= spectrum_intensity_raw c ps /\ 0 <= spectrum_intensity c g ps.
Proof. intros c g ps Hc Hg. split; [now apply P_gen_c03.intensity_raw_nonneg | now apply P_gen_c03.intensity_nonneg]. Qed.
Theorem C03_intensity_scaling : forall c g al (ps : list R),
  spectrum_intensity_raw c (map (Rmult al) ps) = Rabs al * spectrum_intensity_raw c ps /\
  spectrum_intensity c g (map (Rmult al) ps) = Rabs al * spectrum_intensity c g ps.
Proof. intros c g al ps. split; [apply P_gen_c03.intensity_raw_scale | apply P_gen_c03.intensity_scale]. Qed.

(** im.calc_asi = spectrum_intensity 0.01 9.81 of the THIRD array (pseudo acceleration) returned by
    sdof.pseudo_response_spectra(values, dt, periods, xi); xi defaults to 0.05, periods to np.arange(0.1, 1.51, 0.01) *)
Theorem C03_asi_is_source : forall prs arange (values : list R) dt xi periods,
  gen_calc_asi prs arange values dt xi periods =
  spectrum_intensity (1 / 100) (981 / 100)
    (snd (prs values dt (match periods with None => arange (1 / 10) (151 / 100) (1 / 100) | Some p => p end)
                        (match xi with None => 5 / 100 | Some x => x end))).
Proof. exact P_gen_c03.gen_calc_asi_R. Qed.
(** im.calc_vsi (last definition) = the same WITHOUT the division ([spectrum_intensity_raw], = g := 1) of the SECOND array
    (pseudo velocity); default grid np.arange(0.1, 2.51, 0.01) *)
Theorem C03_vsi_is_source : forall prs arange (values : list R) dt xi periods,
  let ps := snd (fst (prs values dt (match periods with None => arange (1 / 10) (251 / 100) (1 / 100) | Some p => p end)
                                    (match xi with None => 5 / 100 | Some x => x end))) in
  gen_calc_vsi prs arange values dt xi periods = spectrum_intensity_raw (1 / 100) ps /\
  gen_calc_vsi prs arange values dt xi periods = spectrum_intensity (1 / 100) 1 ps.
Proof.
  intros prs arange values dt xi periods ps. split; [|exact (P_gen_c03.gen_calc_vsi_R prs arange values dt xi periods)].
  unfold ps. rewrite (P_gen_c03.gen_calc_vsi_R prs arange values dt xi periods). apply P_gen_c03.intensity_g1.
Qed.
(** the per-spectrum pieces for every numeric instance (the form the Q run of K_C03 evaluates) *)
Theorem C03_intensity_of_spectrum_is_source : forall (T : Type) (ops : NumOps T) (ps : list T),
  gen_asi_of_spectrum ps = spectrum_intensity (ndiv n1 (nofZ 100)) (ndiv (nofZ 981) (nofZ 100)) ps /\
  gen_vsi_of_spectrum ps = spectrum_intensity_raw (ndiv n1 (nofZ 100)) ps.
Proof. intros T ops ps. split; reflexivity. Qed.

(** not vacuous: a spectrum with both signs (partial integrals 1.5, 3, 5.5, so the maximum is the last); the wiring picks
    the third / second component of what the response function returns and fills in the defaults (asi: the spectrum is
    made of the default xi and the default arange arguments, [0.05; 0.1; 1.51; 0.01]) *)
Example C03_source_nonvacuous :
  spectrum_intensity_raw (1 / 100) [1; -2; 1; 4] = 55 / 1000 /\
  gen_calc_asi (fun v dt p xi => ([], [], xi :: p)) (fun a b c => [a; b; c]) [0; 1] (1 / 100) None None = 164 / 98100 /\
  gen_calc_vsi (fun v dt p xi => ([xi], p, v)) (fun a b c => [a; b; c]) [0; 1] (1 / 100) None (Some [1; -2; 1; 4]) = 55 / 1000 /\
  gen_absmax [1; -3; 2] = 3.
Proof.
  assert (E : forall a b : R, nmax a b = Rmax a b) by exact nmax_R.
  split; [|split; [|split]].
  - rewrite P_gen_c03.intensity_raw_is_trapz by (cbn; try lra; auto with arith).
    unfold trapz, nsum, vabs. cbn [map map2 tl fold_left]. numR.
    rewrite (Rabs_pos_eq 1), (Rabs_left (-2)), (Rabs_pos_eq 4) by lra. lra.
  - rewrite P_gen_c03.gen_calc_asi_R. cbn [snd]. rewrite P_gen_c03.intensity_is_trapz by (cbn; try lra; auto with arith).
    unfold trapz, nsum, vabs. cbn [map map2 tl fold_left]. numR.
    rewrite (Rabs_pos_eq (5 / 100)), (Rabs_pos_eq (1 / 10)), (Rabs_pos_eq (151 / 100)), (Rabs_pos_eq (1 / 100)) by lra. lra.
  - rewrite P_gen_c03.gen_calc_vsi_R, P_gen_c03.intensity_g1. cbn [snd fst].
    rewrite P_gen_c03.intensity_raw_is_trapz by (cbn; try lra; auto with arith).
    unfold trapz, nsum, vabs. cbn [map map2 tl fold_left]. numR.
    rewrite (Rabs_pos_eq 1), (Rabs_left (-2)), (Rabs_pos_eq 4) by lra. lra.
  - rewrite (P_gen_c03.gen_absmax_eq [1; -3; 2]). unfold absmax, amax, amin. cbn [fold_left]. rewrite !nmax_R, !nmin_R. numR.
    unfold Rmax, Rmin. repeat (destruct (Rle_dec _ _); try lra).
    case_Rltb 2 (- -3); [|lra]. rewrite Rabs_left; lra.
Qed.
