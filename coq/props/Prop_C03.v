(** C03 — Response spectra are peak responses with consistent pseudo-spectral relations (statements; proofs in P_C03).
    Model: model/M_spectra.v on top of the response rows of model/M_sdof.v. Over R (exact arithmetic).
    "All outputs are finite" is meaningless over R and is monitored on the implementation's floats by the check only. *)
From Coq Require Import ZArith Reals List Lia Lra Bool.
From Coquelicot Require Import Coquelicot.
From EQ Require Import lib.Num lib.NpList lib.Quad model.M_sdof gen.Gen_sdof_coeffs model.M_sdof_R model.M_spectra
  proofs.P_C01 proofs.P_C01_glue proofs.P_C02 proofs.P_C03 proofs.P_C03_energy.
Import ListNotations.
Local Open Scope R_scope.

(** sdof.absmax is the maximum absolute value (never negative; attained; 0 on a zero row) *)
Theorem C03_absmax_spec : forall (l : list R),
  0 <= absmax l /\ (forall y, In y l -> Rabs y <= absmax l) /\ (l <> [] -> exists y, In y l /\ Rabs y = absmax l).
Proof. intros l. split; [apply absmax_nonneg|]. split; [apply absmax_upper | apply absmax_attained]. Qed.

(** one entry per period *)
Theorem C03_shape : forall pi2 dt (periods motion : list R) resp, length resp = length periods ->
  let '(sds, svs, sas) := pseudo_spectra pi2 dt periods motion resp in
  length sds = length periods /\ length svs = length periods /\ length sas = length periods.
Proof. exact P_C03.pseudo_lengths. Qed.

(** pseudo spectra, entry i: S_d = max|u_i|; S_v = w S_d; S_a = w^2 S_d — or the peak ground acceleration when T_i < 6 dt;
    w = 2 pi / T_i, except the placeholder 1 on a leading period of exactly 0 (whose S_d is 0, see C03_zero_period) *)
Theorem C03_pseudo_relations : forall pi2 dt (periods motion : list R) resp i, length resp = length periods -> (i < length periods)%nat ->
  let '(sds, svs, sas) := pseudo_spectra pi2 dt periods motion resp in
  let w := if andb (Nat.eqb i 0) (Reqb (nth 0 periods 0) 0) then 1 else pi2 / nth i periods 0 in
  let sd := absmax (fst (fst (nth i resp ([], [], [])))) in
  nth i sds 0 = sd /\ nth i svs 0 = w * sd /\
  nth i sas 0 = if Rltb (nth i periods 0) (dt * 6) then absmax motion else w * w * sd.
Proof.
  intros pi2 dt periods motion resp i Hl Hi.
  pose proof (P_C03.pseudo_nth pi2 dt periods motion resp Hl i Hi) as H.
  rewrite (P_C03.ws_pseudo_nth pi2 periods resp Hl i Hi) in H. exact H.
Qed.

(** a leading period of 0: S_d = 0, S_v = 0 and (as 0 < 6 dt) S_a = PGA *)
Theorem C03_zero_period : forall pi2 dt (ps motion rec : list R) rows, 0 < dt ->
  let '(sds, svs, sas) := pseudo_spectra pi2 dt (0 :: ps) motion (zero_row rec :: rows) in
  nth 0 sds 0 = 0 /\ nth 0 svs 0 = 0 /\ nth 0 sas 0 = absmax motion.
Proof.
  intros pi2 dt ps motion rec rows Hdt. unfold pseudo_spectra, pga_cut, ws_pseudo, us, zero_row. numR.
  case_Reqb 0 0; [|lra]. cbn [map fst map2 nth]. rewrite absmax_zeros. numR.
  case_Rltb 0 (dt * 6); [|lra]. repeat split; ring.
Qed.

(** true spectra: max|u|, max|v|, max|a_total| (PGA below 6 dt) *)
Theorem C03_true_spectra : forall dt (periods motion : list R) resp i, length resp = length periods -> (i < length periods)%nat ->
  let '(sds, svs, sas) := true_spectra dt periods motion resp in
  let r := nth i resp ([], [], []) in
  nth i sds 0 = absmax (fst (fst r)) /\ nth i svs 0 = absmax (snd (fst r)) /\
  nth i sas 0 = if Rltb (nth i periods 0) (dt * 6) then absmax motion else absmax (snd r).
Proof. intros. now apply P_C03.true_nth. Qed.

(** undamped: max|a_total| = w^2 S_d with the w the response itself uses (6.2831853/T; the pseudo relation uses 2 pi / T,
    2e-9 away — the difference between the two constants is NOT removed by any theorem here) *)
Theorem C03_undamped_true_eq_pseudo : forall (c : coeffs R) w (rec : list R), rec <> [] ->
  absmax (snd (row c 0 w rec)) = w ^ 2 * absmax (fst (fst (row c 0 w rec))).
Proof. exact P_C03.undamped_acc. Qed.

(** non-negative outputs (pi2 > 0, positive non-leading periods) *)
Theorem C03_nonneg : forall pi2 dt (periods motion : list R) resp i, length resp = length periods -> (i < length periods)%nat ->
  0 < pi2 -> (forall j, (0 < j < length periods)%nat -> 0 < nth j periods 0) -> 0 <= nth 0 periods 0 ->
  let '(sds, svs, sas) := pseudo_spectra pi2 dt periods motion resp in
  0 <= nth i sds 0 /\ 0 <= nth i svs 0 /\ 0 <= nth i sas 0.
Proof.
  intros pi2 dt periods motion resp i Hl Hi Hpi Hpos H0.
  pose proof (P_C03.pseudo_nth pi2 dt periods motion resp Hl i Hi) as H.
  rewrite (P_C03.ws_pseudo_nth pi2 periods resp Hl i Hi) in H.
  destruct (pseudo_spectra pi2 dt periods motion resp) as [[sds svs] sas]. cbn zeta in H.
  destruct H as (E1 & E2 & E3). rewrite E1, E2, E3.
  set (sd := absmax _). assert (Hsd : 0 <= sd) by apply absmax_nonneg.
  assert (Hw : 0 <= (if (i =? 0)%nat && Reqb (nth 0 periods 0) 0 then 1 else pi2 / nth i periods 0)).
  { destruct ((i =? 0)%nat && Reqb (nth 0 periods 0) 0) eqn:Eb; [lra|].
    destruct i as [|j].
    - cbn [Nat.eqb andb] in Eb. apply Reqb_false in Eb. apply Rlt_le, Rdiv_lt_0_compat; lra.
    - apply Rlt_le, Rdiv_lt_0_compat; [lra|]. apply Hpos. lia. }
  split; [exact Hsd|]. split; [now apply Rmult_le_pos|].
  destruct (Rltb _ _); [apply absmax_nonneg|]. apply Rmult_le_pos; [now apply Rmult_le_pos | exact Hsd].
Qed.

(** object level (AccSignal.gen_response_spectrum): the record is refined by an integer factor m >= 1, the step used is
    dt/m <= max(T_min/20, dt/min_dt_ratio) whenever that target is below dt, and m = 1 (no interpolation) otherwise *)
Theorem C03_object_step : forall dt ratio (periods : list R), 0 < dt -> 0 < target_dt dt ratio periods ->
  let m := obj_factor dt ratio periods in
  (1 <= m)%Z /\ dt / IZR m <= Rmax (target_dt dt ratio periods) dt /\
  (dt <= target_dt dt ratio periods -> m = 1%Z) /\
  (target_dt dt ratio periods < dt -> dt / IZR m <= target_dt dt ratio periods).
Proof. exact P_C03.obj_factor_rule. Qed.
(** the interpolated record handed on (np.interp at i/m, clamped at the end) interpolates the raw record, so by
    C02_refine_spectra_ge the object's S_d (and max|v|) is never below the value computed from the raw samples *)
Theorem C03_object_record_interpolates : forall (vals : list R) (m : nat), (1 <= m)%nat ->
  interpolates m vals (interp_record vals (Z.of_nat m)).
Proof. exact P_C03.interp_record_interpolates. Qed.
Theorem C03_object_ge_raw : forall xi w dt, 0 < w -> 0 <= xi -> xi < 1 -> 0 < dt -> forall (m : nat) (vals : list R), (1 <= m)%nat ->
  absmax (map fst (nj_series (nj_coeffs xi w dt) vals))
  <= absmax (map fst (nj_series (nj_coeffs xi w (dt / INR m)) (interp_record vals (Z.of_nat m)))).
Proof.
  intros xi w dt Hw H0 H1 Hdt m vals Hm.
  apply (P_C03.refine_sd_ge xi w dt Hw H0 H1 Hdt m vals _ Hm). now apply P_C03.interp_record_interpolates.
Qed.

(** energy spectra are their defining sums over the response velocity; the series form ends at the spectrum value *)
Theorem C03_energy_defs : forall dt (motion v : list R),
  input_energy dt motion v = nsum (map2 (fun a x => a * x * dt) motion v) /\
  uke_row v = nsum (map Rabs (diff (map (fun x => 1 / 2 * (x * x)) v))) /\
  (length motion = length v -> motion <> [] -> last (input_energy_series dt motion v) 0 = input_energy dt motion v).
Proof. intros. split; [reflexivity|]. split; [reflexivity|]. apply P_C03.input_energy_last. Qed.

(** REFUTED clause: "the input energy is non-negative at the end of the record" is false for the rectangle-rule sum the
    code computes: for the record [-3; 1], dt = 1/10, xi = 1/20 and the code's w for T = 1/2 the model value is negative
    (the implementation returns -0.0045). This is the known finding of C03; what holds instead is the continuous-time
    energy balance below (the C03_continuous_ theorems), which is not the quantity the function returns. *)
Theorem C03_input_energy_nonneg_refuted : exists xi w dt (rec : list R), 0 < w /\ 0 <= xi < 1 /\ 0 < dt /\
  input_energy dt rec (map snd (nj_series (nj_coeffs xi w dt) rec)) < 0.
Proof. exact P_C03.input_energy_negative_witness. Qed.

(** * What holds instead: the continuous-time energy balance (Coquelicot derivatives and Riemann integrals)
    [energy w u v t] = 1/2 v(t)^2 + 1/2 w^2 u(t)^2  (per unit mass). *)

(** power balance of the closed form on one step with the linear load g0 + s t:  dE/dt = g v - 2 xi w v^2 *)
Theorem C03_continuous_power_balance : forall xi w, 0 < w -> 0 <= xi -> xi < 1 -> forall u0 v0 g0 s t,
  is_derive (energy w (usol xi w u0 v0 g0 s) (vsol xi w u0 v0 g0 s)) t
    ((g0 + s * t) * vsol xi w u0 v0 g0 s t - 2 * xi * w * (vsol xi w u0 v0 g0 s t * vsol xi w u0 v0 g0 s t)).
Proof. exact P_C03_energy.closed_power. Qed.

(** one step, any initial state: input energy = E(T) - E(0) + dissipated energy, hence >= -E(0) *)
Theorem C03_continuous_energy_balance_one_step : forall xi w, 0 < w -> 0 <= xi -> xi < 1 -> forall u0 v0 g0 s T, 0 <= T ->
  RInt (fun t => (g0 + s * t) * vsol xi w u0 v0 g0 s t) 0 T
  = energy w (usol xi w u0 v0 g0 s) (vsol xi w u0 v0 g0 s) T - (1 / 2 * (v0 * v0) + 1 / 2 * (w ^ 2 * (u0 * u0)))
    + 2 * xi * w * RInt (fun t => vsol xi w u0 v0 g0 s t * vsol xi w u0 v0 g0 s t) 0 T
  /\ - (1 / 2 * (v0 * v0) + 1 / 2 * (w ^ 2 * (u0 * u0))) <= RInt (fun t => (g0 + s * t) * vsol xi w u0 v0 g0 s t) 0 T.
Proof.
  intros xi w Hw H0 H1 u0 v0 g0 s T HT.
  split; [now apply P_C03_energy.closed_balance | now apply P_C03_energy.closed_input_energy_lower].
Qed.

(** one step from the zero state: the input energy int_0^T g v dt is >= 0 at every time T >= 0 *)
Theorem C03_continuous_input_energy_nonneg : forall xi w, 0 < w -> 0 <= xi -> xi < 1 -> forall g0 s T, 0 <= T ->
  0 <= RInt (fun t => (g0 + s * t) * vsol xi w 0 0 g0 s t) 0 T.
Proof. exact P_C03_energy.closed_input_energy_nonneg. Qed.

(** the whole record: for EVERY exact solution (u, v) of C01 ([solves]; it exists and is unique: C01_solution_exists,
    C01_solution_unique) and the piecewise-linear record load [pwload], at every time T in [0, (n-1) dt]
      int_0^T a(t) v(t) dt = 1/2 v(T)^2 + 1/2 w^2 u(T)^2 + 2 xi w int_0^T v^2 dt   >= 0 *)
Theorem C03_continuous_energy_balance_record : forall xi w dt, 0 < w -> 0 <= xi -> xi < 1 -> 0 < dt ->
  forall (rec : list R) (u v : R -> R), solves xi w dt rec u v ->
  forall T, 0 <= T <= INR (length rec - 1) * dt ->
  RInt (fun t => pwload rec dt t * v t) 0 T = energy w u v T + 2 * xi * w * RInt (fun t => v t * v t) 0 T.
Proof. intros xi w dt Hw H0 H1 Hdt. exact (P_C03_energy.record_energy_balance xi w dt Hdt). Qed.
Theorem C03_continuous_input_energy_nonneg_record : forall xi w dt, 0 < w -> 0 <= xi -> xi < 1 -> 0 < dt ->
  forall (rec : list R) (u v : R -> R), solves xi w dt rec u v ->
  forall T, 0 <= T <= INR (length rec - 1) * dt -> 0 <= RInt (fun t => pwload rec dt t * v t) 0 T.
Proof. intros xi w dt Hw H0 H1 Hdt. exact (P_C03_energy.record_input_energy_nonneg xi w dt Hw H0 Hdt). Qed.
(** not vacuous: the glued solution of C01 is such a (u, v), for every record *)
Theorem C03_continuous_input_energy_nonneg_glued : forall xi w dt, 0 < w -> 0 <= xi -> xi < 1 -> 0 < dt -> forall (rec : list R),
  solves xi w dt rec (glued_u xi w dt rec) (glued_v xi w dt rec) /\
  forall T, 0 <= T <= INR (length rec - 1) * dt -> 0 <= RInt (fun t => pwload rec dt t * glued_v xi w dt rec t) 0 T.
Proof. exact P_C03_energy.record_input_energy_nonneg_glued. Qed.
(** NOT proved: any relation between this integral and the rectangle-rule sum the function returns (they differ by a
    quadrature error that is not sign-definite - that is exactly the refuted clause). *)

Example C03_nonvacuous : absmax [1; -3; 2] = 3 /\ obj_factor 1 4 [2; 5] = 4%Z.
Proof.
  split.
  - destruct (absmax_attained [1; -3; 2] ltac:(discriminate)) as [y [Hy Ey]].
    pose proof (absmax_upper [1; -3; 2] (-3) ltac:(cbn; auto)) as Hu.
    rewrite Rabs_left in Hu by lra. rewrite <- Ey in *.
    cbn [In] in Hy. destruct Hy as [<-|[<-|[<-|[]]]].
    + rewrite Rabs_pos_eq in * by lra. lra.
    + rewrite Rabs_left by lra. lra.
    + rewrite Rabs_pos_eq in * by lra. lra.
  - exact P_C03.obj_factor_example.
Qed.

(** * The tie of the pseudo-spectral relations to the SOURCE TEXT (proofs in P_C03_loop)
    [gen_w_pseudo], [gen_w_pseudo_lead0], [gen_w_placeholder], [gen_psv], [gen_psa], [gen_cut_threshold],
    [gen_cut_factor], [gen_cut_cond] (and the gen_true_cut_ ones) are the scalar readings of
    `w = 2 * np.pi / periods` (both branches), `svs = w * sds`, `sas = w ** 2 * sds` and
    `np.where(periods < dt * 6, absmax(motion), sas)` of eqsig/sdof.py:pseudo_response_spectra / true_response_spectra,
    re-extracted with Python `ast` on every run (translator/py2coq_sdof_loop.py -> gen/Gen_sdof_loop.v). The translator
    also checks structurally that S_d = absmax(<first returned rows>, axis=1) and that the true spectra are absmax of
    the (u, v, a) rows in this order. Theorems for all arguments; a changed operand, power, literal or comparison in
    the source breaks them.
    Still NOT proved / only by correspondence: that the numpy statements mean these readings entry by entry
    (broadcasting, np.where semantics) and floating point.  sdof.absmax itself, the energy spectra and the spectrum
    intensities (calc_asi / calc_vsi) are tied to their source text in props/Prop_C03_source.v (translator/py2coq_c03.py). *)
From EQ Require Import gen.Gen_sdof_loop proofs.P_C03_loop.

(** entry i of pseudo_response_spectra stated entirely with the generated definitions (pi2 := 2 PI) *)
Theorem C03_pseudo_relations_are_source : forall dt (periods motion : list R) resp i,
  length resp = length periods -> (i < length periods)%nat ->
  let '(sds, svs, sas) := pseudo_spectra (2 * PI) dt periods motion resp in
  let w := if Reqb (nth 0 periods 0) 0
           then (if Nat.eqb i 0 then gen_w_placeholder else gen_w_pseudo_lead0 (nth i periods 0))
           else gen_w_pseudo (nth i periods 0) in
  let sd := absmax (fst (fst (nth i resp ([], [], [])))) in
  nth i sds 0 = sd /\ nth i svs 0 = gen_psv w sd /\
  (gen_cut_cond (nth i periods 0) dt -> nth i sas 0 = absmax motion) /\
  (~ gen_cut_cond (nth i periods 0) dt -> nth i sas 0 = gen_psa w sd).
Proof. exact P_C03_loop.pseudo_relations_are_source. Qed.

(** the pieces: the model's map2 functions are the source lines, the model's w is the source's w *)
Theorem C03_pseudo_lines_are_source : forall w sd P : R,
  nmul w sd = gen_psv w sd /\ (w * w) * sd = gen_psa w sd /\
  gen_w_pseudo P = 2 * PI / P /\ gen_w_pseudo_lead0 P = 2 * PI / P /\ gen_w_placeholder = 1.
Proof.
  intros w sd P. split; [apply P_C03_loop.psv_is_source|]. split; [apply P_C03_loop.psa_is_source|].
  destruct (P_C03_loop.w_pseudo_is_source P) as [E1 E2]. split; [exact E1|]. split; [exact E2|].
  exact P_C03_loop.w_placeholder_is_source.
Qed.

(** cut: the model's test `T <? dt * 6` is the source's comparison, the factor is the source's literal 6, and entry i of
    [pga_cut] is np.where(cond, absmax(motion), sas) *)
Theorem C03_cut_is_source : gen_cut_factor = 6 /\
  (forall P dt, gen_cut_threshold dt = dt * gen_cut_factor /\ (Rltb P (dt * 6) = true <-> gen_cut_cond P dt)) /\
  forall dt (periods motion sas : list R) i, length sas = length periods -> (i < length periods)%nat ->
    (gen_cut_cond (nth i periods 0) dt -> nth i (pga_cut dt periods motion sas) 0 = absmax motion) /\
    (~ gen_cut_cond (nth i periods 0) dt -> nth i (pga_cut dt periods motion sas) 0 = nth i sas 0).
Proof.
  split; [exact P_C03_loop.cut_factor_is_source|]. split.
  - intros P dt. split; [apply (P_C03_loop.cut_threshold_is_source dt) | apply P_C03_loop.cut_cond_is_source].
  - exact P_C03_loop.pga_cut_is_source.
Qed.

(** the same np.where in true_response_spectra *)
Theorem C03_true_cut_is_source : forall dt (periods motion : list R) resp i,
  length resp = length periods -> (i < length periods)%nat ->
  (gen_true_cut_factor = 6 /\ gen_true_cut_threshold dt = dt * gen_true_cut_factor) /\
  let '(sds, svs, sas) := true_spectra dt periods motion resp in
  (gen_true_cut_cond (nth i periods 0) dt -> nth i sas 0 = absmax motion) /\
  (~ gen_true_cut_cond (nth i periods 0) dt -> nth i sas 0 = absmax (snd (nth i resp ([], [], [])))).
Proof.
  intros dt periods motion resp i Hl Hi. split; [apply P_C03_loop.true_cut_factor_is_source|].
  exact (P_C03_loop.true_cut_is_source dt periods motion resp i Hl Hi).
Qed.

(** non-vacuity of the cut on both sides: T = 1/20 < 6 * (1/100) is substituted, T = 1 is not *)
Example C03_cut_nonvacuous : gen_cut_cond (1 / 20) (1 / 100) /\ ~ gen_cut_cond 1 (1 / 100).
Proof. unfold gen_cut_cond, gen_cut_threshold. split; lra. Qed.

(** ** Source-text tie for the object layer (translator/py2coq_objlayer.py -> gen/Gen_c03_obj.v, proofs in P_gen_c03_obj)

    Every run re-translates eqsig/single.py: AccSignal.gen_response_spectrum, generate_response_spectrum and the lazy
    getters s_a / s_v / s_d by symbolic execution over the record [obj] of the fields they touch (values, dt,
    _response_times, _cached_response_spectra, _cached_xi, _s_d, _s_v, _s_a); properties and methods of the class are
    inlined along the MRO as Python resolves them (the response_times setter, the values / dt getters).  The two functions
    of other modules stay parameters: IA = interp_array_to_approx_dt(values, dt, target_dt, even) (property C14),
    PRS = sdof.pseudo_response_spectra(motion, dt, periods, xi) (properties C01-C03, theorems above); A is the type of one
    spectrum.  The theorems say, for ALL inputs: the periods used are the argument if given (stored first) else the stored
    ones; the target step IS [target_dt] of the model (first period unless it is 0, then the second; / 20; dt /
    min_dt_ratio; the builtin max); the record is refined exactly when target_dt < dt -- the branch on which [obj_factor] is
    the ceiling of dt / target_dt, and 1 on the other -- by IA(values, dt, target_dt, even=False); xi = -1 means the cached
    damping; PRS gets (record, step, periods, xi) in this order and its results are stored as (_s_d, _s_v, _s_a) in this
    order; the flag is set; values, dt and _cached_xi are left alone.  A changed operand / index / literal / comparison /
    keyword / default / storage order changes the generated text and breaks one of these theorems; a renamed temporary
    gives the same text.
    NOT covered here (trusted reading / correspondence): IA and PRS themselves (their own properties), `if self.verbose:
    print(..)` dropped as having no effect on the record, the `except MemoryError: raise MemoryError(..)` re-wording,
    Python's evaluation of `response_times[0] != 0` on a non-float entry, binary64 rounding of the two quotients. *)
From EQ Require Import lib.PyRes gen.Gen_c03_obj proofs.P_gen_c03_obj.

Theorem C03_object_step_is_source : forall (A : Type) (IA : list R -> R -> R -> bool -> list R * R)
    (PRS : list R -> R -> list R -> R -> A * A * A) (rt : option (list R)) (xi ratio : R) (st : obj A),
  let periods := match rt with Some r => r | None => o_response_times A st end in
  let td := target_dt (o_dt A st) ratio periods in
  let rc := if Rltb td (o_dt A st) then IA (o_values A st) (o_dt A st) td false else (o_values A st, o_dt A st) in
  let r := PRS (fst rc) (snd rc) periods (if Reqb xi (-1) then o_cached_xi A st else xi) in
  periods <> [] -> (hd 0 periods = 0 -> (2 <= length periods)%nat) ->
  gen_gen_response_spectrum A IA PRS rt xi ratio st
  = PyOk (mk_obj A (o_values A st) (o_dt A st) periods true (o_cached_xi A st) (fst (fst r)) (snd (fst r)) (snd r)).
Proof. intros A IA PRS. exact (P_gen_c03_obj.gen_grs_ok_R IA PRS). Qed.
(** no period, or the single period 0: Python raises IndexError ([response_times[0]] resp. [response_times[1]]) *)
Theorem C03_object_step_raises_is_source : forall (A : Type) (IA : list R -> R -> R -> bool -> list R * R)
    (PRS : list R -> R -> list R -> R -> A * A * A) (rt : option (list R)) (xi ratio : R) (st : obj A),
  let periods := match rt with Some r => r | None => o_response_times A st end in
  periods = [] \/ periods = [0] -> gen_gen_response_spectrum A IA PRS rt xi ratio st = PyRaise IndexError.
Proof. intros A IA PRS. exact (P_gen_c03_obj.gen_grs_raises_R IA PRS). Qed.
(** the branch of the source and the factor of the model (C03_object_step is about this [obj_factor]) *)
Theorem C03_object_factor_is_source_branch : forall dt ratio (periods : list R),
  obj_factor dt ratio periods = if Rltb (target_dt dt ratio periods) dt then nceil (dt / target_dt dt ratio periods) else 1%Z.
Proof. exact (@P_gen_c03_obj.obj_factor_branch R _). Qed.
(** generate_response_spectrum hands its arguments on unchanged *)
Theorem C03_generate_is_gen_is_source : forall (A : Type) (IA : list R -> R -> R -> bool -> list R * R)
    (PRS : list R -> R -> list R -> R -> A * A * A) (rt : option (list R)) (xi ratio : R) (st : obj A),
  gen_generate_response_spectrum A IA PRS rt xi ratio st = gen_gen_response_spectrum A IA PRS rt xi ratio st.
Proof. intros A IA PRS. exact (P_gen_c03_obj.gen_generate_rs_eq IA PRS). Qed.
(** the lazy getters: the stored spectrum when the flag is set; otherwise the step above with response_times=None, xi=-1,
    min_dt_ratio=4 (the defaults of generate_response_spectrum), then the stored spectrum -- s_a reads _s_a, s_v reads _s_v,
    s_d reads _s_d *)
Theorem C03_lazy_spectra_are_source : forall (A : Type) (IA : list R -> R -> R -> bool -> list R * R)
    (PRS : list R -> R -> list R -> R -> A * A * A) (st : obj A),
  let lazy := fun (proj : obj A -> A) =>
    if o_cached_rs A st then PyOk (st, proj st)
    else match gen_gen_response_spectrum A IA PRS None (-1) 4 st with
         | PyOk st' => PyOk (st', proj st')
         | PyRaise e => PyRaise e
         end in
  gen_s_a A IA PRS st = lazy (o_s_a A) /\ gen_s_v A IA PRS st = lazy (o_s_v A) /\ gen_s_d A IA PRS st = lazy (o_s_d A).
Proof. intros A IA PRS. exact (P_gen_c03_obj.gen_lazy_spectra_R IA PRS). Qed.
Theorem C03_object_defaults_are_source :
  gen_gen_response_spectrum_default_response_times_is_none = true /\ gen_gen_response_spectrum_default_xi = (-1)%Z /\
  gen_gen_response_spectrum_default_min_dt_ratio = 4%Z /\
  gen_generate_response_spectrum_default_response_times_is_none = true /\ gen_generate_response_spectrum_default_xi = (-1)%Z /\
  gen_generate_response_spectrum_default_min_dt_ratio = 4%Z.
Proof. exact P_gen_c03_obj.gen_c03_obj_defaults. Qed.
