(** C05 — Signal objects own their data; analysis functions do not mutate inputs (statements; proofs in proofs/P_C05.v).

    The theorems are about the alias/effect IR of model/M_effects.v. The IR terms of gen/Gen_effects.v are regenerated
    from the eqsig sources on every run (translator/py2ir_effects.py, fail-closed); the translator's classification of
    NumPy/SciPy/builtin calls (copy / view / in place) is TRUSTED and validated by the dynamic cross-check of the same run.
    All theorems below are axiom-free. *)
From Coq Require Import String List Bool Arith.
From EQ Require Import model.M_effects proofs.P_C05 gen.Gen_effects gen.Gen_effects_obl.
Import ListNotations.
Local Open Scope string_scope.

(** ** 1. Soundness of the abstract interpreter (induction on executions, loops by checked post-fixpoints) *)

(** an accepted body leaves unchanged every entry buffer that only protected roots denote *)
Theorem C05_effects_sound : forall f st st',
  no_param_mutation f = true ->
  (forall x, senv st x <> None -> In x (f_roots f)) ->
  exec (f_body f) st st' ->
  forall p b, In p (f_prot f) -> senv st p = Some b -> b < snext st ->
    (forall r, senv st r = Some b -> In r (f_prot f)) ->
    sheap st' b = sheap st b.
Proof. exact P_C05.effects_sound. Qed.

(** what the analysis reports about the returned value ("$ret") or any variable at exit is sound:
    a buffer that existed at entry and is denoted by [x] at exit is the entry buffer of one of the reported roots *)
Theorem C05_exit_roots_sound : forall f st st' x b,
  (forall y, senv st y <> None -> In y (f_roots f)) ->
  exec (f_body f) st st' -> senv st' x = Some b -> b < snext st ->
  exists r, In r (exit_roots f x) /\ (r = "?" \/ senv st r = Some b).
Proof. exact P_C05.exit_roots_sound. Qed.

(** ** 2. "every array-level analysis function leaves its input arrays bit-for-bit unchanged":
    for EVERY translated public function of the package (the list is regenerated from /repo), every execution of its IR
    term from any entry state leaves the content of every buffer reachable from a parameter unchanged *)
Theorem C05_every_function_leaves_inputs_unchanged : forall f, In f all_funcs ->
  forall st st',
  (forall x, senv st x <> None -> In x (f_roots f)) ->
  (forall x b, senv st x = Some b -> b < snext st) ->
  exec (f_body f) st st' ->
  forall p b, senv st p = Some b -> sheap st' b = sheap st b.
Proof.
  intros f Hf st st' Hr Hw Hex p b Hb.
  pose proof obl_all_funcs as Ha. rewrite forallb_forall in Ha.
  pose proof obl_prot_all as Hp. rewrite forallb_forall in Hp.
  eapply P_C05.effects_sound_pure; eauto.
  intros x Hx. specialize (Hp f Hf). apply P_C05.subset_incl in Hp. now apply Hp.
Qed.

(** ** 3. Ownership: along ANY history of caller allocations, caller writes and method calls (any order, any arguments
    taken from the caller's buffers), no owned field of the object ("self._values", "self._cached_params") ever denotes
    a caller buffer ... *)
Theorem C05_ownership : forall c, owns_values c = true -> forall w w', owned_inv c w -> steps c w w' -> owned_inv c w'.
Proof. exact P_C05.ownership_invariant. Qed.
(** ... hence no later operation on the object modifies a caller array ... *)
Theorem C05_calls_preserve_caller : forall c, owns_values c = true -> forall w0 w m args st',
  owned_inv c w0 -> steps c w0 w -> In m (c_methods c) ->
  (forall b, In (Some b) args -> In b (w_caller w)) ->
  exec (m_body m) (mkSt (entry_env c m (w_fenv w) args) (w_heap w) (w_kind w) (w_next w)) st' ->
  forall b, In b (w_caller w) -> sheap st' b = w_heap w b.
Proof. exact P_C05.calls_preserve_caller. Qed.
(** ... and vice versa: no later caller write or allocation changes the content of an owned field *)
Theorem C05_caller_writes_preserve_object : forall c, owns_values c = true -> forall w0 w b v o bo,
  owned_inv c w0 -> steps c w0 w -> In b (w_caller w) ->
  In o (c_own c) -> w_fenv w o = Some bo ->
  upd (w_heap w) b v bo = w_heap w bo /\ (forall v', upd (w_heap w) (w_next w) v' bo = w_heap w bo).
Proof. exact P_C05.caller_writes_preserve_object. Qed.

(** the obligations for the three classes as translated from /repo (constructors, [reset_values], every mutator,
    every property; for Cluster the owned fields are those of its signals) *)
Theorem C05_Signal_owns_values : owns_values cls_Signal = true. Proof. exact obl_owns_Signal. Qed.
Theorem C05_AccSignal_owns_values : owns_values cls_AccSignal = true. Proof. exact obl_owns_AccSignal. Qed.
Theorem C05_Cluster_signals_own_values : owns_values cls_Cluster = true. Proof. exact obl_owns_Cluster. Qed.
Theorem C05_AccSignal_history : forall w w', owned_inv cls_AccSignal w -> steps cls_AccSignal w w' ->
  owned_inv cls_AccSignal w' /\
  forall m args st', In m (c_methods cls_AccSignal) ->
    (forall b, In (Some b) args -> In b (w_caller w')) ->
    exec (m_body m) (mkSt (entry_env cls_AccSignal m (w_fenv w') args) (w_heap w') (w_kind w') (w_next w')) st' ->
    forall b, In b (w_caller w') -> sheap st' b = w_heap w' b.
Proof.
  intros w w' I S. split.
  - exact (P_C05.ownership_invariant _ obl_owns_AccSignal _ _ I S).
  - intros m args st' Hm Ha Hex b Hb. exact (P_C05.calls_preserve_caller _ obl_owns_AccSignal _ _ _ _ _ I S Hm Ha Hex b Hb).
Qed.

(** ** 4. "the object's values are always a numeric array" — PARTIAL.
    Proved: the values field always denotes an ndarray buffer (established by the constructor, kept by every method,
    along any history).
    NOT proved (decided only by the dynamic cross-check of every run): len(values) = npts and time = dt*[0..npts-1]
    (the IR carries no lengths), numeric dtype, and "returns the same result when called again" (the IR has no values;
    what is checked statically is only that no function writes module-level state: "$global" is a protected root). *)
Theorem C05_values_ndarray_invariant_partial : forall c x w w',
  mem x (c_fields c) = true -> forallb (keeps_nd x true) (c_methods c) = true ->
  wwf w -> is_nd x w -> steps c w w' -> is_nd x w' /\ wwf w'.
Proof. exact P_C05.nd_invariant. Qed.
Theorem C05_values_ndarray_established_partial : forall c x m w args st',
  keeps_nd x false m = true -> wwf w -> (forall b, In (Some b) args -> In b (w_caller w)) ->
  exec (m_body m) (mkSt (entry_env c m (w_fenv w) args) (w_heap w) (w_kind w) (w_next w)) st' ->
  is_nd x (mkW (senv st') (sheap st') (skind st') (snext st') (w_caller w)).
Proof. exact P_C05.nd_established. Qed.
Theorem C05_AccSignal_values_ndarray_partial : forall w w',
  wwf w -> is_nd "self._values" w -> steps cls_AccSignal w w' -> is_nd "self._values" w'.
Proof.
  intros w w' W N S. exact (proj1 (P_C05.nd_invariant cls_AccSignal "self._values" _ _ obl_nd_field_AccSignal obl_nd_AccSignal W N S)).
Qed.
Theorem C05_Signal_values_ndarray_partial : forall w w',
  wwf w -> is_nd "self._values" w -> steps cls_Signal w w' -> is_nd "self._values" w'.
Proof.
  intros w w' W N S. exact (proj1 (P_C05.nd_invariant cls_Signal "self._values" _ _ obl_nd_field_Signal obl_nd_Signal W N S)).
Qed.
Theorem C05_constructors_make_ndarray_partial :
  keeps_nd "self._values" false ir_single_Signal___init__ = true /\
  keeps_nd "self._values" false ir_single_AccSignal___init__ = true.
Proof. split; [exact obl_nd_init_Signal|exact obl_nd_init_AccSignal]. Qed.

(** ** Non-vacuity: the analysis rejects a body that writes through an alias of a parameter, such an execution really
    changes the caller's buffer, and the same body with a defensive copy is accepted *)
Definition bad : func := mkFunc "bad" ["values"] ["values"] (seqs [Assign "v" (AliasOf ["values"]); Mut "v"]).
Definition good : func := mkFunc "good" ["values"] ["values"] (seqs [Assign "v" (Fresh true []); Mut "v"; Assign "$ret" (AliasOf ["v"])]).
Example C05_nonvacuous :
  no_param_mutation bad = false /\ no_param_mutation good = true /\ ret_roots good = [] /\
  exists st st', senv st "values" = Some 0 /\ exec (f_body bad) st st' /\ sheap st' 0 <> sheap st 0.
Proof.
  split; [reflexivity|]. split; [reflexivity|]. split; [reflexivity|].
  exists (mkSt (fun x => if String.eqb x "values" then Some 0 else None) (fun _ => 0) (fun _ => true) 1).
  eexists. split; [reflexivity|]. split.
  - unfold bad, seqs; cbn [f_body fold_right].
    eapply E_Seq; [apply E_Alias with (y := "values"); now left|].
    eapply E_Seq; [|apply E_Skip]. eapply E_Mut with (b := 0) (v := 7). reflexivity.
  - cbn. discriminate.
Qed.
