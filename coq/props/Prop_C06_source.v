(** C06, second source tie: Fourier moments, Boore (2003) bandwidth and the dominant-period function are the source.

    gen/Gen_c06b.v is re-translated from /repo's eqsig/fns/frequency.py (calc_fourier_moment, get_bandwidth_boore_2003) and
    eqsig/im.py (max_fa_period) at the start of every run of the C06 check (translator/py2coq_c06b.py: Python [ast], symbolic
    evaluation of exactly the statement shapes that are in the source, temporaries substituted, fail-closed).
    [asig.fa_spectrum] is the COMPLEX one-sided spectrum: `fa_spectrum ** 2` is the complex square (NOT |F|^2) and the moments and
    the bandwidth are complex numbers, modelled as pairs (re, im).  `** n` is modelled for a non-negative int n ([npow]; the only
    caller uses 0, 2, 4); a non-integer n is outside the model.
    NOT translated: np.pi (parameter [pi]: the theorems hold for every value), np.abs of a complex array (parameter [cabs], used
    ONLY through the stated hypothesis that it orders complex numbers as re^2 + im^2 does -- proved for the real modulus
    sqrt(re^2 + im^2) in C06_modulus_orders), np.sqrt of a complex number (parameter [csqrt]).
    [None] stands for numpy's inf / nan of a division by zero (RuntimeWarning): the infinite period of the zero-frequency bin, the
    nan + nan j bandwidth when m0 m4 = 0 (e.g. the zero record).
    PROVED for every [NumOps] instance and ALL inputs: each translation IS the model of model/M_fourier.v.
    A changed operand, index, literal (the 2's, the exponents 0 / 2 / 4, `1.`), attribute (fa_frequencies vs fa_spectrum), keyword
    (`x=`) or operator changes the generated term and breaks one of these obligations (or is rejected by the translator).
    NOT proved (decided by the correspondence of the run only): the translator's reading of Python / NumPy complex arithmetic as
    the textbook formulas on pairs and of np.trapz(y, x=x) as (diff(x) * (y[1:] + y[:-1]) / 2.0).sum() (both written out in the
    header of the generated file), np.argmax = first maximal index, the object layer (.fa_frequencies, .fa_spectrum), binary64
    rounding; np.sqrt on complex numbers is only checked through out^2 = argument and Re(out) >= 0.
    Environment note: NumPy >= 2.4 has no `np.trapz` (renamed np.trapezoid); there calc_fourier_moment raises AttributeError for
    every input, and the correspondence calls it with np.trapz bound to np.trapezoid. *)
From Coq Require Import ZArith QArith Reals List Bool.
From EQ Require Import lib.Num lib.NpList lib.NpHelpers lib.Quad model.M_fourier gen.Gen_c06b proofs.P_gen_c06b.
Import ListNotations.

(** ** generated = model (generic) *)
Theorem C06_fourier_moment_is_source : forall (T : Type) (ops : NumOps T) (pi : T) (n : nat) (fr re im : list T),
  gen_fourier_moment pi n fr re im = fourier_moment pi n fr re im.
Proof. exact (@P_gen_c06b.gen_fourier_moment_eq). Qed.

Theorem C06_bandwidth_boore_is_source : forall (T : Type) (ops : NumOps T) (pi : T) (csqrt : T * T -> T * T) (fr re im : list T),
  gen_bandwidth_boore pi csqrt fr re im = bandwidth_boore csqrt pi fr re im.
Proof. exact (@P_gen_c06b.gen_bandwidth_boore_eq). Qed.

Theorem C06_max_fa_period_is_source : forall (T : Type) (ops : NumOps T) (cabs : T -> T -> T) (fr re im : list T),
  (forall a b c d : T, nltb (cabs a b) (cabs c d) = nltb (nadd (nmul a a) (nmul b b)) (nadd (nmul c c) (nmul d d))) ->
  argmax (map2 cabs re im) = max_fa_bin re im /\
  gen_max_fa_period cabs fr re im = max_fa_period re im fr.
Proof. intros T ops cabs fr re im Hc. split; [now apply P_gen_c06b.gen_max_fa_bin_eq | now apply P_gen_c06b.gen_max_fa_period_eq]. Qed.

Local Open Scope R_scope.

(** ** np.abs: the real modulus has the property the tie needs *)
Theorem C06_modulus_orders : forall a b c d : R,
  sqrt (a * a + b * b) < sqrt (c * c + d * d) <-> a * a + b * b < c * c + d * d.
Proof. exact P_gen_c06b.cabs_R_lt. Qed.

(** ... so with np.abs = the real modulus the source returns 1 / f of the first bin of largest re^2 + im^2, and [None] (numpy: inf,
    RuntimeWarning) when that frequency is 0 *)
Theorem C06_max_fa_period_source_R : forall fr re im : list R,
  let out := gen_max_fa_period (fun a b => sqrt (a * a + b * b)) fr re im in
  let f := nth (max_fa_bin re im) fr 0 in
  out = max_fa_period re im fr /\ (f <> 0 -> out = Some (1 / f)) /\ (f = 0 -> out = None).
Proof.
  intros fr re im. cbv zeta. split; [exact (P_gen_c06b.gen_max_fa_period_R fr re im) | exact (P_gen_c06b.max_fa_period_value fr re im)].
Qed.

(** ** what the pair formulas mean: complex square, commutative product, quotient = the solution of q b = a *)
Theorem C06_complex_pairs : forall a b : R, forall u v : R * R,
  csq (a, b) = (a * a - b * b, 2 * a * b) /\ cmulp u v = cmulp v u /\
  (v <> (0, 0) -> exists q, cdivp u v = Some q /\ cmulp q v = u) /\ cdivp u (0, 0) = None.
Proof.
  intros a b u v. split; [apply P_gen_c06b.csq_R|]. split; [apply P_gen_c06b.cmulp_comm_R|].
  split; [apply P_gen_c06b.cdivp_R | apply P_gen_c06b.cdivp_zero_R].
Qed.

(** ** np.trapz(y, x=x): one panel (x1 - x0) (y1 + y0) / 2 at a time; nothing to integrate with fewer than two nodes *)
Theorem C06_trapz_x_panels : forall (y0 y1 : R) (y : list R) (x0 x1 : R) (x : list R),
  trapz_x (y0 :: y1 :: y) (x0 :: x1 :: x) = (x1 - x0) * (y1 + y0) / 2 + trapz_x (y1 :: y) (x1 :: x) /\
  trapz_x y [] = 0 /\ trapz_x y [x0] = 0 /\ trapz_x [] x = 0 /\ trapz_x [y0] x = 0.
Proof.
  intros. split; [apply P_gen_c06b.trapz_x_cons2|]. split; [apply P_gen_c06b.trapz_x_nil_x|]. split; [apply P_gen_c06b.trapz_x_one_x|].
  split; [apply P_gen_c06b.trapz_x_nil_y | apply P_gen_c06b.trapz_x_one_y].
Qed.
Theorem C06_trapz_x_linear : forall (a b : R) (y1 y2 x : list R), length y1 = length y2 ->
  trapz_x (map2 (fun u v => a * u + b * v) y1 y2) x = a * trapz_x y1 x + b * trapz_x y2 x.
Proof. exact P_gen_c06b.trapz_x_linear. Qed.
Theorem C06_trapz_x_nonneg : forall y x : list R,
  (forall i, (S i < length x)%nat -> nth i x 0 <= nth (S i) x 0) -> (forall v, In v y -> 0 <= v) -> 0 <= trapz_x y x.
Proof. exact P_gen_c06b.trapz_x_nonneg. Qed.

(** ** the moments *)
(** a purely real spectrum: the moment is real, = 2 * trapz((2 pi f)^n re^2, x=f), and non-negative on an ascending grid of
    non-negative frequencies (for a genuinely complex spectrum the moment is complex and has no sign: see the example) *)
Theorem C06_moment_real_spectrum : forall (pi : R) (n : nat) (fr re : list R),
  fourier_moment pi n fr re (repeat 0 (length re))
    = (2 * trapz_x (map2 Rmult (map (fun f => (2 * pi * f) ^ n) fr) (map (fun a => a * a) re)) fr, 0) /\
  (0 <= pi -> (forall i, (S i < length fr)%nat -> nth i fr 0 <= nth (S i) fr 0) -> (forall f, In f fr -> 0 <= f) ->
   0 <= fst (fourier_moment pi n fr re (repeat 0 (length re)))).
Proof. intros. split; [apply P_gen_c06b.fourier_moment_real | apply P_gen_c06b.fourier_moment_real_nonneg]. Qed.
(** quadratic in the spectrum: scaling F by a real c scales every moment by c^2 *)
Theorem C06_moment_scaling : forall (pi c : R) (n : nat) (fr re im : list R),
  fourier_moment pi n fr (map (Rmult c) re) (map (Rmult c) im)
    = (c * c * fst (fourier_moment pi n fr re im), c * c * snd (fourier_moment pi n fr re im)).
Proof. exact P_gen_c06b.fourier_moment_scale. Qed.

(** ** the bandwidth: q = m2^2 / (m0 m4) is the solution of q (m0 m4) = m2^2; nan ([None]) exactly when m0 m4 = 0 *)
Theorem C06_bandwidth_argument : forall (pi : R) (csqrt : R * R -> R * R) (fr re im : list R),
  let m0 := fourier_moment pi 0 fr re im in let m2 := fourier_moment pi 2 fr re im in let m4 := fourier_moment pi 4 fr re im in
  (cmulp m0 m4 <> (0, 0) -> exists q, gen_bandwidth_boore pi csqrt fr re im = Some (csqrt q) /\ cmulp q (cmulp m0 m4) = csq m2) /\
  (cmulp m0 m4 = (0, 0) -> gen_bandwidth_boore pi csqrt fr re im = None).
Proof.
  intros pi csqrt fr re im m0 m2 m4. rewrite P_gen_c06b.gen_bandwidth_boore_eq. unfold bandwidth_boore, boore_arg. fold m0 m2 m4.
  destruct (P_gen_c06b.boore_of_moments_R m0 m2 m4) as [H1 H2]. split.
  - intros Hz. destruct (H1 Hz) as (q & E & Hq). exists q. rewrite E. split; [reflexivity | exact Hq].
  - intros Hz. now rewrite (H2 Hz).
Qed.

(** non-vacuity (Q instance; pi := 3, csqrt := identity, cabs := re^2 + im^2, which trivially satisfies the ordering hypothesis):
    a 4-bin complex spectrum on the grid 0, 1/4, 1/2, 3/4.  The moments are genuinely complex (m0 has a negative imaginary part);
    bin 0 is the largest (|3|^2 = 9 > 5, 2, 5), so the period is infinite ([None]); for the second spectrum bin 2 (4 + 9 = 13) wins
    and the period is 1 / (1/2) = 2; the zero spectrum has no bandwidth (nan). *)
Example C06_moments_source_nonvacuous :
  let fr := [0; 1 # 4; 1 # 2; 3 # 4]%Q in let re := [3; 1; -1; 2]%Q in let im := [0; -2; 1; 1]%Q in
  gen_fourier_moment 3%Q 0 fr re im = (3 # 2, -2 # 1)%Q /\
  gen_fourier_moment 3%Q 2 fr re im = (189 # 16, 27 # 4)%Q /\
  gen_fourier_moment 3%Q 4 fr re im = (19197 # 64, 5103 # 16)%Q /\
  gen_bandwidth_boore 3%Q (fun z => z) fr re im = Some (1839 # 26594, 2052 # 13297)%Q /\
  gen_bandwidth_boore 3%Q (fun z => z) fr [0; 0; 0; 0]%Q [0; 0; 0; 0]%Q = None /\
  gen_max_fa_period (fun a b => Qred (a * a + b * b)) fr re im = None /\
  gen_max_fa_period (fun a b => Qred (a * a + b * b)) fr [1; 3; 2; 0]%Q [0; 0; -3; 1]%Q = Some 2%Q.
Proof. vm_compute. repeat split; reflexivity. Qed.
