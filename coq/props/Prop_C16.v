(** C16 — Saved signals load back unchanged (to the format's precision).  Statements; proofs in proofs/P_C16.v.

    Everything is stated over bytes ([text] = list ascii), [Z] and exact rationals [Q]; no real-number axioms.
    The writer [save], the reader ([load_values_and_dt], [load_signal], [load_sig], [load_asig], [load_label],
    [load_dt]) are in model/M_loader.v, the codec ([fmt_fixed] = "%.df", [dec_int] = "%i", [parse_dec],
    [parse_float], [dec_round], [round_b64]) in lib/DecFmt.v.

    A float is an exact rational; [round_b64 q] is the binary64 nearest to q (what Python's float(text) and the
    product `vals * m` return), so the loaded numbers below are given EXACTLY, and the "to 4 / 6 decimals" clauses
    follow from the two error bounds [C16_dec_round_close] and [C16_b64_close].

    Guards (stated, not totalised away): the label contains no line-break character ([no_break]); values and dt are
    finite (they are rationals) and binary64 overflow is not modelled. *)
From Coq Require Import ZArith QArith Qabs Qpower List Bool Ascii String.
From EQ Require Import lib.DecFmt model.M_loader proofs.P_C16.
Import ListNotations.
Local Open Scope Q_scope.

(** ** the codec *)
(** text-level: reading back what "%.df" printed gives exactly x rounded (half-even) to d decimals, for every
    rational x (every sign and magnitude) and every d; the sign-bit variant covers the float -0.0 *)
Theorem C16_parse_fmt : forall d x, parse_dec (fmt_fixed d x) = Some (dec_round d x).
Proof. exact P_C16.parse_fmt. Qed.
Theorem C16_parse_fmt_signbit : forall sb d x, sb_ok sb x -> parse_float (fmt_fixed_sb sb d x) = Some (dec_round d x).
Proof. exact P_C16.parse_float_fmt. Qed.
Theorem C16_parse_int : forall n, (0 <= n)%Z -> val_from 0 (dec_int n) = Some n.
Proof. exact P_C16.val_dec_int. Qed.
(** rounding to d decimals moves a value by at most half a unit of the d-th decimal *)
Theorem C16_dec_round_close : forall d x, Qabs (dec_round d x - x) <= (1 # 2) / inject_Z (10 ^ Z.of_nat d).
Proof. exact P_C16.dec_round_close. Qed.
(** the nearest binary64: relative error 2^-53 (absolute 2^-1075 on the subnormal grid) *)
Theorem C16_b64_close : forall x, Qabs (round_b64 x - x) <= Qabs x * Qpower 2 (-53) + Qpower 2 (-1075).
Proof. exact P_C16.round_b64_close. Qed.

(** [round_b64 x] is a point of the binary64 grid (an integer of at most 53 bits times 2^s, s >= -1074) within half
    a grid step of x: a nearest binary64 (ties go to the even integer by [round_half_even]); overflow not modelled *)
Theorem C16_b64_grid : forall x, ~ x == 0 ->
  exists m s, round_b64 x == inject_Z m * Qpower 2 s /\ (Z.abs m <= 2 ^ 53)%Z /\ (-1074 <= s)%Z /\
              Qabs (round_b64 x - x) <= (1 # 2) * Qpower 2 s.
Proof. exact P_C16.round_b64_grid. Qed.

(** ** the file: lines, number of points, label *)
Theorem C16_lines : forall label dt xs, no_break label ->
  splitlines (save label dt xs) = label :: header_line (List.length xs) dt :: map (fmt_fixed 6) xs.
Proof.
  intros label dt xs H. unfold save. rewrite P_C16.splitlines_save by exact H. unfold save_lines_sb.
  rewrite map_length, map_map. reflexivity.
Qed.
Theorem C16_header_tokens : forall n dt, tokens (header_line n dt) = [dec_int (Z.of_nat n); fmt_fixed 4 dt].
Proof. exact P_C16.tokens_header. Qed.

(** what load_values_and_dt returns on a saved file, exactly *)
Theorem C16_load_exact : forall label dt xs, no_break label ->
  load_values_and_dt (save label dt xs) =
  Some (map (fun x => round_b64 (dec_round 6 x)) xs, round_b64 (dec_round 4 dt)).
Proof. exact P_C16.lvd_save. Qed.
(** the same with explicit sign bits (the float -0.0 is written "-0.000000" and loads as zero) *)
Theorem C16_load_exact_signbit : forall label dt vals, no_break label -> Forall (fun v => sb_ok (fst v) (snd v)) vals ->
  load_values_and_dt (save_sb label dt vals) =
  Some (map (fun v => round_b64 (dec_round 6 (snd v))) vals, round_b64 (dec_round 4 dt)).
Proof. exact P_C16.lvd_save_sb. Qed.

(** same number of points, through every entry point *)
Theorem C16_npts : forall label dt xs, no_break label ->
  (exists v d, load_values_and_dt (save label dt xs) = Some (v, d) /\ List.length v = List.length xs) /\
  (forall m, exists l, load_sig m (save label dt xs) = Some l /\ List.length (l_vals l) = List.length xs) /\
  (forall wl m, exists l, load_asig wl m (save label dt xs) = Some l /\ List.length (l_vals l) = List.length xs).
Proof.
  intros label dt xs H. split; [|split].
  - eexists _, _. split; [apply P_C16.lvd_save; exact H|]. apply map_length.
  - intros m. eexists. split; [apply P_C16.load_sig_save; exact H|]. cbn. rewrite P_C16.length_scale. apply map_length.
  - intros wl m. eexists. split; [apply P_C16.load_asig_save; exact H|]. cbn. rewrite P_C16.length_scale. apply map_length.
Qed.

(** same time step to 4 decimals, for EVERY dt (no upper bound: steps of one second or more included) *)
Theorem C16_dt_all : forall label dt xs, no_break label ->
  load_dt (save label dt xs) = Some (round_b64 (dec_round 4 dt)) /\
  Qabs (round_b64 (dec_round 4 dt) - dt) <= (1 # 20000) + (Qabs dt + (1 # 20000)) * Qpower 2 (-53) + Qpower 2 (-1075).
Proof.
  intros label dt xs H. split; [apply P_C16.load_dt_save; exact H|apply P_C16.rt_dt_close].
Qed.

(** same values to 6 decimals: |load_i - x_i| <= 0.5e-6 + 2^-53 (|x_i| + 0.5e-6) + 2^-1075 *)
Theorem C16_values : forall label dt xs v d i, no_break label ->
  load_values_and_dt (save label dt xs) = Some (v, d) -> (i < List.length xs)%nat ->
  Qabs (nth i v 0 - nth i xs 0) <= (1 # 2000000) + (Qabs (nth i xs 0) + (1 # 2000000)) * Qpower 2 (-53) + Qpower 2 (-1075).
Proof.
  intros label dt xs v d i H E Hi. rewrite P_C16.lvd_save in E by exact H. injection E as <- <-.
  rewrite P_C16.nth_rt by exact Hi. apply P_C16.rt_val_close.
Qed.

(** scaled by the load factor m (load_sig and load_asig): with e6 the bound of [C16_values],
    |load_i - m x_i| <= |m| e6 + 2^-53 |m| (|x_i| + e6) + 2^-1075 *)
Theorem C16_values_scaled : forall label dt xs m wl i, no_break label -> (i < List.length xs)%nat ->
  let x := nth i xs 0 in
  let e6 := (1 # 2000000) + (Qabs x + (1 # 2000000)) * Qpower 2 (-53) + Qpower 2 (-1075) in
  let bound := Qabs m * e6 + (Qabs m * (Qabs x + e6)) * Qpower 2 (-53) + Qpower 2 (-1075) in
  (exists l, load_sig m (save label dt xs) = Some l /\ Qabs (nth i (l_vals l) 0 - x * m) <= bound) /\
  (exists l, load_asig wl m (save label dt xs) = Some l /\ Qabs (nth i (l_vals l) 0 - x * m) <= bound).
Proof.
  intros label dt xs m wl i H Hi x e6 bound.
  assert (B : Qabs (nth i (scale m (map P_C16.rt_val xs)) 0 - x * m) <= bound).
  { rewrite P_C16.nth_scale by (rewrite map_length; exact Hi). rewrite P_C16.nth_rt by exact Hi. apply P_C16.scaled_close. }
  split; eexists; (split; [first [apply P_C16.load_sig_save | apply P_C16.load_asig_save]; exact H|exact B]).
Qed.

(** the label, when requested; the default label otherwise *)
Theorem C16_label : forall label dt xs m, no_break label ->
  load_label (save label dt xs) = label /\
  (exists l, load_asig true m (save label dt xs) = Some l /\ l_label l = label) /\
  (exists l, load_asig false m (save label dt xs) = Some l /\ l_label l = txt "m1").
Proof.
  intros label dt xs m H. split; [apply P_C16.load_label_save; exact H|].
  split; eexists; (split; [apply P_C16.load_asig_save; exact H|reflexivity]).
Qed.

(** the requested object type *)
Theorem C16_type : forall label dt xs m wl, no_break label ->
  (exists l, load_sig m (save label dt xs) = Some l /\ l_kind l = KSignal) /\
  (exists l, load_asig wl m (save label dt xs) = Some l /\ l_kind l = KAccSignal) /\
  (exists l, load_signal (txt "signal") (save label dt xs) = Some (Some l) /\ l_kind l = KSignal) /\
  (exists l, load_signal (txt "acc_sig") (save label dt xs) = Some (Some l) /\ l_kind l = KAccSignal).
Proof.
  intros label dt xs m wl H. repeat split.
  - eexists; split; [apply P_C16.load_sig_save; exact H|reflexivity].
  - eexists; split; [apply P_C16.load_asig_save; exact H|reflexivity].
  - eexists; split; [rewrite P_C16.load_signal_save by exact H; reflexivity|reflexivity].
  - eexists; split; [rewrite P_C16.load_signal_save by exact H; reflexivity|reflexivity].
Qed.
(** as coded: any other astype — including load_signal's own default 'sig' — matches neither branch and the
    function returns Python None (recorded, not part of the property statement) *)
Theorem C16_load_signal_default_astype_is_None : forall label dt xs, no_break label ->
  load_signal (txt "sig") (save label dt xs) = Some None.
Proof. intros label dt xs H. rewrite P_C16.load_signal_save by exact H. reflexivity. Qed.

(** HISTORICAL witness (finding 7 of DESIGN section 4, repaired in /repo by `fix: loader reads dt from the header line ...`):
    the parser that rebuilt dt from numpy's sanitised column name dropped the integer part of every dt >= 1;
    the parser at HEAD ([load_dt], theorem [C16_dt_all]) does not *)
Example C16_dt_parser_before_fix_refuted :
  load_dt_before_fix (save (txt "m1") (3 # 2) [1]) = Some (1 # 2) /\ load_dt (save (txt "m1") (3 # 2) [1]) = Some (3 # 2).
Proof. split; vm_compute; reflexivity. Qed.

(** ** non-vacuity: a record with a tie of the 6th decimal (1/128), a negative value that prints as -0.000000,
    a large value, dt = 1.5 s, a label with spaces, m = 3 *)
Example C16_nonvacuous :
  let label := txt "my label 1" in
  let xs := [1 # 128; -1 # 1000000000; 123456789123 # 1000; 5 # 2] in
  no_break label /\
  string_of_list_ascii (save label (3 # 2) xs) =
    ("my label 1" ++ String "010" "4 1.5000" ++ String "010" "0.007812" ++ String "010" "-0.000000"
      ++ String "010" "123456789.123000" ++ String "010" "2.500000")%string /\
  option_map (fun l => (l_label l, l_dt l, List.length (l_vals l), nth 3 (l_vals l) 0))
             (load_asig true 3 (save label (3 # 2) xs)) = Some (label, 3 # 2, 4%nat, 15 # 2).
Proof.
  cbv zeta. split; [|split].
  - unfold no_break. repeat constructor.
  - vm_compute. reflexivity.
  - vm_compute. reflexivity.
Qed.

(** ** the source text (gen/Gen_c16.v is re-translated from eqsig/loader.py by translator/py2coq_c16.py at the start of
    every check; proofs in proofs/P_gen_c16.v)

    Every statement of save_values_and_dt, save_signal, load_values_and_dt, load_signal, load_sig and load_asig is read off
    the Python `ast` into a Gallina definition [gen_*]; the theorems below say that these definitions ARE the model the
    theorems above are about, for all inputs.  A writer is the text it leaves in the file, a reader takes the text [t] of the
    file and returns [None] when a statement raises.

    Translated: the format literals ("%i" -> [dec_int], "%.4f" / "%.6f" -> [fmt_fixed_sb] with 4 / 6 decimals) and the order
    of their operands, [label, header] followed by one appended line per value in index order, the "\n" of the join, that this
    text is what is written; on the load side that the readers see the text of the same path, the keyword arguments of
    np.genfromtxt and the `except TypeError` fallback, line 1 / token 1 of dt, the order of the returned pair, `vals * m`,
    the label branch (line 0 of the file / the literal 'm1'), the comparisons of astype with "signal" / "acc_sig" and the
    fall-through to Python None, the constructed class, its arguments and the default label of the constructors (read from
    eqsig/single.py), the defaults of the keyword parameters.
    NOT translated (oracles): str.splitlines(), str.split(), float(str) and the binary64 product are instantiated with the
    model's own [splitlines], [tokens], round_b64 of [parse_float], round_b64 of the exact product; np.genfromtxt is ANY
    function [gft] with the stated contract for the one call that is in the source (skip_header=1, delimiter=",", names=True,
    usecols=0 returns the model's [load_values], hence does not raise TypeError: NumPy other than 1.19); `.astype(float)` and
    `np.atleast_1d` are the identity on the list reading (the translator refuses a return without them).  What the str
    methods, float(), genfromtxt and the Signal / AccSignal constructors do is tied by the correspondence only. *)
From EQ Require Import lib.PyText gen.Gen_c16 proofs.P_gen_c16.

Local Notation src_float := (fun s : text => option_map round_b64 (parse_float s)).
Local Notation src_mul := (fun a b : Q => round_b64 (a * b)).
Local Notation as_obj := (fun l : loaded =>
  {| o_class := match l_kind l with KSignal => txt "Signal" | KAccSignal => txt "AccSignal" end;
     o_values := l_vals l; o_dt := l_dt l; o_label := l_label l |}).
Local Notation gft_ok gft :=
  (forall t : text, gft t 1%nat (txt ",") true 0%nat = match load_values t with Some v => GftOk v | None => GftRaise end).

(** save_values_and_dt(ffp, values, dt, label): para = [label, "%i %.4f" % (len(values), dt)]; one para.append("%.6f" %
    values[i]) per index; the file receives "\n".join(para).  With explicit sign bits (the float -0.0) and without. *)
Theorem C16_save_values_and_dt_is_source : forall (values : list (bool * Q)) (dt : Q) (label : text),
  gen_save_values_and_dt values (with_sign dt) label = save_sb label dt values.
Proof. exact P_gen_c16.gen_save_sb_eq. Qed.
Theorem C16_save_is_source : forall (xs : list Q) (dt : Q) (label : text),
  gen_save_values_and_dt (map with_sign xs) (with_sign dt) label = save label dt xs.
Proof. exact P_gen_c16.gen_save_eq. Qed.
(** save_signal(ffp, signal) = save_values_and_dt(ffp, signal.values, signal.dt, signal.label) *)
Theorem C16_save_signal_is_source : forall (xs : list Q) (dt : Q) (label : text),
  gen_save_signal {| s_values := map with_sign xs; s_dt := with_sign dt; s_label := label |} = save label dt xs.
Proof. exact P_gen_c16.gen_save_signal_eq. Qed.
Theorem C16_save_signal_signbit_is_source : forall (values : list (bool * Q)) (dt : Q) (label : text),
  gen_save_signal {| s_values := values; s_dt := with_sign dt; s_label := label |} = save_sb label dt values.
Proof. exact P_gen_c16.gen_save_signal_sb_eq. Qed.

(** load_values_and_dt(ffp): data = genfromtxt(..) [except TypeError: the fallback call]; dt = float(text.splitlines()[1]
    .split()[1]); values = atleast_1d(data.astype(float)); return values, dt *)
Theorem C16_load_values_and_dt_is_source : forall gft, gft_ok gft -> forall t : text,
  gen_load_values_and_dt gft splitlines tokens src_float t = load_values_and_dt t.
Proof. exact P_gen_c16.gen_lvd_eq. Qed.
(** the `except TypeError` branch (NumPy 1.19, where the first call raises TypeError): the values are those of the second call
    of the source, genfromtxt(ffp, skip_header=2, delimiter=",", usecols=0), for ANY genfromtxt; dt as before *)
Theorem C16_load_values_and_dt_fallback_is_source : forall (gft : text -> nat -> text -> bool -> nat -> gft_res) (t : text),
  gft t 1%nat (txt ",") true 0%nat = GftTypeError ->
  gen_load_values_and_dt gft splitlines tokens src_float t =
  match gft_value (gft t 2%nat (txt ",") false 0%nat), load_dt t with
  | Some v, Some dt => Some (v, dt)
  | _, _ => None
  end.
Proof. exact P_gen_c16.gen_lvd_fallback. Qed.
(** load_signal(ffp, astype): Signal(vals, dt) / AccSignal(vals, dt) / Python None ([Some None]) *)
Theorem C16_load_signal_is_source : forall gft, gft_ok gft -> forall t astype : text,
  gen_load_signal gft splitlines tokens src_float t astype = option_map (option_map as_obj) (load_signal astype t).
Proof. exact P_gen_c16.gen_load_signal_eq. Qed.
(** load_sig(ffp, m): Signal(vals * m, dt) *)
Theorem C16_load_sig_is_source : forall gft, gft_ok gft -> forall (t : text) (m : Q),
  gen_load_sig gft splitlines tokens src_float src_mul t m = option_map as_obj (load_sig m t).
Proof. exact P_gen_c16.gen_load_sig_eq. Qed.
(** load_asig(ffp, load_label, m): label = first line of the file if load_label else 'm1'; AccSignal(vals * m, dt, label=label)
    (`.splitlines()[0]` cannot raise once values and dt have been read: the file has at least two lines) *)
Theorem C16_load_asig_is_source : forall gft, gft_ok gft -> forall (t : text) (want_label : bool) (m : Q),
  gen_load_asig gft splitlines tokens src_float src_mul t want_label m = option_map as_obj (load_asig want_label m t).
Proof. exact P_gen_c16.gen_load_asig_eq. Qed.
(** the reading of the model's record as class name + constructor arguments loses nothing *)
Theorem C16_as_obj_injective : forall a b : loaded, as_obj a = as_obj b -> a = b.
Proof. exact P_gen_c16.loaded_obj_inj. Qed.
(** the contract of genfromtxt is satisfiable (by a function that raises on every other call) *)
Theorem C16_genfromtxt_contract_satisfiable : gft_ok P_gen_c16.gft_model.
Proof. exact P_gen_c16.gft_model_contract. Qed.
(** the defaults of the keyword parameters: astype='sig', m=1.0, load_label=False *)
Theorem C16_defaults_are_source :
  gen_load_signal_default_astype = txt "sig" /\ gen_load_sig_default_m = 1 /\
  gen_load_asig_default_load_label = false /\ gen_load_asig_default_m = 1.
Proof. exact P_gen_c16.gen_defaults. Qed.
(** as coded: the default astype of load_signal selects neither class *)
Theorem C16_source_load_signal_default_is_None : forall gft, gft_ok gft -> forall label dt xs, no_break label ->
  gen_load_signal gft splitlines tokens src_float (gen_save_values_and_dt (map with_sign xs) (with_sign dt) label)
    gen_load_signal_default_astype = Some None.
Proof. exact P_gen_c16.gen_load_signal_default. Qed.

(** what the SOURCE computes for load(save(..)) (through the theorems of the model above): the generated readers applied to
    the text the generated writers leave in the file *)
Theorem C16_source_roundtrip : forall gft, gft_ok gft -> forall label dt xs, no_break label ->
  gen_load_values_and_dt gft splitlines tokens src_float (gen_save_values_and_dt (map with_sign xs) (with_sign dt) label)
  = Some (map (fun x => round_b64 (dec_round 6 x)) xs, round_b64 (dec_round 4 dt)).
Proof. exact P_gen_c16.gen_roundtrip_lvd. Qed.
Theorem C16_source_roundtrip_asig : forall gft, gft_ok gft -> forall label dt xs (wl : bool) m, no_break label ->
  gen_load_asig gft splitlines tokens src_float src_mul
    (gen_save_signal {| s_values := map with_sign xs; s_dt := with_sign dt; s_label := label |}) wl m
  = Some {| o_class := txt "AccSignal"; o_values := map (fun y => round_b64 (y * m)) (map (fun x => round_b64 (dec_round 6 x)) xs);
            o_dt := round_b64 (dec_round 4 dt); o_label := if wl then label else txt "m1" |}.
Proof. exact P_gen_c16.gen_roundtrip_asig. Qed.
Theorem C16_source_roundtrip_sig : forall gft, gft_ok gft -> forall label dt xs m, no_break label ->
  gen_load_sig gft splitlines tokens src_float src_mul
    (gen_save_signal {| s_values := map with_sign xs; s_dt := with_sign dt; s_label := label |}) m
  = Some {| o_class := txt "Signal"; o_values := map (fun y => round_b64 (y * m)) (map (fun x => round_b64 (dec_round 6 x)) xs);
            o_dt := round_b64 (dec_round 4 dt); o_label := txt "m1" |}.
Proof. exact P_gen_c16.gen_roundtrip_sig. Qed.

(** non-vacuity of the source tie: the generated writer and readers RUN (with the satisfying genfromtxt instance) on the
    record of [C16_nonvacuous] *)
Example C16_source_nonvacuous :
  let label := txt "my label 1" in
  let xs := [1 # 128; -1 # 1000000000; 123456789123 # 1000; 5 # 2] in
  let file := gen_save_signal {| s_values := map with_sign xs; s_dt := with_sign (3 # 2); s_label := label |} in
  string_of_list_ascii file =
    ("my label 1" ++ String "010" "4 1.5000" ++ String "010" "0.007812" ++ String "010" "-0.000000"
      ++ String "010" "123456789.123000" ++ String "010" "2.500000")%string /\
  option_map (fun o => (string_of_list_ascii (o_class o), o_label o, o_dt o, List.length (o_values o), nth 3 (o_values o) 0))
             (gen_load_asig P_gen_c16.gft_model splitlines tokens src_float src_mul file true 3)
    = Some ("AccSignal"%string, label, 3 # 2, 4%nat, 15 # 2) /\
  gen_load_signal P_gen_c16.gft_model splitlines tokens src_float file gen_load_signal_default_astype = Some None.
Proof. cbv zeta. split; [|split]; vm_compute; reflexivity. Qed.
