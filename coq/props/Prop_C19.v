(** C19 — Surface-energy and time-shift utilities match the shifted-wave definition (statements; proofs in P_C19).
    Model: model/M_surface.v (generic), instantiated at R here.  [surface_energy], [cum_abs_surface_energy] and
    [time_shift_motions] return one row per travel time (the code returns row 0 itself for a single travel time).
    Domain of the code: dt > 0, travel times >= 0 (np.pad rejects a negative width), stt >= 0, up_red / down_red both
    scalars or both ndarrays of one entry per travel time; with trim and start numpy can raise (row start beyond the trimmed
    length) unless int(stt/dt) - int(tt_j/dt) <= npts for every j (stated as a guard in C19_lengths). *)
From Coq Require Import ZArith Reals List Lia Lra.
From EQ Require Import lib.Num lib.NpList lib.Quad model.M_im model.M_surface proofs.P_C19 proofs.P_C19_refute.
Import ListNotations.
Local Open Scope R_scope.

(** ** the delayed wave: linear interpolation of the record, zero outside it *)
Theorem C19_interp_def : forall (v : list R),
  (forall x, x < 0 -> interp_grid0 v x = 0) /\
  (forall x, INR (length v) - 1 < x -> interp_grid0 v x = 0) /\
  (forall i : nat, interp_grid0 v (INR i) = nth i v 0) /\
  (forall (k : nat) f, (S k < length v)%nat -> 0 <= f < 1 ->
     interp_grid0 v (INR k + f) = (1 - f) * nth k v 0 + f * nth (S k) v 0).
Proof.
  intros v. repeat split.
  - apply P_C19.interp_neg.
  - apply P_C19.interp_right.
  - apply P_C19.interp_at_sample.
  - intros; now apply P_C19.interp_between.
Qed.
(** a delay of a whole number d of samples reads sample i - d (zero before the arrival) *)
Theorem C19_delay_integer : forall (v : list R) (i d : nat),
  interp_grid0 v (INR i - INR d) = if (i <? d)%nat then 0 else nth (i - d) v 0.
Proof. exact P_C19.interp_delay_int. Qed.

(** ** definition: row j (before trimming) is 1/2 v|v| of the trapezoid integral of
    a_i = up_red_j * u_i -+ down_red_j * u(i - 2 tt_j/dt)   ([accf]; u = the record, zero beyond its end) *)
Theorem C19_acc_def : forall nodal (vals : list R) ur dr s i,
  P_C19.accf nodal vals ur dr s i =
  (if nodal then - (interp_grid0 vals (INR i - s) * dr) else interp_grid0 vals (INR i - s) * dr) + nth i vals 0 * ur.
Proof. reflexivity. Qed.
Theorem C19_energy_def : forall nodal dt (vals tts : list R) ur dr j, (j < length tts)%nat ->
  let L := (length vals + max_shift dt tts)%nat in
  let a := P_C19.accf nodal vals (red_at ur j) (red_at dr j) (2 * nth j tts 0 / dt) in
  let row := nth j (energy_rows nodal dt vals tts ur dr) [] in
  length (energy_rows nodal dt vals tts ur dr) = length tts /\ length row = L /\
  exists v : list R, length v = L /\ nth 0 v 0 = 0 /\
    (forall i, (S i < L)%nat -> nth (S i) v 0 - nth i v 0 = dt * (a (S i) + a i) / 2) /\
    (forall i, (i < L)%nat -> nth i row 0 = 1 / 2 * nth i v 0 * Rabs (nth i v 0)).
Proof. exact P_C19.C19_energy_def. Qed.
(** the untrimmed motions are the same acceleration rows *)
Theorem C19_motions_def : forall nodal dt (vals tts : list R) ur dr j, (j < length tts)%nat ->
  nth j (acc_rows nodal dt vals tts ur dr) [] =
  map (P_C19.accf nodal vals (red_at ur j) (red_at dr j) (2 * nth j tts 0 / dt)) (seq 0 (length vals + max_shift dt tts)).
Proof. exact P_C19.acc_rows_nth. Qed.

(** ** cumulative absolute change: non-negative and non-decreasing, every option combination *)
Theorem C19_cum_monotone : forall nodal trim start dt (vals tts : list R) ur dr stt row,
  In row (cum_abs_surface_energy nodal trim start dt vals tts ur dr stt) -> nondecreasing row /\ all_nonneg row.
Proof. exact P_C19.C19_cum_monotone. Qed.

(** ** zero travel time at a nodal surface (equal up/down reductions): identically zero *)
Theorem C19_zero_tt_nodal : forall trim start dt (vals tts : list R) ur dr stt,
  (forall t, In t tts -> t = 0) -> (forall j, red_at ur j = red_at dr j) ->
  (forall row, In row (surface_energy true trim start dt vals tts ur dr stt) -> forall x, In x row -> x = 0) /\
  (forall row, In row (cum_abs_surface_energy true trim start dt vals tts ur dr stt) -> forall x, In x row -> x = 0).
Proof. exact P_C19.C19_zero_tt_nodal. Qed.

(** ** amplitude scaling: energy by alpha|alpha|, cumulative absolute change by alpha^2, motions by alpha *)
Theorem C19_alpha_sq : forall al nodal trim start dt (vals tts : list R) ur dr stt,
  surface_energy nodal trim start dt (map (Rmult al) vals) tts ur dr stt
    = map (map (Rmult (al * Rabs al))) (surface_energy nodal trim start dt vals tts ur dr stt) /\
  cum_abs_surface_energy nodal trim start dt (map (Rmult al) vals) tts ur dr stt
    = map (map (Rmult (al * al))) (cum_abs_surface_energy nodal trim start dt vals tts ur dr stt) /\
  time_shift_motions nodal trim start dt (map (Rmult al) vals) tts ur dr stt
    = map (map (Rmult al)) (time_shift_motions nodal trim start dt vals tts ur dr stt).
Proof. exact P_C19.C19_alpha_sq. Qed.

(** ** output lengths: one row per travel time; npts columns when trimmed; npts + int(max 2tt/dt) untrimmed;
    npts + max(0, max_j (int(stt/dt) - int(tt_j/dt))) untrimmed with start ([out_len]).  The guard is the domain on which
    numpy is guaranteed not to raise (the model is total outside it). *)
Theorem C19_out_len_def : forall npts M sds ss trim start,
  P_C19.out_len npts M sds ss trim start =
  if trim then npts
  else if start then (npts + Z.to_nat (Z.max (zmax (map (fun d => ss - d)%Z sds)) 0))%nat
  else (npts + M)%nat.
Proof. reflexivity. Qed.
Theorem C19_lengths : forall nodal trim start dt (vals tts : list R) ur dr stt,
  0 < dt -> (forall t, In t tts -> 0 <= t) -> 0 <= stt ->
  (trim = true -> start = true ->
     forall d, In d (depth_shifts dt tts) -> (start_shift dt stt - d <= Z.of_nat (length vals))%Z) ->
  let L := P_C19.out_len (length vals) (max_shift dt tts) (depth_shifts dt tts) (start_shift dt stt) trim start in
  (length (surface_energy nodal trim start dt vals tts ur dr stt) = length tts /\
   forall r, In r (surface_energy nodal trim start dt vals tts ur dr stt) -> length r = L) /\
  (length (cum_abs_surface_energy nodal trim start dt vals tts ur dr stt) = length tts /\
   forall r, In r (cum_abs_surface_energy nodal trim start dt vals tts ur dr stt) -> length r = L) /\
  (length (time_shift_motions nodal trim start dt vals tts ur dr stt) = length tts /\
   forall r, In r (time_shift_motions nodal trim start dt vals tts ur dr stt) -> length r = L).
Proof. exact P_C19.C19_lengths. Qed.

(** ** each row of a batch equals the single-travel-time result.
    Trimmed (trim = True, start in {T,F}): equal, for the energy, its cumulative absolute change and the motions. *)
Theorem C19_row_eq_single_trimmed : forall nodal dt (vals tts : list R) ur dr j,
  0 < dt -> (forall t, In t tts -> 0 <= t) -> (j < length tts)%nat -> forall start stt, 0 <= stt ->
  let ur1 := RScalar (red_at ur j) in let dr1 := RScalar (red_at dr j) in let t := nth j tts 0 in
  nth j (surface_energy nodal true start dt vals tts ur dr stt) [] =
    nth 0 (surface_energy nodal true start dt vals [t] ur1 dr1 stt) [] /\
  nth j (cum_abs_surface_energy nodal true start dt vals tts ur dr stt) [] =
    nth 0 (cum_abs_surface_energy nodal true start dt vals [t] ur1 dr1 stt) [] /\
  nth j (time_shift_motions nodal true start dt vals tts ur dr stt) [] =
    nth 0 (time_shift_motions nodal true start dt vals [t] ur1 dr1 stt) [].
Proof. exact P_C19.C19_row_eq_single_trimmed. Qed.
(** Untrimmed, start = False: the batch is padded to the largest shift, so the single result is a prefix of the batch
    row, and the batch row is constant from the first index after it (both waves are zero from there on; the value at
    that index differs from the single result's last value by the half panel dt*a_last/2 when the record does not end
    at zero).  The theorem below (kept under its original name) states this for the energy only; it is now subsumed by
    C19_row_eq_single_untrimmed (energy, cumulative absolute change and motions) further down, and the
    trim = False, start = True combination is settled by C19_row_single_prefix_start (prefix: a theorem) and
    C19_start_untrimmed_const_tail_refuted (constant tail: FALSE, refuted by a witness). *)
Theorem C19_row_eq_single_untrimmed_partial : forall nodal dt (vals tts : list R) ur dr j stt,
  0 < dt -> (forall t, In t tts -> 0 <= t) -> (j < length tts)%nat ->
  let rb := nth j (surface_energy nodal false false dt vals tts ur dr stt) [] in
  let rs := nth 0 (surface_energy nodal false false dt vals [nth j tts 0] (RScalar (red_at ur j)) (RScalar (red_at dr j)) stt) [] in
  (exists tl, rb = rs ++ tl) /\
  forall i, (length rs <= i < length rb)%nat -> nth i rb 0 = nth (length rs) rb 0.
Proof. exact P_C19.C19_row_eq_single_untrimmed. Qed.
(** [prefix_const rb rs]: rs is a prefix of rb and rb is constant from the first index after it *)
Theorem C19_prefix_const_def : forall rb rs : list R,
  P_C19.prefix_const rb rs <->
  (exists tl, rb = rs ++ tl) /\ forall i, (length rs <= i < length rb)%nat -> nth i rb 0 = nth (length rs) rb 0.
Proof. intros; reflexivity. Qed.
(** Untrimmed, start = False, all three outputs (energy, cumulative absolute change, motions); for the motions the tail
    is identically zero.  Guards: dt > 0, travel times >= 0. *)
Theorem C19_row_eq_single_untrimmed : forall nodal dt (vals tts : list R) ur dr j stt,
  0 < dt -> (forall t, In t tts -> 0 <= t) -> (j < length tts)%nat ->
  let t := nth j tts 0 in let ur1 := RScalar (red_at ur j) in let dr1 := RScalar (red_at dr j) in
  P_C19.prefix_const (nth j (surface_energy nodal false false dt vals tts ur dr stt) [])
                     (nth 0 (surface_energy nodal false false dt vals [t] ur1 dr1 stt) []) /\
  P_C19.prefix_const (nth j (cum_abs_surface_energy nodal false false dt vals tts ur dr stt) [])
                     (nth 0 (cum_abs_surface_energy nodal false false dt vals [t] ur1 dr1 stt) []) /\
  P_C19.prefix_const (nth j (time_shift_motions nodal false false dt vals tts ur dr stt) [])
                     (nth 0 (time_shift_motions nodal false false dt vals [t] ur1 dr1 stt) []) /\
  (forall i, (length (nth 0 (time_shift_motions nodal false false dt vals [t] ur1 dr1 stt) []) <= i)%nat ->
     nth i (nth j (time_shift_motions nodal false false dt vals tts ur dr stt) []) 0 = 0).
Proof. exact P_C19.C19_row_eq_single_untrimmed_all. Qed.
(** Untrimmed, start = True: every row is cut out of its untrimmed row with the batch-wide length
    npts + max(0, max_j(int(stt/dt) - int(tt_j/dt))) (C19_lengths), so the single-travel-time result (length
    npts + max(0, int(stt/dt) - int(tt/dt))) is a prefix of the batch row - for the energy, its cumulative absolute change
    and the motions.  Guards: dt > 0, travel times >= 0, stt >= 0.  (This is what chk_row_single mode 2 evaluates on the
    implementation outputs.) *)
Theorem C19_row_single_prefix_start : forall nodal dt (vals tts : list R) ur dr j stt,
  0 < dt -> (forall t, In t tts -> 0 <= t) -> (j < length tts)%nat -> 0 <= stt ->
  let t := nth j tts 0 in let ur1 := RScalar (red_at ur j) in let dr1 := RScalar (red_at dr j) in
  (exists tl, nth j (surface_energy nodal false true dt vals tts ur dr stt) [] =
     nth 0 (surface_energy nodal false true dt vals [t] ur1 dr1 stt) [] ++ tl) /\
  (exists tl, nth j (cum_abs_surface_energy nodal false true dt vals tts ur dr stt) [] =
     nth 0 (cum_abs_surface_energy nodal false true dt vals [t] ur1 dr1 stt) [] ++ tl) /\
  (exists tl, nth j (time_shift_motions nodal false true dt vals tts ur dr stt) [] =
     nth 0 (time_shift_motions nodal false true dt vals [t] ur1 dr1 stt) [] ++ tl).
Proof. exact P_C19.C19_row_single_prefix_start'. Qed.
(** ... but the "constant from the first index after it" clause does NOT carry over to start = True: the extra columns
    of the batch row are set by the other travel times and show more of the still-arriving reflected wave.
    REFUTED by the witness record [1; 2; 3], dt = 1, travel times [0; 2], nodal, unit reductions, stt = 2, row 1
    (rows of the R-model obtained from the Q-run through the transfer theorems; the implementation returns the same
    rows: energy [0, 1.125, 8, 15.125, 12.5] vs single [0, 1.125, 8]). *)
Theorem C19_const_tail_clause_def : forall f,
  P_C19_refute.const_tail_clause f <->
  forall nodal dt (vals tts : list R) ur dr j stt,
  0 < dt -> (forall t, In t tts -> 0 <= t) -> (j < length tts)%nat -> 0 <= stt ->
  P_C19.prefix_const (nth j (f nodal false true dt vals tts ur dr stt) [])
               (nth 0 (f nodal false true dt vals [nth j tts 0] (RScalar (red_at ur j)) (RScalar (red_at dr j)) stt) []).
Proof. intros; reflexivity. Qed.
Theorem C19_start_untrimmed_const_tail_refuted :
  ~ P_C19_refute.const_tail_clause surface_energy /\ ~ P_C19_refute.const_tail_clause cum_abs_surface_energy /\
  ~ P_C19_refute.const_tail_clause time_shift_motions.
Proof. exact P_C19_refute.C19_start_untrimmed_const_tail_refuted. Qed.
Theorem C19_start_untrimmed_witness_rows :
  nth 1 (surface_energy true false true 1 [1; 2; 3] [0; 2] (RScalar 1) (RScalar 1) 2) [] = [0; 9 / 8; 8; 121 / 8; 25 / 2] /\
  nth 0 (surface_energy true false true 1 [1; 2; 3] [2] (RScalar 1) (RScalar 1) 2) [] = [0; 9 / 8; 8] /\
  nth 1 (cum_abs_surface_energy true false true 1 [1; 2; 3] [0; 2] (RScalar 1) (RScalar 1) 2) [] = [0; 9 / 8; 8; 121 / 8; 71 / 4] /\
  nth 0 (cum_abs_surface_energy true false true 1 [1; 2; 3] [2] (RScalar 1) (RScalar 1) 2) [] = [0; 9 / 8; 8] /\
  nth 1 (time_shift_motions true false true 1 [1; 2; 3] [0; 2] (RScalar 1) (RScalar 1) 2) [] = [1; 2; 3; 0; -1] /\
  nth 0 (time_shift_motions true false true 1 [1; 2; 3] [2] (RScalar 1) (RScalar 1) 2) [] = [1; 2; 3].
Proof.
  exact (conj P_C19_refute.w_energy_batch (conj P_C19_refute.w_energy_single (conj P_C19_refute.w_cum_batch
        (conj P_C19_refute.w_cum_single (conj P_C19_refute.w_motions_batch P_C19_refute.w_motions_single))))).
Qed.
(** a scalar reduction factor is the same as an array of equal entries *)
Theorem C19_scalar_red_is_constant_array : forall nodal dt (vals tts : list R) u d,
  acc_rows nodal dt vals tts (RScalar u) (RScalar d) =
  acc_rows nodal dt vals tts (RArr (repeat u (length tts))) (RArr (repeat d (length tts))).
Proof. exact P_C19.scalar_red_array. Qed.

(** ** put_array_in_2d_array: out[j][c] = V(c + lo - shift_j) with V = values on [0, npts) and 0 elsewhere ([vatR]);
    lo = 0 when the start is clipped, min(0, min shifts) otherwise; width hi - lo, hi = npts when the end is clipped,
    npts + max(0, max shifts) otherwise.  clip: 0 'none', 1 'start', 2 'end', 3 'both'. *)
Theorem C19_vat_def : forall (vals : list R) z, P_C19.vatR vals z = if (z <? 0)%Z then 0 else nth (Z.to_nat z) vals 0.
Proof. reflexivity. Qed.
Theorem C19_put_exact : forall (vals : list R) shifts clip j, (j < length shifts)%nat ->
  let lo := if clip_start clip then 0%Z else Z.min (zmin shifts) 0 in
  let hi := if clip_end clip then Z.of_nat (length vals) else (Z.of_nat (length vals) + Z.max (zmax shifts) 0)%Z in
  let row := nth j (put_in_2d vals shifts clip) [] in
  length (put_in_2d vals shifts clip) = length shifts /\
  Z.of_nat (length row) = (hi - lo)%Z /\
  forall c, (c < length row)%nat -> nth c row 0 = P_C19.vatR vals (Z.of_nat c + lo - nth j shifts 0%Z).
Proof. exact P_C19.C19_put_exact. Qed.
(** ** join_values_w_shifts: zero-padded original plus / minus the shifted copy (shifts >= 0, the domain on which the
    two arrays have equal width) *)
Theorem C19_join : forall add (vals : list R) shifts j, (j < length shifts)%nat -> (forall s, In s shifts -> (0 <= s)%Z) ->
  let row := nth j (join_w_shifts add vals shifts) [] in
  length (join_w_shifts add vals shifts) = length shifts /\
  length row = (length vals + Z.to_nat (zmax shifts))%nat /\
  forall c, (c < length row)%nat ->
    nth c row 0 = (if add then 1 else -1) * P_C19.vatR vals (Z.of_nat c - nth j shifts 0%Z) + P_C19.vatR vals (Z.of_nat c).
Proof. exact P_C19.C19_join. Qed.

Example C19_nonvacuous :
  put_in_2d [1; 2; 3] [-2; 0; 1]%Z 0 = [[1; 2; 3; 0; 0; 0]; [0; 0; 1; 2; 3; 0]; [0; 0; 0; 1; 2; 3]] /\
  put_in_2d [1; 2; 3] [-2; 0; 1]%Z 3 = [[3; 0; 0]; [1; 2; 3]; [0; 1; 2]] /\
  join_w_shifts false [1; 2; 3] [0; 2]%Z = [[-1 + 1; -2 + 2; -3 + 3; -0 + 0; -0 + 0]; [-0 + 1; -0 + 2; -1 + 3; -2 + 0; -3 + 0]] /\
  interp_grid0 [1; 3] (1 / 2) = 2 /\ interp_grid0 [1; 2; 3] (INR 3 - INR 2) = 2.
Proof.
  repeat split.
  - replace (1 / 2) with (INR 0 + 1 / 2) by (cbn; lra). rewrite P_C19.interp_between; cbn; [lra|lia|lra].
  - now rewrite P_C19.interp_delay_int.
Qed.

(** ** Source-text tie (translator/py2coq_c19.py, re-run on every check).
    gen/Gen_c19.v is re-translated from eqsig/surface.py (trim_to_length, calc_surface_energy, calc_cum_abs_surface_energy,
    get_time_shift_motions) and eqsig/fns/time_shift.py (put_array_in_2d_array, join_values_w_shifts) by symbolic execution
    of the Python `ast` (fail closed: any statement outside the translator's whitelist aborts the run).  The theorems below
    state that each generated definition IS the model of model/M_surface.v, for every [NumOps] instance and ALL inputs
    inside the stated guards (outside them NumPy raises: negative padding width, reductions that do not broadcast, a row
    start beyond the trimmed List.length).  So the shift `2 * tt / dt`, `int(max(shifts))`, the zero padding of the up-going wave,
    the interpolation abscissa `i - shift`, the scalar / array reduction branch, the nodal sign, `cumulative_trapezoid(..,
    initial=0)`, `0.5 * v * abs(v)`, `int(tt / dt)`, `int(stt / dt)`, the four trim / start branches and their slices, the
    start / end extras, the clip modes, the row placement and `+-a1 + a0` are tied to the source text: a changed operand,
    index, sign, literal or comparison changes the generated term and one of these proofs (or P_gen_c19) stops checking.
    What stays trusted: the translator's fixed readings of the NumPy / SciPy primitives (lib/NpSurf.v: python slice
    normalisation, slice store, broadcasting, np.pad, np.arange, np.interp on the sample grid with left = right = 0, int()
    as truncation; lib/NpList.v: cumtrapz, cumsum, diff) -- exercised by the correspondence of this run -- and the inputs
    as read by the translator: asig.npts = len(asig.values); travel_times a scalar or an array (pyarg); up_red and down_red
    both scalars or both arrays (pyreds; the mixed forms are not represented); a single travel time returns row 0 (pyarr).
    Not covered: join_sig_w_time_shift, time_indices (not part of C19's model). *)
From Coq Require Import String.
From EQ Require Import lib.NpSurf gen.Gen_c19 proofs.P_gen_c19.

Theorem C19_trim_to_length_is_source : forall (T : Type) (ops : NumOps T) (vals : list (list T)) (n : nat) (tts : list T)
    (dt : T) (trim start : bool) (stt : T),
  List.length vals = List.length tts ->
  (start = true -> trim = true -> forall d, In d (depth_shifts dt tts) -> (start_shift dt stt - d <= Z.of_nat n)%Z) ->
  gen_trim_to_length vals (Z.of_nat n) tts dt trim start stt =
  trim_to_length n (depth_shifts dt tts) (start_shift dt stt) trim start vals.
Proof. exact (@P_gen_c19.gen_trim_to_length_eq). Qed.

(** the guards of the three public functions, spelled out:
    padding width >= 0;  array reductions have one entry per travel time;  with trim and start every row start is <= npts *)
Definition C19_source_guards {T : Type} {ops : NumOps T} (dt : T) (a : list T) (tts : pyarg T) (reds : pyreds T) (stt : T)
    (trim start : bool) : Prop :=
  let l := P_gen_c19.arg_list tts in
  (0 <= ntrunc (amax (shifts_of dt l)))%Z /\
  match reds with RedScalars _ _ => True | RedArrays u d => List.length u = List.length l /\ List.length d = List.length l end /\
  (start = true -> trim = true -> forall d, In d (depth_shifts dt l) -> (start_shift dt stt - d <= Z.of_nat (List.length a))%Z).
(** what python returns for rows m: row 0 itself when there is a single travel time *)
Definition C19_py_rows {T : Type} (l : list T) (m : list (list T)) : pyarr T :=
  if (Z.of_nat (List.length l) =? 1)%Z then Arr1 (nth 0 m []) else Arr2 m.

Theorem C19_surface_energy_is_source : forall (T : Type) (ops : NumOps T) (dt : T) (a : list T) (tts : pyarg T)
    (nodal : bool) (reds : pyreds T) (stt : T) (trim start : bool),
  C19_source_guards dt a tts reds stt trim start ->
  gen_calc_surface_energy dt a tts nodal reds stt trim start =
  C19_py_rows (P_gen_c19.arg_list tts)
    (surface_energy nodal trim start dt a (P_gen_c19.arg_list tts) (P_gen_c19.red_up reds) (P_gen_c19.red_down reds) stt).
Proof. intros T ops dt a tts nodal reds stt trim start (G1 & G2 & G3). now apply P_gen_c19.gen_calc_surface_energy_eq. Qed.
Theorem C19_cum_abs_surface_energy_is_source : forall (T : Type) (ops : NumOps T) (dt : T) (a : list T) (tts : pyarg T)
    (nodal : bool) (reds : pyreds T) (stt : T) (trim start : bool),
  C19_source_guards dt a tts reds stt trim start ->
  gen_calc_cum_abs_surface_energy dt a tts nodal reds stt trim start =
  C19_py_rows (P_gen_c19.arg_list tts)
    (cum_abs_surface_energy nodal trim start dt a (P_gen_c19.arg_list tts) (P_gen_c19.red_up reds) (P_gen_c19.red_down reds) stt).
Proof. intros T ops dt a tts nodal reds stt trim start (G1 & G2 & G3). now apply P_gen_c19.gen_calc_cum_abs_surface_energy_eq. Qed.
Theorem C19_time_shift_motions_is_source : forall (T : Type) (ops : NumOps T) (dt : T) (a : list T) (tts : pyarg T)
    (nodal : bool) (reds : pyreds T) (stt : T) (trim start : bool),
  C19_source_guards dt a tts reds stt trim start ->
  gen_get_time_shift_motions dt a tts nodal reds stt trim start =
  C19_py_rows (P_gen_c19.arg_list tts)
    (time_shift_motions nodal trim start dt a (P_gen_c19.arg_list tts) (P_gen_c19.red_up reds) (P_gen_c19.red_down reds) stt).
Proof. intros T ops dt a tts nodal reds stt trim start (G1 & G2 & G3). now apply P_gen_c19.gen_get_time_shift_motions_eq. Qed.
(** the readings of the arguments *)
Theorem C19_source_argument_readings : forall (T : Type) (ops : NumOps T) (x : T) (v u d : list T) (p q : T),
  P_gen_c19.arg_list (ArgScalar x) = [x] /\ P_gen_c19.arg_list (ArgArr v) = v /\
  P_gen_c19.red_up (RedScalars p q) = RScalar p /\ P_gen_c19.red_down (RedScalars p q) = RScalar q /\
  P_gen_c19.red_up (RedArrays u d) = RArr u /\ P_gen_c19.red_down (RedArrays u d) = RArr d.
Proof. intros. repeat split. Qed.
(** at R, on the domain of the code (dt > 0, travel times >= 0), the padding guard holds *)
Theorem C19_surface_energy_is_source_R : forall (dt : R) (a : list R) (tts : pyarg R) (nodal : bool) (reds : pyreds R) (stt : R)
    (trim start : bool),
  0 < dt -> (forall t, In t (P_gen_c19.arg_list tts) -> 0 <= t) ->
  match reds with RedScalars _ _ => True
  | RedArrays u d => List.length u = List.length (P_gen_c19.arg_list tts) /\ List.length d = List.length (P_gen_c19.arg_list tts) end ->
  (start = true -> trim = true -> forall d, In d (depth_shifts dt (P_gen_c19.arg_list tts)) ->
     (start_shift dt stt - d <= Z.of_nat (List.length a))%Z) ->
  let l := P_gen_c19.arg_list tts in let ur := P_gen_c19.red_up reds in let dr := P_gen_c19.red_down reds in
  gen_calc_surface_energy dt a tts nodal reds stt trim start = C19_py_rows l (surface_energy nodal trim start dt a l ur dr stt) /\
  gen_calc_cum_abs_surface_energy dt a tts nodal reds stt trim start =
    C19_py_rows l (cum_abs_surface_energy nodal trim start dt a l ur dr stt) /\
  gen_get_time_shift_motions dt a tts nodal reds stt trim start = C19_py_rows l (time_shift_motions nodal trim start dt a l ur dr stt).
Proof.
  intros dt a tts nodal reds stt trim start Hdt Htt Hr Ht. pose proof (P_gen_c19.pad_guard_R dt _ Hdt Htt) as Hp.
  repeat split; [apply P_gen_c19.gen_calc_surface_energy_eq | apply P_gen_c19.gen_calc_cum_abs_surface_energy_eq
                 | apply P_gen_c19.gen_get_time_shift_motions_eq]; assumption.
Qed.

(** eqsig/fns/time_shift.py; clip: 'start' = 1, 'end' = 2, 'both' = 3, anything else (the default 'none') = 0 *)
Theorem C19_put_array_is_source : forall (T : Type) (ops : NumOps T) (vals : list T) (shifts : list Z) (clip : string),
  gen_put_array_in_2d_array vals shifts clip = put_in_2d vals shifts (P_gen_c19.clip_of_string clip).
Proof. exact (@P_gen_c19.gen_put_array_in_2d_array_eq). Qed.
Theorem C19_clip_codes : P_gen_c19.clip_of_string "none"%string = 0%nat /\ P_gen_c19.clip_of_string "start"%string = 1%nat /\
  P_gen_c19.clip_of_string "end"%string = 2%nat /\ P_gen_c19.clip_of_string "both"%string = 3%nat.
Proof. repeat split. Qed.
(** jtype 'add' / 'sub'; any other string falls through both tests and the function returns None *)
Theorem C19_join_is_source : forall (T : Type) (ops : NumOps T) (vals : list T) (shifts : list Z),
  gen_join_values_w_shifts vals shifts "add"%string = Some (join_w_shifts true vals shifts) /\
  gen_join_values_w_shifts vals shifts "sub"%string = Some (join_w_shifts false vals shifts) /\
  (forall s, String.eqb s "add"%string = false -> String.eqb s "sub"%string = false -> gen_join_values_w_shifts vals shifts s = None).
Proof. exact (@P_gen_c19.gen_join_values_w_shifts_eq). Qed.
Theorem C19_defaults_are_source :
  @gen_calc_surface_energy_default_nodal = true /\ @gen_calc_cum_abs_surface_energy_default_nodal = true /\
  @gen_get_time_shift_motions_default_nodal = true /\
  @gen_calc_surface_energy_default_trim = false /\ @gen_calc_surface_energy_default_start = false /\
  @gen_calc_cum_abs_surface_energy_default_trim = false /\ @gen_calc_cum_abs_surface_energy_default_start = false /\
  @gen_get_time_shift_motions_default_trim = false /\ @gen_get_time_shift_motions_default_start = false /\
  @gen_trim_to_length_default_trim = false /\ @gen_trim_to_length_default_start = false /\
  @gen_calc_surface_energy_default_stt R _ = 0 /\ @gen_calc_surface_energy_default_up_red R _ = 1 /\
  @gen_calc_surface_energy_default_down_red R _ = 1 /\ @gen_trim_to_length_default_s2s_travel_time R _ = 0 /\
  @gen_put_array_in_2d_array_default_clip = "none"%string /\ @gen_join_values_w_shifts_default_jtype = "add"%string.
Proof. repeat split. Qed.

Example C19_source_nonvacuous :
  C19_source_guards 1 [1; 2; 3] (ArgArr [0; 2]) (RedArrays [1; 1] [1; 1]) 2 false true /\
  gen_put_array_in_2d_array [1; 2; 3] [-2; 0; 1]%Z "both"%string = [[3; 0; 0]; [1; 2; 3]; [0; 1; 2]].
Proof.
  split.
  - unfold C19_source_guards. cbv zeta. split; [|split; [split; reflexivity|intros _ Hf; discriminate Hf]].
    apply (P_gen_c19.pad_guard_R 1 [0; 2]); [lra|]. intros t [<-|[<-|[]]]; lra.
  - rewrite C19_put_array_is_source. reflexivity.
Qed.
