(** C17 — Butterworth filtering is zero-phase with the analytic gain; detrending is exact; adds; running average
    (statements; proofs in P_C17).  All statements are over R about model/M_signalops.v.

    Oracles.  scipy.signal.butter+filtfilt appear as a function [FF order btype wn x]; np.polyfit as [polyfit k xs y].
    Their contracts ([FF_length], [FF_linear], [FF_gain], [polyfit_ok], defined in P_C17) are hypotheses, never axioms:
    - FF_length : the filtered record has the length of the record handed in;
    - FF_linear : FF is linear in the record;
    - FF_gain   : away from the ends ([interior n i]) a sampled sinusoid of nu cycles/sample comes back scaled by the
                  squared digital Butterworth magnitude, unshifted;
    - polyfit_ok: polyfit returns k+1 coefficients that solve the normal equations A^T A c = A^T y.
    The clauses that depend on FF_linear / FF_gain are named _partial: they are statements about SciPy that this
    development does not prove; the check validates them numerically on every run. *)
From Coq Require Import Reals List Lia Lra.
From EQ Require Import lib.Num lib.NpList model.M_signalops proofs.P_C08 proofs.P_C17.
Import ListNotations.
Local Open Scope R_scope.

(** ** Butterworth filtering: glue *)

(** the padding layout for every record length, gibbs_extra and mode: the record occupies [s_len, f_len) with
    f_len - s_len = n inside a buffer of new_len >= f_len samples; new_len is a power of two >= n when padding *)
Theorem C17_layout : forall n extra g,
  let '(nl, s, f) := gibbs_layout n extra g in
  (f = s + n /\ f <= nl /\ (g <> GNone -> nl = gibbs_new_len n extra) /\ (g = GNone -> nl = n))%nat.
Proof. exact P_C17.gibbs_layout_ok. Qed.
Theorem C17_new_len_pow2_ge : forall n extra, (n <= gibbs_new_len n extra)%nat /\ exists k, gibbs_new_len n extra = (2 ^ k)%nat.
Proof. intros; split; [apply P_C17.gibbs_new_len_ge | apply P_C17.gibbs_new_len_pow2]. Qed.
(** what is handed to scipy and what is cut out afterwards: the buffer has length new_len, the slice taken after
    filtering is exactly where the record was placed *)
Theorem C17_pad_then_trim : forall FF order cont cut g extra grange (s : @signal R) bt wn,
  butter_args cont cut (s_dt s) = inr (bt, wn) ->
  exists nl sl fl padded,
    gibbs_layout (length (s_vals s)) extra g = (nl, sl, fl) /\
    butter_pass_scipy_args order cont cut g extra grange s = inr (order, bt, wn, padded) /\
    length padded = nl /\ slice sl fl padded = s_vals s /\
    butter_pass FF order cont cut g extra grange s = inr {| s_dt := s_dt s; s_vals := slice sl fl (FF order bt wn padded) |}.
Proof. exact P_C17.butter_pass_shape. Qed.
(** length and time step are preserved, for every order, type, padding mode, gibbs_extra and gibbs_range *)
Theorem C17_length_dt_preserved : forall FF order cont cut g extra grange (s s' : @signal R),
  FF_length FF -> butter_pass FF order cont cut g extra grange s = inr s' ->
  length (s_vals s') = length (s_vals s) /\ s_dt s' = s_dt s.
Proof. exact P_C17.butter_pass_length_dt. Qed.
(** band / low / high selection and normalisation wp = cut_off / nyq = 2 * cut_off * dt; list, tuple and array alike *)
Theorem C17_btype_and_cutoffs : forall cont (cut : list (option R)) dt, dt <> 0 ->
  match cont, cut with
  | COther, _ => butter_args cont cut dt = inl ErrNotSeq
  | _, [Some lo; Some hi] => butter_args cont cut dt = inr (Band, [2 * lo * dt; 2 * hi * dt])
  | _, [None; Some hi] => butter_args cont cut dt = inr (Low, [2 * hi * dt])
  | _, [Some lo; None] => butter_args cont cut dt = inr (High, [2 * lo * dt])
  | _, [None; None] => True   (* Python raises TypeError (None / nyq): outside the statement *)
  | _, _ => butter_args cont cut dt = inl ErrLen2
  end.
Proof. exact P_C17.butter_args_spec. Qed.
Theorem C17_cutoff_container_irrelevant : forall c1 c2 (cut : list (option R)) dt, c1 <> COther -> c2 <> COther ->
  butter_args c1 cut dt = butter_args c2 cut dt.
Proof. exact P_C17.butter_args_container_irrelevant. Qed.
Theorem C17_cutoff_rejects : forall cont (cut : list (option R)) dt,
  (cont = COther <-> butter_args cont cut dt = inl ErrNotSeq) /\
  (cont <> COther /\ length cut <> 2%nat <-> butter_args cont cut dt = inl ErrLen2).
Proof. exact P_C17.butter_args_rejects. Qed.

(** linearity.  Full statement wanted: butter_pass (a x + b y) = a butter_pass x + b butter_pass y for the real filter.
    Proved: this holds for every padding mode PROVIDED scipy's filtfilt∘butter is linear and length-preserving
    (the padding constants are means, hence linear; trimming is linear).  Missing: the proof that SciPy is linear. *)
Theorem C17_linear_partial : forall FF order cont cut g extra grange dt a b (x y : list R) o1 o2,
  FF_linear FF -> FF_length FF -> length x = length y ->
  butter_pass FF order cont cut g extra grange {| s_dt := dt; s_vals := x |} = inr o1 ->
  butter_pass FF order cont cut g extra grange {| s_dt := dt; s_vals := y |} = inr o2 ->
  butter_pass FF order cont cut g extra grange {| s_dt := dt; s_vals := lin a b x y |}
    = inr {| s_dt := dt; s_vals := lin a b (s_vals o1) (s_vals o2) |}.
Proof. exact P_C17.butter_pass_linear. Qed.

(** zero phase and gain.  Full statement wanted: for the real filter, a sinusoid of frequency f comes back, away from the
    ends, as the same sinusoid scaled by |H(f)|^2, for every padding mode.
    Proved: without Gibbs padding, IF scipy's filtfilt∘butter has that response in its own units (cut-offs as fractions
    of Nyquist, frequency in cycles per sample), THEN butter_pass has it in Hz and seconds: the gain is
    butter_gain2 with t = tan(pi f dt) and the band edges tan(pi wn/2) where wn = 2 fc dt (see C17_btype_and_cutoffs),
    i.e. tan(pi fc dt).  Missing: the response of SciPy itself, and the padded modes (the padded buffer is not a pure
    sinusoid); both are validated numerically by the check (site butter_pass[gain]). *)
Theorem C17_zero_phase_gain_partial : forall interior FF order cont cut extra grange amp f ph dt n bt wn,
  FF_length FF -> FF_gain interior FF ->
  butter_args cont cut dt = inr (bt, wn) ->
  exists s', butter_pass FF order cont cut GNone extra grange {| s_dt := dt; s_vals := sinusoid amp f ph dt n |} = inr s' /\
    s_dt s' = dt /\ length (s_vals s') = n /\
    forall i, (i < n)%nat -> interior n i ->
      nth i (s_vals s') 0 = butter_gain2 bt order (tan (PI * (f * dt))) (map (fun w => tan (PI * w / 2)) wn)
                            * nth i (sinusoid amp f ph dt n) 0.
Proof. exact P_C17.butter_pass_gain. Qed.
(** the gain formula is the Butterworth magnitude: 1/2 at a cut-off (t = tc), for every order *)
Theorem C17_gain_half_at_cutoff : forall order tc, tc <> 0 ->
  butter_gain2 Low order tc [tc] = 1 / 2 /\ butter_gain2 High order tc [tc] = 1 / 2.
Proof. exact P_C17.gain_half_at_cutoff. Qed.

(** ** Polynomial detrending (np.polyfit is the oracle [polyfit]; nodes are linspace(0,1,n)) *)

Theorem C17_poly_length : forall polyfit k (y : list R), length (remove_poly polyfit k y) = length y.
Proof. exact P_C17.remove_poly_length. Qed.
(** exactly one polynomial of degree <= k is subtracted: out_i = y_i - sum_j c_j x_i^(k-j), x_i = i/(n-1) *)
Theorem C17_poly_subtracts_poly : forall polyfit k (y : list R),
  length (polyfit k (linspace01 (length y)) y) = S k ->
  let c := polyfit k (linspace01 (length y)) y in
  forall i, (i < length y)%nat ->
    nth i (remove_poly polyfit k y) 0 = nth i y 0 - polyval k c (INR i / INR (length y - 1)).
Proof. exact P_C17.poly_subtracts_poly. Qed.
(** the residual is orthogonal to 1, x, ..., x^k ... *)
Theorem C17_poly_residual_orthogonal : forall polyfit k (y : list R), polyfit_ok polyfit ->
  forall e, (e <= k)%nat -> dot (map (fun x => x ^ e) (linspace01 (length y))) (remove_poly polyfit k y) = 0.
Proof. exact P_C17.poly_residual_orthogonal. Qed.
(** ... so the zero polynomial solves the normal equations of the residual (its best-fit polynomial is zero) ... *)
Theorem C17_poly_best_fit_zero : forall polyfit k (y : list R), polyfit_ok polyfit ->
  normal_eqs (design k (linspace01 (length y))) (remove_poly polyfit k y) (repeat 0 (S k)) (S k).
Proof. exact P_C17.poly_best_fit_zero. Qed.
(** ... and a solution of the normal equations is a best fit: no polynomial of degree <= k leaves a smaller sum of squares *)
Theorem C17_poly_least_squares : forall polyfit k (y d : list R), polyfit_ok polyfit -> length d = S k ->
  let r := remove_poly polyfit k y in
  let r' := vsub y (map (polyval k d) (linspace01 (length y))) in
  dot r r <= dot r' r'.
Proof. exact P_C17.poly_least_squares. Qed.
Theorem C17_poly_idempotent : forall polyfit k (y : list R), polyfit_ok polyfit ->
  remove_poly polyfit k (remove_poly polyfit k y) = remove_poly polyfit k y.
Proof. exact P_C17.poly_idempotent. Qed.
(** adding any polynomial of degree <= k beforehand changes nothing *)
Theorem C17_poly_absorbs : forall polyfit k (y d : list R), polyfit_ok polyfit -> length d = S k ->
  remove_poly polyfit k (vadd y (map (polyval k d) (linspace01 (length y)))) = remove_poly polyfit k y.
Proof. exact P_C17.poly_absorbs. Qed.
(** the run-time check of the coefficient vector used in the correspondence is sound for the hypothesis above *)
Theorem C17_normal_check_sound : forall A (y c : list R) m, normal_okb A y c m = true -> normal_eqs A y c m.
Proof. exact P_C17.normal_okb_sound. Qed.

(** ** add_constant / add_series / add_signal *)
Theorem C17_add_constant_elementwise : forall c (s : @signal R),
  s_dt (add_constant c s) = s_dt s /\ length (s_vals (add_constant c s)) = length (s_vals s) /\
  forall i, (i < length (s_vals s))%nat -> nth i (s_vals (add_constant c s)) 0 = nth i (s_vals s) 0 + c.
Proof. exact P_C17.add_constant_spec. Qed.
Theorem C17_add_series_elementwise : forall series (s : @signal R), length series = length (s_vals s) ->
  exists s', add_series series s = inr s' /\ s_dt s' = s_dt s /\ length (s_vals s') = length (s_vals s) /\
  forall i, (i < length (s_vals s))%nat -> nth i (s_vals s') 0 = nth i (s_vals s) 0 + nth i series 0.
Proof. exact P_C17.add_series_ok. Qed.
Theorem C17_add_series_rejects : forall series (s : @signal R),
  length series <> length (s_vals s) <-> add_series series s = inl ErrSeriesLen.
Proof. exact P_C17.add_series_rejects. Qed.
(** add_signal: not a Signal -> rejected; other time step -> rejected; otherwise add_series of its values *)
Theorem C17_add_signal_cases : forall (other : option (@signal R)) (s : @signal R),
  match other with
  | None => add_signal other s = inl ErrNotSignal
  | Some o =>
      (s_dt o <> s_dt s -> add_signal other s = inl ErrDt) /\
      (s_dt o = s_dt s -> add_signal other s = add_series (s_vals o) s)
  end.
Proof. exact P_C17.add_signal_cases. Qed.
Theorem C17_add_signal_accepts_iff : forall (other : option (@signal R)) (s : @signal R),
  (exists s', add_signal other s = inr s') <->
  exists o, other = Some o /\ s_dt o = s_dt s /\ length (s_vals o) = length (s_vals s).
Proof. exact P_C17.add_signal_ok_iff. Qed.

(** ** running average: the coded three-branch loop returns, at every index, the mean of the ORIGINAL samples at
    positions j with i - floor(w/2) <= j <= i + floor(w/2) that lie inside the record *)
Theorem C17_running_average_length : forall w (x : list R), length (running_average w x) = length x.
Proof. exact P_C17.running_average_length. Qed.
Theorem C17_running_average_spec : forall w (x : list R) i, (i < length x)%nat ->
  nth i (running_average w x) 0 = window_mean w x i.
Proof. exact P_C17.running_average_spec. Qed.
(** what [window_mean]'s window is: consecutive original samples from i - h up to min(n, i + h + 1) - 1 *)
Theorem C17_window_content : forall w (x : list R) i, (i < length x)%nat ->
  let h := (w / 2)%nat in let win := slice (i - h) (Nat.min (length x) (i + h + 1)) x in
  window_mean w x i = mean win /\
  length win = (Nat.min (length x) (i + h + 1) - (i - h))%nat /\
  forall t, (t < length win)%nat -> nth t win 0 = nth (i - h + t) x 0.
Proof. intros w x i Hi h win. split; [reflexivity|]. exact (P_C17.window_content w x i 0 Hi). Qed.
Theorem C17_running_average_constant : forall w c (x : list R), (forall v, In v x -> v = c) ->
  forall i, (i < length x)%nat -> nth i (running_average w x) 0 = c.
Proof. exact P_C17.running_average_constant. Qed.

(** ** the hypotheses are satisfiable / the statements are not vacuous *)
Example C17_nonvacuous_running_average : running_average 3 [0; 1; 4; 9] = [1 / 2; 5 / 3; 14 / 3; 13 / 2].
Proof. exact P_C17.ex_running_average. Qed.
Example C17_nonvacuous_oracle : FF_length (fun _ _ _ x => x) /\ FF_linear (fun _ _ _ x => x).
Proof. split; [intros ? ? ? ?; reflexivity | intros ? ? ? ? ? ? ? ?; reflexivity]. Qed.
Example C17_nonvacuous_normal_eqs : normal_eqs (design 1 (linspace01 3)) [0; 1; 4] [4; - (1 / 3)] 2.
Proof. exact P_C17.ex_normal_eqs. Qed.
Example C17_nonvacuous_layout : gibbs_layout 100 1 GMid = (256, 78, 178)%nat /\ gibbs_layout 100 1 GEnd = (256, 156, 256)%nat.
Proof. split; reflexivity. Qed.
Example C17_nonvacuous_butter_args :
  butter_args CArray [Some (1 / 2); Some 10] (1 / 100) = inr (Band, [2 * (1 / 2) * (1 / 100); 2 * 10 * (1 / 100)]).
Proof. apply (P_C17.butter_args_spec CArray [Some (1 / 2); Some 10] (1 / 100)). lra. Qed.

(** ** Source-text tie (translator/py2coq_c17.py -> gen/Gen_c17.v, proofs in P_gen_c17)

    Every run re-translates eqsig/single.py (class Signal: butter_pass, add_constant, add_series, add_signal,
    running_average) into Gallina by symbolic execution of the method bodies; the generated definitions are the ones used
    below, so a change of an operand, index, sign, literal, comparison, keyword default or exception message in those
    methods changes [gen_*] and breaks one of these theorems (a statement outside the accepted shapes aborts the translator).
    Inputs of the generated functions: a = self.values, dt = self.dt; cls / cut = the class and the content of cut_off (a [None]
    entry is Python None); kw_* = the keyword if given; remove_gibbs = None | Some string; FF order btype wn v stands for
    `b, a = butter(order, wn, btype=btype); filtfilt(b, a, v)`; other = Some (dt, values) of a Signal | None for any other object.
    Results are [PyOk v] (v handed to reset_values / stored into _values) or the exception raised (class and message).
    NOT covered by this tie (left to the correspondence): SciPy's butter / filtfilt themselves, binary64 rounding, np.mean of an
    empty slice (nan + warning; 0/0 in the model), int(np.ceil(np.log2(n))) read as Z.log2_up n (exact for 1 <= n < 2^48),
    the object-level steps (the values / dt / npts properties and reset_values are checked structurally to be the plain
    accessors; AccSignal's overrides and clear_cache are not translated).  remove_poly has its own tie at the end of this
    file (gen/Gen_rmpoly.v). *)
From Coq Require Import ZArith String List.
From EQ Require Import gen.Gen_c17 proofs.P_gen_c17.

(** the readings of the Python-level arguments used below: [cls_of] the class of cut_off, [gibbs_of_rg] the remove_gibbs
    keyword (anything but None / 'start' / 'end' is the centred layout), [btype_of_string] scipy's btype string *)
Theorem C17_source_argument_readings :
  cls_of CList = PList /\ cls_of CTuple = PTuple /\ cls_of CArray = PNdarray /\ cls_of COther = POther /\
  gibbs_of_rg None = GNone /\ gibbs_of_rg (Some "start"%string) = GStart /\ gibbs_of_rg (Some "end"%string) = GEnd /\
  (forall s, s <> "start"%string -> s <> "end"%string -> gibbs_of_rg (Some s) = GMid) /\
  btype_of_string "band" = Band /\ btype_of_string "low" = Low /\ btype_of_string "high" = High.
Proof. exact P_gen_c17.readings_spec. Qed.

(** butter_pass: the whole method body (validation and its messages, band/low/high selection, nyq and wp, the Gibbs layout
    per mode, start/end means over gibbs_range samples, the padded buffer, the call of the filter and the slice taken
    afterwards) is the model's [butter_pass], for every real input, every order, gibbs_extra, remove_gibbs string and
    gibbs_range >= 1 (at gibbs_range = 0 Python's [-0:] is the whole record, which the model's [lastn] does not follow; the
    model documents k >= 1).  cut_off = (None, None) is the next theorem. *)
Theorem C17_butter_pass_is_source : forall FF cont (cut : list (option R)) order rg extra grange (s : @signal R),
  cut <> [None; None] -> (rg <> None -> (1 <= grange)%nat) ->
  gen_butter_pass (fun o bt => FF (Z.to_nat o) (btype_of_string bt)) (cls_of cont) cut
    (Some (Z.of_nat order)) rg (Some (Z.of_nat extra)) (Some (Z.of_nat grange)) (s_dt s) (s_vals s)
  = match butter_pass FF order cont cut (gibbs_of_rg rg) extra grange s with
    | inr s' => PyOk (s_vals s')
    | inl ErrNotSeq => PyValueError "cut_off must be list, tuple or array."
    | inl ErrLen2 => PyValueError "cut_off must be length 2."
    end.
Proof. exact P_gen_c17.gen_butter_pass_eq_R. Qed.
(** the same for every number type in which v * 1 = v (the source multiplies the start mean into np.ones) *)
Theorem C17_butter_pass_is_source_generic : forall (T : Type) (ops : NumOps T), (forall v : T, nmul v n1 = v) ->
  forall FF cont (cut : list (option T)) order rg extra grange (s : @signal T),
  cut <> [None; None] -> (rg <> None -> (1 <= grange)%nat) ->
  gen_butter_pass (fun o bt => FF (Z.to_nat o) (btype_of_string bt)) (cls_of cont) cut
    (Some (Z.of_nat order)) rg (Some (Z.of_nat extra)) (Some (Z.of_nat grange)) (s_dt s) (s_vals s)
  = match butter_pass FF order cont cut (gibbs_of_rg rg) extra grange s with
    | inr s' => PyOk (s_vals s')
    | inl ErrNotSeq => PyValueError "cut_off must be list, tuple or array."
    | inl ErrLen2 => PyValueError "cut_off must be length 2."
    end.
Proof. exact (@P_gen_c17.gen_butter_pass_eq). Qed.
(** cut_off = (None, None) in a list / tuple / array: the source raises TypeError (None / nyq); [butter_args] returns a
    placeholder there, which is why C17_btype_and_cutoffs says True for that shape *)
Theorem C17_butter_pass_none_none_is_source : forall FF cont order rg extra grange (s : @signal R),
  cont <> COther -> (rg <> None -> (1 <= grange)%nat) ->
  gen_butter_pass (fun o bt => FF (Z.to_nat o) (btype_of_string bt)) (cls_of cont) [None; None]
    (Some (Z.of_nat order)) rg (Some (Z.of_nat extra)) (Some (Z.of_nat grange)) (s_dt s) (s_vals s) = PyTypeError.
Proof. exact P_gen_c17.gen_butter_pass_none_none_R. Qed.
(** keyword and signature defaults: filter_order=4, gibbs_extra=1, gibbs_range=50 (remove_gibbs=None is the [None] input),
    cut_off=(0.1, 15), width=1 *)
Theorem C17_defaults_are_source :
  (forall (FFz : Z -> string -> list R -> list R -> list R) cls cut rg dt (x : list R),
     gen_butter_pass FFz cls cut None rg None None dt x
     = gen_butter_pass FFz cls cut (Some (Z.of_nat 4)) rg (Some (Z.of_nat 1)) (Some (Z.of_nat 50)) dt x) /\
  gen_butter_pass_default_cut_off_class = PTuple /\ @gen_butter_pass_default_cut_off R _ = [Some 0.1; Some 15] /\
  gen_running_average_default_width = 1%Z.
Proof. split; [exact (@P_gen_c17.gen_butter_pass_defaults R _) | exact P_gen_c17.gen_c17_defaults_R]. Qed.

(** add_constant / add_series / add_signal: element-wise sums, the rejection conditions, their order and their messages; for
    every number type (no arithmetic law is used) *)
Theorem C17_add_constant_is_source : forall (T : Type) (ops : NumOps T) c (s : @signal T),
  gen_add_constant c (s_vals s) = PyOk (s_vals (add_constant c s)).
Proof. exact (@P_gen_c17.gen_add_constant_eq). Qed.
Theorem C17_add_series_is_source : forall (T : Type) (ops : NumOps T) series (s : @signal T),
  gen_add_series series (s_vals s)
  = match add_series series s with
    | inr s' => PyOk (s_vals s')
    | inl ErrSeriesLen => PySignalProcessingError "new series has different length to Signal"
    | inl ErrDt => PySignalProcessingError "New signal has different time step"
    | inl ErrNotSignal => PySignalProcessingError "New signal is not a Signal object"
    end.
Proof. exact (@P_gen_c17.gen_add_series_eq). Qed.
Theorem C17_add_signal_is_source : forall (T : Type) (ops : NumOps T) (other : option (@signal T)) (s : @signal T),
  gen_add_signal (match other with Some o => Some (s_dt o, s_vals o) | None => None end) (s_dt s) (s_vals s)
  = match add_signal other s with
    | inr s' => PyOk (s_vals s')
    | inl ErrSeriesLen => PySignalProcessingError "new series has different length to Signal"
    | inl ErrDt => PySignalProcessingError "New signal has different time step"
    | inl ErrNotSignal => PySignalProcessingError "New signal is not a Signal object"
    end.
Proof. exact (@P_gen_c17.gen_add_signal_eq). Qed.

(** running_average: the three-branch loop body (its comparisons i < width / 2, i > len - width / 2 over exact quotients,
    int(width / 2), the three slices with Python's index normalisation) is [running_average_at] at every index, and the
    loop fills the output with it; for every number type *)
Theorem C17_running_average_body_is_source : forall (T : Type) (ops : NumOps T) (w : nat) (x : list T) (i : nat),
  gen_running_average_at (Z.of_nat w) x (Z.of_nat i) = running_average_at w x i.
Proof. exact (@P_gen_c17.gen_running_average_at_eq). Qed.
Theorem C17_running_average_is_source : forall (T : Type) (ops : NumOps T) (w : nat) (x : list T),
  gen_running_average (Z.of_nat w) x = PyOk (running_average w x).
Proof. exact (@P_gen_c17.gen_running_average_eq). Qed.
Theorem C17_running_average_loop_is_source : forall (T : Type) (ops : NumOps T) (w : nat) (x : list T),
  exists out, gen_running_average (Z.of_nat w) x = PyOk out /\ length out = length x /\
    forall i d, (i < length x)%nat -> nth i out d = gen_running_average_at (Z.of_nat w) x (Z.of_nat i).
Proof. exact (@P_gen_c17.gen_running_average_loop). Qed.

(** what the source returns, at R, through the theorems above: the window mean of the original samples at every index;
    a record of unchanged length for any length-preserving filter *)
Theorem C17_source_running_average_window : forall (w : nat) (x : list R),
  exists out, gen_running_average (Z.of_nat w) x = PyOk out /\ length out = length x /\
    forall i, (i < length x)%nat -> nth i out 0 = window_mean w x i.
Proof. exact P_gen_c17.source_running_average_window. Qed.
Theorem C17_source_butter_pass_length : forall FF cont (cut : list (option R)) order rg extra grange (s : @signal R) out,
  FF_length FF -> cut <> [None; None] -> (rg <> None -> (1 <= grange)%nat) ->
  gen_butter_pass (fun o bt => FF (Z.to_nat o) (btype_of_string bt)) (cls_of cont) cut
    (Some (Z.of_nat order)) rg (Some (Z.of_nat extra)) (Some (Z.of_nat grange)) (s_dt s) (s_vals s) = PyOk out ->
  length out = length (s_vals s).
Proof. exact P_gen_c17.source_butter_pass_length. Qed.
(** the guard gibbs_range >= 1 of C17_butter_pass_is_source cannot be dropped: v[-0:] is the whole array *)
Theorem C17_source_last_slice_guard : py_slice (Some (- Z.of_nat 0)%Z) None [true] <> lastn 0 [true].
Proof. exact P_gen_c17.py_slice_last_0_differs. Qed.

Example C17_nonvacuous_source :
  gen_running_average 3%Z [0; 1; 4; 9] = PyOk [1 / 2; 5 / 3; 14 / 3; 13 / 2] /\
  gen_add_signal (Some (1 / 100, [3; 4])) (1 / 100) [1; 2] = PyOk [1 + 3; 2 + 4] /\
  gen_add_series [3] [1; 2] = (PySignalProcessingError "new series has different length to Signal" : pyres (list R)) /\
  gen_butter_pass (fun _ _ _ v => v) POther [Some (1 / 2); Some 10] None None None None (1 / 100) [1; 2; 3]
    = (PyValueError "cut_off must be list, tuple or array." : pyres (list R)) /\
  gen_butter_pass (fun (o : Z) (bt : string) (wn v : list R) => v) PTuple [Some (1 / 2); Some 10] None (Some "mid"%string) None None
    (1 / 100) [1; 2; 3] = PyOk [1; 2; 3].
Proof. exact P_gen_c17.source_nonvacuous. Qed.

(** ** Source-text tie for polynomial detrending (translator/py2coq_rmpoly.py -> gen/Gen_rmpoly.v, proofs in P_gen_rmpoly)

    Every run re-translates eqsig/fns/generic.py: remove_poly and eqsig/single.py: Signal.remove_poly.  np.polyfit stays
    the oracle: the generated definitions apply their parameter [PF] to the operands of the source call, in source order
    ([PF x values poly_fit]); [pf_of polyfit] is the model's oracle in that argument order.  Everything around the call is
    translated and proved to be the model: the grid np.linspace(0, 1.0, len(values)) (resp. self.npts points), the start
    value [0 * x], the loop over range(len(cofs)), the power [poly_fit - co], the coefficient [cofs[co]], the product and
    the in-place accumulation, and the result [values - y_cor] (the function returns it; the method hands it to
    self.reset_values, a = self.values; dt is not touched).  A changed operand / literal / index / sign there changes the
    generated term and breaks one of these theorems; a renamed temporary or loop variable gives the same text.
    The oracle must return k + 1 coefficients: that is the first half of its contract [polyfit_ok] (with more than k + 1
    coefficients the source raises x to a negative power, which [remove_poly_with] does not follow).
    NOT covered (trusted reading / correspondence): np.polyfit itself, np.linspace read as [np_linspace] of lib/PySeq.v
    (start + i * step; NumPy's own rounding and its exact last point are not modelled), [x ** int] as repeated
    multiplication, binary64 rounding. *)
From EQ Require Import lib.PySeq gen.Gen_rmpoly proofs.P_gen_rmpoly.

Theorem C17_remove_poly_is_source : forall polyfit (k : nat) (y : list R),
  length (polyfit k (linspace01 (length y)) y) = S k ->
  gen_remove_poly (pf_of polyfit) y (Z.of_nat k) = remove_poly polyfit k y.
Proof. exact P_gen_rmpoly.gen_remove_poly_eq. Qed.
Theorem C17_signal_remove_poly_is_source : forall polyfit (k : nat) (s : @signal R),
  length (polyfit k (linspace01 (length (s_vals s))) (s_vals s)) = S k ->
  gen_sig_remove_poly (pf_of polyfit) (Z.of_nat k) (s_vals s) = s_vals (remove_poly_sig polyfit k s).
Proof. exact P_gen_rmpoly.gen_sig_remove_poly_eq. Qed.
(** under the contract of the oracle used by the detrending theorems above, unconditionally *)
Theorem C17_remove_poly_is_source_ok : forall polyfit, polyfit_ok polyfit -> forall (k : nat) (y : list R),
  gen_remove_poly (pf_of polyfit) y (Z.of_nat k) = remove_poly polyfit k y.
Proof. exact P_gen_rmpoly.gen_remove_poly_ok. Qed.
Theorem C17_signal_remove_poly_is_source_ok : forall polyfit, polyfit_ok polyfit -> forall (k : nat) (s : @signal R),
  gen_sig_remove_poly (pf_of polyfit) (Z.of_nat k) (s_vals s) = s_vals (remove_poly_sig polyfit k s) /\
  s_dt (remove_poly_sig polyfit k s) = s_dt s.
Proof. exact P_gen_rmpoly.gen_sig_remove_poly_ok. Qed.
(** what the source hands to np.polyfit: the grid of the model, the record, the degree *)
Theorem C17_remove_poly_oracle_args_are_source : forall (PF : list R -> list R -> Z -> list R) (y : list R) (k : Z),
  gen_remove_poly PF y k = gen_remove_poly (fun _ _ _ => PF (linspace01 (length y)) y k) y k.
Proof. exact P_gen_rmpoly.gen_remove_poly_oracle_args. Qed.
Theorem C17_remove_poly_defaults_are_source :
  gen_remove_poly_default_poly_fit = 0%Z /\ gen_sig_remove_poly_default_poly_fit = 0%Z.
Proof. exact P_gen_rmpoly.gen_rmpoly_defaults. Qed.
