(** C06 — Fourier amplitude spectrum is dt x DFT of the zero-padded record on the stated grid
    (statements; proofs in P_C06).  Everything is about the R instance of lib/Dft.v + model/M_fourier.v:
      dft_re_R N x k, dft_im_R N x k : real / imaginary part of bin k of the N-point transform of x (padded / truncated),
      fas_re_R / fas_im_R / fa_freqs : what Signal.gen_fa_spectrum, calc_fa_spectrum, generate_fa_spectrum return,
      pow2_len / sig_nfft / calc_nfft / gen_nfft : the transform length each entry point uses.
    [rsum g n] is the textbook sum of g j over j < n. *)
From Coq Require Import ZArith QArith Reals List Lia Lra.
From EQ Require Import lib.Num lib.NpList lib.Dft model.M_fourier proofs.P_C06.
Import ListNotations.
Local Open Scope R_scope.

(** ** transform length: default = least power of two >= npts; p2_plus multiplies it by 2^p2_plus; n overrides;
       the unpadded array-level variants use N = npts *)
Theorem C06_N_rule : forall npts : Z, (1 <= npts)%Z ->
  (exists e, (0 <= e)%Z /\ pow2_len npts 0 = 2 ^ e)%Z /\ (npts <= pow2_len npts 0)%Z /\
  (forall e, (0 <= e)%Z -> (npts <= 2 ^ e)%Z -> (pow2_len npts 0 <= 2 ^ e)%Z).
Proof.
  intros npts H. destruct (P_C06.pow2_len_spec npts H) as (H0 & H1 & H2 & H3).
  split; [exists (Z.log2_up npts); split; assumption|]. split; assumption.
Qed.
Theorem C06_N_rule_p2_plus : forall (npts p : Z), (0 <= p)%Z -> pow2_len npts p = (2 ^ p * pow2_len npts 0)%Z.
Proof. exact P_C06.pow2_len_plus. Qed.
Theorem C06_N_rule_entry_points : forall (npts p n : Z) q,
  sig_nfft npts p None = pow2_len npts p /\ sig_nfft npts p (Some n) = n /\
  calc_nfft npts (Some n) q = n /\ calc_nfft npts None (Some p) = pow2_len npts p /\ calc_nfft npts None None = npts /\
  gen_nfft npts true = pow2_len npts 0 /\ gen_nfft npts false = npts.
Proof. intros. repeat split; reflexivity. Qed.

(** ** grid: N/2 (floored) bins, bin k at frequency k / (N dt) *)
Theorem C06_lengths : forall N dt (x : list R),
  length (fas_re_R N dt x) = points N /\ length (fas_im_R N dt x) = points N /\ length (fa_freqs N dt) = points N.
Proof. exact P_C06.fas_lengths. Qed.
Theorem C06_grid : forall N (dt : R) k, (k < points N)%nat -> nth k (fa_freqs N dt) 0 = INR k / (IZR N * dt).
Proof. intros. rewrite INR_IZR_INZ. now apply P_C06.fa_freqs_nth. Qed.

(** ** definition: bin k is dt x the DFT of the zero-extended record ([nth j x 0] = 0 beyond the record, so the
       zero padding is implicit; only j < N enters, so a longer record is truncated) *)
Theorem C06_definition : forall (N : nat) dt (x : list R) k, (k < points (Z.of_nat N))%nat ->
  nth k (fas_re_R (Z.of_nat N) dt x) 0 = rsum (fun j => nth j x 0 * cos (2 * PI * INR k * INR j / INR N)) N * dt /\
  nth k (fas_im_R (Z.of_nat N) dt x) 0 = - rsum (fun j => nth j x 0 * sin (2 * PI * INR k * INR j / INR N)) N * dt.
Proof.
  intros N dt x k Hk. rewrite P_C06.fas_re_nth, P_C06.fas_im_nth by assumption.
  rewrite P_C06.dft_re_rsum, P_C06.dft_im_rsum.
  split; [f_equal|f_equal; f_equal]; apply P_C06.rsum_ext; intros j _; rewrite mult_IZR, <- !INR_IZR_INZ;
    do 2 f_equal; unfold Rdiv; ring.
Qed.

(** ** object-level and array-level functions agree (same N => same triple; each pairing named in the property) *)
Theorem C06_object_array_agree : forall (p n : Z) q dt (x : list R),
  sig_spectrum_R p None dt x = calc_spectrum_R None (Some p) dt x /\
  sig_spectrum_R p (Some n) dt x = calc_spectrum_R (Some n) q dt x /\
  sig_spectrum_R 0 None dt x = gen_spectrum_R true dt x /\
  calc_spectrum_R None None dt x = gen_spectrum_R false dt x.
Proof. intros. repeat split; reflexivity. Qed.

(** ** linearity (records of equal length, any N) *)
Theorem C06_linear : forall N dt a b (x y : list R), length x = length y ->
  fas_re_R N dt (map2 (fun u v => a * u + b * v) x y) = map2 (fun u v => a * u + b * v) (fas_re_R N dt x) (fas_re_R N dt y) /\
  fas_im_R N dt (map2 (fun u v => a * u + b * v) x y) = map2 (fun u v => a * u + b * v) (fas_im_R N dt x) (fas_im_R N dt y).
Proof. exact P_C06.fas_linear. Qed.

(** ** trailing zeros that do not change N leave the spectrum unchanged (stated for any fixed N; the default N is a
       function of the length only, so "do not change N" is the hypothesis [pow2_len] equal, second theorem) *)
Theorem C06_trailing_zeros : forall N dt (x : list R) m,
  fas_re_R N dt (x ++ repeat 0 m) = fas_re_R N dt x /\ fas_im_R N dt (x ++ repeat 0 m) = fas_im_R N dt x.
Proof. exact P_C06.fas_trailing_zeros. Qed.
Theorem C06_trailing_zeros_default : forall p dt (x : list R) m,
  pow2_len (Z.of_nat (length (x ++ repeat 0 m))) p = pow2_len (Z.of_nat (length x)) p ->
  sig_spectrum_R p None dt (x ++ repeat 0 m) = sig_spectrum_R p None dt x.
Proof.
  intros p dt x m E. unfold sig_spectrum_R, sig_spectrum, spectrum, npts_of, sig_nfft. rewrite E.
  destruct (P_C06.fas_trailing_zeros (pow2_len (Z.of_nat (length x)) p) dt x m) as [H1 H2].
  unfold fas_re_R, fas_im_R in H1, H2. now rewrite H1, H2.
Qed.

(** ** orthogonality of the N-th roots of unity, Hermitian symmetry, inversion, Parseval (full N-point transform) *)
Theorem C06_orthogonality : forall (N : nat) (d : Z), (0 < N)%nat ->
  rsum (fun k => cos (2 * PI * IZR (Z.of_nat k * d) / IZR (Z.of_nat N))) N = (if Z.eqb (d mod Z.of_nat N) 0 then INR N else 0) /\
  rsum (fun k => sin (2 * PI * IZR (Z.of_nat k * d) / IZR (Z.of_nat N))) N = 0.
Proof. exact P_C06.orthogonality. Qed.
Theorem C06_hermitian : forall (N : nat) (x : list R) (k : Z), (0 < N)%nat ->
  dft_re_R (Z.of_nat N) x (Z.of_nat N - k) = dft_re_R (Z.of_nat N) x k /\
  dft_im_R (Z.of_nat N) x (Z.of_nat N - k) = - dft_im_R (Z.of_nat N) x k.
Proof. exact P_C06.dft_hermitian. Qed.
Theorem C06_dft_inversion : forall (N : nat) (x : list R) m, (m < N)%nat ->
  rsum (fun k => dft_re_R (Z.of_nat N) x (Z.of_nat k) * cos (2 * PI * IZR (Z.of_nat k * Z.of_nat m) / IZR (Z.of_nat N))
               - dft_im_R (Z.of_nat N) x (Z.of_nat k) * sin (2 * PI * IZR (Z.of_nat k * Z.of_nat m) / IZR (Z.of_nat N))) N
  = INR N * nth m x 0.
Proof. exact P_C06.dft_inversion. Qed.
Theorem C06_parseval : forall (N : nat) (x : list R),
  rsum (fun k => dft_re_R (Z.of_nat N) x (Z.of_nat k) * dft_re_R (Z.of_nat N) x (Z.of_nat k)
               + dft_im_R (Z.of_nat N) x (Z.of_nat k) * dft_im_R (Z.of_nat N) x (Z.of_nat k)) N
  = INR N * rsum (fun j => nth j x 0 * nth j x 0) N.
Proof. exact P_C06.dft_parseval. Qed.

(** one-sided form (what the reported bins give), even N = 2M: the bins above N/2 mirror the reported ones and the
    unreported Nyquist bin is the alternating sum of the record *)
Theorem C06_parseval_one_sided : forall (M : nat) (x : list R), (1 <= M)%nat ->
  let N := (2 * M)%nat in
  let P := fun k => dft_re_R (Z.of_nat N) x (Z.of_nat k) * dft_re_R (Z.of_nat N) x (Z.of_nat k)
                  + dft_im_R (Z.of_nat N) x (Z.of_nat k) * dft_im_R (Z.of_nat N) x (Z.of_nat k) in
  INR N * rsum (fun j => nth j x 0 * nth j x 0) N
  = P 0%nat + 2 * rsum (fun i => P (S i)) (M - 1) + rsum (fun j => nth j x 0 * (-1) ^ j) N * rsum (fun j => nth j x 0 * (-1) ^ j) N.
Proof. exact P_C06.parseval_one_sided. Qed.
Theorem C06_nyquist_bin : forall (M : nat) (x : list R), (0 < M)%nat ->
  dft_re_R (Z.of_nat (2 * M)) x (Z.of_nat M) = rsum (fun j => nth j x 0 * (-1) ^ j) (2 * M) /\ dft_im_R (Z.of_nat (2 * M)) x (Z.of_nat M) = 0.
Proof. exact P_C06.dft_nyquist. Qed.

(** ** the inverse helper: for even N = 2M and dt <> 0, fas2values applied to the N/2 reported bins returns N samples,
       sample n = (zero-extended / truncated record)_n - mean - (-1)^n * (Nyquist bin)/N, with zero imaginary part.
       (For odd N the helper cannot know N from the N/2 floored bins; the clause is stated for even N.) *)
Theorem C06_inverse : forall (M : nat) (dt : R) (x : list R), (1 <= M)%nat -> dt <> 0 ->
  let N := (2 * M)%nat in
  let re := fas_re_R (Z.of_nat N) dt x in let im := fas_im_R (Z.of_nat N) dt x in
  length (fas2values_re_R re im dt) = N /\ length (fas2values_im_R re im dt) = N /\ forall n, (n < N)%nat ->
    nth n (fas2values_re_R re im dt) 0
      = nth n x 0 - rsum (fun j => nth j x 0) N / INR N - (-1) ^ n * (rsum (fun j => nth j x 0 * (-1) ^ j) N / INR N) /\ nth n (fas2values_im_R re im dt) 0 = 0.
Proof.
  intros M dt x HM Hdt N re im. destruct (P_C06.fas2values_lengths M dt x HM) as [L1 L2].
  split; [exact L1|]. split; [exact L2|]. intros n Hn. split.
  - now apply P_C06.fas2values_re_nth.
  - now apply P_C06.fas2values_im_nth.
Qed.

(** ** dominant period: max_fa_period reports N dt / k for the FIRST bin k maximising |F_k| (squared amplitudes are
       compared: |z| is monotone in |z|^2); bin 0 has no finite period ([None], the code returns inf) *)
Theorem C06_dominant_period : forall dt (x : list R), 0 < dt -> (2 <= length x)%nat ->
  let N := pow2_len (Z.of_nat (length x)) 0 in
  let P := fun j => (dft_re_R N x (Z.of_nat j) * dt) * (dft_re_R N x (Z.of_nat j) * dt) + (dft_im_R N x (Z.of_nat j) * dt) * (dft_im_R N x (Z.of_nat j) * dt) in
  exists k, (k < points N)%nat /\ (forall j, (j < points N)%nat -> P j <= P k) /\ (forall j, (j < k)%nat -> P j < P k) /\
    max_fa_period_R dt x = (if Nat.eqb k 0 then None else Some (IZR N * dt / INR k)).
Proof. exact P_C06.max_fa_period_record. Qed.

(** ** the Q run is an evaluation of the R model: the rational twiddle table equals cos / sin where it is used, and
       the bins compared by the Q checker are images of the real bins *)
Theorem C06_twiddle_table : forall N j : Z, tw_ok N j = true -> Q2R (Qtwc N j) = Rtwc N j /\ Q2R (Qtws N j) = Rtws N j.
Proof. exact P_C06.twiddle_table. Qed.
Theorem C06_q_run_transfer : forall (N k : Z) (xq : list Q) (xr : list R), tw_ok N k = true -> Forall2 rel xq xr ->
  rel (dft_re Qtwc N xq k) (dft_re_R N xr k) /\ rel (dft_im Qtws N xq k) (dft_im_R N xr k).
Proof. exact P_C06.dft_transfer. Qed.

(** non-vacuity: a 3-sample record, default padding: N = 4, two bins at 0 and 1/(4 dt); bin 1 = dt (x0 - x2 - i x1) *)
Example C06_nonvacuous : let x := [1; 2; 4] in let dt := 1 / 2 in
  pow2_len 3 0 = 4%Z /\ points 4 = 2%nat /\ (1 < points (Z.of_nat 4))%nat /\ length x = 3%nat /\
  fa_freqs 4 dt = [0 / (4 * dt); 1 / (4 * dt)] /\
  nth 1 (fas_re_R 4 dt x) 0 = (1 - 4) * dt /\ nth 1 (fas_im_R 4 dt x) 0 = - 2 * dt.
Proof.
  cbv zeta. split; [reflexivity|]. split; [reflexivity|]. split; [cbn; lia|]. split; [reflexivity|]. split; [reflexivity|].
  destruct (C06_definition 4 (1 / 2) [1; 2; 4] 1 ltac:(cbn; lia)) as [H1 H2].
  change (Z.of_nat 4) with 4%Z in H1, H2. rewrite H1, H2. clear H1 H2.
  cbn [rsum nth INR].
  replace (2 * PI * 1 * 0 / (1 + 1 + 1 + 1)) with 0 by field.
  replace (2 * PI * 1 * 1 / (1 + 1 + 1 + 1)) with (PI / 2) by field.
  replace (2 * PI * 1 * (1 + 1) / (1 + 1 + 1 + 1)) with PI by field.
  replace (2 * PI * 1 * (1 + 1 + 1) / (1 + 1 + 1 + 1)) with (3 * (PI / 2)) by field.
  rewrite cos_0, sin_0, cos_PI2, sin_PI2, cos_PI, sin_PI, cos_3PI2, sin_3PI2. split; lra.
Qed.

(** non-vacuity of the even-N theorems: M = 2 (N = 4), dt = 1/2, record [1;2;4]: hypotheses hold and the inverse returns
    sample 0 = 1 - 7/4 - 3/4 *)
Example C06_inverse_nonvacuous : let x := [1; 2; 4] in let dt := 1 / 2 in
  (1 <= 2)%nat /\ dt <> 0 /\ nth 0 (fas2values_re_R (fas_re_R 4 dt x) (fas_im_R 4 dt x) dt) 0 = 1 - 7 / 4 - 3 / 4.
Proof.
  cbv zeta. split; [lia|]. split; [lra|].
  destruct (C06_inverse 2 (1 / 2) [1; 2; 4] ltac:(lia) ltac:(lra)) as (_ & _ & H).
  destruct (H 0%nat ltac:(lia)) as [H0 _]. change (Z.of_nat (2 * 2)) with 4%Z in H0. rewrite H0.
  cbn [rsum nth pow Nat.mul Nat.add INR]. lra.
Qed.

(** *** The model is the source (translator tie).
    gen/Gen_c06.v is re-translated from /repo's eqsig/single.py (Signal.gen_fa_spectrum) and eqsig/fns/frequency.py
    (generate_fa_spectrum, calc_fa_spectrum, fas2values, fas2signal) at the start of every run of this check
    (translator/py2coq_c06.py: Python [ast], symbolic evaluation of exactly the statement shapes that are in the source,
    temporaries substituted, fail-closed).  np.fft.fft / np.fft.ifft are NOT translated: they are parameters of the generated
    definitions, instantiated here by the array-level reading of the defining sums of lib/Dft.v ([model_fft_re] ...: an
    N-point transform returns bins 0 .. N-1, N = the `n=` argument, or the input length without one).
    PROVED, for every [NumOps] instance and twiddle functions (the Q run of the correspondence and the R theorems above
    alike) and for ALL inputs: the translation of each entry point IS the model's triple (real parts, imaginary parts,
    frequencies) -- i.e. the transform-length rule (n / 2 ** int(np.ceil(np.log2(npts)) + p2_plus) / unpadded npts, in every
    combination of the optional arguments, evaluated in Python's order), points = int(N / 2), the fa[range(points)] selection,
    the `* dt` scaling and the grid np.arange(points) / (N * dt) (with N read back as len(fa) in the array-level functions);
    the `assert len(fa) == N` statements hold; the translation of fas2values IS (fas2values_re, fas2values_im) -- np.zeros(2 len),
    a[1:n//2] = fas[1:], a[n//2+1:] = flip(conj(fas[1:])), a /= dt, ifft, [:n] -- and fas2signal wraps the same array;
    the defaults of the signatures are p2_plus=0, n=None, n_pad=True, n=None, p2_plus=None.
    Guards (stated, not totalised away): an explicit n of calc_fa_spectrum is >= 0 (np.fft.fft raises for n < 1); the half
    spectrum handed to fas2values is non-empty (np.fft.ifft raises on an empty array) and its real and imaginary parts are
    equally long (it is one complex array).
    A changed operand, index, sign, literal or test in those statements changes the generated term and breaks one of these
    obligations (or is rejected by the translator), so the theorems of this file are about the code that is in /repo.
    NOT proved (still only decided by the correspondence / the interval goals): that np.fft.fft / np.fft.ifft compute the
    defining sums ([model_fft_*], [model_ifft_*]) -- measured per bin, not trusted --; the translator's reading of each
    whitelisted NumPy / Python call as its list primitive (lib/NpArr.v set_slice / zeros, lib/NpList.v take / vopp, rev, tl,
    firstn, lib/PyVal.v arange; int(a / b) = Z.quot, // = Z.div, np.ceil(np.log2(k)) = Z.log2_up k for an int k >= 1, 2 ** e
    = Z.pow for e >= 0); the object layer (.npts = len(.values), .values, .dt, the _cached_fa flag and the
    fa_spectrum / fa_freqs properties that call gen_fa_spectrum(), AccSignal inheriting the method), max_fa_period, and
    binary64 rounding. *)
From EQ Require Import lib.PyVal lib.NpArr gen.Gen_c06 proofs.P_gen_c06.

Theorem C06_sig_spectrum_is_source : forall (T : Type) (ops : NumOps T) (twc tws : Z -> Z -> T) (p2 : Z) (nopt : option Z)
  (dt : T) (a : list T),
  gen_sig_fa (model_fft_re twc) (model_fft_im tws) p2 nopt dt a = sig_spectrum twc tws p2 nopt dt a.
Proof. exact (@P_gen_c06.gen_sig_fa_eq). Qed.
Theorem C06_generate_spectrum_is_source : forall (T : Type) (ops : NumOps T) (twc tws : Z -> Z -> T) (n_pad : bool)
  (dt : T) (a : list T),
  gen_generate_fa (model_fft_re twc) (model_fft_im tws) n_pad dt a = gen_spectrum twc tws n_pad dt a /\
  gen_generate_fa_asserts (model_fft_re twc) n_pad dt a = true.
Proof. intros. split; [apply P_gen_c06.gen_generate_fa_eq | apply P_gen_c06.gen_generate_fa_asserts_hold]. Qed.
Theorem C06_calc_spectrum_is_source : forall (T : Type) (ops : NumOps T) (twc tws : Z -> Z -> T) (nopt p2opt : option Z)
  (dt : T) (a : list T), match nopt with Some n => (0 <= n)%Z | None => True end ->
  gen_calc_fa (model_fft_re twc) (model_fft_im tws) nopt p2opt dt a = calc_spectrum twc tws nopt p2opt dt a /\
  gen_calc_fa_asserts (model_fft_re twc) nopt p2opt dt a = true.
Proof. intros. split; [now apply P_gen_c06.gen_calc_fa_eq | now apply P_gen_c06.gen_calc_fa_asserts_hold]. Qed.
Theorem C06_fas2values_is_source : forall (T : Type) (ops : NumOps T) (twc tws : Z -> Z -> T) (re im : list T) (dt : T),
  re <> [] -> length im = length re ->
  gen_fas2values (model_ifft_re twc tws) (model_ifft_im twc tws) re im dt
  = (fas2values_re twc tws re im dt, fas2values_im twc tws re im dt).
Proof. exact (@P_gen_c06.gen_fas2values_eq). Qed.
Theorem C06_fas2signal_is_source : forall (T : Type) (ops : NumOps T) (twc tws : Z -> Z -> T) (re im : list T) (dt : T),
  gen_fas2signal (model_ifft_re twc tws) (model_ifft_im twc tws) re im dt
  = gen_fas2values (model_ifft_re twc tws) (model_ifft_im twc tws) re im dt.
Proof. exact (@P_gen_c06.gen_fas2signal_eq). Qed.
Theorem C06_defaults_are_source :
  gen_sig_fa_default_p2_plus = 0%Z /\ gen_sig_fa_default_n = None /\ gen_generate_fa_default_n_pad = true /\
  gen_calc_fa_default_n = None /\ gen_calc_fa_default_p2_plus = None.
Proof. exact P_gen_c06.gen_c06_defaults. Qed.

(** what the source returns, at R, through C06_definition / C06_grid / C06_inverse *)
Theorem C06_source_definition : forall (N : nat) (p2 : Z) (nopt : option Z) dt (a : list R) k,
  sig_nfft (Z.of_nat (length a)) p2 nopt = Z.of_nat N -> (k < points (Z.of_nat N))%nat ->
  let s := gen_sig_fa (model_fft_re Rtwc) (model_fft_im Rtws) p2 nopt dt a in
  nth k (fst (fst s)) 0 = rsum (fun j => nth j a 0 * cos (2 * PI * INR k * INR j / INR N)) N * dt /\
  nth k (snd (fst s)) 0 = - rsum (fun j => nth j a 0 * sin (2 * PI * INR k * INR j / INR N)) N * dt /\
  nth k (snd s) 0 = INR k / (IZR (Z.of_nat N) * dt) /\ length (snd s) = points (Z.of_nat N).
Proof.
  intros N p2 nopt dt a k HN Hk s. subst s. rewrite P_gen_c06.gen_sig_fa_eq.
  unfold sig_spectrum, spectrum, npts_of. rewrite HN. cbn [fst snd].
  destruct (C06_definition N dt a k Hk) as [H1 H2]. destruct (C06_lengths (Z.of_nat N) dt a) as (_ & _ & H3).
  split; [exact H1|]. split; [exact H2|]. split; [now apply C06_grid | exact H3].
Qed.
Theorem C06_source_inverse : forall (M : nat) (dt : R) (a : list R), (1 <= M)%nat -> dt <> 0 ->
  let N := (2 * M)%nat in
  let s := gen_sig_fa (model_fft_re Rtwc) (model_fft_im Rtws) 0 (Some (Z.of_nat N)) dt a in
  let v := gen_fas2values (model_ifft_re Rtwc Rtws) (model_ifft_im Rtwc Rtws) (fst (fst s)) (snd (fst s)) dt in
  length (fst v) = N /\ length (snd v) = N /\ forall n, (n < N)%nat ->
    nth n (fst v) 0 = nth n a 0 - rsum (fun j => nth j a 0) N / INR N - (-1) ^ n * (rsum (fun j => nth j a 0 * (-1) ^ j) N / INR N) /\
    nth n (snd v) 0 = 0.
Proof.
  intros M dt a HM Hdt N s v. subst v s. rewrite P_gen_c06.gen_sig_fa_eq.
  unfold sig_spectrum, spectrum, sig_nfft. cbn [fst snd].
  destruct (C06_lengths (Z.of_nat N) dt a) as (L1 & L2 & _).
  assert (HP : points (Z.of_nat N) = M) by (unfold points, N; rewrite Nat2Z.inj_mul, Z.mul_comm, Z.div_mul by lia; apply Nat2Z.id).
  rewrite P_gen_c06.gen_fas2values_eq.
  - cbn [fst snd]. exact (C06_inverse M dt a HM Hdt).
  - intros E. apply (f_equal (@length R)) in E. unfold fas_re_R in L1. rewrite L1, HP in E. cbn in E. lia.
  - unfold fas_re_R, fas_im_R in L1, L2. now rewrite L1, L2.
Qed.

(** the translated functions return real results on concrete inputs (non-vacuity of the source theorems; Q instance with the
    exact twiddle table, N = 4): the record [1; 2; 4] with dt = 1/2, and the inverse of a two-bin half spectrum *)
Example C06_source_nonvacuous :
  gen_sig_fa (model_fft_re Qtwc) (model_fft_im Qtws) 0 None (1 # 2)%Q [1; 2; 4]%Q
    = ([7 # 2; -3 # 2]%Q, [0; -1]%Q, [0; 1 # 2]%Q) /\
  gen_calc_fa (model_fft_re Qtwc) (model_fft_im Qtws) (Some 4%Z) None (1 # 2)%Q [1; 2; 4]%Q
    = ([7 # 2; -3 # 2]%Q, [0; -1]%Q, [0; 1 # 2]%Q) /\
  gen_fas2values (model_ifft_re Qtwc Qtws) (model_ifft_im Qtwc Qtws) [1; 2]%Q [3; -1]%Q (1 # 2)%Q
    = ([2; 1; -2; -1]%Q, [0; 0; 0; 0]%Q).
Proof. vm_compute. repeat split; reflexivity. Qed.
