(** C08 — Velocity, displacement are cumulative trapezoid integrals; peaks are max abs.
    Statements only; proofs live in proofs/P_C08.v. All over T := R (every float record is a real record). *)
From Coq Require Import Reals List Lia Lra.
From EQ Require Import lib.Num lib.NpList model.M_displacements proofs.P_C08.
Import ListNotations.
Local Open Scope R_scope.

Theorem C08_lengths : forall trap dt (a : list R),
  length (fst (velo_disp trap dt a)) = length a /\ length (snd (velo_disp trap dt a)) = length a.
Proof. exact P_C08.C08_lengths. Qed.

Theorem C08_start_zero : forall trap dt (a : list R), a <> [] ->
  nth 0 (fst (velo_disp trap dt a)) 0 = 0 /\ nth 0 (snd (velo_disp trap dt a)) 0 = 0.
Proof. exact P_C08.C08_start_zero. Qed.

Theorem C08_trap_increment_v : forall dt (a : list R) i, (S i < length a)%nat ->
  nth (S i) (fst (velo_disp true dt a)) 0 - nth i (fst (velo_disp true dt a)) 0 = dt * (nth (S i) a 0 + nth i a 0) / 2.
Proof. exact P_C08.C08_trap_increment_v. Qed.

Theorem C08_trap_increment_d : forall dt (a : list R) i, (S i < length a)%nat ->
  nth (S i) (snd (velo_disp true dt a)) 0 - nth i (snd (velo_disp true dt a)) 0
  = dt * (nth (S i) (fst (velo_disp true dt a)) 0 + nth i (fst (velo_disp true dt a)) 0) / 2.
Proof. exact P_C08.C08_trap_increment_d. Qed.

Theorem C08_rect_increment_v : forall dt (a : list R) i, (S i < length a)%nat ->
  nth (S i) (fst (velo_disp false dt a)) 0 - nth i (fst (velo_disp false dt a)) 0 = dt * nth i a 0.
Proof. exact P_C08.C08_rect_increment_v. Qed.

Theorem C08_rect_increment_d : forall dt (a : list R) i, (S i < length a)%nat ->
  nth (S i) (snd (velo_disp false dt a)) 0 - nth i (snd (velo_disp false dt a)) 0
  = dt * nth (S i) (fst (velo_disp false dt a)) 0.
Proof. exact P_C08.C08_rect_increment_d. Qed.

(** linear in the record, both integration rules *)
Theorem C08_linear : forall trap dt al be (a b : list R), length a = length b ->
  fst (velo_disp trap dt (lin al be a b)) = lin al be (fst (velo_disp trap dt a)) (fst (velo_disp trap dt b)) /\
  snd (velo_disp trap dt (lin al be a b)) = lin al be (snd (velo_disp trap dt a)) (snd (velo_disp trap dt b)).
Proof. exact P_C08.C08_linear. Qed.

(** exact for constant acceleration: v = c t, d = c t^2 / 2 at t = i dt *)
Theorem C08_exact_constant : forall dt c (a : list R), (forall i, (i < length a)%nat -> nth i a 0 = c) ->
  forall i, (i < length a)%nat ->
    nth i (fst (velo_disp true dt a)) 0 = c * (INR i * dt) /\
    nth i (snd (velo_disp true dt a)) 0 = c * (INR i * dt) ^ 2 / 2.
Proof. exact P_C08.C08_exact_constant. Qed.

(** exact velocity for linearly varying acceleration a = c t *)
Theorem C08_exact_linear : forall dt c (a : list R), (forall i, (i < length a)%nat -> nth i a 0 = c * (INR i * dt)) ->
  forall i, (i < length a)%nat -> nth i (fst (velo_disp true dt a)) 0 = c * (INR i * dt) ^ 2 / 2.
Proof. exact P_C08.C08_exact_linear. Qed.

(** PGA/PGV/PGD: calc_peak is the maximum absolute value *)
Theorem C08_peak_upper : forall (m : list R) y, In y m -> Rabs y <= calc_peak m.
Proof. exact P_C08.calc_peak_upper. Qed.
Theorem C08_peak_attained : forall (m : list R), m <> [] -> exists y, In y m /\ Rabs y = calc_peak m.
Proof. exact P_C08.calc_peak_attained. Qed.
Theorem C08_peak_sign_invariant : forall (m : list R), m <> [] -> calc_peak (map Ropp m) = calc_peak m.
Proof. exact P_C08.C08_peak_sign_invariant. Qed.
Theorem C08_peak_scales : forall al (m : list R), m <> [] -> calc_peak (map (Rmult al) m) = Rabs al * calc_peak m.
Proof. exact P_C08.C08_peak_scales. Qed.

(** non-vacuity: a concrete record meets the hypotheses used above *)
Example C08_nonvacuous : let a := [1; -2; 3; 0.5] in
  a <> [] /\ (S 2 < length a)%nat /\ nth 3 (fst (velo_disp true (1/100) a)) 0 = 0.0175.
Proof. cbn. repeat split; [discriminate | lia | numR; lra]. Qed.

(** *** The model is the source (translator tie).
    gen/Gen_quadrature.v is re-translated from /repo's eqsig/displacements.py and eqsig/im.py at the start of every run
    of this check (translator/py2coq_numpy.py: Python [ast], whitelist grammar of NumPy vector expressions, fail-closed).
    PROVED, for every [NumOps] instance (the Q run of the correspondence and the R theorems above alike) and for ALL
    inputs: the translation of calc_velo_and_disp_from_accel_arr -- both branches: `trap is False` (np.zeros(n+1),
    velocity[1:] = a*dt, two in-place cumsums, both series [:-1]) and the two cumulative_trapezoid calls -- IS
    [velo_disp]; the translation of its alias velocity_and_displacement_from_acceleration IS [velo_disp]; the translation
    of calc_peak IS [calc_peak]; the default of the `trap` parameter is True.  A changed source statement changes the
    generated term and breaks one of these four obligations (or is rejected by the translator), so every theorem of
    this file is about the code that is in /repo, not only about a hand model that agrees with it on the sampled cases.
    NOT proved (still only decided by the correspondence): that NumPy/SciPy's cumsum, cumulative_trapezoid, abs, slicing
    and in-place semantics are the list primitives of lib/NpList.v (the translator's reading of each whitelisted call),
    binary64 rounding.  The object layer (AccSignal.velocity/.displacement/.pga/.pgv/.pgd) has its own tie at the end of
    this file (gen/Gen_c08_obj.v); the memo dictionary of the peaks is property C04's subject. *)
From EQ Require Import gen.Gen_quadrature proofs.P_gen_quadrature.

Theorem C08_model_is_source : forall (T : Type) (ops : NumOps T) (trap : bool) (dt : T) (a : list T),
  gen_velo_disp trap dt a = velo_disp trap dt a.
Proof. exact (@P_gen_quadrature.gen_velo_disp_eq). Qed.
Theorem C08_alias_is_source : forall (T : Type) (ops : NumOps T) (trap : bool) (dt : T) (a : list T),
  gen_velo_disp_alias trap dt a = velo_disp trap dt a.
Proof. exact (@P_gen_quadrature.gen_velo_disp_alias_eq). Qed.
Theorem C08_peak_is_source : forall (T : Type) (ops : NumOps T) (m : list T), gen_calc_peak m = calc_peak m.
Proof. exact (@P_gen_quadrature.gen_calc_peak_eq). Qed.
Theorem C08_default_trap_is_source : gen_velo_disp_default_trap = true /\ gen_velo_disp_alias_default_trap = true.
Proof. exact P_gen_quadrature.gen_default_trap. Qed.

(** *** The object layer is the source (translator/py2coq_objlayer.py -> gen/Gen_c08_obj.v, proofs in P_gen_c08_obj).
    Every run re-translates eqsig/single.py: AccSignal.generate_displacement_and_velocity_series, the lazy getters
    velocity / displacement and the getters pga / pgv / pgd by symbolic execution over the record [obj] of the fields they
    touch (values, dt, _velocity, _displacement, _cached_disp_and_velo), inlining properties and methods along the MRO.
    VD = displacements.calc_velo_and_disp_from_accel_arr(acc, dt, trap) and PK = im.calc_peak(motion) are parameters: their
    tie is C08_model_is_source / C08_peak_is_source above.  PROVED for every [NumOps] instance and ALL inputs: the
    integration step hands (values, dt, trap) to VD and stores its pair as (_velocity, _displacement) in this order and sets
    the flag; velocity / displacement integrate (trap=True, the default of the signature) only when the flag is clear and
    return the stored first / second series; pga is PK(values), pgv is PK(velocity), pgd is PK(displacement), each through the
    lazy getter; with the model as VD and PK these are exactly the three numbers of K_C08.model_out.  The memo shape
    `if "<k>" in self._cached_params: return self._cached_params["<k>"] else: x = e; self._cached_params["<k>"] = x;
    return x` is matched syntactically (same key three times; the key is emitted) and only `e` is translated: what the
    dictionary does over time is property C04.  A changed array / argument order / storage order / key / default changes
    the generated text and breaks one of these theorems; renamed temporaries give the same text. *)
From Coq Require Import String.
From Coq Require Import List.   (* after String: [length] is List.length *)
From EQ Require Import lib.PyRes gen.Gen_c08_obj proofs.P_gen_c08_obj.

Theorem C08_object_integration_is_source : forall (T : Type) (ops : NumOps T) (VD : list T -> T -> bool -> list T * list T)
    (trap : bool) (st : @obj T),
  gen_generate_dv VD trap st
  = PyOk (mk_obj (o_values st) (o_dt st) (fst (VD (o_values st) (o_dt st) trap)) (snd (VD (o_values st) (o_dt st) trap)) true).
Proof. intros. apply P_gen_c08_obj.gen_generate_dv_eq. Qed.
Theorem C08_lazy_series_are_source : forall (T : Type) (ops : NumOps T) (VD : list T -> T -> bool -> list T * list T) (st : @obj T),
  let st' := if o_cached_dv st then st
             else mk_obj (o_values st) (o_dt st) (fst (VD (o_values st) (o_dt st) true)) (snd (VD (o_values st) (o_dt st) true)) true in
  gen_velocity VD st = PyOk (st', o_velocity st') /\ gen_displacement VD st = PyOk (st', o_displacement st').
Proof. intros T ops VD st. split; [apply P_gen_c08_obj.gen_velocity_eq | apply P_gen_c08_obj.gen_displacement_eq]. Qed.
Theorem C08_object_peaks_are_source : forall (T : Type) (ops : NumOps T) (VD : list T -> T -> bool -> list T * list T)
    (PK : list T -> T) (st : @obj T),
  let st' := if o_cached_dv st then st
             else mk_obj (o_values st) (o_dt st) (fst (VD (o_values st) (o_dt st) true)) (snd (VD (o_values st) (o_dt st) true)) true in
  gen_pga PK st = PyOk (st, PK (o_values st)) /\
  gen_pgv VD PK st = PyOk (st', PK (o_velocity st')) /\ gen_pgd VD PK st = PyOk (st', PK (o_displacement st')).
Proof.
  intros T ops VD PK st. split; [apply P_gen_c08_obj.gen_pga_eq|].
  split; [apply P_gen_c08_obj.gen_pgv_eq | apply P_gen_c08_obj.gen_pgd_eq].
Qed.
(** with the model of displacements.py / im.calc_peak: the quantities the correspondence of this check compares *)
Theorem C08_object_peaks_are_model : forall (T : Type) (ops : NumOps T) (a v d : list T) (dt : T),
  let fresh := mk_obj a dt v d false in
  let cached := mk_obj a dt v d true in
  res_value (gen_pga calc_peak fresh) = Some (fresh, calc_peak a) /\
  option_map snd (res_value (gen_pgv VDm calc_peak fresh)) = Some (calc_peak (fst (velo_disp true dt a))) /\
  option_map snd (res_value (gen_pgd VDm calc_peak fresh)) = Some (calc_peak (snd (velo_disp true dt a))) /\
  option_map snd (res_value (gen_velocity VDm fresh)) = Some (fst (velo_disp true dt a)) /\
  option_map snd (res_value (gen_displacement VDm fresh)) = Some (snd (velo_disp true dt a)) /\
  option_map snd (res_value (gen_pgv VDm calc_peak cached)) = Some (calc_peak v) /\
  option_map snd (res_value (gen_pgd VDm calc_peak cached)) = Some (calc_peak d) /\
  res_value (gen_generate_dv VDm false fresh) = Some (mk_obj a dt (fst (velo_disp false dt a)) (snd (velo_disp false dt a)) true).
Proof. intros. apply P_gen_c08_obj.peaks_are_model. Qed.
Theorem C08_object_constants_are_source :
  gen_generate_dv_default_trap = true /\ gen_pga_memo_key = "pga"%string /\ gen_pgv_memo_key = "pgv"%string /\
  gen_pgd_memo_key = "pgd"%string.
Proof. exact P_gen_c08_obj.gen_c08_obj_constants. Qed.
