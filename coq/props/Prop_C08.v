(** C08 — Velocity, displacement are cumulative trapezoid integrals; peaks are max abs.
    Statements only; proofs live in proofs/P_C08.v. All over T := R (every float record is a real record). *)
From Coq Require Import Reals List Lia Lra.
From EQ Require Import lib.Num lib.NpList model.M_displacements proofs.P_C08.
Import ListNotations.
Local Open Scope R_scope.

Theorem C08_lengths : forall trap dt (a : list R),
  length (fst (velo_disp trap dt a)) = length a /\ length (snd (velo_disp trap dt a)) = length a.
Proof. exact P_C08.C08_lengths. Qed.

Theorem C08_start_zero : forall trap dt (a : list R), a <> [] ->
  nth 0 (fst (velo_disp trap dt a)) 0 = 0 /\ nth 0 (snd (velo_disp trap dt a)) 0 = 0.
Proof. exact P_C08.C08_start_zero. Qed.

Theorem C08_trap_increment_v : forall dt (a : list R) i, (S i < length a)%nat ->
  nth (S i) (fst (velo_disp true dt a)) 0 - nth i (fst (velo_disp true dt a)) 0 = dt * (nth (S i) a 0 + nth i a 0) / 2.
Proof. exact P_C08.C08_trap_increment_v. Qed.

Theorem C08_trap_increment_d : forall dt (a : list R) i, (S i < length a)%nat ->
  nth (S i) (snd (velo_disp true dt a)) 0 - nth i (snd (velo_disp true dt a)) 0
  = dt * (nth (S i) (fst (velo_disp true dt a)) 0 + nth i (fst (velo_disp true dt a)) 0) / 2.
Proof. exact P_C08.C08_trap_increment_d. Qed.

Theorem C08_rect_increment_v : forall dt (a : list R) i, (S i < length a)%nat ->
  nth (S i) (fst (velo_disp false dt a)) 0 - nth i (fst (velo_disp false dt a)) 0 = dt * nth i a 0.
Proof. exact P_C08.C08_rect_increment_v. Qed.

Theorem C08_rect_increment_d : forall dt (a : list R) i, (S i < length a)%nat ->
  nth (S i) (snd (velo_disp false dt a)) 0 - nth i (snd (velo_disp false dt a)) 0
  = dt * nth (S i) (fst (velo_disp false dt a)) 0.
Proof. exact P_C08.C08_rect_increment_d. Qed.

(** linear in the record, both integration rules *)
Theorem C08_linear : forall trap dt al be (a b : list R), length a = length b ->
  fst (velo_disp trap dt (lin al be a b)) = lin al be (fst (velo_disp trap dt a)) (fst (velo_disp trap dt b)) /\
  snd (velo_disp trap dt (lin al be a b)) = lin al be (snd (velo_disp trap dt a)) (snd (velo_disp trap dt b)).
Proof. exact P_C08.C08_linear. Qed.

(** exact for constant acceleration: v = c t, d = c t^2 / 2 at t = i dt *)
Theorem C08_exact_constant : forall dt c (a : list R), (forall i, (i < length a)%nat -> nth i a 0 = c) ->
  forall i, (i < length a)%nat ->
    nth i (fst (velo_disp true dt a)) 0 = c * (INR i * dt) /\
    nth i (snd (velo_disp true dt a)) 0 = c * (INR i * dt) ^ 2 / 2.
Proof. exact P_C08.C08_exact_constant. Qed.

(** exact velocity for linearly varying acceleration a = c t *)
Theorem C08_exact_linear : forall dt c (a : list R), (forall i, (i < length a)%nat -> nth i a 0 = c * (INR i * dt)) ->
  forall i, (i < length a)%nat -> nth i (fst (velo_disp true dt a)) 0 = c * (INR i * dt) ^ 2 / 2.
Proof. exact P_C08.C08_exact_linear. Qed.

(** PGA/PGV/PGD: calc_peak is the maximum absolute value *)
Theorem C08_peak_upper : forall (m : list R) y, In y m -> Rabs y <= calc_peak m.
Proof. exact P_C08.calc_peak_upper. Qed.
Theorem C08_peak_attained : forall (m : list R), m <> [] -> exists y, In y m /\ Rabs y = calc_peak m.
Proof. exact P_C08.calc_peak_attained. Qed.
Theorem C08_peak_sign_invariant : forall (m : list R), m <> [] -> calc_peak (map Ropp m) = calc_peak m.
Proof. exact P_C08.C08_peak_sign_invariant. Qed.
Theorem C08_peak_scales : forall al (m : list R), m <> [] -> calc_peak (map (Rmult al) m) = Rabs al * calc_peak m.
Proof. exact P_C08.C08_peak_scales. Qed.

(** non-vacuity: a concrete record meets the hypotheses used above *)
Example C08_nonvacuous : let a := [1; -2; 3; 0.5] in
  a <> [] /\ (S 2 < length a)%nat /\ nth 3 (fst (velo_disp true (1/100) a)) 0 = 0.0175.
Proof. cbn. repeat split; [discriminate | lia | numR; lra]. Qed.
