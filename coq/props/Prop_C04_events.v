(** C04 — source-text tie of the caching state machine (statements; proofs in proofs/P_C04_events.v).

    model/M_cache.v gives every public operation of Signal/AccSignal a hand-written program over the validity flags
    and the stored quantities.  translator/py2coq_cache_events.py computes, from the text of eqsig/single.py alone
    (abstract interpretation of each method from every flag state, calls on the same object inlined along the MRO),
    a *summary* per operation and class - gen/Gen_cache_events.v, regenerated on every run:

      per validity flag / memo key: Untouched | Cleared | SetAlways | SetIfWasClear (lazy population under
      `if not self._cached_x`) | SetIfWasClearUnder g (lazy population nested in that of g) | ClearedAfterLazyFill
      (read through the lazy property, then invalidated);  values / _npts / smoothing frequencies / response periods
      rewritten;  cached quantities flowing into the new values;  what the returned value is made of;
      and per class the recipe of every derived quantity (what it is recomputed from).

    [model_summary] (model/K_C04_events.v) reads the same kind of summary off the model by running its step function
    from every flag state at the trivial signature and at a tag-returning probe signature.

    What is proved:
      (a) translated summary = model-derived summary for every operation of the alphabet, for AccSignal (57
          operations x 128 flag states) and for Signal (31 operations x 4 flag states); recipes; neutrality of the
          methods outside the alphabet.  These are COMPLETE FINITE ENUMERATIONS decided by vm_compute (every operation,
          every flag state - nothing is sampled), not inductive proofs; they are statements about the two finite tables.
      (b) for EVERY signature, state and history (unbounded; by the signature-independence of the flags): the flag
          word after an operation is the translated summary applied to the flag word before it.
    What is NOT proved here: that the translator's abstract interpretation is a sound reading of Python (trusted:
    attribute tables, name resolution, "functions of other modules do not write into array arguments"); the
    "holds a freshly computed value" / "computed from" columns are compared at the probe signature only (they are
    not observable at an arbitrary signature, where a recomputation may return the value already stored).
    Not summarised (listed in [excluded]): get_section_average, generate_cumulative_stats, generate_all_motion_stats -
    the object itself is passed to a function of another module. *)
From Coq Require Import List Bool Arith String.
From EQ Require Import model.M_cache model.K_C04 model.M_cache_events gen.Gen_cache_events model.K_C04_events proofs.P_C04 proofs.P_C04_events.
Import ListNotations.

(** (a) the translated flag effects are those of the hand-written model: every operation of the alphabet, every one
    of the 2^7 flag states (finite enumeration) *)
Theorem C04_flag_effects_are_source : forallb op_matches all_ops = true.
Proof. exact P_C04_events.flag_effects_are_source. Qed.

(** per class.  AccSignal: for each of the 57 operations the table has an entry and it is the model's summary *)
Theorem C04_flag_effects_are_source_AccSignal : forall k : kop, In k all_kops ->
  exists s, lookup k acc_summaries = Some s /\
            summary_eqb (model_summary acc_states all_dq k) s = true /\ model_uniform acc_states k = true.
Proof.
  intros k Hk. pose proof P_C04_events.flag_effects_are_source as H. rewrite forallb_forall in H.
  specialize (H k Hk). unfold op_matches in H. destruct (lookup k acc_summaries) as [s|]; [|discriminate H].
  apply andb_prop in H. exists s. tauto.
Qed.
(** Signal (only _cached_fa / _cached_smooth_fa exist; Signal.clear_cache, not the override): for each of the 31
    operations of a plain Signal the translated summary is the model's, restricted to the 4 flag states of a Signal,
    and on those the model touches no other flag or slot *)
Theorem C04_flag_effects_are_source_Signal : forallb op_matches_sig sig_ops = true.
Proof. exact P_C04_events.flag_effects_are_source_sig. Qed.
Theorem C04_event_tables_cover_the_alphabet :
  map fst acc_summaries = all_kops /\ map fst sig_summaries = filter sig_kop all_kops /\
  List.length acc_summaries = 57 /\ List.length sig_summaries = 31.
Proof. repeat split; vm_compute; reflexivity. Qed.

(** what each derived quantity is recomputed from (Fourier spectrum <- values; smoothed spectrum <- the *stored*
    Fourier spectrum and the smoothing frequencies; response spectra <- values, periods; velocity/displacement <-
    values; pga <- values; pgv, pgd <- the *stored* velocity/displacement), identical at every place of the source
    where it is recomputed, equals the model's [f_fa]/[f_sm]/... argument structure (finite enumeration) *)
Theorem C04_recipes_are_source :
  forallb (recipe_matches acc_recipes) all_dq && recipes_uniform acc_states all_ops all_dq
  && forallb (recipe_matches sig_recipes) sig_dq && recipes_uniform sig_states sig_ops sig_dq = true.
Proof. exact P_C04_events.recipes_are_source. Qed.

(** the methods and properties that the model leaves out of its alphabet and that could be summarised (dt, the values
    setter, generate_peak_values, generate_duration_stats) touch no flag, no slot and no source *)
Theorem C04_unmodelled_methods_are_cache_neutral :
  forallb (fun p => neutral (snd p)) acc_unmodelled && forallb (fun p => neutral (snd p)) sig_unmodelled = true.
Proof. exact P_C04_events.unmodelled_neutral. Qed.

(** the hand-written mutator tables of M_cache.v ([via_reset], [uses_dv], [uses_pga]) are what the source says *)
Theorem C04_mutator_tables_are_source : forall m : mutator,
  w_npts (acc_summary (KM m)) = via_reset m /\
  uses (acc_summary (KM m)) = (if uses_dv m then [DV] else []) ++ (if uses_pga m then [Pga] else []) /\
  w_vals (acc_summary (KM m)) = true.
Proof. exact P_C04_events.mutator_tables_are_source. Qed.

(** (b) unbounded: in every signature, from every state, the flag word ([mask]) after any operation is the translated
    summary of that operation applied to the flag word before it ... *)
Theorem C04_flags_follow_source_summaries : forall (S : sig) (o : op S) (s : st S),
  mask (post o s) = apply_summary (acc_summary (erase o)) (mask s).
Proof. exact P_C04_events.flags_follow_summary. Qed.
(** ... along every history ... *)
Theorem C04_flag_trace_follows_source_summaries : forall (S : sig) (h : list (op S)) (s : st S),
  masks h s = summary_trace acc_summary (map (@erase S) h) (mask s).
Proof. exact P_C04_events.trace_follows_summaries. Qed.
(** ... and for a plain Signal (operations of the Signal alphabet, only the two Signal flags set), with the summaries
    translated from the Signal class (its own clear_cache); the other flags stay clear *)
Theorem C04_Signal_flag_trace_follows_source_summaries : forall (S : sig) (h : list (op S)) (s : st S),
  forallb sig_kop (map (@erase S) h) = true -> mask s < 4 ->
  masks h s = summary_trace sig_summary (map (@erase S) h) (mask s).
Proof. exact P_C04_events.trace_follows_summaries_sig. Qed.
Theorem C04_Signal_flags_stay : forall (S : sig) (o : op S) (s : st S),
  sig_kop (erase o) = true -> mask s < 4 -> mask (post o s) < 4.
Proof. exact P_C04_events.sig_flags_stay. Qed.

(** Examples of translated summaries (AccSignal): add_constant goes through reset_values (values and _npts rewritten)
    and AccSignal.clear_cache (all seven cleared); the smooth_fa_freqs setter rewrites the smoothing frequencies and
    clears only the smoothed-spectrum flag; reading pgv fills the memo key lazily and, nested in that, the
    velocity/displacement series; set_zero_residual_velocity() reads velocity and pga before it writes. *)
Example C04_events_examples :
  lookup (KM M_add_constant) acc_summaries
    = Some (mkS Cleared Cleared Cleared Cleared Cleared Cleared Cleared true true false false [] []) /\
  lookup (KS S_smooth_fa_freqs) acc_summaries
    = Some (mkS Untouched Cleared Untouched Untouched Untouched Untouched Untouched false false true false [] []) /\
  lookup (KR R_pgv) acc_summaries
    = Some (mkS Untouched Untouched Untouched (SetIfWasClearUnder Pgv) Untouched SetIfWasClear Untouched false false false false [] [ISlot Pgv]) /\
  lookup (KM M_set_zero_residual_velocity) acc_summaries
    = Some (mkS Cleared Cleared Cleared ClearedAfterLazyFill Cleared Cleared Cleared true true false false [DV; Pga] []) /\
  lookup (KG G_clear_cache) sig_summaries
    = Some (mkS Cleared Cleared Untouched Untouched Untouched Untouched Untouched false false false false [] []).
Proof. repeat split; reflexivity. Qed.
(** Non-vacuity: the summaries are not all alike (5 of the 6 effect forms and both nested forms occur), and the
    summary-driven trace of the history of Prop_C04.C04_nonvacuous is its flag trace 4, 0, 4, 0, 4, 44, 47 *)
Example C04_events_nonvacuous :
  summary_trace acc_summary [KR R_s_a; KT T_response_times; KR R_s_a; KM M_add_constant; KR R_s_a; KR R_pgv; KR R_smooth_fa_spectrum] 0
    = [4; 0; 4; 0; 4; 44; 47] /\
  model_summary acc_states all_dq (KR R_smooth_fa_spectrum)
    = mkS (SetIfWasClearUnder Sm) SetIfWasClear Untouched Untouched Untouched Untouched Untouched false false false false [] [ISlot Sm] /\
  model_summary acc_states all_dq (KM M_rebase_displacement)
    = mkS Cleared Cleared Cleared ClearedAfterLazyFill Cleared Cleared Cleared true false false false [DV] [].
Proof. repeat split; vm_compute; reflexivity. Qed.
