(** C09 — Cumulative intensity measures: definition, monotonicity and scaling laws (statements; proofs in P_C09).
    c = pi/(2*9.81) is a parameter (only c >= 0 is used). All statements are over R. *)
From Coq Require Import Reals List Lia Lra.
From EQ Require Import lib.Num lib.NpList lib.Quad model.M_displacements model.M_im proofs.P_C09.
Import ListNotations.
Local Open Scope R_scope.

Theorem C09_lengths : forall c dt (a : list R),
  length (arias c dt a) = length a /\ length (cav dt a) = length a /\ length (isv dt a) = length a /\
  length (int_abs_vel dt a) = length a /\ length (int_abs_acc dt a) = length a /\ length (unit_ke dt a) = length a.
Proof. exact P_C09.C09_lengths. Qed.
Theorem C09_cavdp_length : forall g thr dt pps nwin (a : list R), length (cav_dp g thr dt pps nwin a) = length a.
Proof. exact P_C09.cavdp_length. Qed.

Theorem C09_monotone : forall c dt (a : list R), 0 <= c -> 0 <= dt ->
  nondecreasing (arias c dt a) /\ nondecreasing (cav dt a) /\ nondecreasing (isv dt a) /\
  nondecreasing (int_abs_vel dt a) /\ nondecreasing (int_abs_acc dt a) /\ nondecreasing (unit_ke dt a).
Proof. exact P_C09.C09_monotone. Qed.

(** final values are the defining quadratures ([trapz] is the independent panel sum, [nsum] a plain sum) *)
Theorem C09_final_value : forall c dt (a : list R), a <> [] ->
  last (arias c dt a) 0 = c * trapz dt (vsq a) /\
  last (cav dt a) 0 = trapz dt (vabs a) /\
  last (isv dt a) 0 = trapz dt (vsq (velo_trap dt a)) /\
  last (int_abs_vel dt a) 0 = nsum (map (fun v => Rabs v * dt) (velo_trap dt a)) /\
  last (int_abs_acc dt a) 0 = nsum (map (fun v => Rabs v * dt) a).
Proof. exact P_C09.C09_final_value. Qed.
Theorem C09_final_unit_ke : forall dt (a : list R), a <> [] ->
  last (unit_ke dt a) 0 =
  nsum (vabs (match kin_energy (velo_trap dt a) with [] => [] | k0 :: _ => ediff1d k0 (kin_energy (velo_trap dt a)) end)).
Proof. exact P_C09.C09_final_unit_ke. Qed.

Theorem C09_sign_invariant : forall c dt (a : list R),
  arias c dt (map Ropp a) = arias c dt a /\ cav dt (map Ropp a) = cav dt a /\ isv dt (map Ropp a) = isv dt a /\
  int_abs_vel dt (map Ropp a) = int_abs_vel dt a /\ int_abs_acc dt (map Ropp a) = int_abs_acc dt a /\
  unit_ke dt (map Ropp a) = unit_ke dt a.
Proof. exact P_C09.C09_sign_invariant. Qed.

Theorem C09_scaling : forall c dt al (a : list R),
  arias c dt (map (Rmult al) a) = map (Rmult (al * al)) (arias c dt a) /\
  cav dt (map (Rmult al) a) = map (Rmult (Rabs al)) (cav dt a) /\
  isv dt (map (Rmult al) a) = map (Rmult (al * al)) (isv dt a) /\
  int_abs_vel dt (map (Rmult al) a) = map (Rmult (Rabs al)) (int_abs_vel dt a) /\
  int_abs_acc dt (map (Rmult al) a) = map (Rmult (Rabs al)) (int_abs_acc dt a).
Proof. exact P_C09.C09_scaling. Qed.
Theorem C09_scaling_unit_ke : forall dt al (a : list R), unit_ke dt (map (Rmult al) a) = map (Rmult (al * al)) (unit_ke dt a).
Proof. exact P_C09.C09_scaling_unit_ke. Qed.

Theorem C09_zero_padding : forall c dt (a : list R) k, a <> [] -> last a 0 = 0 ->
  arias c dt (a ++ repeat 0 k) = arias c dt a ++ repeat (last (arias c dt a) 0) k /\
  cav dt (a ++ repeat 0 k) = cav dt a ++ repeat (last (cav dt a) 0) k /\
  int_abs_acc dt (a ++ repeat 0 k) = int_abs_acc dt a ++ repeat (last (int_abs_acc dt a) 0) k.
Proof. exact P_C09.C09_zero_padding. Qed.

(** Standardised CAV. Proved: the per-window running totals start >= 0, are non-decreasing, and are identically 0 when
    no one-second window reaches the gate.  NOT proved (partial): the upper bound cav_dp <= CAV/9.81 and the statement
    about the interpolated series between window ends; those two are evaluated on the implementation output by the
    correspondence check only. *)
Theorem C09_cavdp_windows_nonneg_partial : forall thr dt pps nwin (ag : list R), 0 <= dt ->
  forall x, In x (cavdp_windows thr dt pps nwin 0 0 ag) -> 0 <= x.
Proof. intros thr dt pps nwin ag Hdt. exact (P_C09.cavdp_windows_ge thr dt pps nwin 0%nat 0 ag Hdt). Qed.
Theorem C09_cavdp_windows_monotone_partial : forall thr dt pps nwin (ag : list R), 0 <= dt ->
  nondecreasing (cavdp_windows thr dt pps nwin 0 0 ag).
Proof. intros; now apply P_C09.cavdp_windows_monotone. Qed.
Theorem C09_cavdp_gate : forall thr dt pps nwin (ag : list R),
  (forall s, amax (vabs (window s (S pps) ag)) < thr) ->
  cavdp_windows thr dt pps nwin 0 0 ag = repeat 0 nwin.
Proof. intros; now apply P_C09.cavdp_windows_gate. Qed.

Example C09_nonvacuous : let a := [0; 3; -4; 0] in
  a <> [] /\ last a 0 = 0 /\ last (cav (1/2) a) 0 = 3.5.
Proof. cbn. repeat split; [discriminate|]. numR. unfold Rabs. repeat destruct (Rcase_abs _); lra. Qed.
