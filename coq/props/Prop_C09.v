(** C09 — Cumulative intensity measures: definition, monotonicity and scaling laws (statements; proofs in P_C09).
    c = pi/(2*9.81) is a parameter (only c >= 0 is used). All statements are over R. *)
From Coq Require Import ZArith QArith Reals List Lia Lra.
From EQ Require Import lib.Num lib.NpList lib.Quad model.M_displacements model.M_im proofs.P_C09 proofs.P_C09_cavdp
  proofs.P_C09_transfer.
Import ListNotations.
Local Open Scope R_scope.

Theorem C09_lengths : forall c dt (a : list R),
  length (arias c dt a) = length a /\ length (cav dt a) = length a /\ length (isv dt a) = length a /\
  length (int_abs_vel dt a) = length a /\ length (int_abs_acc dt a) = length a /\ length (unit_ke dt a) = length a.
Proof. exact P_C09.C09_lengths. Qed.
Theorem C09_cavdp_length : forall g thr dt pps nwin (a : list R), length (cav_dp g thr dt pps nwin a) = length a.
Proof. exact P_C09.cavdp_length. Qed.

Theorem C09_monotone : forall c dt (a : list R), 0 <= c -> 0 <= dt ->
  nondecreasing (arias c dt a) /\ nondecreasing (cav dt a) /\ nondecreasing (isv dt a) /\
  nondecreasing (int_abs_vel dt a) /\ nondecreasing (int_abs_acc dt a) /\ nondecreasing (unit_ke dt a).
Proof. exact P_C09.C09_monotone. Qed.

(** final values are the defining quadratures ([trapz] is the independent panel sum, [nsum] a plain sum) *)
Theorem C09_final_value : forall c dt (a : list R), a <> [] ->
  last (arias c dt a) 0 = c * trapz dt (vsq a) /\
  last (cav dt a) 0 = trapz dt (vabs a) /\
  last (isv dt a) 0 = trapz dt (vsq (velo_trap dt a)) /\
  last (int_abs_vel dt a) 0 = nsum (map (fun v => Rabs v * dt) (velo_trap dt a)) /\
  last (int_abs_acc dt a) 0 = nsum (map (fun v => Rabs v * dt) a).
Proof. exact P_C09.C09_final_value. Qed.
Theorem C09_final_unit_ke : forall dt (a : list R), a <> [] ->
  last (unit_ke dt a) 0 =
  nsum (vabs (match kin_energy (velo_trap dt a) with [] => [] | k0 :: _ => ediff1d k0 (kin_energy (velo_trap dt a)) end)).
Proof. exact P_C09.C09_final_unit_ke. Qed.

Theorem C09_sign_invariant : forall c dt (a : list R),
  arias c dt (map Ropp a) = arias c dt a /\ cav dt (map Ropp a) = cav dt a /\ isv dt (map Ropp a) = isv dt a /\
  int_abs_vel dt (map Ropp a) = int_abs_vel dt a /\ int_abs_acc dt (map Ropp a) = int_abs_acc dt a /\
  unit_ke dt (map Ropp a) = unit_ke dt a.
Proof. exact P_C09.C09_sign_invariant. Qed.

Theorem C09_scaling : forall c dt al (a : list R),
  arias c dt (map (Rmult al) a) = map (Rmult (al * al)) (arias c dt a) /\
  cav dt (map (Rmult al) a) = map (Rmult (Rabs al)) (cav dt a) /\
  isv dt (map (Rmult al) a) = map (Rmult (al * al)) (isv dt a) /\
  int_abs_vel dt (map (Rmult al) a) = map (Rmult (Rabs al)) (int_abs_vel dt a) /\
  int_abs_acc dt (map (Rmult al) a) = map (Rmult (Rabs al)) (int_abs_acc dt a).
Proof. exact P_C09.C09_scaling. Qed.
Theorem C09_scaling_unit_ke : forall dt al (a : list R), unit_ke dt (map (Rmult al) a) = map (Rmult (al * al)) (unit_ke dt a).
Proof. exact P_C09.C09_scaling_unit_ke. Qed.

Theorem C09_zero_padding : forall c dt (a : list R) k, a <> [] -> last a 0 = 0 ->
  arias c dt (a ++ repeat 0 k) = arias c dt a ++ repeat (last (arias c dt a) 0) k /\
  cav dt (a ++ repeat 0 k) = cav dt a ++ repeat (last (cav dt a) 0) k /\
  int_abs_acc dt (a ++ repeat 0 k) = int_abs_acc dt a ++ repeat (last (int_abs_acc dt a) 0) k.
Proof. exact P_C09.C09_zero_padding. Qed.

(** Standardised CAV ([cav_dp g thr dt pps nwin a]; the code has g = 9.81, thr = 0.025, pps = int(1/dt), nwin = int(time[-1])).
    [ws := cavdp_windows thr dt pps nwin 0 0 (map (fun x => x / g) a)] is the list of running totals after each one-second
    window; the returned series is [ws] linearly interpolated from the abscissae 0,1,2,... to the record times i*dt.
    PROVED for all records (theorems below, all unbounded):
      - window totals: non-negative, non-decreasing, zero below the gate (the three original theorems, names kept);
      - series: record length (C09_cavdp_length), non-decreasing everywhere and non-negative for every dt >= 0
        (C09_cavdp_monotone), first element (C09_cavdp_first), value between window ends / at whole seconds / clamped
        after the last node / final value (C09_cavdp_between, _whole_seconds, _clamped, _final) for every dt with
        dt * pps = 1, pps >= 1;
      - gate clause for the whole series (C09_cavdp_gate_series), with the hypothesis only on the nwin windows used;
      - windows clause (C09_cavdp_windows, C09_cavdp_final_windows, C09_cavdp_last_panel);
      - upper bound: at every window end, for every element and for the final value (C09_cavdp_window_end_bound,
        C09_cavdp_bounds, C09_cavdp_final_bounds), for g > 0, pps >= 1, nwin * pps < length a; that guard holds for the
        code's own nwin = floor(time[-1]) (C09_cavdp_nwin_in_range);
      - Q -> R transfer of the whole function (C09_cavdp_transfer).
    REFUTED (false of the model and of calc_cav_dp, witness checked against eqsig): "the series starts at 0" and
    "cav_dp[i] <= CAV[i]/g at every sample i" (C09_cavdp_starts_at_zero_refuted, C09_cavdp_pointwise_bound_refuted):
    the running total of window k is placed at t = k, one second before that window ends.
    NOT proved: nothing about binary64 rounding (exact arithmetic, as everywhere in C09); the number of points
    np.arange yields per window (taken as pps; observed by the harness, not modelled). *)
Theorem C09_cavdp_windows_nonneg_partial : forall thr dt pps nwin (ag : list R), 0 <= dt ->
  forall x, In x (cavdp_windows thr dt pps nwin 0 0 ag) -> 0 <= x.
Proof. intros thr dt pps nwin ag Hdt. exact (P_C09.cavdp_windows_ge thr dt pps nwin 0%nat 0 ag Hdt). Qed.
Theorem C09_cavdp_windows_monotone_partial : forall thr dt pps nwin (ag : list R), 0 <= dt ->
  nondecreasing (cavdp_windows thr dt pps nwin 0 0 ag).
Proof. intros; now apply P_C09.cavdp_windows_monotone. Qed.
Theorem C09_cavdp_gate : forall thr dt pps nwin (ag : list R),
  (forall s, amax (vabs (window s (S pps) ag)) < thr) ->
  cavdp_windows thr dt pps nwin 0 0 ag = repeat 0 nwin.
Proof. intros; now apply P_C09.cavdp_windows_gate. Qed.

(** *** the interpolated series *)
Theorem C09_cavdp_monotone : forall g thr dt pps nwin (a : list R), 0 <= dt ->
  nondecreasing (cav_dp g thr dt pps nwin a) /\ (forall x, In x (cav_dp g thr dt pps nwin a) -> 0 <= x).
Proof. intros g thr dt pps nwin a Hdt. split; [now apply P_C09_cavdp.cavdp_monotone | now apply P_C09_cavdp.cavdp_nonneg]. Qed.
(** the first element is the total of the first window (it is not 0 in general, see the refutation below) *)
Theorem C09_cavdp_first : forall g thr dt pps nwin (a : list R), a <> [] ->
  nth 0 (cav_dp g thr dt pps nwin a) 0 = nth 0 (cavdp_windows thr dt pps nwin 0 0 (map (fun x => x / g) a)) 0.
Proof. exact P_C09_cavdp.cavdp_first. Qed.
(** sample k*pps + r, 0 <= r < pps, between the window ends k and k+1: linear in r *)
Theorem C09_cavdp_between : forall g thr dt pps nwin (a : list R), (1 <= pps)%nat -> dt * IZR (Z.of_nat pps) = 1 ->
  forall k r, (S k < nwin)%nat -> (r < pps)%nat -> (k * pps + r < length a)%nat ->
  let ws := cavdp_windows thr dt pps nwin 0 0 (map (fun x => x / g) a) in
  nth (k * pps + r) (cav_dp g thr dt pps nwin a) 0 = nth k ws 0 + (nth (S k) ws 0 - nth k ws 0) * (IZR (Z.of_nat r) * dt).
Proof. exact P_C09_cavdp.cavdp_between. Qed.
Theorem C09_cavdp_whole_seconds : forall g thr dt pps nwin (a : list R), (1 <= pps)%nat -> dt * IZR (Z.of_nat pps) = 1 ->
  forall k, (k < nwin)%nat -> (k * pps < length a)%nat ->
  nth (k * pps) (cav_dp g thr dt pps nwin a) 0 = nth k (cavdp_windows thr dt pps nwin 0 0 (map (fun x => x / g) a)) 0.
Proof. exact P_C09_cavdp.cavdp_whole_seconds. Qed.
Theorem C09_cavdp_clamped : forall g thr dt pps nwin (a : list R), (1 <= pps)%nat -> dt * IZR (Z.of_nat pps) = 1 ->
  forall k r, (nwin <= S k)%nat -> (r < pps)%nat -> (k * pps + r < length a)%nat ->
  nth (k * pps + r) (cav_dp g thr dt pps nwin a) 0 = last (cavdp_windows thr dt pps nwin 0 0 (map (fun x => x / g) a)) 0.
Proof. exact P_C09_cavdp.cavdp_clamped. Qed.
Theorem C09_cavdp_final : forall g thr dt pps nwin (a : list R), (1 <= pps)%nat -> dt * IZR (Z.of_nat pps) = 1 ->
  a <> [] -> ((nwin - 1) * pps <= length a - 1)%nat ->
  last (cav_dp g thr dt pps nwin a) 0 = last (cavdp_windows thr dt pps nwin 0 0 (map (fun x => x / g) a)) 0.
Proof. exact P_C09_cavdp.cavdp_final. Qed.
Theorem C09_cavdp_starts_at_zero_refuted :
  exists (g thr dt : R) (pps nwin : nat) (a : list R),
    0 < g /\ (1 <= pps)%nat /\ dt * IZR (Z.of_nat pps) = 1 /\ (nwin * pps < length a)%nat /\
    nth 0 (cav_dp g thr dt pps nwin a) 0 <> 0.
Proof. exact P_C09_cavdp.cavdp_starts_at_zero_refuted. Qed.

(** *** gate: no window used by the loop reaches thr => the whole returned series is 0 *)
Theorem C09_cavdp_gate_series : forall g thr dt pps nwin (a : list R),
  (forall j, (j < nwin)%nat -> amax (vabs (window (j * pps) (S pps) (map (fun x => x / g) a))) < thr) ->
  cav_dp g thr dt pps nwin a = repeat 0 (length a).
Proof. exact P_C09_cavdp.cavdp_gate_series. Qed.

(** *** windows: running total k = sum over windows j <= k of (0 below the gate | the pps-point trapezoid of |a|/g) *)
Theorem C09_cavdp_windows : forall thr dt pps nwin (ag : list R) k, (k < nwin)%nat ->
  nth k (cavdp_windows thr dt pps nwin 0 0 ag) 0
  = nsum (map (fun j => if Rltb (amax (vabs (window (j * pps) (S pps) ag)) - thr) 0 then 0
                        else trapz dt (firstn pps (vabs (window (j * pps) (S pps) ag)))) (seq 0 (S k))).
Proof. exact P_C09_cavdp.cavdp_windows_sum. Qed.
Theorem C09_cavdp_final_windows : forall g thr dt pps nwin (a : list R), (1 <= pps)%nat -> dt * IZR (Z.of_nat pps) = 1 ->
  a <> [] -> ((nwin - 1) * pps <= length a - 1)%nat ->
  let ag := map (fun x => x / g) a in
  last (cav_dp g thr dt pps nwin a) 0
  = nsum (map (fun j => if Rltb (amax (vabs (window (j * pps) (S pps) ag)) - thr) 0 then 0
                        else trapz dt (firstn pps (vabs (window (j * pps) (S pps) ag)))) (seq 0 nwin)).
Proof. exact P_C09_cavdp.cavdp_final_sum. Qed.
(** the pps-point trapezoid is the full one-second trapezoid of the window minus exactly its last panel *)
Theorem C09_cavdp_last_panel : forall dt pps (ag : list R) s, (1 <= pps)%nat -> (s + pps < length ag)%nat ->
  trapz dt (vabs (window s (S pps) ag))
  = trapz dt (firstn pps (vabs (window s (S pps) ag))) + dt * (Rabs (nth (s + pps) ag 0) + Rabs (nth (s + pps - 1) ag 0)) / 2.
Proof. exact P_C09_cavdp.cavdp_last_panel. Qed.

(** *** upper bound by CAV / g *)
Theorem C09_cavdp_window_end_bound : forall g thr dt pps nwin (a : list R) k, 0 <= dt -> 0 < g -> (1 <= pps)%nat ->
  (k < nwin)%nat -> (S k * pps < length a)%nat ->
  nth k (cavdp_windows thr dt pps nwin 0 0 (map (fun x => x / g) a)) 0 <= nth (S k * pps) (cav dt a) 0 / g.
Proof. exact P_C09_cavdp.cavdp_windows_le_cav. Qed.
Theorem C09_cavdp_bounds : forall g thr dt pps nwin (a : list R), 0 <= dt -> 0 < g -> (1 <= pps)%nat ->
  (nwin * pps < length a)%nat ->
  forall x, In x (cav_dp g thr dt pps nwin a) -> 0 <= x <= last (cav dt a) 0 / g.
Proof. exact P_C09_cavdp.cavdp_le_cav. Qed.
Theorem C09_cavdp_final_bounds : forall g thr dt pps nwin (a : list R), 0 <= dt -> 0 < g -> (1 <= pps)%nat ->
  (nwin * pps < length a)%nat ->
  0 <= last (cav_dp g thr dt pps nwin a) 0 <= last (cav dt a) 0 / g.
Proof. exact P_C09_cavdp.cavdp_final_le_cav. Qed.
(** the guard [nwin * pps < length a] is what the code's own nwin = int(time[-1]) satisfies *)
Theorem C09_cavdp_nwin_in_range : forall (dt : R) pps n, (1 <= pps)%nat -> dt * IZR (Z.of_nat pps) = 1 -> (1 <= n)%nat ->
  let nwin := Z.to_nat (nfloor (last (times dt n) 0)) in
  nwin = ((n - 1) / pps)%nat /\ (nwin * pps < n)%nat.
Proof. exact P_C09_cavdp.cavdp_nwin_in_range. Qed.
(** the bound does NOT hold sample by sample in time *)
Theorem C09_cavdp_pointwise_bound_refuted :
  exists (g thr dt : R) (pps nwin : nat) (a : list R) (i : nat),
    0 < g /\ (1 <= pps)%nat /\ dt * IZR (Z.of_nat pps) = 1 /\ (nwin * pps < length a)%nat /\ (i < length a)%nat /\
    nth i (cav dt a) 0 / g < nth i (cav_dp g thr dt pps nwin a) 0.
Proof. exact P_C09_cavdp.cavdp_pointwise_bound_refuted. Qed.

(** *** the Q run compared with the implementation is the R model on the rational inputs *)
Theorem C09_cavdp_transfer : forall (g thr dt : Q) (g' thr' dt' : R) pps nwin (a : list Q) (a' : list R),
  rel g g' -> rel thr thr' -> rel dt dt' -> Forall2 rel a a' ->
  Forall2 rel (cav_dp g thr dt pps nwin a) (cav_dp g' thr' dt' pps nwin a').
Proof. intros g thr dt g' thr' dt'. exact (P_C09_transfer.cav_dp_transfer g g' thr thr' dt dt'). Qed.

(** the guards of the cav_dp theorems are met by a gate-passing record (eqsig returns 0.5 here as well) *)
Example C09_cavdp_nonvacuous : let a := [9.81; 9.81; 9.81; 9.81; 9.81] in
  a <> [] /\ (1 <= 2)%nat /\ (1/2) * IZR (Z.of_nat 2) = 1 /\ (2 * 2 < length a)%nat /\
  nth 0 (cav_dp 9.81 0.025 (1/2) 2 2 a) 0 = 1/2.
Proof. cbv zeta. repeat split; [discriminate|lia|cbn; lra|cbn; lia|exact P_C09_cavdp.cavdp_witness_first]. Qed.

Example C09_nonvacuous : let a := [0; 3; -4; 0] in
  a <> [] /\ last a 0 = 0 /\ last (cav (1/2) a) 0 = 3.5.
Proof. cbn. repeat split; [discriminate|]. numR. unfold Rabs. repeat destruct (Rcase_abs _); lra. Qed.

(** *** The models are the source (translator tie).
    gen/Gen_quadrature.v is re-translated from /repo's eqsig/im.py (and eqsig/displacements.py) at the start of every run
    of this check (translator/py2coq_numpy.py: Python [ast], whitelist grammar of NumPy vector expressions, fail-closed).
    PROVED, for every [NumOps] instance (the Q run of the correspondence and the R theorems above alike) and for ALL
    inputs: the translations of calc_arias_intensity (through _raw_calc_arias_intensity, inlined), calc_cav, calc_isv,
    calc_integral_of_abs_velocity, calc_cumulative_abs_displacement, calc_integral_of_abs_acceleration ARE [arias]
    (with c = np.pi / (2 * 9.81), np.pi an input; at R it is PI / (2 * 9.81)), [cav], [isv], [int_abs_vel] (twice) and
    [int_abs_acc]; the translation of calc_unit_kinetic_energy IS [unit_ke] on every non-empty record (on the empty one
    `kin_energy[0]` raises IndexError; the guard cannot be dropped: C09_unit_ke_empty_differs).
    The functions that read the object's `.velocity` are translated with that series as an input [v]; the statements
    instantiate it with the trap=True branch of the generated velocity function, which is what AccSignal.velocity calls.
    NOT proved (still only decided by the correspondence): that NumPy/SciPy's cumsum, cumulative_trapezoid, diff, insert,
    abs are the list primitives of lib/NpList.v (the translator's reading of each whitelisted call), binary64 rounding,
    the object layer (AccSignal.velocity caching).  calc_cav_dp (a loop over windows) has its own translator: see the last
    section of this file. *)
From EQ Require Import gen.Gen_quadrature proofs.P_gen_quadrature.

Theorem C09_arias_is_source : forall (T : Type) (ops : NumOps T) (pi dt : T) (a : list T),
  gen_arias pi dt a = arias (ndiv pi (nmul (nofZ 2) (ndiv (nofZ 981) (nofZ 100)))) dt a.
Proof. exact (@P_gen_quadrature.gen_arias_eq). Qed.
Theorem C09_arias_is_source_R : forall (dt : R) (a : list R), gen_arias PI dt a = arias (PI / (2 * 9.81)) dt a.
Proof. exact P_gen_quadrature.gen_arias_R. Qed.
Theorem C09_cav_is_source : forall (T : Type) (ops : NumOps T) (dt : T) (a : list T), gen_cav dt a = cav dt a.
Proof. exact (@P_gen_quadrature.gen_cav_eq). Qed.
Theorem C09_isv_is_source : forall (T : Type) (ops : NumOps T) (dt : T) (a : list T),
  gen_isv dt (fst (gen_velo_disp true dt a)) = isv dt a.
Proof. exact (@P_gen_quadrature.gen_isv_eq). Qed.
Theorem C09_int_abs_vel_is_source : forall (T : Type) (ops : NumOps T) (dt : T) (a : list T),
  gen_int_abs_vel dt (fst (gen_velo_disp true dt a)) = int_abs_vel dt a /\
  gen_cum_abs_disp dt (fst (gen_velo_disp true dt a)) = int_abs_vel dt a.
Proof. intros T ops dt a. split; [exact (P_gen_quadrature.gen_int_abs_vel_eq dt a) | exact (P_gen_quadrature.gen_cum_abs_disp_eq dt a)]. Qed.
Theorem C09_int_abs_acc_is_source : forall (T : Type) (ops : NumOps T) (dt : T) (a : list T),
  gen_int_abs_acc dt a = int_abs_acc dt a.
Proof. exact (@P_gen_quadrature.gen_int_abs_acc_eq). Qed.
Theorem C09_unit_ke_is_source : forall (T : Type) (ops : NumOps T) (dt : T) (a : list T), a <> [] ->
  gen_unit_ke (fst (gen_velo_disp true dt a)) = unit_ke dt a.
Proof. exact (@P_gen_quadrature.gen_unit_ke_eq). Qed.
Theorem C09_unit_ke_empty_differs : forall (T : Type) (ops : NumOps T) (dt : T),
  gen_unit_ke (fst (gen_velo_disp true dt [])) <> unit_ke dt [].
Proof. exact (@P_gen_quadrature.gen_unit_ke_empty_differs). Qed.

(** *** The standardised-CAV model is the source (translator tie for calc_cav_dp).
    gen/Gen_cavdp.v is re-translated from /repo's eqsig/im.py: calc_cav_dp at the start of every run of this check
    (translator/py2coq_cavdp.py: Python [ast], fail-closed; the loop body becomes [gen_cav_dp_step] over the carried names
    (start, pga_max, cav_dp, cav_dp_1_series), iterated int(time[-1]) times; every statement that can raise is a [res_bind]).
    PROVED at R, for every record [a] and every dt with an integer number pps of samples per second (dt * pps = 1, the guard of
    C09_cavdp_between .. C09_cavdp_final), with the source's own g = 9.81, gate 0.025, pps = int(1 / dt), number of windows
    nwin = int(time[-1]) and time = arange(npts) * dt: if the record holds at least one whole second, NO statement of the
    source raises and the returned series IS [cav_dp 9.81 0.025 dt pps nwin a] -- so every C09_cavdp_* theorem above holds
    of the translated source.  A non-empty record shorter than one second makes the source raise ValueError (np.interp on
    an empty xp), an empty record IndexError (time[-1]); both confirmed on eqsig.  The model's [interp_grid] is np.interp on
    the integer grid (C09_interp_grid_is_np_interp).
    NOT proved (trusted readings, lib/NpLoop.v, validated by the correspondence): that np.arange(lo, hi, step),
    v[np.where(mask)], scipy trapezoid(y, x), np.interp, the builtin max and the append loops are the list functions they
    are read as; binary64 rounding (in floating point np.arange(start*dt, start*dt + 1, dt) can hold pps + 1 points; the
    harness counts those cases as fragile); ZeroDivisionError / OverflowError of int(1 / dt) for dt = 0. *)
From EQ Require Import lib.PyRes lib.NpLoop gen.Gen_cavdp proofs.P_gen_cavdp.

Theorem C09_cavdp_is_source : forall (dt : R) (pps : nat) (a : list R), (1 <= pps)%nat -> dt * IZR (Z.of_nat pps) = 1 ->
  let nwin := Z.to_nat (nfloor (last (times dt (length a)) 0)) in (1 <= nwin)%nat ->
  gen_cav_dp dt (times dt (length a)) a = PyOk (cav_dp 9.81 0.025 dt pps nwin a).
Proof. exact P_gen_cavdp.gen_cav_dp_eq_literals. Qed.
Theorem C09_cavdp_source_short_record_raises : forall (dt : R) (pps : nat) (a : list R), (1 <= pps)%nat -> dt * IZR (Z.of_nat pps) = 1 ->
  a <> [] -> Z.to_nat (nfloor (last (times dt (length a)) 0)) = 0%nat ->
  gen_cav_dp dt (times dt (length a)) a = PyRaise ValueError.
Proof. exact P_gen_cavdp.gen_cav_dp_short. Qed.
Theorem C09_cavdp_source_empty_record_raises : forall dt : R, gen_cav_dp dt [] [] = PyRaise IndexError.
Proof. exact P_gen_cavdp.gen_cav_dp_empty. Qed.
(** one pass of the source loop is one step of the model's window recursion (the running total that is appended) *)
Theorem C09_cavdp_step_is_source : forall (dt : R) (pps : nat), (1 <= pps)%nat -> dt * IZR (Z.of_nat pps) = 1 ->
  forall (ag : list R) (s : nat) (pm acc : R) (ser : list R), (s + pps < length ag)%nat ->
  exists pm', gen_cav_dp_step dt (Z.of_nat pps) ag (Z.of_nat s, pm, acc, ser)
            = PyOk (Z.of_nat (s + pps), pm', hd 0 (cavdp_windows (1 / 40) dt pps 1 s acc ag),
                    ser ++ cavdp_windows (1 / 40) dt pps 1 s acc ag).
Proof. exact P_gen_cavdp.gen_step_eq. Qed.
Theorem C09_interp_grid_is_np_interp : forall (ws : list R) (t : R), ws <> [] ->
  np_interp (np_arange1 (Z.of_nat (length ws))) ws t = interp_grid ws t.
Proof. exact P_gen_cavdp.np_interp_arange. Qed.
(** the source tie is not vacuous: the guards are met by the gate-passing record of C09_cavdp_nonvacuous *)
Example C09_cavdp_source_nonvacuous : let a := [9.81; 9.81; 9.81; 9.81; 9.81] in
  (1 <= 2)%nat /\ (1/2) * IZR (Z.of_nat 2) = 1 /\ Z.to_nat (nfloor (last (times (1/2) (length a)) 0)) = 2%nat /\
  gen_cav_dp (1/2) (times (1/2) (length a)) a = PyOk (cav_dp 9.81 0.025 (1/2) 2 2 a).
Proof. exact P_gen_cavdp.gen_cav_dp_example. Qed.
