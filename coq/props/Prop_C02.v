(** C02 — Response operator is linear, causal, shift- and refinement-invariant (statements; proofs in P_C02, P_C03).
    The first four clauses hold for ARBITRARY coefficient matrices [c] (they do not depend on what compute_a_and_b
    returns); refinement invariance is for the generated Nigam-Jennings coefficients [nj_coeffs]. Over R. *)
From Coq Require Import Reals List Lia Lra Permutation.
From EQ Require Import lib.Num lib.NpList model.M_sdof gen.Gen_sdof_coeffs model.M_sdof_R model.M_spectra
  proofs.P_C08 proofs.P_C01 proofs.P_C02 proofs.P_C03.
Import ListNotations.
Local Open Scope R_scope.

(** linear: response(al*a + be*b) = al*response(a) + be*response(b), for u, v and the third series ([lin] = element-wise) *)
Theorem C02_linear : forall (c : coeffs R) xi w al be (a b : list R), length a = length b ->
  fst (fst (row c xi w (lin al be a b))) = lin al be (fst (fst (row c xi w a))) (fst (fst (row c xi w b))) /\
  snd (fst (row c xi w (lin al be a b))) = lin al be (snd (fst (row c xi w a))) (snd (fst (row c xi w b))) /\
  snd (row c xi w (lin al be a b)) = lin al be (snd (row c xi w a)) (snd (row c xi w b)).
Proof. exact P_C02.row_linear. Qed.

(** hence spectra scale by |al| and ignore the sign of the record *)
Theorem C02_spectra_scale : forall (c : coeffs R) al (a : list R), a <> [] ->
  absmax (map fst (nj_series c (map (Rmult al) a))) = Rabs al * absmax (map fst (nj_series c a)) /\
  absmax (map snd (nj_series c (map (Rmult al) a))) = Rabs al * absmax (map snd (nj_series c a)).
Proof. exact P_C03.spectra_scale. Qed.

(** causal: samples after index k do not affect the response up to k *)
Theorem C02_causal : forall (c : coeffs R) k (a a' : list R), firstn k a = firstn k a' ->
  firstn k (nj_series c a) = firstn k (nj_series c a').
Proof. exact P_C02.series_causal. Qed.

(** time shift: prepending k zeros to a record that starts at zero delays the response by exactly k samples *)
Theorem C02_shift : forall (c : coeffs R) k (a : list R), hd 0 a = 0 ->
  nj_series c (repeat 0 k ++ a) = repeat (0, 0) k ++ nj_series c a.
Proof. exact P_C02.series_shift. Qed.

(** each period's rows depend on that period only: the response over a period list is the list of single-period
    responses, so it commutes with concatenation (batching) and permutation (ordering) of the list *)
Theorem C02_rows_independent : forall c2pi xi dt (ps rec : list R), hd 1 ps <> 0 ->
  response_R c2pi xi dt ps rec = map (osc_row c2pi xi dt rec) ps.
Proof. exact P_C02.response_rows. Qed.
Theorem C02_rows_independent_leading_zero : forall c2pi xi dt (ps rec : list R),
  response_R c2pi xi dt (0 :: ps) rec = zero_row rec :: map (osc_row c2pi xi dt rec) ps.
Proof. exact P_C02.response_rows_leading_zero. Qed.
Theorem C02_batching : forall c2pi xi dt (ps1 ps2 rec : list R), hd 1 (ps1 ++ ps2) <> 0 -> hd 1 ps1 <> 0 -> hd 1 ps2 <> 0 ->
  response_R c2pi xi dt (ps1 ++ ps2) rec = response_R c2pi xi dt ps1 rec ++ response_R c2pi xi dt ps2 rec.
Proof. intros. rewrite !P_C02.response_rows by assumption. apply map_app. Qed.
Theorem C02_ordering : forall c2pi xi dt (ps ps' rec : list R), hd 1 ps <> 0 -> hd 1 ps' <> 0 -> Permutation ps ps' ->
  Permutation (response_R c2pi xi dt ps rec) (response_R c2pi xi dt ps' rec).
Proof. intros. rewrite !P_C02.response_rows by assumption. now apply Permutation_map. Qed.

(** refinement: inserting m-1 linearly interpolated samples between neighbours and dividing the step by m leaves the
    response at the original instants unchanged (any integer m >= 1) *)
Theorem C02_refinement : forall xi w, 0 < w -> 0 <= xi -> xi < 1 -> forall dt (m : nat) (rec : list R), 0 < dt -> (1 <= m)%nat ->
  forall i, (i < length rec)%nat ->
    nth (m * i) (nj_series (nj_coeffs xi w (dt / INR m)) (refine m rec)) (0, 0)
    = nth i (nj_series (nj_coeffs xi w dt) rec) (0, 0).
Proof. exact P_C02.refinement. Qed.
(** ... for ANY finer record that interpolates the original on its span (e.g. with trailing clamped samples) *)
Theorem C02_refinement_general : forall xi w, 0 < w -> 0 <= xi -> xi < 1 -> forall dt (m : nat) (rec F : list R),
  0 < dt -> (1 <= m)%nat -> interpolates m rec F ->
  forall i, (i < length rec)%nat ->
    nth (m * i) (nj_series (nj_coeffs xi w (dt / INR m)) F) (0, 0) = nth i (nj_series (nj_coeffs xi w dt) rec) (0, 0).
Proof. exact P_C02.refinement_gen. Qed.
Theorem C02_refine_interpolates : forall m (rec : list R), (1 <= m)%nat -> interpolates m rec (refine m rec).
Proof. exact P_C02.refine_interpolates. Qed.
(** so peak displacement and velocity never decrease under such refinement *)
Theorem C02_refine_spectra_ge : forall xi w dt, 0 < w -> 0 <= xi -> xi < 1 -> 0 < dt -> forall (m : nat) (rec F : list R),
  (1 <= m)%nat -> interpolates m rec F ->
  absmax (map fst (nj_series (nj_coeffs xi w dt) rec)) <= absmax (map fst (nj_series (nj_coeffs xi w (dt / INR m)) F)) /\
  absmax (map snd (nj_series (nj_coeffs xi w dt) rec)) <= absmax (map snd (nj_series (nj_coeffs xi w (dt / INR m)) F)).
Proof. exact P_C03.refine_sd_ge. Qed.

Example C02_nonvacuous : interpolates 2 [0; 2; -4] (refine 2 [0; 2; -4]) /\ refine 2 [0; 2; -4] = [0 + (2 - 0) * 0 / 2; 0 + (2 - 0) * 1 / 2; 2 + (-4 - 2) * 0 / 2; 2 + (-4 - 2) * 1 / 2; -4]
  /\ hd 0 [0; 2; -4] = 0.
Proof. split; [apply P_C02.refine_interpolates; lia|]. split; [|reflexivity]. cbn. reflexivity. Qed.
