(** C20 — Interpolation, averaging, step-fit and design-spectrum helpers match definitions (statements; proofs in
    P_C20 and P_C20_design).  Helpers: model/M_helpers.v at T := R.  Design spectra: the definitions regenerated from
    eqsig/design_spectra.py on every run (gen/Gen_design_spectra.v); [None] = the call raises. *)
From Coq Require Import String.
From Coq Require Import Reals List Lia Lra.   (* after String: [length] is List.length *)
From EQ Require Import lib.Num lib.NpList model.M_helpers gen.Gen_design_spectra proofs.P_C20 proofs.P_C20_design.
Import ListNotations.
Local Open Scope R_scope.

(** ** interp2d: column-wise linear interpolation with end clamping.
    Nodes strictly increasing and at least [eps] (the code's 1e-10) apart; [f] is the list of table rows.
    The three cases cover every query when xf is non-empty. *)
Theorem C20_interp2d_is_linear_clamped : forall eps (xf : list R) (f : list (list R)), 0 < eps ->
  (forall i, (S i < length xf)%nat -> nth i xf 0 + eps <= nth (S i) xf 0) ->
  (* inside or on a node: between rows k and k+1 with weight s *)
  (forall x k, (S k < length xf)%nat -> nth k xf 0 <= x < nth (S k) xf 0 ->
     interp2d_row eps xf f x =
     let s := (x - nth k xf 0) / (nth (S k) xf 0 - nth k xf 0) in lin_row (1 - s) s (nth k f []) (nth (S k) f [])) /\
  (* below the first node: first row *)
  (forall x, xf <> [] -> x < nth 0 xf 0 -> interp2d_row eps xf f x = nth 0 f []) /\
  (* at or above the last node: last row *)
  (forall x, xf <> [] -> nth (length xf - 1) xf 0 <= x -> interp2d_row eps xf f x = nth (length xf - 1) f []).
Proof.
  intros eps xf f He Hg. repeat split.
  - intros x k. now apply P_C20.interp2d_inside.
  - intros x. now apply P_C20.interp2d_below.
  - intros x. now apply P_C20.interp2d_above.
Qed.
Theorem C20_interp2d_at_nodes : forall eps (xf : list R) (f : list (list R)) k, 0 < eps ->
  (forall i, (S i < length xf)%nat -> nth i xf 0 + eps <= nth (S i) xf 0) ->
  (forall i j, length (nth i f []) = length (nth j f [])) -> (k < length xf)%nat ->
  interp2d_row eps xf f (nth k xf 0) = nth k f [].
Proof. intros; now apply P_C20.interp2d_at_node. Qed.
Theorem C20_interp2d_rows : forall eps (x xf : list R) f, interp2d eps x xf f = map (interp2d_row eps xf f) x.
Proof. reflexivity. Qed.

(** ** interp_left: the value at the greatest node not exceeding the query; queries below the first node are rejected *)
Theorem C20_interp_left : forall (x0 x y : list R), x <> [] -> nondecr x -> (forall q, In q x0 -> nth 0 x 0 <= q) ->
  interp_left x0 x y = Some (map (fun q => nth (left_index x q) y 0) x0) /\
  (forall q, In q x0 -> greatest_node x q (left_index x q)).
Proof.
  intros x0 x y Hne Hs Hq. split; [now apply P_C20.interp_left_accepts|].
  intros q Hin. apply P_C20.left_index_greatest; auto.
Qed.
Theorem C20_greatest_node_unique : forall (x : list R) q i i', greatest_node x q i -> greatest_node x q i' -> i = i'.
Proof. exact P_C20.greatest_node_unique. Qed.
Theorem C20_interp_left_rejects : forall (x0 x y : list R) q, In q x0 -> q < nth 0 x 0 -> interp_left x0 x y = None.
Proof. exact P_C20.interp_left_rejects. Qed.
Theorem C20_interp_left_default_y : forall n i, (i < n)%nat -> nth i (@arange R _ n) 0 = INR i.
Proof. exact P_C20.arange_nth. Qed.

(** ** rolling average: mean over the forward / backward / centred window of the edge-replicated series *)
Theorem C20_roll_av_length : forall steps m (v : list R), (1 <= steps)%nat -> length (roll_av steps m v) = length v.
Proof. exact P_C20.roll_av_length. Qed.
Theorem C20_roll_av_spec : forall steps m (v : list R) i, (1 <= steps)%nat -> (i < length v)%nat ->
  nth i (roll_av steps m v) 0 = nsum (firstn steps (skipn i (roll_ext steps m v))) / INR steps.
Proof. intros. rewrite <- P_C20.ofnat_INR. now apply P_C20.roll_av_nth. Qed.
(** the edge-replicated series: entry k is the input at index clamp(k - offset), offset 0 / steps-1 / steps div 2 *)
Theorem C20_roll_av_window : forall steps m (v : list R) k, v <> [] -> (1 <= steps)%nat -> (k < length v + steps - 1)%nat ->
  nth k (roll_ext steps m v) 0 = nth (Nat.min (k - roll_offset steps m) (length v - 1)) v 0.
Proof. exact P_C20.roll_ext_nth. Qed.
Theorem C20_roll_av_constant : forall steps m c n, (1 <= steps)%nat -> (1 <= n)%nat -> roll_av steps m (repeat c n) = repeat c n.
Proof. exact P_C20.roll_av_const. Qed.

(** ** step-function error: for every power p (nat) and every series (any signs), the coded tril/triu construction with
    its padded-zero correction equals the definition: summed |deviation|^p of both sides from their own means *)
Theorem C20_step_err_is_definition : forall p (v : list R), step_err p DNone v = map (step_err_spec p v) (seq 0 (length v)).
Proof. exact P_C20.step_err_is_spec. Qed.
Theorem C20_step_err_length : forall p d (v : list R), length (step_err p d v) = length v.
Proof. exact P_C20.step_err_length. Qed.
(** dir = 'down' / 'up': splits whose left mean (samples 0..i) is below / above the right mean (samples i..) get 10 x max error *)
Theorem C20_step_err_dir : forall p d (v : list R) i, (i < length v)%nat ->
  nth i (step_err p d v) 0 =
  let e := step_err p DNone v in
  let worse := match d with
               | DNone => false
               | DDown => Rltb (mean (firstn (S i) v)) (mean (skipn i v))
               | DUp => Rltb (mean (skipn i v)) (mean (firstn (S i) v))
               end in
  if worse then amax e * 10 else nth i e 0.
Proof. exact P_C20.step_err_dir_nth. Qed.

(** ** step levels: means of the samples before and after the split sample; the default split is the first minimiser
    of the p = 1 definition error *)
Theorem C20_step_levels : forall (v : list R) ind, step_levels v ind = (mean (firstn ind v), mean (skipn (S ind) v)).
Proof. reflexivity. Qed.
Theorem C20_step_levels_default_split : forall (v : list R), v <> [] ->
  step_levels_auto v = step_levels v (argmin (step_err 1 DNone v)) /\
  is_argmin (map (step_err_spec 1 v) (seq 0 (length v))) (argmin (step_err 1 DNone v)).
Proof.
  intros v Hv. split; [reflexivity|]. rewrite <- P_C20.step_err_is_spec. apply P_C20.argmin_spec.
  intros E. apply (f_equal (@length R)) in E. rewrite P_C20.step_err_length in E. destruct v; [congruence|discriminate].
Qed.
(** np.argmin is the first index of a minimal element (used by interp2d and the default split) *)
Theorem C20_argmin : forall (l : list R), l <> [] -> is_argmin l (argmin l).
Proof. exact P_C20.argmin_spec. Qed.

(** ** NZS 1170.5 functions (generated definitions) *)
Theorem C20_sd_eq_ch : forall T c z r n, site_ok c -> 0 <= T ->
  exists ch sd, c_h_factor T c = Some ch /\ sd_nzs T c z r n = Some sd /\ sd = ch * T ^ 2 * z * n * r.
Proof. exact P_C20_design.sd_eq_ch. Qed.
Theorem C20_negative_period_rejected : forall T c z r n, T < 0 -> c_h_factor T c = None /\ sd_nzs T c z r n = None.
Proof. exact P_C20_design.negative_period_rejected. Qed.
Theorem C20_unknown_site_rejected : forall T d c z r n, ~ site_ok c ->
  c_h_factor T c = None /\ sd_nzs T c z r n = None /\ t_eff d c z r n = None.
Proof. exact P_C20_design.unknown_site_rejected. Qed.
Theorem C20_ch_defined_positive : forall T c, site_ok c -> 0 <= T -> exists ch, c_h_factor T c = Some ch /\ 0 < ch.
Proof. exact P_C20_design.accepted. Qed.
(** continuous to table precision across the segment boundaries: within 1e-5 of every boundary (T = 0 included) the
    shape factor differs from its boundary value by at most 1/200 (1/80 for class D at 0.56, where the table's
    2.4 (0.75/T)^0.75 meets the plateau 3.0 at 2.988).  Away from the boundaries each segment is a continuous formula. *)
Theorem C20_ch_jumps :
  (jump_bounded "C"%string 0 (1/200) /\ jump_bounded "C"%string (1/10) (1/200) /\ jump_bounded "C"%string (3/10) (1/200) /\
   jump_bounded "C"%string (3/2) (1/200) /\ jump_bounded "C"%string 3 (1/200)) /\
  (jump_bounded "D"%string 0 (1/200) /\ jump_bounded "D"%string (1/10) (1/200) /\ jump_bounded "D"%string (14/25) (1/80) /\
   jump_bounded "D"%string (3/2) (1/200) /\ jump_bounded "D"%string 3 (1/200)) /\
  (jump_bounded "E"%string 0 (1/200) /\ jump_bounded "E"%string (1/10) (1/200) /\ jump_bounded "E"%string 1 (1/200) /\
   jump_bounded "E"%string (3/2) (1/200) /\ jump_bounded "E"%string 3 (1/200)).
Proof. exact (conj P_C20_design.jumps_C (conj P_C20_design.jumps_D P_C20_design.jumps_E)). Qed.
(** the effective period inverts the corner-period displacement relation: with d_c = S_d(3 s) g / (2 pi)^2,
    t_eff(lam d_c) = 3 lam for every lam <= 1 (so t_eff(d_c) = 3 s), and displacements beyond d_c are rejected *)
Theorem C20_teff_inverts : forall c z r n lam dc, site_ok c -> 0 < z * r * n -> lam <= 1 ->
  corner_disp c z r n = Some dc -> 0 < dc /\ t_eff (lam * dc) c z r n = Some (3 * lam).
Proof. exact P_C20_design.teff_inverts. Qed.
Theorem C20_teff_rejects : forall c z r n d dc, site_ok c -> corner_disp c z r n = Some dc -> dc < d -> t_eff d c z r n = None.
Proof. exact P_C20_design.teff_rejects. Qed.

(** ** the hypotheses are satisfiable by non-trivial inputs *)
Example C20_nonvacuous :
  (let xf := [0; 1; 3] in (forall i, (S i < length xf)%nat -> nth i xf 0 + 1/2 <= nth (S i) xf 0) /\
     ((S 1 < length xf)%nat /\ nth 1 xf 0 <= 2 < nth 2 xf 0)) /\
  (nondecr [0; 1; 1; 4] /\ greatest_node [0; 1; 1; 4] 2 2) /\
  roll_av 2 Forward [1; 3; 7] = [2; 5; 7] /\
  step_err_spec 1 [-1; -3; 5; 7] 1 = 4 /\
  site_ok "D"%string /\ (exists dc, corner_disp "D"%string (3/10) 1 1 = Some dc).
Proof.
  repeat split.
  - intros i Hi. destruct i as [ | [ | i ] ]; cbn in *; try lia; lra.
  - cbn; lia.
  - cbn; lra.
  - cbn; lra.
  - unfold nondecr. intros i j Hij. cbn in Hij. destruct i as [ | [ | [ | [ | i ] ] ] ], j as [ | [ | [ | [ | j ] ] ] ]; cbn; try lia; lra.
  - cbn. lia.
  - cbn. lra.
  - intros j Hj. cbn in Hj. assert (j = 3)%nat as -> by lia. cbn. lra.
  - cbn. numR. f_equal; [|f_equal; [|f_equal]]; unfold ofnat; cbn; lra.
  - cbn. unfold dev, mean, ofnat. cbn. numR. unfold nsum. cbn. numR. unfold Rabs. repeat (destruct (Rcase_abs _); try lra).
  - right; left; reflexivity.
  - unfold corner_disp. cbv delta [sd_nzs] beta. P_C20_design.str_eval. P_C20_design.dec_b. eexists; reflexivity.
Qed.

(** ** Source-text tie for the helpers (the design-spectrum functions above have their own: Gen_design_spectra).
    gen/Gen_helpers.v is RE-GENERATED on every run from eqsig/fns/average.py (calc_roll_av_vals, calc_step_fn_vals_error,
    calc_step_fn_steps_vals) and eqsig/fns/generic.py (interp_left) by the fail-closed translator
    translator/py2coq_helpers.py: one Gallina definition per function, every source assignment one [let], over the numpy
    readings of lib/NpList.v and lib/NpHelpers.v (np.tril / np.triu of a broadcast 1-d array, np.arange, np.sum(axis=1), the
    column broadcast [m[:, np.newaxis]], np.where, np.concatenate, np.cumsum, the in-place slice assignments, np.argmin,
    np.searchsorted(side='right'), x ** int).  The theorems below say that the models the theorems above are about ARE what
    the source text says, for ALL inputs: a changed operand / index / sign / literal / comparison in those functions changes
    the generated term and these proofs stop checking.  Python ints are Z and are instantiated by [Z.of_nat] (steps >= 1,
    pow >= 0, ind >= 0: the domain of the property); [mode] / [dir] are the Python strings ([dir] = None or a str).
    What is PROVED: equality of the generated definition and the model, for every [NumOps] instance where no arithmetic law
    is needed (step error, step levels: so also for the Q instance the correspondence executes), at R where one is
    (roll_av: [b * np.ones(k)] is k copies of b; interp_left: [min(x0) >= x[0]] iff no query is below x[0]).
    The guards [v <> []] / [xs <> []] / [qs <> []] are where Python raises IndexError / ValueError ([values[-1]], [err[-1]],
    [x[0]], [min([])]); [hd n0] / [last _ n0] are read totally there.
    What is NOT proved here and stays with the trusted reading / the correspondence of the run: (interp2d has its own tie
    at the end of this file: gen/Gen_interp2d.v);
    the numpy semantics of each primitive as written in lib/NpHelpers.v (in particular np.searchsorted as a leading-prefix
    count, valid on sorted nodes); agreement of the shapes of element-wise operands in general (map2 truncates where
    numpy would raise; for the two slice assignments and the operations on slices the agreement IS proved:
    C20_source_shapes_agree; the remaining element-wise operands are maps over the same index range); an index beyond len(y) in [y[inds]] (nth's default, IndexError in numpy); the float
    dtype of np.ones_like(values) (integer input truncates: recorded known finding); binary64 rounding. *)
From EQ Require Import lib.NpHelpers gen.Gen_helpers proofs.P_gen_helpers.

Theorem C20_roll_av_is_source : forall (steps : nat) (v : list R), (1 <= steps)%nat ->
  gen_roll_av v (Z.of_nat steps) "forward" = roll_av steps Forward v /\
  gen_roll_av v (Z.of_nat steps) "backward" = roll_av steps Backward v /\
  (forall mode, mode <> "forward"%string -> mode <> "backward"%string -> gen_roll_av v (Z.of_nat steps) mode = roll_av steps Centre v).
Proof. exact P_gen_helpers.gen_roll_av_cases. Qed.
(** the same for every number type in which [b * 1 = b] *)
Theorem C20_roll_av_is_source_generic : forall (T : Type) (ops : NumOps T), (forall b : T, nmul b n1 = b) ->
  forall (steps : nat) (mode : string) (v : list T), (1 <= steps)%nat ->
  gen_roll_av v (Z.of_nat steps) mode = roll_av steps (P_gen_helpers.rmode_of mode) v.
Proof. exact (@P_gen_helpers.gen_roll_av_eq_of). Qed.
Theorem C20_step_err_is_source : forall (T : Type) (ops : NumOps T) (p : nat) (v : list T), v <> [] ->
  gen_step_err v (Z.of_nat p) (Some "down"%string) = step_err p DDown v /\
  gen_step_err v (Z.of_nat p) (Some "up"%string) = step_err p DUp v /\
  (forall dir, dir <> Some "down"%string -> dir <> Some "up"%string -> gen_step_err v (Z.of_nat p) dir = step_err p DNone v).
Proof. exact (@P_gen_helpers.gen_step_err_cases). Qed.
(** given split, and the default split [np.argmin(calc_step_fn_vals_error(values))] (pow = 1, dir = None filled in from the signature) *)
Theorem C20_step_levels_is_source : forall (T : Type) (ops : NumOps T) (v : list T),
  (forall ind : nat, gen_step_levels v (Some (Z.of_nat ind)) = step_levels v ind) /\
  (v <> [] -> gen_step_levels v None = step_levels_auto v).
Proof. exact P_gen_helpers.gen_step_levels_eq. Qed.
(** [None] on both sides = the call raises AssertionError; y = None is np.arange(len(x)) *)
Theorem C20_interp_left_is_source : forall (qs xs : list R) (ys : option (list R)), xs <> [] -> qs <> [] ->
  gen_interp_left qs xs ys = interp_left qs xs (match ys with None => arange (length xs) | Some y => y end).
Proof. exact P_gen_helpers.gen_interp_left_eq. Qed.
(** a number as x0 ([not hasattr(x0, '__len__')]): the one-query call, first element returned *)
Theorem C20_interp_left_scalar_is_source : forall (q : R) (xs : list R) (ys : option (list R)), xs <> [] ->
  gen_interp_left_scalar q xs ys = option_map (hd 0) (interp_left [q] xs (match ys with None => arange (length xs) | Some y => y end)).
Proof. exact P_gen_helpers.gen_interp_left_scalar_eq. Qed.
(** once the assertion has passed, [np.searchsorted(..) - 1] is never -1 (no wrap-around in [y[inds]]) *)
Theorem C20_interp_left_indices_nonneg : forall (qs xs : list R), xs <> [] -> nleb (hd 0 xs) (amin qs) = true -> qs <> [] ->
  Forall (fun k => (0 <= k)%Z) (map (fun k => Z.sub k 1%Z) (map (fun x => Z.of_nat (searchsorted_right xs x)) qs)).
Proof. exact P_gen_helpers.gen_interp_left_indices_nonneg. Qed.
Theorem C20_helper_defaults_are_source :
  P_gen_helpers.rmode_of gen_roll_av_default_mode = Forward /\ gen_step_err_default_pow = 1%Z /\
  P_gen_helpers.sdir_of gen_step_err_default_dir = DNone /\ gen_step_levels_default_ind = None /\
  gen_interp_left_default_y_is_none = true.
Proof. exact P_gen_helpers.gen_helper_defaults. Qed.
(** the shapes numpy requires to agree in the two slice assignments and the two element-wise operations on slices do agree
    (f, g stand for the err_pre / err_post entries; the reading itself does not check shapes) *)
Theorem C20_source_shapes_agree : forall (steps : nat) (m : rmode) (f g : nat -> R) (v : list R), (1 <= steps)%nat ->
  length (cumsum (roll_ext steps m v)) = (length (repeat 0 (Z.to_nat (Z.of_nat (length v) + Z.of_nat steps))) - 1)%nat /\
  (forall c : list R, length (skipn steps c) = length (firstn (length c - steps) c)) /\
  (length (skipn 1 (map g (seq 0 (length v)))) = (length v - 1)%nat /\
   length (firstn (length (map f (seq 0 (length v))) - 1) (map f (seq 0 (length v)))) = (length v - 1)%nat /\
   (length (map (fun _ : R => 1) v) - 1 = length v - 1)%nat).
Proof. exact P_gen_helpers.gen_shapes_agree. Qed.

(** ** Source-text tie for interp2d (translator/py2coq_interp2d.py -> gen/Gen_interp2d.v, proofs in P_gen_interp2d).
    gen/Gen_interp2d.v is RE-GENERATED on every run from eqsig/fns/generic.py: interp2d (same grammar as the helpers, plus
    the readings of lib/NpInterp.v: the column broadcast [x[:, np.newaxis] - xf], np.argmin(axis=1), np.where on index
    arrays, np.clip with one bound, row selection [f[ind]], [s[:, np.newaxis] * rows]).  The theorems say that the model
    [interp2d] the theorems at the top of this file are about IS what the source text says, for ALL inputs, with eps the
    literal 1e-10 of the source read as the decimal 1/10^10: the nearest node [argmin |x - xf|], the bracketing test
    [xf[ind] > x] and both selections [ind - 1, ind] / [ind, ind + 1], the clips at [0] and [len(xf) - 1], which rows and
    nodes are taken, [denom = a1 - a0], its clip at the literal, the weight guard [denom > 0] with value 1 otherwise,
    [s1 = 1 - s0] and the combination [s1 * f0 + s0 * f1].  A changed operand / index / literal / comparison / clip bound
    changes the generated term and these proofs stop checking; a renamed temporary gives the same text.
    NOT proved here (trusted reading / correspondence): the numpy semantics of each primitive as written in
    lib/NpInterp.v and lib/NpHelpers.v, shapes that do not agree (map2 truncates where numpy raises), an empty xf
    (np.argmin raises ValueError; the model's argmin is 0), an index beyond len(f) (nth's default), binary64 rounding (the
    float 1e-10 is not exactly 1/10^10; the correspondence runs the model at the float's exact value). *)
From EQ Require Import lib.NpInterp gen.Gen_interp2d proofs.P_gen_interp2d.

Theorem C20_interp2d_is_source : forall (x xf : list R) (f : list (list R)),
  gen_interp2d x xf f = interp2d (1 / 10000000000) x xf f.
Proof. exact P_gen_interp2d.gen_interp2d_eq_R. Qed.
(** the literal is positive, so C20_interp2d_is_linear_clamped / C20_interp2d_at_nodes apply to the translated source *)
Theorem C20_interp2d_source_eps_positive : 0 < 1 / 10000000000.
Proof. exact P_gen_interp2d.src_eps_pos. Qed.
(** the same for every number type in which the int literals 0 and 1, coerced to floats, are n0 and n1 (no arithmetic
    law is used), in particular for the Q instance the correspondence executes *)
Theorem C20_interp2d_is_source_generic : forall (T : Type) (ops : NumOps T), nofZ 0 = n0 -> nofZ 1 = n1 ->
  forall (x xf : list T) (f : list (list T)), gen_interp2d x xf f = interp2d (ndiv n1 (nofZ 10000000000)) x xf f.
Proof. exact (@P_gen_interp2d.gen_interp2d_eq). Qed.
Theorem C20_interp2d_is_source_Q : forall (x xf : list QArith_base.Q) (f : list (list QArith_base.Q)),
  gen_interp2d x xf f = interp2d (QArith_base.Qmake 1 10000000000) x xf f.
Proof. exact P_gen_interp2d.gen_interp2d_eq_Q. Qed.
(** the index arrays the source subscripts with are never negative (no wrap-around in xf[ind], f[ind0], f[ind1]) *)
Theorem C20_interp2d_indices_nonneg : forall (m : list (list R)) (c : list bool) (k : list Z) (n : nat), (1 <= n)%nat ->
  Forall (fun i => (0 <= i)%Z) (np_argmin_rows m) /\
  Forall (fun i => (0 <= i)%Z) (np_clip_lo_z 0 k) /\
  Forall (fun i => (0 <= i)%Z)
    (np_clip_hi_z (Z.sub (Z.of_nat n) 1) (np_where c (np_argmin_rows m) (map (fun i => Z.add i 1) (np_argmin_rows m)))).
Proof. exact (@P_gen_interp2d.gen_interp2d_indices_nonneg R _). Qed.
