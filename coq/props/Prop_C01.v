(** C01 — SDOF response series is the exact solution of the oscillator equation (statements; proofs in P_C01).
    [nj_coeffs] is the text of eqsig/sdof.py:compute_a_and_b, regenerated on every run (gen/Gen_sdof_coeffs.v);
    [nj_series], [row], [response_with], [zero_row] are the hand model of nigam_and_jennings_response (model/M_sdof.v).
    Everything is over R: exact arithmetic; the rounding clause of the property is measured, not proved. *)
From Coq Require Import Reals List Lia Lra.
From Coquelicot Require Import Coquelicot.
From EQ Require Import lib.Num lib.NpList model.M_sdof gen.Gen_sdof_coeffs model.M_sdof_R proofs.P_C01 proofs.P_C01_glue.
Import ListNotations.
Local Open Scope R_scope.

(** one application of the code's A, B matrices to a state and the loads (-g0, -g1) IS the closed-form solution of
    u'' + 2 xi w u' + w^2 u = g0 + (g1-g0) t/dt after time dt (this fixes the library's sign convention) *)
Theorem C01_one_step : forall xi w dt, 0 < w -> 0 <= xi -> xi < 1 -> 0 < dt -> forall (s : R * R) g0 g1,
  nj_step (nj_coeffs xi w dt) s (- g0) (- g1)
  = (usol xi w (fst s) (snd s) g0 ((g1 - g0) / dt) dt, vsol xi w (fst s) (snd s) g0 ((g1 - g0) / dt) dt).
Proof. intros xi w dt Hw H0 H1 Hdt. exact (P_C01.one_step xi w dt Hw H0 H1 Hdt). Qed.

(** the closed form does solve the equation with that linear load, from the given initial state *)
Theorem C01_closed_form_solves_ode : forall xi w, 0 < w -> 0 <= xi -> xi < 1 -> forall u0 v0 g0 s,
  usol xi w u0 v0 g0 s 0 = u0 /\ vsol xi w u0 v0 g0 s 0 = v0 /\
  forall t, is_derive (usol xi w u0 v0 g0 s) t (vsol xi w u0 v0 g0 s t) /\
            is_derive (vsol xi w u0 v0 g0 s) t (g0 + s * t - 2 * xi * w * vsol xi w u0 v0 g0 s t - w ^ 2 * usol xi w u0 v0 g0 s t).
Proof.
  intros xi w Hw H0 H1 u0 v0 g0 s. split; [now apply usol_0|]. split; [now apply vsol_0|].
  intros t; split; [now apply usol_deriv | now apply vsol_deriv].
Qed.

(** uniqueness: every solution on a step coincides with the closed form started from its own state *)
Theorem C01_unique : forall xi w, 0 < w -> 0 <= xi -> xi < 1 -> forall t0 d g0 s (u v : R -> R), 0 <= d ->
  (forall t, t0 <= t <= t0 + d -> is_derive u t (v t)) ->
  (forall t, t0 <= t <= t0 + d -> is_derive v t (g0 + s * (t - t0) - 2 * xi * w * v t - w ^ 2 * u t)) ->
  forall r, 0 <= r <= d -> u (t0 + r) = usol xi w (u t0) (v t0) g0 s r /\ v (t0 + r) = vsol xi w (u t0) (v t0) g0 s r.
Proof. exact P_C01.forced_unique. Qed.

(** MAIN: for every record, every exact zero-initial-condition solution (u, u') of the oscillator equation driven by the
    linear interpolation of the record ([solves]: on each closed step [i dt, (i+1) dt] u' = v and
    v' = load - 2 xi w v - w^2 u, with u 0 = v 0 = 0) is reproduced by the series at EVERY sample instant *)
Theorem C01_series_exact : forall xi w dt, 0 < w -> 0 <= xi -> xi < 1 -> 0 < dt ->
  forall (rec : list R) (u v : R -> R), solves xi w dt rec u v ->
  forall i, (i < length rec)%nat ->
    nth i (nj_series (nj_coeffs xi w dt) rec) (0, 0) = (u (INR i * dt), v (INR i * dt)).
Proof. exact P_C01.series_exact. Qed.

(** the third returned series is -(2 xi w v + w^2 u), sample by sample; all three have the record's length *)
Theorem C01_third_series : forall (c : coeffs R) xi w (rec : list R) i, (i < length rec)%nat ->
  nth i (snd (row c xi w rec)) 0
  = - (2 * xi * w * nth i (snd (fst (row c xi w rec))) 0 + w ^ 2 * nth i (fst (fst (row c xi w rec))) 0).
Proof. exact P_C01.row_third. Qed.
Theorem C01_lengths : forall (c : coeffs R) xi w (rec : list R),
  length (fst (fst (row c xi w rec))) = length rec /\ length (snd (fst (row c xi w rec))) = length rec
  /\ length (snd (row c xi w rec)) = length rec.
Proof. exact P_C01.row_lengths. Qed.

(** a leading period of exactly 0: row 0 is (zeros, zeros, sign-flipped record), the remaining rows are the oscillators
    of the remaining periods; without a leading zero every period gets its oscillator row *)
Theorem C01_zero_period_row : forall (cfs : list (coeffs R)) c2pi xi ps (rec : list R),
  response_with cfs c2pi xi (0 :: ps) rec = zero_row rec :: map2 (fun c P => row c xi (w_of c2pi P) rec) cfs ps
  /\ forall i, (i < length rec)%nat ->
       nth i (fst (fst (zero_row rec))) 0 = 0 /\ nth i (snd (fst (zero_row rec))) 0 = 0 /\ nth i (snd (zero_row rec)) 0 = - nth i rec 0.
Proof. intros. split; [apply P_C01.leading_zero_response | apply P_C01.zero_row_spec]. Qed.
Theorem C01_rows_without_leading_zero : forall (cfs : list (coeffs R)) c2pi xi ps (rec : list R), hd 1 ps <> 0 ->
  response_with cfs c2pi xi ps rec = map2 (fun c P => row c xi (w_of c2pi P) rec) cfs ps.
Proof. exact P_C01.no_leading_zero_response. Qed.

(** EXISTENCE (by gluing): for every record (any length, also the empty one) there IS an exact solution in the sense of
    [solves]. The witness is explicit: [glued_u]/[glued_v] use, at time t, the closed form of the step that contains t
    ([idx]: the smallest j with t <= (j+1) dt, capped at the last step), started from the model's own state at the left
    sample. It is differentiable at EVERY real t, two-sided, also at the sample instants (state and load are continuous
    there, so the left and right derivatives agree: P_C01_glue.glue_derive), with the piecewise-linear record load
    [pwload] (the first/last segment extended linearly outside [0, (n-1) dt]). *)
Theorem C01_glued_solution_global : forall xi w dt, 0 < w -> 0 <= xi -> xi < 1 -> 0 < dt -> forall (rec : list R) t,
  is_derive (glued_u xi w dt rec) t (glued_v xi w dt rec t) /\
  is_derive (glued_v xi w dt rec) t
    (pwload rec dt t - 2 * xi * w * glued_v xi w dt rec t - w ^ 2 * glued_u xi w dt rec t).
Proof. exact P_C01_glue.glued_deriv. Qed.
(** [pwload] is continuous and is segment i of the record on the closed step i *)
Theorem C01_pwload_spec : forall dt, 0 < dt -> forall (rec : list R),
  (forall t, continuous (pwload rec dt) t) /\
  (forall i t, (S i < length rec)%nat -> INR i * dt <= t <= INR (S i) * dt -> pwload rec dt t = load rec dt i t).
Proof. intros dt Hdt rec. split; [apply P_C01_glue.pwload_cont | apply P_C01_glue.pwload_on_step]; exact Hdt. Qed.

Theorem C01_solution_exists : forall xi w dt, 0 < w -> 0 <= xi -> xi < 1 -> 0 < dt -> forall (rec : list R),
  exists u v : R -> R, solves xi w dt rec u v.
Proof. exact P_C01_glue.solution_exists. Qed.

(** ... and it is unique on [0, (n-1) dt] (every solution is the per-step closed form started from the model's state) *)
Theorem C01_solution_unique : forall xi w dt, 0 < w -> 0 <= xi -> xi < 1 -> 0 < dt -> forall (rec : list R) (u1 v1 u2 v2 : R -> R),
  solves xi w dt rec u1 v1 -> solves xi w dt rec u2 v2 ->
  forall t, 0 <= t <= INR (length rec - 1) * dt -> u1 t = u2 t /\ v1 t = v2 t.
Proof. exact P_C01_glue.solution_unique. Qed.

(** COROLLARY (the property as stated, with no hypothesis left on the solution): the exact solution exists and the
    series is its sampling at every sample instant *)
Theorem C01_series_is_the_solution : forall xi w dt, 0 < w -> 0 <= xi -> xi < 1 -> 0 < dt -> forall (rec : list R),
  exists u v : R -> R, solves xi w dt rec u v /\
    forall i, (i < length rec)%nat ->
      nth i (nj_series (nj_coeffs xi w dt) rec) (0, 0) = (u (INR i * dt), v (INR i * dt)).
Proof. exact P_C01_glue.series_is_the_solution. Qed.

(** non-vacuity on a closed-form family, for every length n: the ramp record a_i = c i dt is solved by the globally
    smooth closed form, and C01_series_exact pins every sample of the series to it.
    (Existence of (u, v) for an ARBITRARY record, formerly listed here as not proved, is C01_solution_exists above.
    Still NOT proved: anything about floating-point rounding — all of this is exact real arithmetic.) *)
Example C01_nonvacuous_ramp : forall xi w dt, 0 < w -> 0 <= xi -> xi < 1 -> 0 < dt -> forall cr n i, (i < n)%nat ->
  solves xi w dt (map (fun i => cr * (INR i * dt)) (seq 0 n)) (usol xi w 0 0 0 cr) (vsol xi w 0 0 0 cr) /\
  nth i (nj_series (nj_coeffs xi w dt) (map (fun i => cr * (INR i * dt)) (seq 0 n))) (0, 0)
  = (usol xi w 0 0 0 cr (INR i * dt), vsol xi w 0 0 0 cr (INR i * dt)).
Proof.
  intros xi w dt Hw H0 H1 Hdt cr n i Hi. split; [now apply ramp_solves|].
  apply (P_C01.series_exact xi w dt Hw H0 H1 Hdt); [now apply ramp_solves|]. now rewrite map_length, seq_length.
Qed.

(** * The tie of the recurrence to the SOURCE TEXT (proofs in P_C01_loop)
    [gen_load], [gen_record_sign], [gen_c2pi], [gen_w], [gen_init_u/v], [gen_step_u/v], [gen_resp_acc],
    [gen_resp_acc_lead0], [gen_zero_row_acc] are the scalar readings of the statements of
    eqsig/sdof.py:nigam_and_jennings_response that surround compute_a_and_b, re-extracted with Python `ast` on every run
    (translator/py2coq_sdof_loop.py -> gen/Gen_sdof_loop.v; the accepted syntactic forms are listed in that file's header).
    The theorems below hold for all arguments; a changed operand, index, sign or literal in the source changes the
    generated text and breaks them.
    Still NOT proved / still only by correspondence: that numpy's array statements mean these scalar readings row by row
    (slicing `[s:, i]`, broadcasting of `w[:, np.newaxis]`, the order of the two assignments inside one iteration, the
    number of loop iterations), the `periods[0] == 0` branch selection, the container conversions, and floating point. *)
From EQ Require Import gen.Gen_sdof_loop proofs.P_C01_loop.

(** loop body: the model step is the pair of the two source assignments
    `resp_u[s:, i + 1] = ...`, `resp_v[s:, i + 1] = ...` read for one oscillator *)
Theorem C01_step_is_source : forall (c : coeffs R) (s : R * R) f0 f1,
  nj_step c s f0 f1
  = (gen_step_u (a11 c) (a12 c) (a21 c) (a22 c) (b11 c) (b12 c) (b21 c) (b22 c) (fst s) (snd s) f0 f1,
     gen_step_v (a11 c) (a12 c) (a21 c) (a22 c) (b11 c) (b12 c) (b21 c) (b22 c) (fst s) (snd s) f0 f1).
Proof. exact P_C01_loop.step_is_source. Qed.

(** recurrence: for every record the model series has the record's length, starts from the source's np.zeros state and
    satisfies the source loop read index-wise (load_i = gen_load rec_i, i.e. `acc[i]` after `acc = -np.array(acc)`) ... *)
Theorem C01_loop_is_source : forall (c : coeffs R) (rec : list R),
  length (nj_series c rec) = length rec /\
  (rec <> [] -> nth 0 (nj_series c rec) (0, 0) = (gen_init_u, gen_init_v)) /\
  forall i, (S i < length rec)%nat ->
    nth (S i) (nj_series c rec) (0, 0)
    = gen_step c (nth i (nj_series c rec) (0, 0)) (gen_load (nth i rec 0)) (gen_load (nth (S i) rec 0)).
Proof. exact P_C01_loop.loop_is_source. Qed.
(** ... and is the only list that does *)
Theorem C01_loop_characterises : forall (c : coeffs R) (rec : list R) (L : list (R * R)),
  length L = length rec ->
  (rec <> [] -> nth 0 L (0, 0) = (gen_init_u, gen_init_v)) ->
  (forall i, (S i < length rec)%nat ->
     nth (S i) L (0, 0) = gen_step c (nth i L (0, 0)) (gen_load (nth i rec 0)) (gen_load (nth (S i) rec 0))) ->
  L = nj_series c rec.
Proof. exact P_C01_loop.loop_characterises. Qed.

(** third series: both branches of `if s:` give the model's [resp_acc]; sample by sample on a row; the T = 0 row *)
Theorem C01_third_series_is_source : forall xi w (s : R * R),
  resp_acc xi w s = gen_resp_acc xi w (fst s) (snd s) /\ resp_acc xi w s = gen_resp_acc_lead0 xi w (fst s) (snd s).
Proof. intros. split; [apply P_C01_loop.resp_acc_is_source | apply P_C01_loop.resp_acc_lead0_is_source]. Qed.
Theorem C01_row_third_is_source : forall (c : coeffs R) xi w (rec : list R) i, (i < length rec)%nat ->
  nth i (snd (row c xi w rec)) 0
  = gen_resp_acc xi w (nth i (fst (fst (row c xi w rec))) 0) (nth i (snd (fst (row c xi w rec))) 0) /\
  nth i (snd (row c xi w rec)) 0
  = gen_resp_acc_lead0 xi w (nth i (fst (fst (row c xi w rec))) 0) (nth i (snd (fst (row c xi w rec))) 0).
Proof. exact P_C01_loop.row_third_is_source. Qed.
Theorem C01_zero_row_is_source : forall (rec : list R) i, (i < length rec)%nat ->
  nth i (fst (fst (zero_row rec))) 0 = gen_init_u /\ nth i (snd (fst (zero_row rec))) 0 = gen_init_v /\
  nth i (snd (zero_row rec)) 0 = gen_zero_row_acc (gen_load (nth i rec 0)).
Proof. exact P_C01_loop.zero_row_is_source. Qed.

(** sign: the load fed to the recurrence is the record times the source's sign (-1), from the source's zero state *)
Theorem C01_sign_is_source : gen_record_sign = -1 /\ (forall a, gen_load a = gen_record_sign * a) /\
  forall (c : coeffs R) (rec : list R),
    nj_series c rec
    = match map (fun a => gen_record_sign * a) rec with [] => [] | f0 :: r => nj_run c (gen_init_u, gen_init_v) f0 r end.
Proof.
  split; [exact P_C01_loop.record_sign_is_source|]. split; [exact P_C01_loop.load_is_sign_times|].
  exact P_C01_loop.series_sign_is_source.
Qed.

(** constant: the model's [w_of] with the source literal is the source's `w = 6.2831853 / periods[s:]`; the literal is
    the decimal 6.2831853 and lies within 7.2e-9 of 2 pi *)
Theorem C01_constant_is_source : gen_c2pi = 62831853 / 10000000 /\ (forall P, w_of gen_c2pi P = gen_w P) /\
  Rabs (gen_c2pi - 2 * PI) <= 72 / 10000000000.
Proof.
  split; [exact P_C01_loop.c2pi_is_source|]. split; [exact P_C01_loop.w_is_source | exact P_C01_loop.c2pi_near_2pi].
Qed.
