(** C03 end to end (statements; proofs in P_C03_e2e): composition of C01 (the series is THE exact solution; existence by
    gluing, uniqueness), C02 (refinement of the step by linear interpolation) and C03 (S_d = absmax of the u-row).
    For every record, every 0 < w, 0 <= xi < 1, 0 < dt and every integer refinement factor m >= 1. Over R.
    Notation: n = length of the raw record, h = dt / m, [pwload rec dt] the continuous piecewise-linear load of a record,
    [glued_u xi w dt rec]/[glued_v ...] THE exact solution of C01 (unique on [0,(n-1)dt]: C01_solution_unique),
    [interpolates m rec F] (P_C02): F carries the factor-m linear interpolation of rec at its first m(n-1)+1 samples,
    [interp_record vals m] (M_spectra) the np.interp-refined record AccSignal.gen_response_spectrum hands on (m n samples:
    the last m-1 are clamped to the last value), [hold_last vals] = vals ++ [last value] (the raw record held for one
    more step: its piecewise-linear load is the raw one on [0,(n-1)dt] and the constant last value on [(n-1)dt, n dt]). *)
From Coq Require Import ZArith Reals List Lia Lra Bool.
From Coquelicot Require Import Coquelicot.
From EQ Require Import lib.Num lib.NpList model.M_sdof gen.Gen_sdof_coeffs model.M_sdof_R model.M_spectra
  proofs.P_C01 proofs.P_C01_glue proofs.P_C02 proofs.P_C03 proofs.P_C03_e2e.
Import ListNotations.
Local Open Scope R_scope.

(** (1) refining by linear interpolation does not change the forcing function: on [0,(n-1)dt] the load of the fine
    record at step dt/m IS the load of the raw record at step dt. Any F with [interpolates m rec F], n >= 2. *)
Theorem C03_refinement_preserves_load : forall dt, 0 < dt -> forall m : nat, (1 <= m)%nat ->
  forall rec F : list R, (2 <= length rec)%nat -> interpolates m rec F ->
  forall t, 0 <= t <= INR (length rec - 1) * dt -> pwload F (dt / INR m) t = pwload rec dt t.
Proof. exact P_C03_e2e.pwload_refine. Qed.
(** n >= 1: for a one-sample record [interpolates] constrains nothing but the length of F, so the first samples must be
    required to agree (they do for n >= 2 and for np.interp's output); then the same statement holds ... *)
Theorem C03_refinement_preserves_load_from_1 : forall dt, 0 < dt -> forall m : nat, (1 <= m)%nat ->
  forall rec F : list R, (1 <= length rec)%nat -> interpolates m rec F -> nth 0 F 0 = nth 0 rec 0 ->
  forall t, 0 <= t <= INR (length rec - 1) * dt -> pwload F (dt / INR m) t = pwload rec dt t.
Proof. exact P_C03_e2e.pwload_refine_head. Qed.
(** ... and without it the n = 1 instance of the clause as literally stated is REFUTED (a remark on the predicate
    [interpolates], not on the code: np.interp(arange(m)/m, arange(1), [x]) returns [x, ..., x]) *)
Theorem C03_refinement_preserves_load_singleton_refuted :
  interpolates 1 [1] [2] /\ pwload [2] (1 / INR 1) 0 <> pwload [1] 1 0.
Proof. exact P_C03_e2e.pwload_refine_singleton_witness. Qed.
(** the object's own refined record, every n >= 1, on its WHOLE span [0,(m n - 1) dt/m]: its load is the load of the
    raw record held for one more step *)
Theorem C03_refinement_preserves_load_object : forall dt, 0 < dt -> forall m : nat, (1 <= m)%nat ->
  forall vals : list R, (1 <= length vals)%nat -> (1 <= m * length vals - 1)%nat ->
  forall t, 0 <= t <= INR (m * length vals - 1) * (dt / INR m) ->
    pwload (interp_record vals (Z.of_nat m)) (dt / INR m) t = pwload (hold_last vals) dt t.
Proof.
  intros dt Hdt m Hm vals Hn HN.
  exact (P_C03_e2e.pwload_refine_upto dt Hdt m Hm _ _ _ (P_C03_e2e.interp_record_upto vals m Hm Hn) HN).
Qed.
Theorem C03_hold_last_load : forall dt, 0 < dt -> forall vals : list R, (1 <= length vals)%nat ->
  (forall t, 0 <= t <= INR (length vals - 1) * dt -> pwload (hold_last vals) dt t = pwload vals dt t) /\
  (forall t, INR (length vals - 1) * dt <= t <= INR (length vals) * dt ->
     pwload (hold_last vals) dt t = nth (length vals - 1) vals 0).
Proof. exact P_C03_e2e.hold_last_load. Qed.

(** (2a) hence, by uniqueness: EVERY exact solution (uF, vF) of the refined problem (F, dt/m) coincides on [0,(n-1)dt]
    with EVERY exact solution (u, v) of the raw problem (rec, dt) *)
Theorem C03_exact_solution_refine : forall xi w dt, 0 < w -> 0 <= xi -> xi < 1 -> 0 < dt -> forall m : nat, (1 <= m)%nat ->
  forall (rec F : list R) (u v uF vF : R -> R), (1 <= length rec)%nat -> interpolates m rec F ->
  solves xi w dt rec u v -> solves xi w (dt / INR m) F uF vF ->
  forall t, 0 <= t <= INR (length rec - 1) * dt -> uF t = u t /\ vF t = v t.
Proof. exact P_C03_e2e.exact_solution_refine. Qed.

(** (2) the fine series samples THE SAME function at the finer instants: for every k with k dt/m <= (n-1) dt, entry k
    of the series computed on F at step dt/m is (u, u')(k dt/m), (u, u') the exact solution of the RAW record *)
Theorem C03_fine_series_samples_raw_solution : forall xi w dt, 0 < w -> 0 <= xi -> xi < 1 -> 0 < dt ->
  forall m : nat, (1 <= m)%nat -> forall rec F : list R, (1 <= length rec)%nat -> interpolates m rec F ->
  forall k : nat, INR k * (dt / INR m) <= INR (length rec - 1) * dt ->
    nth k (nj_series (nj_coeffs xi w (dt / INR m)) F) (0, 0)
    = (glued_u xi w dt rec (INR k * (dt / INR m)), glued_v xi w dt rec (INR k * (dt / INR m))).
Proof. exact P_C03_e2e.fine_series_samples_raw_solution. Qed.

(** (3) the spectral displacement the object reports for an oscillator — absmax of the u-row computed on
    [interp_record vals m] at step dt/m, ALL m n samples, trailing clamped ones included — is the maximum of |u| over
    the instants k dt/m, k < m n, where (u, v) is the exact continuous solution for the raw record held at its last
    value for one more step: (u, v) solves that problem; on [0,(n-1)dt] it is THE exact solution of the raw record
    (it coincides there with every solution of the raw problem); on [(n-1)dt, n dt] the load is the constant last
    value; and the u-row is u sampled, entry by entry. *)
Theorem C03_object_sd_is_sampled_exact_peak : forall xi w dt, 0 < w -> 0 <= xi -> xi < 1 -> 0 < dt ->
  forall m : nat, (1 <= m)%nat -> forall vals : list R, (1 <= length vals)%nat ->
  let u := glued_u xi w dt (hold_last vals) in
  let v := glued_v xi w dt (hold_last vals) in
  solves xi w dt (hold_last vals) u v /\
  (forall u0 v0 : R -> R, solves xi w dt vals u0 v0 ->
     forall t, 0 <= t <= INR (length vals - 1) * dt -> u t = u0 t /\ v t = v0 t) /\
  (forall t, INR (length vals - 1) * dt <= t <= INR (length vals) * dt ->
     pwload (hold_last vals) dt t = nth (length vals - 1) vals 0) /\
  map fst (nj_series (nj_coeffs xi w (dt / INR m)) (interp_record vals (Z.of_nat m)))
    = map (fun k => u (INR k * (dt / INR m))) (seq 0 (m * length vals)) /\
  absmax (map fst (nj_series (nj_coeffs xi w (dt / INR m)) (interp_record vals (Z.of_nat m))))
    = absmax (map (fun k => u (INR k * (dt / INR m))) (seq 0 (m * length vals))).
Proof. exact P_C03_e2e.object_sd_e2e. Qed.
(** the same for the velocity row (true spectra: max |u'|) *)
Theorem C03_object_v_row_is_sampled_exact : forall xi w dt, 0 < w -> 0 <= xi -> xi < 1 -> 0 < dt ->
  forall m : nat, (1 <= m)%nat -> forall vals : list R, (1 <= length vals)%nat ->
  map snd (nj_series (nj_coeffs xi w (dt / INR m)) (interp_record vals (Z.of_nat m)))
    = map (fun k => glued_v xi w dt (hold_last vals) (INR k * (dt / INR m))) (seq 0 (m * length vals)).
Proof. exact P_C03_e2e.object_v_row. Qed.

(** prefix form, for ANY interpolant F (no assumption on its tail): the samples k <= m (n-1), i.e. the span of the raw
    record, against the exact solution of the raw record itself *)
Theorem C03_sd_prefix_is_sampled_exact_peak : forall xi w dt, 0 < w -> 0 <= xi -> xi < 1 -> 0 < dt ->
  forall m : nat, (1 <= m)%nat -> forall rec F : list R, (1 <= length rec)%nat -> interpolates m rec F ->
  absmax (map fst (firstn (m * (length rec - 1) + 1) (nj_series (nj_coeffs xi w (dt / INR m)) F)))
  = absmax (map (fun k => glued_u xi w dt rec (INR k * (dt / INR m))) (seq 0 (m * (length rec - 1) + 1))).
Proof. exact P_C03_e2e.sd_prefix_is_sampled_exact_peak. Qed.

(** consequences. The object's S_d is attained at one of the fine instants, so it is a lower bound of sup |u|: it is
    below every bound of |u| on [0, n dt] (prefix form: on [0,(n-1)dt], for the raw record's own solution); and
    S_d(raw samples) <= S_d(prefix of the fine series) <= S_d(fine series) (the first with C03_object_ge_raw). *)
Theorem C03_object_sd_attained : forall xi w dt, 0 < w -> 0 <= xi -> xi < 1 -> 0 < dt ->
  forall m : nat, (1 <= m)%nat -> forall vals : list R, (1 <= length vals)%nat ->
  exists k : nat, (k < m * length vals)%nat /\
    absmax (map fst (nj_series (nj_coeffs xi w (dt / INR m)) (interp_record vals (Z.of_nat m))))
    = Rabs (glued_u xi w dt (hold_last vals) (INR k * (dt / INR m))).
Proof. exact P_C03_e2e.object_sd_attained. Qed.
Theorem C03_object_sd_le_sup : forall xi w dt, 0 < w -> 0 <= xi -> xi < 1 -> 0 < dt ->
  forall m : nat, (1 <= m)%nat -> forall (vals : list R) (B : R), (1 <= length vals)%nat ->
  (forall t, 0 <= t <= INR (length vals) * dt -> Rabs (glued_u xi w dt (hold_last vals) t) <= B) ->
  absmax (map fst (nj_series (nj_coeffs xi w (dt / INR m)) (interp_record vals (Z.of_nat m)))) <= B.
Proof. exact P_C03_e2e.object_sd_le_sup. Qed.
Theorem C03_sd_prefix_le_sup : forall xi w dt, 0 < w -> 0 <= xi -> xi < 1 -> 0 < dt ->
  forall m : nat, (1 <= m)%nat -> forall (rec F : list R) (B : R), (1 <= length rec)%nat -> interpolates m rec F ->
  (forall t, 0 <= t <= INR (length rec - 1) * dt -> Rabs (glued_u xi w dt rec t) <= B) ->
  absmax (map fst (firstn (m * (length rec - 1) + 1) (nj_series (nj_coeffs xi w (dt / INR m)) F))) <= B.
Proof. exact P_C03_e2e.sd_prefix_le_sup. Qed.
Theorem C03_sd_chain : forall xi w dt, 0 < w -> 0 <= xi -> xi < 1 -> 0 < dt ->
  forall m : nat, (1 <= m)%nat -> forall rec F : list R, (1 <= length rec)%nat -> interpolates m rec F ->
  absmax (map fst (nj_series (nj_coeffs xi w dt) rec))
  <= absmax (map fst (firstn (m * (length rec - 1) + 1) (nj_series (nj_coeffs xi w (dt / INR m)) F)))
  <= absmax (map fst (nj_series (nj_coeffs xi w (dt / INR m)) F)).
Proof. exact P_C03_e2e.sd_chain. Qed.

(** NOT proved here: that the sampled maximum equals sup_t |u(t)| (it does not: the peak of the continuous solution in
    general falls between instants; only "<=" holds, above); anything about floating-point rounding; the sampled-peak
    statement for the third (acceleration) series. *)

(** non-vacuity: a concrete raw record with its factor-2 np.interp refinement (clamped tail visible) *)
Example C03_e2e_nonvacuous :
  interp_record [1; -2] 2 = [1; -1 / 2; -2; -2] /\ hold_last [1; -2] = [1; -2; -2] /\
  interpolates 2 [1; -2] (interp_record [1; -2] 2) /\
  P_C03_e2e.interp_upto 2 (hold_last [1; -2]) (interp_record [1; -2] 2) 3.
Proof.
  split; [|split; [reflexivity|split]].
  - unfold interp_record. change (Z.to_nat 2 * length [1; -2]%R)%nat with 4%nat. cbn [seq map]. unfold interp_pos. cbn. numR.
    change (Pos.to_nat 1) with 1%nat. cbn [Nat.leb]. apply f_equal2; [lra|]. apply f_equal2; [lra|]. reflexivity.
  - exact (P_C03.interp_record_interpolates [1; -2] 2 ltac:(lia)).
  - exact (P_C03_e2e.interp_record_upto [1; -2] 2 ltac:(lia) ltac:(cbn; lia)).
Qed.
