(** C11 / C12 — the numpy pipeline the code runs IS the declarative model the C11 / C12 theorems are about
    (statements; proofs in proofs/P_peaks_pipeline.v).

    model/M_peaks_pipeline.v transcribes eqsig/fns/peaks_and_crossings.py statement by statement (one definition per Python
    statement / temporary): [clean_out_non_changing_p], [peak_indices_cleaned_p] (determine_indices_of_peaks_for_cleaned_array),
    [get_peak_array_indices_p ptype] (0 = 'all', 1 = 'max', other = 'min'), [zero_crossings_p keep_adj_zeros]
    (get_zero_crossings_array_indices with tol = 0) and [zero_crossings_tol_p keep_adj_zeros tol] (the same function with its
    [if tol > 0] loop), and [switched_peaks_p tol] (get_switched_peak_array_indices with _argmax_abs_w_sign, the Python lists
    peak_values_set / peak_indices_set / new_peak_indices being lists with append). The theorems below hold for ALL series over R, of any length.
    Guards: the code indexes values[0], so the series is non-empty; for the peaks the series is non-constant
    ([first_up xs <> None], the guard of the declarative model) - the constant case is stated separately. *)
From Coq Require Import QArith Reals List Lia Lra Bool.
From EQ Require Import lib.Num lib.NpList lib.Where lib.Transfer model.M_peaks model.M_peaks_pipeline model.K_peaks.
From EQ Require Import proofs.P_C11 proofs.P_peaks_pipeline proofs.P_peaks_pipeline_transfer.
Import ListNotations.
Local Open Scope R_scope.

(** * get_peak_array_indices *)
(** ptype = 'all' *)
Theorem C11_pipeline_is_model : forall (xs : list R), first_up xs <> None -> get_peak_array_indices_p 0 xs = peaks xs.
Proof. exact P_peaks_pipeline.pipeline_all. Qed.
(** every ptype: 'all', 'max' (parity selection by the sign of first_move), 'min' *)
Theorem C11_pipeline_sel_is_model : forall (pt : nat) (xs : list R), first_up xs <> None ->
  get_peak_array_indices_p pt xs = peaks_sel pt xs.
Proof. exact P_peaks_pipeline.pipeline_sel. Qed.
(** the excluded case: on a constant series (any length >= 1) the code returns [0, 0] for 'all' and [0] for 'max' and 'min'
    (the declarative [peaks_sel] gives [0], [0], [] there, which is why every C11 theorem carries the guard) *)
Theorem C11_pipeline_constant : forall (pt : nat) (xs : list R), xs <> [] -> first_up xs = None ->
  get_peak_array_indices_p pt xs = match pt with O => [0; 0]%nat | _ => [0%nat] end.
Proof. exact P_peaks_pipeline.pipeline_constant. Qed.

(** * the duplicated index 0
    [pstarts xs] = the plateau starts (index 0 and every i with x[i] <> x[i-1]), [cleaned xs] = the values there. *)
Theorem C11_pstarts_spec : forall (xs : list R), pstarts xs = filter (pstart xs) (seq 0 (length xs)) /\ cleaned xs = map (xat xs) (pstarts xs).
Proof. intros; split; reflexivity. Qed.
(** clean_out_non_changing returns the plateau starts when values[0] = 0, and the plateau starts with index 0 (and value
    values[0]) TWICE when values[0] <> 0, because np.ediff1d(values, to_begin=values[0]) puts values[0] in front of the differences *)
Theorem C11_clean_out_non_changing_spec : forall (xs : list R), xs <> [] ->
  clean_out_non_changing_p xs =
    if Req_EM_T (xat xs 0) 0 then (cleaned xs, pstarts xs) else (xat xs 0 :: cleaned xs, 0%nat :: pstarts xs).
Proof. exact P_peaks_pipeline.clean_out_non_changing_spec. Qed.
(** ... and the duplicate is observationally invisible: in both cases [peak_full_indices] and [moves] (hence every returned
    array) are those obtained from the duplicate-free arrays *)
Theorem C11_dup_index0_invisible : forall (xs : list R), xs <> [] ->
  gp_peak_full_indices xs = take 0%nat (pstarts xs) (peak_indices_cleaned_p (cleaned xs)) /\
  gp_moves xs = mask_ne0 (diff (cleaned xs)).
Proof. exact P_peaks_pipeline.dup_index0_invisible. Qed.
(** the interior indices determine_indices_of_peaks_for_cleaned_array finds (sign change of consecutive differences of the
    cleaned series) are, mapped back through non_zero_indices, exactly the turning points of the series *)
Theorem C11_pipeline_interior : forall (xs : list R) i, xs <> [] ->
  ((exists k, In k (pk_indices0 (cleaned xs)) /\ i = nth k (pstarts xs) 0%nat) <-> (i < length xs)%nat /\ turning xs i = true).
Proof. exact P_peaks_pipeline.pipeline_interior. Qed.
(** first_move is the first strict move of the series *)
Theorem C11_pipeline_first_move : forall (xs : list R) q, first_up xs <> None -> next_diff xs 0 = Some q ->
  gp_first_move xs = xat xs q - xat xs 0.
Proof. exact P_peaks_pipeline.first_move_spec. Qed.

(** * get_zero_crossings_array_indices, tol = 0, both values of keep_adj_zeros *)
Theorem C12_zc_pipeline_is_model : forall keep (xs : list R), xs <> [] -> zero_crossings_p keep xs = zero_crossings keep 0 xs.
Proof. exact P_peaks_pipeline.pipeline_zc. Qed.
(** the [if not keep_adj_zeros and len(zero_indices) > 1] block (ediff1d(to_begin=10) / where(> 1) / take) keeps exactly the
    exact zeros that are not preceded by an exact zero *)
Theorem C12_zc_pipeline_zero_indices : forall keep (xs : list R) i, In i (zc_zero_indices keep xs) <->
  (i < length xs)%nat /\ xat xs i = 0 /\ (keep = true \/ i = 0%nat \/ xat xs (i - 1) <> 0).
Proof. exact P_peaks_pipeline.zk_spec. Qed.

(** the whole function, any tolerance: the [for k, ind in enumerate(all_zc_indices[:-1])] loop with its [rem_i] list and the
    final np.delete compute [zc_prune] (the recursion of the model). The code raises for tol < 0: guard 0 <= tol (the equality
    itself holds for every tol). The loop part is generic in the number type and axiom-free ([C12_zc_tol_loop_is_prune]). *)
Theorem C12_zc_tol_loop_is_prune : forall (T : Type) (H : NumOps T) (tol : T) (xs : list T) (all : list nat),
  np_delete all (zc_rem_i tol xs all) = zc_prune (length all) tol xs all.
Proof. exact @P_peaks_pipeline.tol_loop_is_prune. Qed.
Theorem C12_zc_tol_pipeline_is_model : forall keep (tol : R) (xs : list R), xs <> [] -> 0 <= tol ->
  zero_crossings_tol_p keep tol xs = zero_crossings keep tol xs.
Proof. intros keep tol xs H _. now apply P_peaks_pipeline.pipeline_zc_tol. Qed.

(** * get_switched_peak_array_indices: at every sign switch the code calls _argmax_abs_w_sign on the values collected since the
    previous switch (np.where(same_sign, |v|, -1) and np.argmax, or plain np.argmax |v| when no value has the sign of [last]) and
    maps the position found back through peak_indices; the model [sp_loop] keeps a running best. Equal for every non-constant
    series and EVERY tol (on a constant series the code starts from the peak list [0, 0], see C11_pipeline_constant) *)
Theorem C12_sp_pipeline_is_model : forall (tol : R) (xs : list R), first_up xs <> None ->
  switched_peaks_p tol xs = switched_peaks tol xs.
Proof. exact P_peaks_pipeline.pipeline_sp. Qed.

(** the excluded case: on a constant series the code starts from the peak list [0, 0]; it returns [0, 0] when the series is
    all-zero and [0] when it is a non-zero constant and tol >= 0 ([switched_peaks] of the model gives [0] in both cases) *)
Theorem C12_sp_pipeline_constant : forall (tol : R) (xs : list R), xs <> [] -> first_up xs = None ->
  (xat xs 0 = 0 -> switched_peaks_p tol xs = [0; 0]%nat) /\
  (xat xs 0 <> 0 -> 0 <= tol -> switched_peaks_p tol xs = [0%nat]).
Proof. exact P_peaks_pipeline.pipeline_sp_constant. Qed.

(** * the same at Q, i.e. for the very terms the correspondence run evaluates (Q -> R transfer of the transcription, for all
    rational series: index lists are EQUAL at Q and at R; then the theorems above) *)
Theorem C11_pipeline_transfer : forall pt (xs : list Q) (xs' : list R), relL xs xs' ->
  get_peak_array_indices_p pt xs = get_peak_array_indices_p pt xs'.
Proof. exact P_peaks_pipeline_transfer.get_peak_array_indices_p_transfer. Qed.
Theorem C11_clean_out_transfer : forall (xs : list Q) (xs' : list R), relL xs xs' ->
  relP relL eq (clean_out_non_changing_p xs) (clean_out_non_changing_p xs').
Proof. exact P_peaks_pipeline_transfer.clean_out_non_changing_p_transfer. Qed.
Theorem C12_zc_pipeline_transfer : forall keep (xs : list Q) (xs' : list R), relL xs xs' ->
  zero_crossings_p keep xs = zero_crossings_p keep xs'.
Proof. exact P_peaks_pipeline_transfer.zero_crossings_p_transfer. Qed.
Theorem C11_pipeline_sel_is_model_Q : forall (pt : nat) (qs : list Q), first_up qs <> None ->
  get_peak_array_indices_p pt qs = peaks_sel pt qs.
Proof. exact P_peaks_pipeline_transfer.pipeline_sel_Q. Qed.
Theorem C12_zc_pipeline_is_model_Q : forall keep (qs : list Q), qs <> [] -> zero_crossings_p keep qs = zero_crossings keep 0%Q qs.
Proof. exact P_peaks_pipeline_transfer.pipeline_zc_Q. Qed.
(** hence the two correspondence checkers of model/K_peaks.v (declarative model / pipeline transcription) return the same
    verdict on every case the harness generates (non-constant series for the peaks, non-empty series for the crossings) *)
Theorem C11_pipeline_checkers_agree : forall pt (qs : list Q) out, first_up qs <> None ->
  chk_peaks_pipeline_q (pt, qs, out) = chk_peaks_q (pt, qs, out).
Proof. intros pt qs out H. unfold chk_peaks_pipeline_q, chk_peaks_q. now rewrite (C11_pipeline_sel_is_model_Q pt qs H). Qed.
Theorem C11_pipeline_checkers_agree_int : forall pt (zs0 : list Z) out, first_up (zs zs0) <> None ->
  chk_peaks_pipeline (pt, zs0, out) = chk_peaks (pt, zs0, out).
Proof. intros pt zs0 out H. unfold chk_peaks_pipeline, chk_peaks. now rewrite (C11_pipeline_sel_is_model_Q pt _ H). Qed.
Theorem C12_zc_tol_pipeline_is_model_Q : forall keep (tol : Q) (qs : list Q), qs <> [] ->
  zero_crossings_tol_p keep tol qs = zero_crossings keep tol qs.
Proof. exact P_peaks_pipeline_transfer.pipeline_zc_tol_Q. Qed.
Theorem C12_sp_pipeline_transfer : forall (tol : Q) (tol' : R) (xs : list Q) (xs' : list R), rel tol tol' -> relL xs xs' ->
  switched_peaks_p tol xs = switched_peaks_p tol' xs'.
Proof. exact P_peaks_pipeline_transfer.switched_peaks_p_transfer. Qed.
Theorem C12_sp_pipeline_is_model_Q : forall (tol : Q) (qs : list Q), first_up qs <> None ->
  switched_peaks_p tol qs = switched_peaks tol qs.
Proof. exact P_peaks_pipeline_transfer.pipeline_sp_Q. Qed.
Theorem C12_sp_pipeline_checkers_agree : forall (tol : Q) (qs : list Q) out, first_up qs <> None ->
  chk_sp_pipeline (tol, qs, out) = chk_sp (tol, qs, out).
Proof. intros tol qs out H. unfold chk_sp_pipeline, chk_sp. now rewrite (C12_sp_pipeline_is_model_Q tol qs H). Qed.
Theorem C12_zc_pipeline_checkers_agree : forall keep (tol : Q) (qs : list Q) out, qs <> [] ->
  chk_zc_pipeline (keep, tol, qs, out) = chk_zc (keep, tol, qs, out).
Proof. intros keep tol qs out H. unfold chk_zc_pipeline, chk_zc. now rewrite (C12_zc_tol_pipeline_is_model_Q keep tol qs H). Qed.

(** Consequently every theorem of Prop_C11.v about [peaks] / [peaks_sel] and of Prop_C12.v about [zero_crossings] and
    [switched_peaks] is a theorem about the transcribed code. What is NOT proved: nothing of the algorithmic content of these
    four functions is left to sampling any more; what remains is (i) the transcription itself, tied to the code by reading
    model/M_peaks_pipeline.v side by side with the Python source and by the correspondence run (K_peaks.chk_peaks_pipeline,
    chk_clean_pipeline, chk_zc_pipeline, chk_sp_pipeline), (ii) the numpy primitives (ediff1d, where, take, insert, sort,
    argmax, delete, interp) whose Gallina definitions are their specification here - in particular np.interp in
    get_n_cyc_array is [interp_pts], and (iii) exact arithmetic (no rounding, no underflow of the products). *)

(** a series with plateaus and a non-zero first value: the guard holds, index 0 is duplicated by clean_out_non_changing, and
    the reported indices are 0, the two turning plateaus and the final plateau *)
Ltac decide_cmp :=
  repeat match goal with
  | |- context [Reqb ?a ?b] => let H := fresh in destruct (Reqb a b) eqn:H; [apply Reqb_true in H|apply Reqb_false in H]; try lra
  | |- context [Rltb ?a ?b] => let H := fresh in destruct (Rltb a b) eqn:H; [apply Rltb_true in H|apply Rltb_false in H]; try lra
  | |- context [Rleb ?a ?b] => let H := fresh in destruct (Rleb a b) eqn:H; [apply Rleb_true in H|apply Rleb_false in H]; try lra
  end.
Example C11_pipeline_nonvacuous :
  first_up [3; 3; 2; 2; 5; 1; 1]%R <> None /\
  clean_out_non_changing_p [3; 3; 2; 2; 5; 1; 1]%R = ([3; 3; 2; 5; 1]%R, [0; 0; 2; 4; 5]%nat) /\
  get_peak_array_indices_p 0 [3; 3; 2; 2; 5; 1; 1]%R = [0; 2; 4; 5]%nat /\
  peaks [3; 3; 2; 2; 5; 1; 1]%R = [0; 2; 4; 5]%nat.
Proof.
  assert (Hnc : first_up [3; 3; 2; 2; 5; 1; 1]%R <> None).
  { unfold first_up, next_diff, xat. cbn [skipn next_diff_from nth]. numR. decide_cmp; cbn; discriminate. }
  assert (Hc : clean_out_non_changing_p [3; 3; 2; 2; 5; 1; 1]%R = ([3; 3; 2; 5; 1]%R, [0; 0; 2; 4; 5]%nat)).
  { unfold clean_out_non_changing_p, cl_cleaned_values, cl_non_zero_indices, cl_non_zero_indices0, cl_diff_values, np_insert0,
      ediff1d, where_idx, ne0, take. cbn [diff nth where_from]. numR. decide_cmp; cbn; reflexivity. }
  assert (Hp : get_peak_array_indices_p 0 [3; 3; 2; 2; 5; 1; 1]%R = [0; 2; 4; 5]%nat).
  { unfold get_peak_array_indices_p, gp_peak_full_indices, gp_non_zero_indices, gp_peak_cleaned_indices, gp_cleaned_values.
    rewrite Hc. cbn [fst snd].
    unfold peak_indices_cleaned_p, pk_indices2, pk_indices1, pk_indices0, pk_prod, pk_diff, np_insert_end, np_insert0, sl_from1,
      sl_to_m1, ediff1d, vmul, where_idx, lt0, take.
    cbn [diff tl removelast map2 where_from length]. numR. decide_cmp; cbn; reflexivity. }
  split; [exact Hnc|]. split; [exact Hc|]. split; [exact Hp|]. rewrite <- (C11_pipeline_is_model _ Hnc). exact Hp.
Qed.
Example C12_zc_pipeline_nonvacuous : zero_crossings_p false [-1; 0; 0; 2; -3; 0]%R = [0; 1; 4; 5]%nat.
Proof.
  rewrite C12_zc_pipeline_is_model by discriminate.
  unfold zero_crossings, zc0, zc_test, xat. cbn [length seq filter nth]. numR. decide_cmp; cbn; reflexivity.
Qed.
