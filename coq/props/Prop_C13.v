(** C13 — Peak-only series conserve total variation; equivalent-cycle measures are inverse (statements; proofs in P_C13).
    Models: model/M_cycles.v ([delta_series], [pseudo_series], [tv], [sgn_final], [n_cyc_R], [n_cyc_interp_R], [cyc_amp_R], [cyc_amp_combined_R],
    [cyc_amp_gm_R], [rpow]); [peaks], [switched_peaks], [first_up], [sgn_first] are in model/M_peaks.v.
    "Non-constant series" is the guard [first_up xs <> None] (the implementation raises IndexError on a constant series). *)
From Coq Require Import Reals List Lia Lra Bool.
From EQ Require Import lib.Num lib.NpList lib.Quad lib.Where model.M_peaks model.M_cycles proofs.P_C11 proofs.P_C12 proofs.P_C13.
Import ListNotations.
Local Open Scope R_scope.

(** what the guard means: some sample differs from the first one *)
Theorem C13_nonconstant_spec : forall (xs : list R), first_up xs <> None <-> exists j, (j < length xs)%nat /\ xat xs j <> xat xs 0.
Proof. exact P_C13.nonconstant_spec. Qed.
(** the orientation used by both series is +1 / -1 for a non-constant series *)
Theorem C13_orientation : forall (xs : list R), first_up xs <> None -> sgn_first xs = 1 \/ sgn_first xs = -1.
Proof. exact P_C13.sgn_first_sdir. Qed.

(** * peaks-only delta series *)
Theorem C13_delta_length : forall (xs : list R), length (delta_series xs) = length xs.
Proof. exact P_C13.C13_delta_length. Qed.
(** zero away from the reported peaks *)
Theorem C13_delta_support : forall (xs : list R) i, (i < length xs)%nat -> ~ In i (peaks xs) -> nth i (delta_series xs) 0 = 0.
Proof. exact P_C13.C13_delta_support. Qed.
(** absolute values sum to the total variation sum |x[i+1] - x[i]| *)
Theorem C13_delta_abs_sum : forall (xs : list R), first_up xs <> None -> nsum (vabs (delta_series xs)) = tv xs.
Proof. exact P_C13.C13_delta_abs_sum. Qed.
(** the signed sum is the end-minus-start offset oriented by the first strict move, so its magnitude is |x[-1] - x[0]| *)
Theorem C13_delta_signed_sum : forall (xs : list R), first_up xs <> None ->
  nsum (delta_series xs) = sgn_first xs * (last xs 0 - xat xs 0).
Proof. exact P_C13.C13_delta_signed_sum. Qed.
Theorem C13_delta_signed_sum_magnitude : forall (xs : list R), first_up xs <> None ->
  Rabs (nsum (delta_series xs)) = Rabs (last xs 0 - xat xs 0).
Proof. exact P_C13.C13_delta_signed_sum_abs. Qed.

(** * pseudo-cyclic peak series *)
Theorem C13_pseudo_length : forall (xs : list R), length (pseudo_series xs) = length xs.
Proof. exact P_C13.C13_pseudo_length. Qed.
Theorem C13_pseudo_support : forall (xs : list R) i, (i < length xs)%nat -> ~ In i (peaks xs) -> nth i (pseudo_series xs) 0 = 0.
Proof. exact P_C13.C13_pseudo_support. Qed.
(** [sgn_final] is the direction (+1 / -1) of the final strict move, i.e. of the move into the final plateau *)
Theorem C13_sgn_final_spec : forall (xs : list R), first_up xs <> None ->
  exists j, final_start xs = S j /\ xat xs j <> xat xs (S j) /\
            ((xat xs j < xat xs (S j) /\ sgn_final xs = 1) \/ (xat xs (S j) < xat xs j /\ sgn_final xs = -1)).
Proof. exact P_C13.sgn_final_spec. Qed.
(** sums to half the total variation plus half the end-minus-start offset signed by the direction of the final movement *)
Theorem C13_pseudo_sum : forall (xs : list R), first_up xs <> None ->
  nsum (pseudo_series xs) = / 2 * tv xs + / 2 * sgn_final xs * (last xs 0 - xat xs 0).
Proof. exact P_C13.C13_pseudo_sum. Qed.

(** * both series are independent of a constant shift of the series *)
Theorem C13_delta_shift_invariant : forall c (xs : list R), delta_series (shift c xs) = delta_series xs.
Proof. exact P_C13.C13_delta_shift_invariant. Qed.
Theorem C13_pseudo_shift_invariant : forall c (xs : list R), pseudo_series (shift c xs) = pseudo_series xs.
Proof. exact P_C13.C13_pseudo_shift_invariant. Qed.

(** * power-law equivalent number of cycles / equivalent uniform amplitude
    ([rpow x y] = x^y for x > 0 and 0 at 0; b is the power-law exponent, the code raises to 1/b and b) *)
Theorem C13_rpow_spec : forall x y, (0 < x -> rpow x y = Rpower x y) /\ rpow 0 y = 0.
Proof. intros x y. split; [apply P_C13.rpow_pos|apply P_C13.rpow_0]. Qed.
(** series of the record's length *)
Theorem C13_ncyc_length : forall a_ref b cut (xs : list R), length (n_cyc_R a_ref b cut xs) = length xs.
Proof. exact P_C13.C13_ncyc_length. Qed.
Theorem C13_amp_length : forall ncyc b (xs : list R), length (cyc_amp_R ncyc b xs) = length xs.
Proof. exact P_C13.C13_amp_length. Qed.
(** non-decreasing *)
Theorem C13_ncyc_monotone : forall a_ref b cut (xs : list R), nondecreasing (n_cyc_R a_ref b cut xs).
Proof. exact P_C13.C13_ncyc_monotone. Qed.
Theorem C13_amp_monotone : forall ncyc b (xs : list R), 0 < ncyc -> 0 <= b -> nondecreasing (cyc_amp_R ncyc b xs).
Proof. exact P_C13.C13_amp_monotone. Qed.
(** mutually inverse: the amplitude computed for N = cycles(a_ref) is a_ref.  Guards: the cut-off replaces no switched peak
    ([no_cut]; always true for cut_off = 0 — below the cut-off the two functions deliberately differ: one replaces the peak by
    1e-14, the other keeps it) and some switched peak is non-zero (so that N > 0; discharged for every non-constant series in C13_inverse_nonconstant below) *)
Theorem C13_inverse : forall a_ref b cut (xs : list R), 0 < a_ref -> b <> 0 -> no_cut cut xs ->
  (exists p, In p (switched_peaks 0 xs) /\ xat xs p <> 0) ->
  last (cyc_amp_R (last (n_cyc_R a_ref b cut xs) 0) b xs) 0 = a_ref.
Proof. exact P_C13.C13_inverse. Qed.
(** the guard "some switched peak is non-zero" is itself a theorem (C12: the global absolute maximum is a switched peak), so it
    can be replaced by "some sample is non-zero", in particular it holds for every non-constant series *)
Theorem C13_inverse_nonzero_sample : forall a_ref b cut (xs : list R), 0 < a_ref -> b <> 0 -> no_cut cut xs ->
  (exists k, (k < length xs)%nat /\ xat xs k <> 0) ->
  last (cyc_amp_R (last (n_cyc_R a_ref b cut xs) 0) b xs) 0 = a_ref.
Proof. intros a_ref b cut xs Ha Hb Hc Hnz. apply P_C13.C13_inverse; auto. now apply P_C12.C12_sp_nonzero. Qed.
Theorem C13_inverse_nonconstant : forall a_ref b cut (xs : list R), 0 < a_ref -> b <> 0 -> no_cut cut xs ->
  first_up xs <> None ->
  last (cyc_amp_R (last (n_cyc_R a_ref b cut xs) 0) b xs) 0 = a_ref.
Proof. intros a_ref b cut xs Ha Hb Hc Hnc. apply P_C13.C13_inverse; auto. now apply P_C12.C12_sp_nonzero_of_nonconstant. Qed.
Theorem C13_no_cut_at_zero : forall (xs : list R), no_cut 0 xs.
Proof. exact P_C13.no_cut_0. Qed.
(** amplitude scales linearly with the record (k > 0) *)
Theorem C13_amp_scales : forall k ncyc b (xs : list R), 0 < k -> 0 < ncyc -> b <> 0 ->
  cyc_amp_R ncyc b (map (Rmult k) xs) = map (Rmult k) (cyc_amp_R ncyc b xs).
Proof. intros k ncyc b xs Hk. now apply P_C13.C13_amp_scales. Qed.
(** cycles are invariant when record and reference amplitude scale together.  Guard: the cut-off replaces no switched peak
    (the replacement value 1e-14 is absolute, so with replaced peaks the two counts differ by terms of order (1e-14/a_ref)^(1/b));
    stated here with the guard on both records (original form); the guard on the scaled record is redundant, see
    C13_no_cut_scale / C13_ncyc_joint_scale_single_guard below *)
Theorem C13_ncyc_joint_scale : forall k a_ref b cut (xs : list R), 0 < k -> no_cut cut xs -> no_cut cut (map (Rmult k) xs) ->
  n_cyc_R (k * a_ref) b cut (map (Rmult k) xs) = n_cyc_R a_ref b cut xs.
Proof. intros k a_ref b cut xs Hk. now apply P_C13.C13_ncyc_joint_scale. Qed.
(** the second guard follows from the first: for k > 0 the cut-off limit cut*max|x| and every switched-peak magnitude scale
    by k together, so [no_cut] is invariant under positive scaling; hence the single-guard form *)
Theorem C13_no_cut_scale : forall k cut (xs : list R), 0 < k -> (no_cut cut xs <-> no_cut cut (map (Rmult k) xs)).
Proof. intros k cut xs Hk. now apply P_C13.no_cut_scale. Qed.
Theorem C13_ncyc_joint_scale_single_guard : forall k a_ref b cut (xs : list R), 0 < k -> no_cut cut xs ->
  n_cyc_R (k * a_ref) b cut (map (Rmult k) xs) = n_cyc_R a_ref b cut xs.
Proof. intros k a_ref b cut xs Hk. now apply P_C13.C13_ncyc_joint_scale_1. Qed.
Theorem C13_ncyc_joint_scale_cut0 : forall k a_ref b (xs : list R), 0 < k ->
  n_cyc_R (k * a_ref) b 0 (map (Rmult k) xs) = n_cyc_R a_ref b 0 xs.
Proof. exact P_C13.C13_ncyc_joint_scale_0. Qed.
(** the switched-peak list itself is invariant under positive scaling *)
Theorem C13_switched_peaks_scale : forall k (xs : list R), 0 < k -> switched_peaks 0 (map (Rmult k) xs) = switched_peaks 0 xs.
Proof. intros k xs Hk. now apply P_C13.switched_peaks_scale. Qed.
(** * the cycle counter of the code is a step function: interp1d(kind='previous') over the knots [0, p_0 .. p_k-1, n] with
    values [0, c_0 .. c_k-1, c_k-1] (c = cumsum of the per-peak fractions), sampled at 0 .. n-1.  [n_cyc_interp_R]
    (model/M_cycles.v: [np_insert], [knots_le] = searchsorted, [interp_previous], [n_cyc_core_interp]) transcribes that
    pipeline statement by statement; it equals the running-sum model [n_cyc_R] used everywhere else, for every input
    (the switched peaks are strictly ascending and < n by C12).  What remains for the correspondence check is that the
    literal pipeline is the code. *)
Theorem C13_interp_previous_def : forall (xk : list nat) (yk : list R) q,
  interp_previous xk yk q = nth (Nat.min (knots_le xk q - 1) (length xk - 1)) yk 0.
Proof. reflexivity. Qed.
(** [knots_le] is searchsorted on strictly ascending knots: the number of knots <= q *)
Theorem C13_knots_le_count : forall idx q, ascending idx -> knots_le idx q = length (filter (fun p => Nat.leb p q) idx).
Proof. exact P_C13.knots_le_count. Qed.
Theorem C13_interp_previous_is_running_sum : forall n idx (vals : list R),
  ascending idx -> (forall p, In p idx -> (p < n)%nat) -> length idx = length vals ->
  let c := cumsum vals in
  map (interp_previous (0%nat :: idx ++ [n]) (0 :: c ++ [last (0 :: c) 0])) (seq 0 n) = cumsum (scatter 0 n idx vals).
Proof. exact P_C13.interp_previous_cumsum. Qed.
Theorem C13_ncyc_interp_eq : forall a_ref b cut (xs : list R), n_cyc_interp_R a_ref b cut xs = n_cyc_R a_ref b cut xs.
Proof. exact P_C13.C13_ncyc_interp_eq. Qed.
(** two identical components: 2^b times (combined) or exactly (geometric mean) the single-component amplitude *)
Theorem C13_combined_identical : forall ncyc b (xs : list R), 0 < ncyc ->
  cyc_amp_combined_R ncyc b xs xs = map (Rmult (rpow 2 b)) (cyc_amp_R ncyc b xs).
Proof. exact P_C13.C13_combined_identical. Qed.
Theorem C13_gm_identical : forall ncyc b (xs : list R), cyc_amp_gm_R ncyc b xs xs = cyc_amp_R ncyc b xs.
Proof. exact P_C13.C13_gm_identical. Qed.

(** * the hypotheses are satisfiable by non-trivial inputs *)
Ltac eval_R :=
  repeat match goal with
  | |- context [Reqb ?a ?b] => let H := fresh in destruct (Reqb a b) eqn:H; [apply Reqb_true in H|apply Reqb_false in H]; try lra
  | |- context [Rltb ?a ?b] => let H := fresh in destruct (Rltb a b) eqn:H; [apply Rltb_true in H|apply Rltb_false in H]; try lra
  | |- context [Rleb ?a ?b] => let H := fresh in destruct (Rleb a b) eqn:H; [apply Rleb_true in H|apply Rleb_false in H]; try lra
  end.
Example C13_nonvacuous :
  first_up [1; 1; 2; 1]%R <> None /\ delta_series [1; 1; 2; 1]%R = [0; 0; 1; -1] /\ pseudo_series [1; 1; 2; 1]%R = [0; 0; 1; 0] /\
  tv [1; 1; 2; 1]%R = 2 /\ sgn_final [1; 1; 2; 1]%R = -1.
Proof.
  assert (Ep : peaks [1; 1; 2; 1]%R = [0; 2; 3]%nat).
  { unfold peaks, is_peak, final_start, pstart, turning, next_diff, xat.
    cbn [length seq filter skipn next_diff_from nth Nat.eqb orb andb negb last]. numR. eval_R; cbn; try reflexivity. }
  assert (Ef : first_up [1; 1; 2; 1]%R = Some true).
  { unfold first_up, next_diff, xat. cbn [skipn next_diff_from nth]. numR. eval_R; cbn; eval_R; reflexivity. }
  split; [rewrite Ef; discriminate|].
  split; [unfold delta_series, sgn_first; rewrite Ep, Ef; cbn; numR; repeat f_equal; lra|].
  split; [unfold pseudo_series, sgn_first; rewrite Ep, Ef; cbn; numR; repeat f_equal; lra|].
  split; [unfold tv, nsum; cbn; numR; rewrite (Rabs_pos_eq (1 - 1)), (Rabs_pos_eq (2 - 1)), (Rabs_left1 (1 - 2)) by lra; lra|].
  unfold sgn_final, final_start, pstart, xat. cbn [length seq filter nth]. numR. eval_R; cbn; numR; eval_R; lra.
Qed.
Example C13_interp_nonvacuous :
  map (interp_previous [0; 0; 2; 4]%nat [0; 1; 3; 3]) (seq 0 4) = [1; 1; 3; 3] /\ knots_le [0; 0; 2; 4]%nat 1 = 2%nat.
Proof. split; reflexivity. Qed.
Example C13_inverse_nonvacuous : no_cut 0 [0; 2; -1]%R /\ exists p, In p (switched_peaks 0 [0; 2; -1]%R) /\ xat [0; 2; -1]%R p <> 0.
Proof.
  split; [apply P_C13.no_cut_0|]. exists 1%nat.
  assert (Ep : peaks [0; 2; -1]%R = [0; 1; 2]%nat).
  { unfold peaks, is_peak, final_start, pstart, turning, next_diff, xat.
    cbn [length seq filter skipn next_diff_from nth Nat.eqb orb andb negb last]. numR. eval_R; cbn; try reflexivity. }
  split; [|unfold xat; cbn; lra].
  unfold switched_peaks. rewrite Ep. unfold switched_peaks_of. cbn [sp_loop]. unfold xat. cbn [nth]. unfold nsign. numR.
  rewrite ?(Rabs_pos_eq 0), ?(Rabs_pos_eq 2), ?(Rabs_left1 (-1)) by lra.
  eval_R; cbn; auto.
Qed.

(** *** The model is the source (translator tie).
    gen/Gen_c13.v is re-translated from /repo's eqsig/im.py and eqsig/fns/peaks_and_crossings.py at the start of every run of
    this check (translator/py2coq_c13.py: Python [ast], whitelist grammar, fail-closed; every array assignment a [let] named by
    its position, so a renamed temporary gives the same text).
    PROVED for ALL inputs.  (1) For every [NumOps] instance (the Q run of the correspondence and the R theorems alike), with the
    real power `**` an arbitrary binary function [pow] and np.sqrt an arbitrary [sq]: the translation of
    calc_n_cyc_array_w_power_law -- switched peaks, np.abs(np.take), the cut-off np.where(. < cut_off * np.max(abs(values)), 1.0e-14, .),
    perc = 0.5 / (n_ref * (a_ref / peaks) ** (1 / b)) with n_ref = 1, cumsum, the four np.insert, interp1d(kind='previous') on
    np.arange(len(values)) -- IS [n_cyc_core_interp]; the translations of calc_cyc_amp_array_w_power_law (np.zeros_like / np.put,
    cumsum(|s| ** (1. / b) / 2 / n_cyc) ** b, the scalar-b branch of the final reshape), ..._gm_... (np.sqrt of the product of two
    calls) and ..._combined_... ARE [cyc_amp], [cyc_amp_gm], [cyc_amp_combined] with pw = pow . (1 / b), pwb = pow . b.
    (2) At R with pow = [rpow], sq = sqrt they are [n_cyc_interp_R] = [n_cyc_R], [cyc_amp_R], [cyc_amp_gm_R],
    [cyc_amp_combined_R] (arithmetic used: 1 * z = z, 1 / b = / b, 1 / 10^14 = the model's tiny), so every power-law theorem above is
    about the code that is in /repo; the default cut_off is 0.01.
    (3) Peak-only series, at R, for every non-constant series: the translations of determine_peaks_only_delta_series and
    determine_pseudo_cyclic_peak_only_series (with the two `_4_cleaned_data` helpers inlined: rebase `values -= values[0]`,
    clean_out_non_changing, orientation `*= np.sign(cleaned[1])`, np.take at the cleaned peak positions, np.diff + np.insert(., 0, 0)
    resp. signs = where(mod(arange, 2), -1, 1) and where(-signs * pv < 0, -|pv|, |pv|), np.put into zeros of the cleaned length, np.put
    into zeros of the record length at the plateau starts) ARE [delta_series] / [pseudo_series] -- PARTIAL (hence the names): the two
    functions the source calls, clean_out_non_changing and determine_indices_of_peaks_for_cleaned_array, are parameters [clean], [cpk]
    of the generated definitions and the theorems assume what they return: for values[0] = 0 the values at the plateau starts and
    the plateau starts; for the cleaned values of a non-constant series strictly ascending in-range positions whose images under the
    plateau starts are [peaks] (the model of get_peak_array_indices).  These two hypotheses are the C11 statement "the
    ediff1d/where pipeline is the declarative peak list"; they are not proved in this file (checked for the literal pipeline on every
    series over {-1,0,1/2,1,2} up to length 6 by vm_compute during development).
    A changed operand / index / sign / literal / comparison in any translated statement changes the generated term and breaks one of
    these obligations (or is rejected by the translator).
    NOT proved (still only decided by the correspondence): that NumPy/SciPy's take, where, cumsum, insert, put, diff, sign, mod, arange,
    interp1d(kind='previous') are the list functions named in the header of gen/Gen_c13.v (the translator's reading of each
    whitelisted call; [np.put] = [scatter] needs strictly ascending positions), `[:, np.newaxis]` / array-valued b broadcasting
    (read column by column), dtype effects of np.zeros_like on integer input, the exception paths (IndexError on a constant series,
    the assert), binary64 rounding. *)
From EQ Require Import gen.Gen_c13 proofs.P_gen_c13.

Theorem C13_n_cyc_is_source : forall (T : Type) (ops : NumOps T) (pow : T -> T -> T) (xs : list T) (a_ref b cut : T),
  gen_n_cyc pow xs a_ref b cut =
  n_cyc_core_interp (fun v => n1 * pow (a_ref / v) (n1 / b))%num cut (n1 / nofZ 100000000000000)%num xs.
Proof. exact (@P_gen_c13.gen_n_cyc_eq). Qed.
Theorem C13_cyc_amp_is_source : forall (T : Type) (ops : NumOps T) (pow : T -> T -> T) (xs : list T) (ncyc b : T),
  gen_cyc_amp pow xs ncyc b = cyc_amp (fun x => pow x (n1 / b)%num) (fun x => pow x b) ncyc xs.
Proof. exact (@P_gen_c13.gen_cyc_amp_eq). Qed.
Theorem C13_cyc_amp_gm_is_source : forall (T : Type) (ops : NumOps T) (sq : T -> T) (pow : T -> T -> T) (xs ys : list T) (ncyc b : T),
  gen_cyc_amp_gm sq pow xs ys ncyc b = cyc_amp_gm sq (fun x => pow x (n1 / b)%num) (fun x => pow x b) ncyc xs ys.
Proof. exact (@P_gen_c13.gen_cyc_amp_gm_eq). Qed.
Theorem C13_cyc_amp_combined_is_source : forall (T : Type) (ops : NumOps T) (pow : T -> T -> T) (xs ys : list T) (ncyc b : T),
  gen_cyc_amp_combined pow xs ys ncyc b = cyc_amp_combined (fun x => pow x (n1 / b)%num) (fun x => pow x b) ncyc xs ys.
Proof. exact (@P_gen_c13.gen_cyc_amp_combined_eq). Qed.
(** at R, with the real power *)
Theorem C13_n_cyc_is_source_R : forall a_ref b cut (xs : list R),
  gen_n_cyc rpow xs a_ref b cut = n_cyc_interp_R a_ref b cut xs /\ gen_n_cyc rpow xs a_ref b cut = n_cyc_R a_ref b cut xs.
Proof. intros. split; [apply P_gen_c13.gen_n_cyc_interp_R|apply P_gen_c13.gen_n_cyc_R]. Qed.
Theorem C13_cyc_amp_is_source_R : forall ncyc b (xs : list R), gen_cyc_amp rpow xs ncyc b = cyc_amp_R ncyc b xs.
Proof. exact P_gen_c13.gen_cyc_amp_R. Qed.
Theorem C13_cyc_amp_gm_is_source_R : forall ncyc b (xs ys : list R), gen_cyc_amp_gm sqrt rpow xs ys ncyc b = cyc_amp_gm_R ncyc b xs ys.
Proof. exact P_gen_c13.gen_cyc_amp_gm_R. Qed.
Theorem C13_cyc_amp_combined_is_source_R : forall ncyc b (xs ys : list R),
  gen_cyc_amp_combined rpow xs ys ncyc b = cyc_amp_combined_R ncyc b xs ys.
Proof. exact P_gen_c13.gen_cyc_amp_combined_R. Qed.
Theorem C13_default_cut_off_is_source : @gen_n_cyc_default_cut_off R _ = 0.01.
Proof. exact P_gen_c13.gen_n_cyc_default_cut_off_R. Qed.
(** hence the inverse law holds of the translated source functions themselves *)
Theorem C13_source_inverse : forall a_ref b cut (xs : list R), 0 < a_ref -> b <> 0 -> no_cut cut xs -> first_up xs <> None ->
  last (gen_cyc_amp rpow xs (last (gen_n_cyc rpow xs a_ref b cut) 0) b) 0 = a_ref.
Proof. exact P_gen_c13.source_inverse. Qed.

(** peak-only series: full statement  [gen_delta_series clean cpk xs = delta_series xs]  for the clean / cpk of the source;
    proved here for every clean / cpk that return what is stated (see (3) above) *)
Theorem C13_delta_series_is_source_partial : forall (clean : list R -> list R * list nat) (cpk : list R -> list nat) (xs : list R),
  (forall v, v <> [] -> xat v 0 = 0 ->
     clean v = (map (xat v) (filter (pstart v) (seq 0 (length v))), filter (pstart v) (seq 0 (length v)))) ->
  (forall ys, first_up ys <> None ->
     let ps := filter (pstart ys) (seq 0 (length ys)) in let c := map (xat ys) ps in
     ascending (cpk c) /\ (forall k, In k (cpk c) -> (k < length c)%nat) /\ map (fun k => nth k ps 0%nat) (cpk c) = peaks ys) ->
  first_up xs <> None ->
  gen_delta_series clean cpk xs = delta_series xs.
Proof. exact P_gen_c13.gen_delta_series_eq. Qed.
Theorem C13_pseudo_series_is_source_partial : forall (clean : list R -> list R * list nat) (cpk : list R -> list nat) (xs : list R),
  (forall v, v <> [] -> xat v 0 = 0 ->
     clean v = (map (xat v) (filter (pstart v) (seq 0 (length v))), filter (pstart v) (seq 0 (length v)))) ->
  (forall ys, first_up ys <> None ->
     let ps := filter (pstart ys) (seq 0 (length ys)) in let c := map (xat ys) ps in
     ascending (cpk c) /\ (forall k, In k (cpk c) -> (k < length c)%nat) /\ map (fun k => nth k ps 0%nat) (cpk c) = peaks ys) ->
  first_up xs <> None ->
  gen_pseudo_series clean cpk xs = pseudo_series xs.
Proof. exact P_gen_c13.gen_pseudo_series_eq. Qed.
(** under the same two hypotheses the conservation identities hold of the translated source functions *)
Theorem C13_source_conservation_partial : forall clean cpk (xs : list R), P_gen_c13.clean_spec clean -> P_gen_c13.cpk_spec cpk ->
  first_up xs <> None ->
  nsum (vabs (gen_delta_series clean cpk xs)) = tv xs /\
  nsum (gen_pseudo_series clean cpk xs) = / 2 * tv xs + / 2 * sgn_final xs * (last xs 0 - xat xs 0).
Proof. intros. split; [now apply P_gen_c13.source_delta_abs_sum|now apply P_gen_c13.source_pseudo_sum]. Qed.
(** the first hypothesis is satisfiable outright; the second is the C11 pipeline statement *)
Example C13_clean_spec_nonvacuous : P_gen_c13.clean_spec (fun v => (map (xat v) (P_gen_c13.pst v), P_gen_c13.pst v)).
Proof. exact P_gen_c13.clean_spec_sat. Qed.

(** (5) the two hypotheses discharged: with the literal transcriptions of clean_out_non_changing and
    determine_indices_of_peaks_for_cleaned_array (model/M_peaks_pipeline.v) plugged in as the helpers, the translated
    source functions ARE the peak-only series of the model, for every series that moves, and so conserve total variation *)
From EQ Require Import model.M_peaks_pipeline proofs.P_gen_c13_glue.
Theorem C13_delta_series_is_source : forall xs : list R, first_up xs <> None ->
  gen_delta_series clean_out_non_changing_p peak_indices_cleaned_p xs = delta_series xs.
Proof. exact P_gen_c13_glue.gen_delta_series_pipeline. Qed.
Theorem C13_pseudo_series_is_source : forall xs : list R, first_up xs <> None ->
  gen_pseudo_series clean_out_non_changing_p peak_indices_cleaned_p xs = pseudo_series xs.
Proof. exact P_gen_c13_glue.gen_pseudo_series_pipeline. Qed.
Theorem C13_source_conservation : forall xs : list R, first_up xs <> None ->
  nsum (vabs (gen_delta_series clean_out_non_changing_p peak_indices_cleaned_p xs)) = tv xs /\
  nsum (gen_pseudo_series clean_out_non_changing_p peak_indices_cleaned_p xs)
    = / 2 * tv xs + / 2 * sgn_final xs * (last xs 0 - xat xs 0).
Proof.
  intros xs Hm. split; [apply P_gen_c13.source_delta_abs_sum|apply P_gen_c13.source_pseudo_sum];
    solve [exact P_gen_c13_glue.clean_spec_pipeline | exact P_gen_c13_glue.cpk_spec_pipeline | exact Hm].
Qed.
