(** C11 / C12 — SOURCE TIE: the Python text of eqsig/fns/peaks_and_crossings.py, re-translated on every run by
    translator/py2coq_c11.py into gen/Gen_c11.v, IS the hand transcription model/M_peaks_pipeline.v, hence (Prop_C11_pipeline.v)
    the declarative model the C11 / C12 theorems are about.  Statements only; proofs in proofs/P_gen_c11.v.

    Generated definitions (generic over [NumOps T]): [gen_clean_out_non_changing], [gen_peak_indices_cleaned]
    (determine_indices_of_peaks_for_cleaned_array), [gen_get_peak_array_indices values ptype] (ptype a string),
    [gen_zero_crossings values keep_adj_zeros tol] (option: None = `raise`) with its loop body [gen_zero_crossings_loop1_step],
    [gen_argmax_abs_w_sign], [gen_switched_peaks values tol] with its loop body [gen_switched_peaks_loop1_step],
    [gen_n_cyc_array values opt start] (option) and the default arguments [gen_*_default_*].
    The `*_is_source` theorems without a guard hold for EVERY number type and every input and are axiom-free (definitional
    unfolding, x[1:] = tl, x[:-1] = removelast, np.insert at 0 / at the end, k + 1 = S k, induction on the iterated list for the
    loops).  A changed operand, index, literal, comparison, slice bound, to_begin value, string test or default in the Python
    source changes the generated text and one of these proofs stops checking.
    [ptype_code s] = 2 for "min", 1 for "max", 0 for any other string (the code falls through to `return peak_full_indices`). *)
From Coq Require Import String QArith Reals List Bool.
From EQ Require Import lib.Num lib.NpList lib.NpPeaks model.M_peaks model.M_peaks_pipeline gen.Gen_c11.
From EQ Require Import proofs.P_peaks_pipeline proofs.P_gen_c11 props.Prop_C11_pipeline.
Import ListNotations.

(** * generated = transcription, all inputs, all number types *)
Theorem C11_clean_is_source : forall (T : Type) (H : NumOps T) (xs : list T),
  gen_clean_out_non_changing xs = clean_out_non_changing_p xs.
Proof. exact @P_gen_c11.gen_clean_out_non_changing_eq. Qed.
Theorem C11_peak_indices_cleaned_is_source : forall (T : Type) (H : NumOps T) (xs : list T),
  gen_peak_indices_cleaned xs = peak_indices_cleaned_p xs.
Proof. exact @P_gen_c11.gen_peak_indices_cleaned_eq. Qed.
Theorem C11_get_peak_array_indices_is_source : forall (T : Type) (H : NumOps T) (xs : list T) (ptype : string),
  gen_get_peak_array_indices xs ptype = get_peak_array_indices_p (ptype_code ptype) xs.
Proof. exact @P_gen_c11.gen_get_peak_array_indices_eq. Qed.
(** the body of `for k, ind in enumerate(all_zc_indices[:-1])`, folded over the enumeration, is the recursion [zc_tol_loop] *)
Theorem C12_zc_loop_is_source : forall (T : Type) (H : NumOps T) (all : list nat) (xs : list T) (tol : T) (items : list nat) (k : nat) (rem : list nat),
  fold_left (gen_zero_crossings_loop1_step all xs tol) (combine (seq k (length items)) items) rem = zc_tol_loop tol xs all k items rem.
Proof. exact @P_gen_c11.gen_zero_crossings_loop1_eq. Qed.
(** the whole get_zero_crossings_array_indices; None = `if tol < 0: raise` *)
Theorem C12_zero_crossings_is_source : forall (T : Type) (H : NumOps T) (xs : list T) (keep : bool) (tol : T),
  gen_zero_crossings xs keep tol = if (tol <? n0)%num then None else Some (zero_crossings_tol_p keep tol xs).
Proof. exact @P_gen_c11.gen_zero_crossings_eq. Qed.
Theorem C12_argmax_abs_w_sign_is_source : forall (T : Type) (H : NumOps T) (pvs : list T) (last : T),
  gen_argmax_abs_w_sign pvs last = argmax_abs_w_sign_p pvs last.
Proof. exact @P_gen_c11.gen_argmax_abs_w_sign_eq. Qed.
(** the body of `for i in range(1, len(peak_values))`, folded over the range, is the recursion [sp_for] *)
Theorem C12_sp_loop_is_source : forall (T : Type) (H : NumOps T) (pv : list T) (tol : T) (range : list nat) (last : T) (npi : list nat)
    (pvs : list T) (pis : list nat),
  fold_left (gen_switched_peaks_loop1_step pv tol) range (last, npi, pvs, pis) = sp_for tol pv range last npi pvs pis.
Proof. exact @P_gen_c11.gen_switched_peaks_loop1_eq. Qed.
Theorem C12_switched_peaks_is_source : forall (T : Type) (H : NumOps T) (xs : list T) (tol : T),
  gen_switched_peaks xs tol = switched_peaks_p tol xs.
Proof. exact @P_gen_c11.gen_switched_peaks_eq. Qed.
(** get_n_cyc_array: np.interp(np.arange(len(values)), indys, n_cycs) is [n_cyc_of]; None = `raise ValueError`.
    Guard: indys[0] raises IndexError on an empty index array (it never is one: see [C11_n_cyc_is_source]) *)
Theorem C11_n_cyc_array_is_source : forall (T : Type) (H : NumOps T) (xs : list T) (opt start : string),
  (forall indys, opt_indys opt xs = Some indys -> indys <> []) ->
  gen_n_cyc_array xs opt start =
    match opt_indys opt xs, start_origin start with
    | Some indys, Some origin => Some (n_cyc_of indys origin (length xs))
    | _, _ => None
    end.
Proof. exact @P_gen_c11.gen_n_cyc_array_eq. Qed.

(** * generated = declarative model (R), under the guards of Prop_C11_pipeline.v *)
Local Open Scope R_scope.
Theorem C11_peaks_is_source : forall (ptype : string) (xs : list R), first_up xs <> None ->
  gen_get_peak_array_indices xs ptype = peaks_sel (ptype_code ptype) xs.
Proof. exact P_gen_c11.gen_peaks_is_model_R. Qed.
Theorem C11_peaks_constant_is_source : forall (ptype : string) (xs : list R), xs <> [] -> first_up xs = None ->
  gen_get_peak_array_indices xs ptype = match ptype_code ptype with O => [0; 0]%nat | _ => [0%nat] end.
Proof. exact P_gen_c11.gen_peaks_constant_R. Qed.
Theorem C11_clean_spec_is_source : forall (xs : list R), xs <> [] ->
  gen_clean_out_non_changing xs = if Req_EM_T (xat xs 0) 0 then (cleaned xs, pstarts xs) else (xat xs 0 :: cleaned xs, 0%nat :: pstarts xs).
Proof. exact P_gen_c11.gen_clean_spec_R. Qed.
Theorem C11_n_cyc_is_source : forall (xs : list R) (opt start : string), first_up xs <> None ->
  gen_n_cyc_array xs opt start =
    match (if String.eqb opt "all"%string then Some (peaks xs) else if String.eqb opt "switched"%string then Some (switched_peaks 0 xs) else None),
          start_origin start with
    | Some indys, Some origin => Some (n_cyc_of indys origin (length xs))
    | _, _ => None
    end.
Proof. exact P_gen_c11.gen_n_cyc_is_model_R. Qed.
Theorem C12_zc_is_source : forall (keep : bool) (tol : R) (xs : list R), xs <> [] -> 0 <= tol ->
  gen_zero_crossings xs keep tol = Some (zero_crossings keep tol xs).
Proof. exact P_gen_c11.gen_zc_is_model_R. Qed.
Theorem C12_zc_raises_is_source : forall (keep : bool) (tol : R) (xs : list R), tol < 0 -> gen_zero_crossings xs keep tol = None.
Proof. exact P_gen_c11.gen_zc_raises_R. Qed.
Theorem C12_sp_is_source : forall (tol : R) (xs : list R), first_up xs <> None -> gen_switched_peaks xs tol = switched_peaks tol xs.
Proof. exact P_gen_c11.gen_sp_is_model_R. Qed.
Theorem C12_sp_constant_is_source : forall (tol : R) (xs : list R), xs <> [] -> first_up xs = None ->
  (xat xs 0 = 0 -> gen_switched_peaks xs tol = [0; 0]%nat) /\ (xat xs 0 <> 0 -> 0 <= tol -> gen_switched_peaks xs tol = [0%nat]).
Proof. exact P_gen_c11.gen_sp_constant_R. Qed.
(** the default arguments as written in the `def` lines *)
Theorem C11_C12_defaults_is_source :
  (gen_get_peak_array_indices_default_ptype = "all"%string) /\ (gen_zero_crossings_default_keep_adj_zeros = false) /\
  (gen_zero_crossings_default_tol (T:=R) = 0) /\ (gen_switched_peaks_default_tol (T:=R) = 0) /\
  (gen_n_cyc_array_default_opt = "all"%string) /\ (gen_n_cyc_array_default_start = "origin"%string).
Proof. exact P_gen_c11.gen_defaults_R. Qed.

(** * the same at Q: for the very models the correspondence run (model/K_peaks.v) evaluates *)
Theorem C11_peaks_is_source_Q : forall (ptype : string) (qs : list Q), first_up qs <> None ->
  gen_get_peak_array_indices qs ptype = peaks_sel (ptype_code ptype) qs.
Proof. exact P_gen_c11.gen_peaks_is_model_Q. Qed.
Theorem C12_zc_is_source_Q : forall (keep : bool) (tol : Q) (qs : list Q), qs <> [] -> (tol <? n0)%num = false ->
  gen_zero_crossings qs keep tol = Some (zero_crossings keep tol qs).
Proof. exact P_gen_c11.gen_zc_is_model_Q. Qed.
Theorem C12_sp_is_source_Q : forall (tol : Q) (qs : list Q), first_up qs <> None -> gen_switched_peaks qs tol = switched_peaks tol qs.
Proof. exact P_gen_c11.gen_sp_is_model_Q. Qed.

(** What is NOT tied: the numpy primitives themselves (np.ediff1d, np.where, np.take, np.insert, np.sort, np.delete, np.argmax,
    np.interp, boolean-mask indexing, slicing), whose Gallina definitions in lib/NpList.v, lib/NpPeaks.v, model/M_peaks.v are their
    specification; the readings fixed in the translator (float array = list T with exact arithmetic, index array = list nat with
    truncated subtraction, v[0] totalised by nth, np.array(v, dtype=float) = v, a > b read as b < a); the two dead stores after
    the loop of get_switched_peak_array_indices (they read the loop variable `i` after the loop and are dropped: only their
    not raising is assumed); and the translator itself (the correspondence run compares the implementation with these models). *)

(** the guards are met and the strings select: on [3; 3; 2; 2; 5; 1; 1] the generated source function returns [0; 2; 4; 5] *)
Example C11_source_nonvacuous :
  first_up [3; 3; 2; 2; 5; 1; 1]%R <> None /\
  gen_get_peak_array_indices [3; 3; 2; 2; 5; 1; 1]%R "all"%string = [0; 2; 4; 5]%nat /\
  ptype_code "all"%string = 0%nat /\ ptype_code "max"%string = 1%nat /\ ptype_code "min"%string = 2%nat.
Proof.
  destruct C11_pipeline_nonvacuous as (Hnc & _ & Hp & _).
  split; [exact Hnc|]. split; [|repeat split; reflexivity].
  rewrite C11_get_peak_array_indices_is_source. exact Hp.
Qed.
Example C12_source_nonvacuous : gen_zero_crossings [-1; 0; 0; 2; -3; 0]%R false 0 = Some [0; 1; 4; 5]%nat.
Proof.
  rewrite C12_zc_is_source; [|discriminate|apply Rle_refl]. rewrite <- C12_zc_pipeline_is_model by discriminate.
  now rewrite C12_zc_pipeline_nonvacuous.
Qed.
